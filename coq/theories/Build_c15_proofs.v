(* Build_c15_proofs.v -- property C15 over Build.v: load_outputs=minimal against load_outputs=all.
   Part A: what LoadDependencyOutputs guarantees to the command of a target (any configuration, any
           cache, cache faults included): every output of every direct dependency is in place.
   Part B: the early RETURN of LoadDependencyOutputs, refutation witnesses.
   Part C: lock-step of a history run in mode all against the same history in mode minimal. *)
From Coq Require Import List Ascii Bool Arith Lia Permutation.
From Grog Require Import Str Label HashKey HashKey_proofs Build Build_proofs Build_single_proofs
     Build_ideal Build_c01_proofs Build_c02_proofs.
Import ListNotations.

Section C15.
Variable H : str -> str.

(* ================================================================== guards on a snapshot *)
(* topological numbering: every in-edge of node i comes from a smaller index *)
Definition wf_src (s : sources) : Prop :=
  forall i n, node_at s i = Some n -> forall d, In d (node_deps n) -> d < i.

Lemma resolve_alias_target s : forall f i j tj,
  resolve_alias f s i = Some (j, tj) -> node_at s j = Some (NTarget tj).
Proof.
  induction f as [|f IH]; intros i j tj Hr; [discriminate|].
  cbn [resolve_alias] in Hr. destruct (node_at s i) as [[t|l a]|] eqn:En; try discriminate.
  - inversion Hr; subst. exact En.
  - eapply IH; eauto.
Qed.

Lemma resolve_alias_le s : wf_src s -> forall f i j tj,
  resolve_alias f s i = Some (j, tj) -> j <= i.
Proof.
  intro Hwf. induction f as [|f IH]; intros i j tj Hr; [discriminate|].
  cbn [resolve_alias] in Hr. destruct (node_at s i) as [[t|l a]|] eqn:En; try discriminate.
  - inversion Hr; subst. lia.
  - apply IH in Hr. assert (a < i) by (apply (Hwf i _ En); left; reflexivity). lia.
Qed.

Lemma resolve_target s d j tj : resolve s d = Some (j, tj) -> node_at s j = Some (NTarget tj).
Proof. apply resolve_alias_target. Qed.

Lemma resolve_le s d j tj : wf_src s -> resolve s d = Some (j, tj) -> j <= d.
Proof. intros Hwf. apply resolve_alias_le, Hwf. Qed.

Lemma node_at_lt s j n : node_at s j = Some n -> j < length (s_nodes s).
Proof. unfold node_at. intro E. apply nth_error_Some. congruence. Qed.

(* ================================================================== executeTarget, as one equation *)
Definition exec_ran (s : sources) (t : tdef) (b : bstate) : option world :=
  if null (td_cmd t) then Some (b_world b) else run_command s t (b_world b).

Definition exec_done (cfg : config) (i : nat) (t : tdef) (key : str) (tainted : bool) (b : bstate)
           (w' : world) (ds : list (outdef * str * str)) : bstate :=
  untaint tainted t
    (oc_state cfg i key (set_world (exec_b0 t b) w')
       (fst (oc_pair H cfg t key (b_cache b) ds)) (snd (oc_pair H cfg t key (b_cache b) ds))).

Lemma execute_eq cfg s i t key tainted b :
  execute H cfg s i t key tainted b =
  match exec_ran s t b with
  | None => (false, set_world (exec_b0 t b) (run_command_failed_world s t (b_world b)))
  | Some w' =>
      if check_ok w' t then
        match present_digests H t (td_outs t) (w_ws w') with
        | Some ds => (true, exec_done cfg i t key tainted b w' ds)
        | None => (false, set_world (exec_b0 t b) w')
        end
      else (false, set_world (exec_b0 t b) w')
  end.
Proof.
  unfold execute, exec_ran, exec_done.
  change (if null (td_cmd t) then b else add_exec b (td_label t)) with (exec_b0 t b).
  rewrite exec_b0_world.
  destruct (if null (td_cmd t) then Some (b_world b) else run_command s t (b_world b)) as [w'|];
    [|reflexivity].
  destruct (check_ok w' t); cbn [negb]; [|reflexivity].
  rewrite on_complete_eq. rewrite b_world_set_world, b_cache_set_world, exec_b0_cache.
  destruct (present_digests H t (td_outs t) (w_ws w')) as [ds|]; [|reflexivity].
  unfold untaint. destruct tainted; reflexivity.
Qed.

(* ================================================================== Part A: frames of one task *)
(* what every step inside a task keeps *)
Definition rt_ext (b b' : bstate) : Prop :=
  rt_len b' = rt_len b /\ sts b' = sts b /\
  (forall j, rt_key (get_rt b' j) = rt_key (get_rt b j)) /\
  (forall j, rt_loaded (get_rt b j) = true -> rt_loaded (get_rt b' j) = true) /\
  (forall k, rlookup k (c_results (b_cache b)) <> None -> rlookup k (c_results (b_cache b')) <> None).

Lemma rt_ext_refl b : rt_ext b b.
Proof. repeat split; auto. Qed.

Lemma rt_ext_trans a b c : rt_ext a b -> rt_ext b c -> rt_ext a c.
Proof.
  intros (L1 & S1 & K1 & D1 & R1) (L2 & S2 & K2 & D2 & R2). repeat split.
  - congruence.
  - congruence.
  - intro j. rewrite K2. apply K1.
  - auto.
  - auto.
Qed.

Definition has_result (b : bstate) (j : nat) : Prop :=
  exists key, rt_key (get_rt b j) = Some key /\ rlookup key (c_results (b_cache b)) <> None.

Definition outs_present (t : tdef) (ws : list (str * pstate)) : Prop :=
  forall o, In o (td_outs t) -> exists c, ws_get (out_path t o) ws = PFile c.

(* OutputsLoaded means what it says: every declared output is in place (a stored result need not exist:
   a build with the cache disabled writes none, C02-F2 / C13-F1 repaired) *)
Definition loaded_ok (s : sources) (b : bstate) : Prop :=
  forall j tj, node_at s j = Some (NTarget tj) -> rt_loaded (get_rt b j) = true ->
    outs_present tj (w_ws (b_world b)).

Lemma has_result_ext b b' j : rt_ext b b' -> has_result b j -> has_result b' j.
Proof.
  intros (_ & _ & K & _ & R) (key & Hk & Hr). exists key. split; [rewrite K; exact Hk | apply R, Hr].
Qed.

Lemma loaded_ok_transfer s b b' i :
  loaded_ok s b -> rt_ext b b' ->
  (forall j, j <> i -> rt_loaded (get_rt b' j) = rt_loaded (get_rt b j)) ->
  (forall j tj o x, j <> i -> node_at s j = Some (NTarget tj) -> In o (td_outs tj) ->
     ws_get (out_path tj o) (w_ws (b_world b)) = PFile x ->
     exists y, ws_get (out_path tj o) (w_ws (b_world b')) = PFile y) ->
  (forall ti, node_at s i = Some (NTarget ti) -> rt_loaded (get_rt b' i) = true ->
     outs_present ti (w_ws (b_world b'))) ->
  loaded_ok s b'.
Proof.
  intros Hok Hext Hld Hws Hi j tj Hn Hl.
  destruct (Nat.eq_dec j i) as [->|Hne]; [apply Hi; assumption|].
  rewrite Hld in Hl by exact Hne. pose proof (Hok j tj Hn Hl) as Hp.
  intros o Ho. destruct (Hp o Ho) as [x Hx]. eapply Hws; eauto.
Qed.

(* ------------------------------------------------------------------ restoring: files only appear *)
Lemma load_one_pfile c t o dg ws ws1 :
  load_one H c t o dg ws = Some ws1 ->
  (forall p x, ws_get p ws = PFile x -> exists y, ws_get p ws1 = PFile y) /\
  exists y, ws_get (out_path t o) ws1 = PFile y.
Proof.
  intro E. destruct (Build_c01_proofs.load_one_spec H _ _ _ _ _ _ E) as [Hfr (x & Hx & _)].
  split; [|eauto]. intros p x0 Hp.
  destruct (str_eq_dec p (out_path t o)) as [->|Hne]; [eauto|]. rewrite Hfr; eauto.
Qed.

Lemma load_all_mono c t : forall rs ws ok ws',
  load_all H c t rs ws = (ok, ws') ->
  (forall p x, ws_get p ws = PFile x -> exists y, ws_get p ws' = PFile y) /\
  (ok = true -> forall def dg, In (def, dg) rs ->
     exists o y, find_out (td_outs t) def = Some o /\ ws_get (out_path t o) ws' = PFile y).
Proof.
  induction rs as [|[def dg] rs IH]; intros ws ok ws' E; cbn [load_all] in E.
  - inversion E; subst. split; [eauto | intros _ ? ? []].
  - destruct (find_out (td_outs t) def) as [o|] eqn:Ef.
    + destruct (load_one H c t o dg ws) as [ws1|] eqn:E1.
      * destruct (load_one_pfile _ _ _ _ _ _ E1) as [M1 [y1 P1]].
        destruct (IH _ _ _ E) as [M2 A2]. split.
        -- intros p x Hp. destruct (M1 p x Hp) as [y Hy]. eauto.
        -- intros Hok d g [Heq|Hin]; [|eauto].
           inversion Heq; subst d g. destruct (M2 _ _ P1) as [y2 Hy2]. eauto.
      * destruct (load_all H c t rs ws) as [ok0 ws0] eqn:Er. inversion E; subst.
        destruct (IH _ _ _ Er) as [M2 _]. split; [exact M2 | discriminate].
    + destruct (load_all H c t rs ws) as [ok0 ws0] eqn:Er. inversion E; subst.
      destruct (IH _ _ _ Er) as [M2 _]. split; [exact M2 | discriminate].
Qed.

Lemma outputs_match_present t r ws :
  outputs_match t r = true ->
  (forall def dg, In (def, dg) (r_outs r) ->
     exists o y, find_out (td_outs t) def = Some o /\ ws_get (out_path t o) ws = PFile y) ->
  outs_present t ws.
Proof.
  intros Hm Hall o Ho. apply outputs_match_perm in Hm.
  assert (Hd : In (out_def o) (map fst (r_outs r))).
  { eapply Permutation_in; [exact Hm|]. apply in_map. exact Ho. }
  apply in_map_iff in Hd as ([def dg] & Hdef & Hin). cbn [fst] in Hdef. subst def.
  destruct (Hall _ _ Hin) as (o' & y & Hf & Hy).
  apply Build_c01_proofs.find_out_spec in Hf as [_ Hf]. apply out_def_inj in Hf. subst o'. eauto.
Qed.

Lemma rt_ext_at i b b' :
  rt_len b' = rt_len b -> sts b' = sts b ->
  (forall j, j <> i -> get_rt b' j = get_rt b j) ->
  rt_key (get_rt b' i) = rt_key (get_rt b i) ->
  (rt_loaded (get_rt b i) = true -> rt_loaded (get_rt b' i) = true) ->
  (forall k, rlookup k (c_results (b_cache b)) <> None -> rlookup k (c_results (b_cache b')) <> None) ->
  rt_ext b b'.
Proof.
  intros Hl Hs Ho Hk Hd Hr. repeat split; auto.
  - intro j. destruct (Nat.eq_dec j i) as [->|Hne]; [exact Hk | rewrite Ho; auto].
  - intros j. destruct (Nat.eq_dec j i) as [->|Hne]; [exact Hd | rewrite Ho; auto].
Qed.

(* Registry.LoadOutputs on a dependency whose result r was read under its key *)
Lemma load_outputs_A s i t r b ok b' key :
  node_at s i = Some (NTarget t) -> i < rt_len b ->
  rt_key (get_rt b i) = Some key -> rlookup key (c_results (b_cache b)) = Some r ->
  loaded_ok s b -> load_outputs H i t r b = (ok, b') ->
  loaded_ok s b' /\ rt_ext b b' /\ b_cache b' = b_cache b /\ b_exec b' = b_exec b /\
  (forall j, j <> i -> get_rt b' j = get_rt b j) /\
  rt_loaded (get_rt b' i) = ok.
Proof.
  intros Hn Hi Hk Hr Hok E.
  destruct (Build_single_proofs.load_outputs_frame H _ _ _ _ _ _ E) as (Fc & Fx & Fs & Ft & Fl & Fe).
  destruct (rt_loaded (get_rt b i)) eqn:El.
  - unfold load_outputs in E. rewrite El in E. inversion E; subst ok b'.
    split; [exact Hok|]. split; [apply rt_ext_refl|]. repeat split; auto.
  - apply load_outputs_cases in E; [|exact El]. destruct E as [(-> & _ & ->)|(Hm & ws' & Ela & Hb)].
    + split; [exact Hok|]. split; [apply rt_ext_refl|]. repeat split; auto.
    + cbn zeta in Hb. destruct (load_all_mono _ _ _ _ _ _ Ela) as [Mono Hall].
      assert (Hoth : forall j, j <> i -> get_rt b' j = get_rt b j).
      { intros j Hj. destruct ok; subst b'; [rewrite get_rt_set_rt_other by auto|]; reflexivity. }
      assert (Hki : rt_key (get_rt b' i) = rt_key (get_rt b i)).
      { destruct ok; subst b'; [|reflexivity]. rewrite (get_rt_set_rt_field rt_key); reflexivity. }
      assert (Hli : rt_loaded (get_rt b' i) = ok).
      { destruct ok; subst b'; [|exact El].
        rewrite get_rt_set_rt_same; [reflexivity | rewrite rt_len_set_world; exact Hi]. }
      assert (Hws : w_ws (b_world b') = ws') by (destruct ok; subst b'; reflexivity).
      assert (Hext : rt_ext b b').
      { apply (rt_ext_at i); auto; [rewrite El; discriminate | rewrite Fc; auto]. }
      split; [|split; [exact Hext | repeat split; auto]].
      apply (loaded_ok_transfer s b b' i); auto.
      * intros j Hj. rewrite Hoth; auto.
      * intros j tj o x _ _ _ Hx. rewrite Hws. eapply Mono; eauto.
      * intros ti Hti Hl. rewrite Hn in Hti. inversion Hti; subst ti. rewrite Hli in Hl.
        rewrite Hws. apply (outputs_match_present t r); [exact Hm | apply Hall; exact Hl].
Qed.

(* ------------------------------------------------------------------ executeTarget: shape of the result *)
Lemma exec_ran_frame s t b w' p :
  exec_ran s t b = Some w' -> not_own t p -> ws_get p (w_ws w') = ws_get p (w_ws (b_world b)).
Proof.
  unfold exec_ran. destruct (null (td_cmd t)); intros E Hp.
  - inversion E; reflexivity.
  - eapply run_command_frame; eauto.
Qed.

Lemma oc_state_get_rt_other cfg i key b res cas j :
  j <> i -> get_rt (oc_state cfg i key b res cas) j = get_rt b j.
Proof. intro Hj. unfold oc_state. cbv zeta. rewrite get_rt_set_rt_other by auto. reflexivity. Qed.

Lemma execute_shape cfg s i t key tainted b ok b' :
  i < rt_len b -> execute H cfg s i t key tainted b = (ok, b') ->
  (forall j, j <> i -> get_rt b' j = get_rt b j) /\
  (forall p, not_own t p -> ws_get p (w_ws (b_world b')) = ws_get p (w_ws (b_world b))) /\
  (ok = false -> get_rt b' i = get_rt b i /\ b_cache b' = b_cache b) /\
  (ok = true -> exists res,
      get_rt b' i = mkRt (rt_key (get_rt b i)) (Some (r_outhash res)) true (rt_status (get_rt b i)) /\
      c_results (b_cache b') = (if cfg_cache cfg then results_set key res (c_results (b_cache b))
                                else c_results (b_cache b)) /\
      outs_present t (w_ws (b_world b'))).
Proof.
  intros Hi E. rewrite execute_eq in E.
  assert (Hfail : forall w'', (forall p, not_own t p -> ws_get p (w_ws w'') = ws_get p (w_ws (b_world b))) ->
            (false, set_world (exec_b0 t b) w'') = (ok, b') ->
            (forall j, j <> i -> get_rt b' j = get_rt b j) /\
            (forall p, not_own t p -> ws_get p (w_ws (b_world b')) = ws_get p (w_ws (b_world b))) /\
            (ok = false -> get_rt b' i = get_rt b i /\ b_cache b' = b_cache b) /\
            (ok = true -> exists res,
               get_rt b' i = mkRt (rt_key (get_rt b i)) (Some (r_outhash res)) true (rt_status (get_rt b i)) /\
               c_results (b_cache b') = (if cfg_cache cfg then results_set key res (c_results (b_cache b))
                                         else c_results (b_cache b)) /\
               outs_present t (w_ws (b_world b')))).
  { intros w'' Hw E'. inversion E'; subst ok b'.
    split; [intros j _; rewrite get_rt_set_world; apply exec_b0_get_rt|].
    split; [exact Hw|]. split; [|discriminate].
    intros _. rewrite get_rt_set_world, exec_b0_get_rt, b_cache_set_world, exec_b0_cache. auto. }
  destruct (exec_ran s t b) as [w'|] eqn:Er.
  2:{ apply Hfail with (2 := E). intros p Hp. apply run_command_failed_frame, Hp. }
  assert (Hw : forall p, not_own t p -> ws_get p (w_ws w') = ws_get p (w_ws (b_world b)))
    by (intros p Hp; eapply exec_ran_frame; eauto).
  destruct (check_ok w' t); [|apply Hfail with (2 := E); exact Hw].
  destruct (present_digests H t (td_outs t) (w_ws w')) as [ds|] eqn:Ep;
    [|apply Hfail with (2 := E); exact Hw].
  inversion E; subst ok b'. unfold exec_done.
  assert (Hi' : i < rt_len (set_world (exec_b0 t b) w')).
  { rewrite rt_len_set_world. unfold rt_len. rewrite exec_b0_rt. exact Hi. }
  split; [|split; [|split; [discriminate|]]].
  - intros j Hj. rewrite untaint_get_rt, oc_state_get_rt_other by exact Hj.
    rewrite get_rt_set_world. apply exec_b0_get_rt.
  - intros p Hp. rewrite untaint_world, oc_state_world, b_world_set_world. apply Hw, Hp.
  - intros _. exists (fst (oc_pair H cfg t key (b_cache b) ds)).
    rewrite untaint_get_rt, oc_state_get_rt_same by exact Hi'.
    rewrite get_rt_set_world, exec_b0_get_rt. split; [reflexivity|].
    rewrite untaint_results, oc_state_results, b_cache_set_world, exec_b0_cache. split; [reflexivity|].
    rewrite untaint_world, oc_state_world, b_world_set_world.
    exact (proj2 (present_digests_spec H t _ _ _ Ep)).
Qed.

Lemma results_set_mono key res l k :
  rlookup k l <> None -> rlookup k (results_set key res l) <> None.
Proof.
  intro Hk. destruct (str_eq_dec key k) as [->|Hne].
  - rewrite rlookup_set_same. discriminate.
  - rewrite rlookup_set_other by exact Hne. exact Hk.
Qed.

(* executing node i (not loaded yet, key recorded): OutputsLoaded stays truthful *)
Lemma execute_A cfg s i t key tainted b ok b' :
  no_overwrite s -> node_at s i = Some (NTarget t) -> i < rt_len b ->
  rt_key (get_rt b i) = Some key -> rt_loaded (get_rt b i) = false ->
  loaded_ok s b -> execute H cfg s i t key tainted b = (ok, b') ->
  loaded_ok s b' /\ rt_ext b b' /\ (forall j, j <> i -> get_rt b' j = get_rt b j) /\
  rt_loaded (get_rt b' i) = ok.
Proof.
  intros Hno Hn Hi Hk Hl Hok E.
  destruct (execute_shape _ _ _ _ _ _ _ _ _ Hi E) as (Hoth & Hws & Hf & Ht).
  assert (Hls : rt_len b' = rt_len b /\ sts b' = sts b).
  { destruct ok.
    - pose proof (Build_single_proofs.execute_ok H _ _ _ _ _ _ _ _ E) as X.
      split; [apply (eo_len _ _ _ _ _ _ _ X) | apply (eo_sts _ _ _ _ _ _ _ X)].
    - destruct (execute_fail H _ _ _ _ _ _ _ _ E) as (_ & F2 & _ & _ & F5 & _). auto. }
  destruct Hls as [Hlen Hsts].
  assert (Hki : rt_key (get_rt b' i) = rt_key (get_rt b i)).
  { destruct ok; [destruct (Ht eq_refl) as (res & -> & _); reflexivity|].
    destruct (Hf eq_refl) as [-> _]. reflexivity. }
  assert (Hli : rt_loaded (get_rt b' i) = ok).
  { destruct ok; [destruct (Ht eq_refl) as (res & -> & _); reflexivity|].
    destruct (Hf eq_refl) as [-> _]. exact Hl. }
  assert (Hres : forall k, rlookup k (c_results (b_cache b)) <> None ->
                           rlookup k (c_results (b_cache b')) <> None).
  { intros k Hk'. destruct ok.
    - destruct (Ht eq_refl) as (res & _ & -> & _).
      destruct (cfg_cache cfg); [apply results_set_mono, Hk' | exact Hk'].
    - destruct (Hf eq_refl) as [_ ->]. exact Hk'. }
  assert (Hext : rt_ext b b').
  { apply (rt_ext_at i); auto. rewrite Hl. discriminate. }
  split; [|split; [exact Hext | split; [exact Hoth | exact Hli]]].
  apply (loaded_ok_transfer s b b' i); auto.
  - intros j Hj. rewrite Hoth; auto.
  - intros j tj o x Hj Hnj Ho Hx. exists x. rewrite Hws; [exact Hx|].
    intros o' Ho'. apply (no_overwrite_other s j i tj t o o'); auto.
  - intros ti Hti Hld. rewrite Hn in Hti. inversion Hti; subst ti. rewrite Hli in Hld.
    destruct (Ht Hld) as (res & _ & Hr & Hp). exact Hp.
Qed.

(* ================================================================== LoadDependencyOutputs *)
(* no direct dependency whose outputs are not in place yet has an unreadable target result (the guard
   against the early RETURN; a dependency that is already loaded is not looked up at all) *)
Definition readable (s : sources) (b : bstate) (ds : list nat) : Prop :=
  forall d j tj key, In d ds -> resolve s d = Some (j, tj) ->
    rt_key (get_rt b j) = Some key ->
    rt_loaded (get_rt b j) = true \/ rlookup key (c_results (b_cache b)) <> None.

Lemma readable_ext s b b' ds : rt_ext b b' -> readable s b ds -> readable s b' ds.
Proof.
  intros (_ & _ & K & D & R) Hr d j tj key Hd Hres Hk. rewrite K in Hk.
  destruct (Hr d j tj key Hd Hres Hk) as [Hl|Hx]; [left; apply D, Hl | right; apply R, Hx].
Qed.

Lemma readable_tl s b d ds : readable s b (d :: ds) -> readable s b ds.
Proof. intros Hr d' j tj key Hd. apply Hr. right. exact Hd. Qed.

Definition ldo_post (s : sources) (m : nat) (ds : list nat) (b : bstate) (ok : bool) (b' : bstate) : Prop :=
  loaded_ok s b' /\ rt_ext b b' /\ (forall j, m <= j -> get_rt b' j = get_rt b j) /\
  (ok = true -> readable s b ds ->
   forall d j tj, In d ds -> resolve s d = Some (j, tj) -> rt_loaded (get_rt b' j) = true).

Lemma ldo_post_step s m d0 ds b b1 ok b' :
  rt_ext b b1 -> (forall j, m <= j -> get_rt b1 j = get_rt b j) ->
  (forall j tj, resolve s d0 = Some (j, tj) -> rt_loaded (get_rt b1 j) = true) ->
  ldo_post s m ds b1 ok b' -> ldo_post s m (d0 :: ds) b ok b'.
Proof.
  intros X1 F1 Hd (L & X & F & C). split; [exact L|]. split; [eapply rt_ext_trans; eauto|]. split.
  - intros j Hj. rewrite F, F1; auto.
  - intros Hok Hrd d j tj [<-|Hin] Hres.
    + destruct X as (_ & _ & _ & Mono & _). apply Mono. eapply Hd; eauto.
    + apply (C Hok (readable_ext _ _ _ _ X1 (readable_tl _ _ _ _ Hrd)) d j tj Hin Hres).
Qed.

Lemma ldo_post_stop s m ds b b' :
  loaded_ok s b' -> rt_ext b b' -> (forall j, m <= j -> get_rt b' j = get_rt b j) ->
  ldo_post s m ds b false b'.
Proof. intros L X F. split; [exact L|]. split; [exact X|]. split; [exact F | discriminate]. Qed.

Lemma rt_ext_len b b' : rt_ext b b' -> rt_len b' = rt_len b.
Proof. intros (L & _). exact L. Qed.
Lemma rt_ext_key b b' j : rt_ext b b' -> rt_key (get_rt b' j) = rt_key (get_rt b j).
Proof. intros (_ & _ & K & _). apply K. Qed.

Lemma ldo_A cfg s : wf_src s -> no_overwrite s ->
  forall f m ds b ok b',
  (forall d, In d ds -> d < m) -> rt_len b = length (s_nodes s) -> loaded_ok s b ->
  load_dep_outputs H f cfg s ds b = (ok, b') -> ldo_post s m ds b ok b'.
Proof.
  intros Hwf Hno. induction f as [|f IH]; intros m ds b ok b' Hm Hlen Hok E; cbn [load_dep_outputs] in E.
  { inversion E; subst. apply ldo_post_stop; auto. apply rt_ext_refl. }
  destruct ds as [|d0 ds'].
  { inversion E; subst. split; [exact Hok|]. split; [apply rt_ext_refl|]. split; [auto|].
    intros _ _ d j tj []. }
  assert (Hm' : forall d, In d ds' -> d < m) by (intros d Hd; apply Hm; right; exact Hd).
  destruct (resolve s d0) as [[d dt]|] eqn:Er.
  2:{ apply (ldo_post_step s m d0 ds' b b); [apply rt_ext_refl | auto | intros j tj Hres; rewrite Er in Hres; discriminate|].
      eapply IH; eauto. }
  pose proof (resolve_target _ _ _ _ Er) as Hnd.
  assert (Hd0 : d <= d0) by (eapply resolve_le; eauto).
  assert (Hdm : d < m) by (specialize (Hm d0 (or_introl eq_refl)); lia).
  assert (Hdl : d < rt_len b) by (rewrite Hlen; eapply node_at_lt; eauto).
  destruct (rt_loaded (get_rt b d)) eqn:Eld.
  { (* outputs already in place: next dependency *)
    apply (ldo_post_step s m d0 ds' b b); [apply rt_ext_refl | auto | |].
    - intros j tj Hres. rewrite Er in Hres. inversion Hres; subst j tj. exact Eld.
    - eapply IH; eauto. }
  destruct (rt_key (get_rt b d)) as [dkey|] eqn:Ek.
  2:{ inversion E; subst. apply ldo_post_stop; auto. apply rt_ext_refl. }
  destruct (rlookup dkey (c_results (b_cache b))) as [r|] eqn:Erl.
  - (* the result is readable *)
    destruct (load_outputs H d dt r b) as [ok1 b1] eqn:El.
    destruct (load_outputs_A s d dt r b ok1 b1 dkey Hnd Hdl Ek Erl Hok El) as (L1 & X1 & _ & _ & O1 & D1).
    assert (F1 : forall j, m <= j -> get_rt b1 j = get_rt b j) by (intros j Hj; apply O1; lia).
    assert (Hlen1 : rt_len b1 = length (s_nodes s)) by (rewrite (rt_ext_len _ _ X1); exact Hlen).
    destruct (negb ok1 || (td_nocache dt && negb (rt_loaded (get_rt b1 d)))) eqn:Eg.
    + (* the dependency is re-run after loading its own dependencies *)
      assert (Hunl : rt_loaded (get_rt b1 d) = false).
      { rewrite D1. apply orb_true_iff in Eg as [Eg|Eg]; [apply negb_true_iff in Eg; exact Eg|].
        apply andb_true_iff in Eg as [_ Eg]. apply negb_true_iff in Eg. rewrite D1 in Eg. exact Eg. }
      destruct (load_dep_outputs H f cfg s (td_deps dt) b1) as [ok2 b2] eqn:E2.
      assert (Hdd : forall x, In x (td_deps dt) -> x < d) by (intros x Hx; apply (Hwf d _ Hnd); exact Hx).
      destruct (IH d _ _ _ _ Hdd Hlen1 L1 E2) as (L2 & X2 & F2 & _).
      assert (X12 : rt_ext b b2) by (eapply rt_ext_trans; eauto).
      assert (F12 : forall j, m <= j -> get_rt b2 j = get_rt b j).
      { intros j Hj. rewrite F2 by lia. apply F1, Hj. }
      destruct ok2; cbn [negb] in E.
      2:{ inversion E; subst. apply ldo_post_stop; auto. }
      destruct (execute H cfg s d dt dkey false b2) as [ok3 b3] eqn:E3.
      assert (Hd2 : get_rt b2 d = get_rt b1 d) by (apply F2; lia).
      destruct (execute_A cfg s d dt dkey false b2 ok3 b3 Hno Hnd) as (L3 & X3 & O3 & D3); auto.
      { rewrite (rt_ext_len _ _ X12). exact Hdl. }
      { rewrite (rt_ext_key _ _ d X12). exact Ek. }
      { rewrite Hd2. exact Hunl. }
      assert (X13 : rt_ext b b3) by (eapply rt_ext_trans; eauto).
      assert (F13 : forall j, m <= j -> get_rt b3 j = get_rt b j).
      { intros j Hj. rewrite O3 by lia. apply F12, Hj. }
      destruct ok3.
      2:{ inversion E; subst. apply ldo_post_stop; auto. }
      apply (ldo_post_step s m d0 ds' b b3); [exact X13 | exact F13 | |].
      * intros j tj Hres. rewrite Er in Hres. inversion Hres; subst j tj. exact D3.
      * eapply IH; eauto. rewrite (rt_ext_len _ _ X13). exact Hlen.
    + (* loaded: next dependency *)
      apply (ldo_post_step s m d0 ds' b b1); [exact X1 | exact F1 | |].
      * intros j tj Hres. rewrite Er in Hres. inversion Hres; subst j tj. rewrite D1.
        apply orb_false_iff in Eg as [Eg _]. apply negb_false_iff in Eg. exact Eg.
      * eapply IH; eauto.
  - (* unreadable result: re-run and RETURN *)
    destruct (execute_A cfg s d dt dkey false b ok b' Hno Hnd Hdl Ek Eld Hok E) as (L3 & X3 & O3 & D3).
    split; [exact L3|]. split; [exact X3|]. split; [intros j Hj; apply O3; lia|].
    intros _ Hrd. exfalso.
    destruct (Hrd d0 d dt dkey (or_introl eq_refl) Er Ek) as [Hx|Hx]; [congruence | apply Hx, Erl].
Qed.

(* ================================================================== the task of one target, mode minimal *)
(* the result that serves target t in state b, if the cache may serve it *)
Definition hit_res (cfg : config) (t : tdef) (key : str) (b : bstate) : option result :=
  match rlookup key (c_results (b_cache b)) with
  | Some res => if hit_cond cfg t b then Some res else None
  | None => None
  end.

Definition set_ohash (b : bstate) (i : nat) (oh : str) : bstate :=
  let y := get_rt b i in set_rt b i (mkRt (rt_key y) (Some oh) (rt_loaded y) (rt_status y)).

Lemma pt_LMin cfg s i t b :
  cfg_mode cfg = LMinimal ->
  process_target H cfg s i t b =
  match dep_hashes s b (td_deps t) with
  | None => mark b i TFailed
  | Some dh =>
      let key := pt_key H s t dh in
      let b0 := pt_b0 i key b in
      match hit_res cfg t key b with
      | Some res => mark (set_ohash b0 i (r_outhash res)) i THit
      | None =>
          let '(okd, b2) := load_dep_outputs H (S (length (s_nodes s))) cfg s (td_deps t) b0 in
          if okd then exec_tail H cfg s i t key (pt_tainted t b) b2 else mark b2 i TFailed
      end
  end.
Proof.
  intro Hm. unfold process_target, exec_tail, hit_res, hit_cond, pt_tainted, pt_b0, pt_key, set_ohash.
  rewrite Hm.
  destruct (dep_hashes s b (td_deps t)) as [dh|]; [|reflexivity].
  cbv zeta. cbn [b_cache b_world set_rt].
  destruct (rlookup (change_key H (pkg_fs s t) (state_of t dh)) (c_results (b_cache b))) as [res|].
  - destruct (negb (label_in (td_label t) (c_taint (b_cache b))) && negb (td_nocache t) && cfg_cache cfg &&
              check_ok (b_world b) t); [reflexivity|].
    match goal with |- context [load_dep_outputs H ?F cfg s ?D ?B] =>
      destruct (load_dep_outputs H F cfg s D B) as [okd b2] end.
    destruct okd; reflexivity.
  - match goal with |- context [load_dep_outputs H ?F cfg s ?D ?B] =>
      destruct (load_dep_outputs H F cfg s D B) as [okd b2] end.
    destruct okd; reflexivity.
Qed.

(* ------------------------------------------------------------------ small steps keep [loaded_ok] *)
Lemma loaded_ok_same s b b' :
  (forall j, rt_loaded (get_rt b' j) = true ->
             rt_loaded (get_rt b j) = true /\ rt_key (get_rt b' j) = rt_key (get_rt b j)) ->
  b_cache b' = b_cache b -> b_world b' = b_world b -> loaded_ok s b -> loaded_ok s b'.
Proof.
  intros Hrt Hc Hw Hok j tj Hn Hl. destruct (Hrt j Hl) as [Hl0 Hk].
  rewrite Hw. exact (Hok j tj Hn Hl0).
Qed.

Lemma loaded_ok_mark s b i st : loaded_ok s b -> loaded_ok s (mark b i st).
Proof.
  apply loaded_ok_same; try reflexivity. intros j Hl. rewrite rt_loaded_mark in Hl.
  rewrite rt_key_mark. auto.
Qed.

Lemma set_ohash_field {A} (f : rt -> A) b i oh j :
  (forall r oh', f (mkRt (rt_key r) oh' (rt_loaded r) (rt_status r)) = f r) ->
  f (get_rt (set_ohash b i oh) j) = f (get_rt b j).
Proof. intro Hf. unfold set_ohash. apply (get_rt_set_rt_field f). apply Hf. Qed.

Lemma loaded_ok_set_ohash s b i oh : loaded_ok s b -> loaded_ok s (set_ohash b i oh).
Proof.
  apply loaded_ok_same; try reflexivity. intros j Hl.
  rewrite (set_ohash_field rt_loaded) in Hl by reflexivity.
  rewrite (set_ohash_field rt_key) by reflexivity. auto.
Qed.

Lemma loaded_ok_pt_b0 s b i key :
  rt_loaded (get_rt b i) = false -> loaded_ok s b -> loaded_ok s (pt_b0 i key b).
Proof.
  intro Hli. apply loaded_ok_same; try reflexivity. intros j Hl. rewrite pt_b0_loaded in Hl.
  split; [exact Hl|]. destruct (Nat.eq_dec j i) as [->|Hne]; [congruence|].
  unfold pt_b0. rewrite get_rt_set_rt_other by auto. reflexivity.
Qed.

Lemma exec_mark_A cfg s i t key tn b ok b3 st :
  no_overwrite s -> node_at s i = Some (NTarget t) -> i < rt_len b ->
  rt_key (get_rt b i) = Some key -> rt_loaded (get_rt b i) = false -> loaded_ok s b ->
  execute H cfg s i t key tn b = (ok, b3) ->
  loaded_ok s (mark b3 i st) /\ rt_len (mark b3 i st) = rt_len b /\
  (forall j, j <> i -> get_rt (mark b3 i st) j = get_rt b j).
Proof.
  intros Hno Hn Hi Hk Hl Hok E.
  destruct (execute_A cfg s i t key tn b ok b3 Hno Hn Hi Hk Hl Hok E) as (L & X & O & _).
  split; [apply loaded_ok_mark, L|]. split; [rewrite rt_len_mark; apply (rt_ext_len _ _ X)|].
  intros j Hj. rewrite get_rt_mark_other by auto. apply O, Hj.
Qed.

Lemma pt_b0_other i key b j : j <> i -> get_rt (pt_b0 i key b) j = get_rt b j.
Proof. intro Hj. unfold pt_b0. rewrite get_rt_set_rt_other by auto. reflexivity. Qed.

Lemma pt_b0_key i key b : i < rt_len b -> rt_key (get_rt (pt_b0 i key b) i) = Some key.
Proof. intro Hi. rewrite pt_b0_same by exact Hi. reflexivity. Qed.

(* ------------------------------------------------------------------ successful targets are loaded or have a readable result *)
Definition res_or_loaded (b : bstate) (j : nat) : Prop := rt_loaded (get_rt b j) = true \/ has_result b j.

Definition ok_res (s : sources) (b : bstate) : Prop :=
  forall j tj, node_at s j = Some (NTarget tj) -> st_ok (rt_status (get_rt b j)) = true -> res_or_loaded b j.

Lemma res_or_loaded_ext b b' j : rt_ext b b' -> res_or_loaded b j -> res_or_loaded b' j.
Proof.
  intros X [Hl|Hr]; [left | right; eapply has_result_ext; eauto].
  destruct X as (_ & _ & _ & D & _). apply D, Hl.
Qed.

Lemma rt_ext_status b b' j : rt_ext b b' -> rt_status (get_rt b' j) = rt_status (get_rt b j).
Proof. intros (_ & S & _). rewrite <- !nth_sts. rewrite S. reflexivity. Qed.

Lemma ok_res_ext s b b' : rt_ext b b' -> ok_res s b -> ok_res s b'.
Proof.
  intros X Hr j tj Hn Hs. rewrite (rt_ext_status _ _ j X) in Hs.
  eapply res_or_loaded_ext; eauto.
Qed.

Lemma has_result_mark b i st j : has_result b j -> has_result (mark b i st) j.
Proof. intros (key & Hk & Hr). exists key. rewrite rt_key_mark. auto. Qed.

Lemma res_or_loaded_mark b i st j : res_or_loaded b j -> res_or_loaded (mark b i st) j.
Proof.
  intros [Hl|Hr]; [left; rewrite rt_loaded_mark; exact Hl | right; apply has_result_mark, Hr].
Qed.

Lemma ok_res_mark s b i st :
  ok_res s b ->
  (st_ok st = true -> forall ti, node_at s i = Some (NTarget ti) -> res_or_loaded b i) ->
  ok_res s (mark b i st).
Proof.
  intros Hr Hi j tj Hn Hs. apply res_or_loaded_mark.
  destruct (Nat.eq_dec j i) as [->|Hne].
  - destruct (rt_status_mark b i st) as [E|E]; rewrite E in Hs; [eapply Hi; eauto | discriminate].
  - rewrite get_rt_mark_other in Hs by auto. eapply Hr; eauto.
Qed.

Lemma ok_res_pt_b0 s b i key :
  st_ok (rt_status (get_rt b i)) = false -> ok_res s b -> ok_res s (pt_b0 i key b).
Proof.
  intros Hst Hr j tj Hn Hs. destruct (Nat.eq_dec j i) as [->|Hne].
  - unfold pt_b0 in Hs. rewrite (get_rt_set_rt_field rt_status) in Hs by reflexivity. congruence.
  - rewrite pt_b0_other in Hs by exact Hne. unfold res_or_loaded. rewrite pt_b0_loaded.
    destruct (Hr j tj Hn Hs) as [Hl|(k & Hk & Hres)]; [left; exact Hl | right].
    exists k. rewrite pt_b0_other by exact Hne. auto.
Qed.

Lemma ok_res_set_ohash s b i oh : ok_res s b -> ok_res s (set_ohash b i oh).
Proof.
  intros Hr j tj Hn Hs. rewrite (set_ohash_field rt_status) in Hs by reflexivity.
  unfold res_or_loaded. rewrite (set_ohash_field rt_loaded) by reflexivity.
  destruct (Hr j tj Hn Hs) as [Hl|(k & Hk & Hres)]; [left; exact Hl | right]. exists k.
  rewrite (set_ohash_field rt_key) by reflexivity. auto.
Qed.

Lemma has_result_at b i key r :
  rt_key (get_rt b i) = Some key -> rlookup key (c_results (b_cache b)) = Some r -> has_result b i.
Proof. intros Hk Hr. exists key. split; [exact Hk | rewrite Hr; discriminate]. Qed.

(* ------------------------------------------------------------------ one target's task keeps [loaded_ok] *)
Definition pt_post (s : sources) (i : nat) (b b' : bstate) : Prop :=
  loaded_ok s b' /\ rt_len b' = rt_len b /\ (forall j, i < j -> get_rt b' j = get_rt b j) /\
  (ok_res s b -> ok_res s b').

Lemma exec_mark_R cfg s i t key tn b ok b3 :
  no_overwrite s -> node_at s i = Some (NTarget t) -> i < rt_len b ->
  rt_key (get_rt b i) = Some key -> rt_loaded (get_rt b i) = false -> loaded_ok s b ->
  execute H cfg s i t key tn b = (ok, b3) ->
  ok_res s b -> ok_res s (mark b3 i (if ok then TExecuted else TFailed)).
Proof.
  intros Hno Hn Hi Hk Hl Hok E Hr.
  destruct (execute_A cfg s i t key tn b ok b3 Hno Hn Hi Hk Hl Hok E) as (L & X & O & D).
  apply ok_res_mark; [eapply ok_res_ext; eauto|].
  intros Hst ti Hti. destruct ok; [|discriminate]. left. exact D.
Qed.

Lemma pt_post_failed s i b : loaded_ok s b -> pt_post s i b (mark b i TFailed).
Proof.
  intro Hok. split; [apply loaded_ok_mark, Hok|]. split; [apply rt_len_mark|]. split.
  - intros j Hj. apply get_rt_mark_other. lia.
  - intro Hr. apply ok_res_mark; [exact Hr | discriminate].
Qed.

Lemma process_target_A_all cfg s i t b :
  cfg_mode cfg = LAll ->
  no_overwrite s -> node_at s i = Some (NTarget t) -> rt_len b = length (s_nodes s) ->
  rt_loaded (get_rt b i) = false -> st_ok (rt_status (get_rt b i)) = false -> loaded_ok s b ->
  pt_post s i b (process_target H cfg s i t b).
Proof.
  intros Hm Hno Hn Hlen Hl Hst Hok.
  assert (Hi : i < rt_len b) by (rewrite Hlen; eapply node_at_lt; eauto).
  destruct (pt_LAll_cases H cfg s i t b Hm) as [[_ ->] | (dh & _ & Hc)]; [apply pt_post_failed, Hok|].
  cbv zeta in Hc. set (key := pt_key H s t dh) in *. set (b0 := pt_b0 i key b) in *.
  assert (L0 : loaded_ok s b0) by (apply loaded_ok_pt_b0; assumption).
  assert (K0 : rt_key (get_rt b0 i) = Some key) by (apply pt_b0_key, Hi).
  assert (D0 : rt_loaded (get_rt b0 i) = false) by (unfold b0; rewrite pt_b0_loaded; exact Hl).
  assert (N0 : i < rt_len b0) by (unfold b0; rewrite pt_b0_len; exact Hi).
  assert (R0 : ok_res s b -> ok_res s b0) by (apply ok_res_pt_b0, Hst).
  destruct Hc as [(res & b1 & Hr & _ & Hld & ->) | (bm & ok & b3 & Hbm & He & ->)].
  - destruct (load_outputs_A s i t res b0 true b1 key Hn N0 K0 Hr L0 Hld) as (L1 & X1 & _ & _ & O1 & D1).
    split; [apply loaded_ok_mark, L1|]. split; [|split].
    + rewrite rt_len_mark, (rt_ext_len _ _ X1). apply pt_b0_len.
    + intros j Hj. rewrite get_rt_mark_other, O1 by lia. apply pt_b0_other. lia.
    + intro Hres. apply ok_res_mark; [eapply ok_res_ext; eauto|].
      intros _ ti Hti. left. exact D1.
  - assert (Hm' : loaded_ok s bm /\ rt_ext b0 bm /\ (forall j, j <> i -> get_rt bm j = get_rt b0 j) /\
                  rt_loaded (get_rt bm i) = false).
    { destruct Hbm as [[-> _] | (res & Hr & _ & Hld)].
      - split; [exact L0|]. split; [apply rt_ext_refl|]. auto.
      - destruct (load_outputs_A s i t res b0 false bm key Hn N0 K0 Hr L0 Hld) as (L1 & X1 & _ & _ & O1 & D1).
        auto. }
    destruct Hm' as (Lm & Xm & Om & Dm).
    assert (Nm : i < rt_len bm) by (rewrite (rt_ext_len _ _ Xm); exact N0).
    assert (Km : rt_key (get_rt bm i) = Some key) by (rewrite (rt_ext_key _ _ i Xm); exact K0).
    destruct (exec_mark_A cfg s i t key (pt_tainted t b) bm ok b3 (if ok then TExecuted else TFailed)
                Hno Hn Nm Km Dm Lm He) as (L3 & N3 & O3).
    split; [exact L3|]. split; [|split].
    + rewrite N3, (rt_ext_len _ _ Xm). apply pt_b0_len.
    + intros j Hj. rewrite O3, Om by lia. apply pt_b0_other. lia.
    + intro Hres. apply (exec_mark_R cfg s i t key (pt_tainted t b) bm ok b3 Hno Hn Nm Km Dm Lm He).
      eapply ok_res_ext; eauto.
Qed.

Lemma hit_res_some cfg t key b res :
  hit_res cfg t key b = Some res ->
  rlookup key (c_results (b_cache b)) = Some res /\ hit_cond cfg t b = true.
Proof.
  unfold hit_res. destruct (rlookup key (c_results (b_cache b))) as [r|]; [|discriminate].
  destruct (hit_cond cfg t b); [|discriminate]. intro E. inversion E. auto.
Qed.

Lemma process_target_A_min cfg s i t b :
  cfg_mode cfg = LMinimal -> wf_src s ->
  no_overwrite s -> node_at s i = Some (NTarget t) -> rt_len b = length (s_nodes s) ->
  rt_loaded (get_rt b i) = false -> st_ok (rt_status (get_rt b i)) = false -> loaded_ok s b ->
  pt_post s i b (process_target H cfg s i t b).
Proof.
  intros Hm Hwf Hno Hn Hlen Hl Hst Hok.
  assert (Hi : i < rt_len b) by (rewrite Hlen; eapply node_at_lt; eauto).
  rewrite (pt_LMin cfg s i t b Hm).
  destruct (dep_hashes s b (td_deps t)) as [dh|]; [|apply pt_post_failed, Hok].
  cbv zeta. set (key := pt_key H s t dh). set (b0 := pt_b0 i key b).
  assert (L0 : loaded_ok s b0) by (apply loaded_ok_pt_b0; assumption).
  assert (K0 : rt_key (get_rt b0 i) = Some key) by (apply pt_b0_key, Hi).
  assert (D0 : rt_loaded (get_rt b0 i) = false) by (unfold b0; rewrite pt_b0_loaded; exact Hl).
  assert (N0 : rt_len b0 = rt_len b) by apply pt_b0_len.
  assert (R0 : ok_res s b -> ok_res s b0) by (apply ok_res_pt_b0, Hst).
  destruct (hit_res cfg t key b) as [res|] eqn:Eh.
  { apply hit_res_some in Eh as [Hr _].
    split; [apply loaded_ok_mark, loaded_ok_set_ohash, L0|]. split; [|split].
    - rewrite rt_len_mark. unfold set_ohash. rewrite rt_len_set_rt. exact N0.
    - intros j Hj. rewrite get_rt_mark_other by lia. unfold set_ohash.
      rewrite get_rt_set_rt_other by lia. apply pt_b0_other. lia.
    - intro Hres. apply ok_res_mark; [apply ok_res_set_ohash, R0, Hres|].
      intros _ ti _. right. apply (has_result_at _ i key res); [|exact Hr].
      rewrite (set_ohash_field rt_key) by reflexivity. exact K0. }
  destruct (load_dep_outputs H (S (length (s_nodes s))) cfg s (td_deps t) b0) as [okd b2] eqn:E2.
  assert (Hdd : forall x, In x (td_deps t) -> x < i) by (intros x Hx; apply (Hwf i _ Hn); exact Hx).
  destruct (ldo_A cfg s Hwf Hno _ i _ _ _ _ Hdd (eq_trans N0 Hlen) L0 E2) as (L2 & X2 & F2 & _).
  assert (N2 : rt_len b2 = rt_len b) by (rewrite (rt_ext_len _ _ X2); exact N0).
  destruct okd.
  - unfold exec_tail.
    destruct (execute H cfg s i t key (pt_tainted t b) b2) as [ok b3] eqn:E3.
    assert (Ni : i < rt_len b2) by (rewrite N2; exact Hi).
    assert (K2 : rt_key (get_rt b2 i) = Some key) by (rewrite (rt_ext_key _ _ i X2); exact K0).
    assert (D2 : rt_loaded (get_rt b2 i) = false) by (rewrite F2 by lia; exact D0).
    destruct (exec_mark_A cfg s i t key (pt_tainted t b) b2 ok b3 (if ok then TExecuted else TFailed)
                Hno Hn Ni K2 D2 L2 E3) as (L3 & N3 & O3).
    split; [exact L3|]. split; [rewrite N3; exact N2|]. split.
    + intros j Hj. rewrite O3, F2 by lia. apply pt_b0_other. lia.
    + intro Hres. apply (exec_mark_R cfg s i t key (pt_tainted t b) b2 ok b3 Hno Hn Ni K2 D2 L2 E3).
      eapply ok_res_ext; eauto.
  - split; [apply loaded_ok_mark, L2|]. split; [rewrite rt_len_mark; exact N2|]. split.
    + intros j Hj. rewrite get_rt_mark_other, F2 by lia. apply pt_b0_other. lia.
    + intro Hres. apply ok_res_mark; [eapply ok_res_ext; eauto | discriminate].
Qed.

Lemma process_target_A cfg s i t b :
  wf_src s -> no_overwrite s -> node_at s i = Some (NTarget t) -> rt_len b = length (s_nodes s) ->
  rt_loaded (get_rt b i) = false -> st_ok (rt_status (get_rt b i)) = false -> loaded_ok s b ->
  pt_post s i b (process_target H cfg s i t b).
Proof.
  intros Hwf Hno Hn Hlen Hl Hst Hok. destruct (cfg_mode cfg) eqn:Hm.
  - apply process_target_A_all; assumption.
  - apply process_target_A_min; assumption.
Qed.

(* ================================================================== every state of a build *)
Definition binv (s : sources) (k : nat) (b : bstate) : Prop :=
  loaded_ok s b /\ ok_res s b /\ rt_len b = length (s_nodes s) /\ forall j, k <= j -> get_rt b j = rt0.

Lemma binv_weaken s k b : binv s k b -> binv s (S k) b.
Proof.
  intros (L & R & N & Z). split; [exact L|]. split; [exact R|]. split; [exact N|].
  intros j Hj. apply Z. lia.
Qed.

Lemma binv_mark s k b st :
  (st_ok st = true -> forall ti, node_at s k <> Some (NTarget ti)) ->
  binv s k b -> binv s (S k) (mark b k st).
Proof.
  intros Hst (L & R & N & Z). split; [apply loaded_ok_mark, L|]. split; [|split].
  - apply ok_res_mark; [exact R|]. intros Ho ti Hti. exfalso. apply (Hst Ho ti Hti).
  - rewrite rt_len_mark. exact N.
  - intros j Hj. rewrite get_rt_mark_other by lia. apply Z. lia.
Qed.

Lemma binv_stop s k b : binv s k b -> binv s k (mkB (b_world b) (b_cache b) (b_rt b) (b_exec b) true).
Proof. intro Hb. exact Hb. Qed.

Lemma process_node_A cfg s sel k b :
  wf_src s -> no_overwrite s -> binv s k b -> binv s (S k) (process_node H cfg s sel b k).
Proof.
  intros Hwf Hno Hb. unfold process_node.
  destruct (negb (existsb (Nat.eqb k) sel)); [apply binv_weaken, Hb|].
  destruct (b_stop b); [apply binv_mark; [intro Hx; discriminate Hx | exact Hb]|].
  destruct (node_at s k) as [n|] eqn:En; [|apply binv_weaken, Hb].
  destruct (negb (forallb (dep_ok b) (node_deps n))); [apply binv_mark; [intro Hx; discriminate Hx | exact Hb]|].
  destruct n as [t|l a]; [|apply binv_mark; [intros _ ti Hti; rewrite En in Hti; discriminate Hti | exact Hb]].
  destruct Hb as (L & R & N & Z).
  assert (Hk0 : get_rt b k = rt0) by (apply Z; lia).
  destruct (process_target_A cfg s k t b Hwf Hno En N) as (L' & N' & Z' & R'); auto.
  { rewrite Hk0. reflexivity. }
  { rewrite Hk0. reflexivity. }
  assert (Hb' : binv s (S k) (process_target H cfg s k t b)).
  { split; [exact L'|]. split; [exact (R' R)|]. split; [congruence|].
    intros j Hj. rewrite Z' by lia. apply Z. lia. }
  destruct (rt_status (get_rt (process_target H cfg s k t b) k)); try exact Hb'.
  destruct (cfg_failfast cfg); [apply binv_stop, Hb' | exact Hb'].
Qed.

Lemma build_prefix_A cfg s roots w c :
  wf_src s -> no_overwrite s -> forall k, binv s k (build_prefix H cfg s roots w c k).
Proof.
  intros Hwf Hno. induction k as [|k IH].
  - unfold build_prefix, build_init. cbn [seq fold_left]. split; [|split; [|split]].
    + intros j tj _ Hl. unfold get_rt in Hl. cbn [b_rt] in Hl. rewrite nth_repeat in Hl. discriminate.
    + intros j tj _ Hs. unfold get_rt in Hs. cbn [b_rt] in Hs. rewrite nth_repeat in Hs. discriminate.
    + unfold rt_len. cbn [b_rt]. apply repeat_length.
    + intros j _. unfold get_rt. cbn [b_rt]. apply nth_repeat.
  - unfold build_prefix in *. rewrite seq_S, fold_left_app. cbn [fold_left plus].
    apply process_node_A; assumption.
Qed.

(* ================================================================== statuses: only [mark] writes them *)
Lemma execute_sts cfg s i t key tn b ok b' : execute H cfg s i t key tn b = (ok, b') -> sts b' = sts b.
Proof.
  intro E. destruct ok.
  - apply (eo_sts _ _ _ _ _ _ _ (Build_single_proofs.execute_ok H _ _ _ _ _ _ _ _ E)).
  - destruct (execute_fail H _ _ _ _ _ _ _ _ E) as (_ & F2 & _). exact F2.
Qed.

Lemma load_outputs_sts i t r b ok b' : load_outputs H i t r b = (ok, b') -> sts b' = sts b.
Proof.
  intro E. destruct (Build_single_proofs.load_outputs_frame H _ _ _ _ _ _ E) as (_ & _ & _ & F & _).
  exact F.
Qed.

Lemma ldo_sts cfg s : forall f ds b ok b',
  load_dep_outputs H f cfg s ds b = (ok, b') -> sts b' = sts b.
Proof.
  induction f as [|f IH]; intros ds b ok b' E; cbn [load_dep_outputs] in E; [inversion E; reflexivity|].
  destruct ds as [|d0 ds']; [inversion E; reflexivity|].
  destruct (resolve s d0) as [[d dt]|]; [|eapply IH; eauto].
  destruct (rt_loaded (get_rt b d)); [eapply IH; eauto|].
  destruct (rt_key (get_rt b d)) as [dkey|]; [|inversion E; reflexivity].
  destruct (rlookup dkey (c_results (b_cache b))) as [r|]; [|eapply execute_sts; eauto].
  destruct (load_outputs H d dt r b) as [ok1 b1] eqn:El. apply load_outputs_sts in El.
  destruct (negb ok1 || (td_nocache dt && negb (rt_loaded (get_rt b1 d)))).
  - destruct (load_dep_outputs H f cfg s (td_deps dt) b1) as [ok2 b2] eqn:E2. apply IH in E2.
    destruct ok2; cbn [negb] in E; [|inversion E; subst; congruence].
    destruct (execute H cfg s d dt dkey false b2) as [ok3 b3] eqn:E3. apply execute_sts in E3.
    destruct ok3; [apply IH in E | inversion E; subst]; congruence.
  - apply IH in E. congruence.
Qed.

Lemma sts_pt_b0 i key b : sts (pt_b0 i key b) = sts b.
Proof. unfold pt_b0. apply sts_set_rt_keep. reflexivity. Qed.

Lemma sts_set_ohash b i oh : sts (set_ohash b i oh) = sts b.
Proof. unfold set_ohash. apply sts_set_rt_keep. reflexivity. Qed.

Lemma exec_tail_sts cfg s i t key tn b :
  exists st, sts (exec_tail H cfg s i t key tn b) = list_set i st (sts b).
Proof.
  unfold exec_tail. destruct (execute H cfg s i t key tn b) as [ok b3] eqn:E.
  apply execute_sts in E. eexists. rewrite sts_mark, E. reflexivity.
Qed.

Lemma process_target_sts cfg s i t b :
  exists st, sts (process_target H cfg s i t b) = list_set i st (sts b).
Proof.
  destruct (cfg_mode cfg) eqn:Hm.
  - rewrite (pt_LAll H cfg s i t b Hm).
    destruct (dep_hashes s b (td_deps t)) as [dh|]; [|eexists; apply sts_mark].
    cbv zeta. set (key := pt_key H s t dh).
    assert (Ht : forall bm, sts bm = sts b ->
              exists st, sts (exec_tail H cfg s i t key (pt_tainted t b) bm) = list_set i st (sts b)).
    { intros bm Hb. destruct (exec_tail_sts cfg s i t key (pt_tainted t b) bm) as [st Hs].
      exists st. rewrite Hs, Hb. reflexivity. }
    destruct (rlookup key (c_results (b_cache b))) as [res|]; [|apply Ht, sts_pt_b0].
    destruct (hit_cond cfg t b); [|apply Ht, sts_pt_b0].
    destruct (load_outputs H i t res (pt_b0 i key b)) as [hit b1] eqn:El.
    apply load_outputs_sts in El. rewrite sts_pt_b0 in El.
    destruct hit; [|apply Ht, El]. eexists. rewrite sts_mark, El. reflexivity.
  - rewrite (pt_LMin cfg s i t b Hm).
    destruct (dep_hashes s b (td_deps t)) as [dh|]; [|eexists; apply sts_mark].
    cbv zeta. set (key := pt_key H s t dh).
    destruct (hit_res cfg t key b) as [res|].
    { eexists. rewrite sts_mark, sts_set_ohash, sts_pt_b0. reflexivity. }
    destruct (load_dep_outputs H (S (length (s_nodes s))) cfg s (td_deps t) (pt_b0 i key b))
      as [okd b2] eqn:E2.
    apply ldo_sts in E2. rewrite sts_pt_b0 in E2. destruct okd.
    + destruct (exec_tail_sts cfg s i t key (pt_tainted t b) b2) as [st Hs].
      exists st. rewrite Hs, E2. reflexivity.
    + eexists. rewrite sts_mark, E2. reflexivity.
Qed.

Lemma forallb_ext_all {A} (f g : A -> bool) l : (forall x, f x = g x) -> forallb f l = forallb g l.
Proof. intro E. induction l as [|x l IH]; simpl; [reflexivity|]. rewrite E, IH. reflexivity. Qed.

Lemma dep_ok_nth b j : dep_ok b j = st_ok (nth j (sts b) TNone).
Proof. rewrite nth_sts. reflexivity. Qed.

Lemma dep_ok_set_other b b' k st j :
  sts b' = list_set k st (sts b) -> j <> k -> dep_ok b' j = dep_ok b j.
Proof. intros E Hj. rewrite !dep_ok_nth, E, nth_list_set_other by auto. reflexivity. Qed.

Lemma dep_ok_set_same b b' k st :
  sts b' = list_set k st (sts b) -> dep_ok b' k = true -> st_ok st = true.
Proof.
  intros E Hk. rewrite dep_ok_nth, E in Hk.
  destruct (lt_dec k (length (sts b))) as [Hlt|Hge].
  - rewrite nth_list_set_same in Hk by exact Hlt. exact Hk.
  - rewrite list_set_oob, nth_overflow in Hk by lia. discriminate.
Qed.

Lemma process_node_sts cfg s sel b k :
  sts (process_node H cfg s sel b k) = sts b \/
  exists st, sts (process_node H cfg s sel b k) = list_set k st (sts b) /\
    (st_ok st = true -> exists n, node_at s k = Some n /\ forallb (dep_ok b) (node_deps n) = true).
Proof.
  unfold process_node.
  destruct (negb (existsb (Nat.eqb k) sel)); [left; reflexivity|].
  destruct (b_stop b); [right; exists TSkipped; split; [apply sts_mark | intro Hx; discriminate Hx]|].
  destruct (node_at s k) as [n|]; [|left; reflexivity].
  destruct (forallb (dep_ok b) (node_deps n)) eqn:Ed; cbn [negb];
    [|right; exists TSkipped; split; [apply sts_mark | intro Hx; discriminate Hx]].
  destruct n as [t|l a]; [|right; exists THit; split; [apply sts_mark | intros _; eauto]].
  destruct (process_target_sts cfg s k t b) as [st Hs]. right. exists st. split; [|intros _; eauto].
  destruct (rt_status (get_rt (process_target H cfg s k t b) k)); try exact Hs.
  destruct (cfg_failfast cfg); exact Hs.
Qed.

(* the dependencies of a successful node succeeded, and successful nodes have been visited *)
Definition ok_closed (s : sources) (k : nat) (b : bstate) : Prop :=
  (forall j, dep_ok b j = true -> j < k) /\
  (forall j n, node_at s j = Some n -> dep_ok b j = true -> forallb (dep_ok b) (node_deps n) = true).

Lemma ok_closed_node cfg s sel b k :
  ok_closed s k b -> ok_closed s (S k) (process_node H cfg s sel b k).
Proof.
  intros [Hlt Hcl]. destruct (process_node_sts cfg s sel b k) as [E|(st & E & Hst)].
  - assert (Hsame : forall j, dep_ok (process_node H cfg s sel b k) j = dep_ok b j)
      by (intro j; rewrite !dep_ok_nth, E; reflexivity).
    split.
    + intros j Hj. rewrite Hsame in Hj. apply Hlt in Hj. lia.
    + intros j n Hn Hj. rewrite Hsame in Hj. rewrite <- (Hcl j n Hn Hj).
      apply forallb_ext_all. intros d. apply Hsame.
  - set (b' := process_node H cfg s sel b k) in *.
    assert (Hold : forall n, forallb (dep_ok b) (node_deps n) = true -> forallb (dep_ok b') (node_deps n) = true).
    { intros n Hall. rewrite forallb_forall in *. intros d Hd. specialize (Hall d Hd).
      rewrite (dep_ok_set_other b b' k st d E); [exact Hall|]. apply Hlt in Hall. lia. }
    split.
    + intros j Hj. destruct (Nat.eq_dec j k) as [->|Hne]; [lia|].
      rewrite (dep_ok_set_other b b' k st j E Hne) in Hj. apply Hlt in Hj. lia.
    + intros j n Hn Hj. apply Hold. destruct (Nat.eq_dec j k) as [->|Hne].
      * destruct (Hst (dep_ok_set_same b b' k st E Hj)) as (n' & Hn' & Hall). congruence.
      * rewrite (dep_ok_set_other b b' k st j E Hne) in Hj. eapply Hcl; eauto.
Qed.

(* ================================================================== Part A theorems *)
(* single task, any configuration, any cache (faults included): when LoadDependencyOutputs reports success
   and no direct dependency that was still to be loaded had an unreadable result, every output of every
   direct (alias-resolved) dependency is in the workspace and the dependency is marked loaded *)
Theorem deps_present cfg s f ds b b' :
  wf_src s -> no_overwrite s -> rt_len b = length (s_nodes s) -> loaded_ok s b -> readable s b ds ->
  load_dep_outputs H f cfg s ds b = (true, b') ->
  loaded_ok s b' /\
  forall d j tj, In d ds -> resolve s d = Some (j, tj) ->
    rt_loaded (get_rt b' j) = true /\ outs_present tj (w_ws (b_world b')).
Proof.
  intros Hwf Hno Hlen Hok Hrd E.
  assert (Hm : forall d, In d ds -> d < S (list_max ds)).
  { intros d Hd. pose proof (proj1 (list_max_le ds (list_max ds)) (le_n _)) as Hall.
    rewrite Forall_forall in Hall. specialize (Hall d Hd). lia. }
  destruct (ldo_A cfg s Hwf Hno f _ ds b true b' Hm Hlen Hok E) as (L & _ & _ & C).
  split; [exact L|]. intros d j tj Hd Hres.
  pose proof (C eq_refl Hrd d j tj Hd Hres) as Hl. split; [exact Hl|].
  apply (L j tj (resolve_target _ _ _ _ Hres) Hl).
Qed.

Lemma dep_parts_of_present ws dt : forall outs,
  (forall o, In o outs -> exists c, ws_get (out_path dt o) ws = PFile c) ->
  dep_parts_of ws dt outs <> None.
Proof.
  induction outs as [|o outs IH]; intro Hp; cbn [dep_parts_of]; [discriminate|].
  destruct (Hp o (or_introl eq_refl)) as [c Hc]. rewrite Hc.
  destruct (dep_parts_of ws dt outs) eqn:E; [discriminate|].
  exfalso. apply IH; [|reflexivity]. intros o' Ho'. apply Hp. right. exact Ho'.
Qed.

(* ... hence the generated command of the dependant finds everything it reads *)
Lemma dep_parts_present s ws : forall ds,
  (forall d, In d ds -> exists j tj, resolve s d = Some (j, tj) /\ outs_present tj ws) ->
  dep_parts s ws ds <> None.
Proof.
  induction ds as [|d ds IH]; intro Hp; cbn [dep_parts]; [discriminate|].
  destruct (Hp d (or_introl eq_refl)) as (j & tj & Hr & Ho). rewrite Hr.
  destruct (dep_parts_of ws tj (td_outs tj)) eqn:E1; [|exfalso; eapply dep_parts_of_present; eauto].
  destruct (dep_parts s ws ds) eqn:E2; [discriminate|].
  exfalso. apply IH; [|reflexivity]. intros d' Hd'. apply Hp. right. exact Hd'.
Qed.

Lemma dep_hashes_resolves s b : forall ds dh, dep_hashes s b ds = Some dh ->
  forall d, In d ds -> exists j tj, resolve s d = Some (j, tj).
Proof.
  induction ds as [|d0 ds IH]; intros dh E d Hd; [destruct Hd|]. cbn [dep_hashes] in E.
  destruct (resolve s d0) as [[j tj]|] eqn:Er; [|discriminate].
  destruct (dep_hashes s b ds) as [rest|]; [|discriminate].
  destruct Hd as [<-|Hd]; [eauto | eapply IH; eauto].
Qed.

(* ------------------------------------------------------------------ inside a build the early RETURN is dead code *)
Lemma build_prefix_closed cfg s roots w c : forall k, ok_closed s k (build_prefix H cfg s roots w c k).
Proof.
  induction k as [|k IH].
  - assert (Hno : forall j, dep_ok (build_prefix H cfg s roots w c 0) j = false).
    { intro j. unfold build_prefix, build_init, dep_ok, get_rt. cbn [seq fold_left b_rt].
      rewrite nth_repeat. reflexivity. }
    split; [intros j Hj | intros j n _ Hj]; rewrite Hno in Hj; discriminate.
  - unfold build_prefix in *. rewrite seq_S, fold_left_app. cbn [fold_left plus].
    apply ok_closed_node, IH.
Qed.

Lemma resolve_alias_ok s k b : ok_closed s k b -> forall f d j tj,
  dep_ok b d = true -> resolve_alias f s d = Some (j, tj) -> dep_ok b j = true.
Proof.
  intros [_ Hcl]. induction f as [|f IH]; intros d j tj Hd Hr; [discriminate|].
  cbn [resolve_alias] in Hr. destruct (node_at s d) as [[t|l a]|] eqn:En; try discriminate.
  - inversion Hr; subst. exact Hd.
  - apply (IH a j tj); [|exact Hr]. pose proof (Hcl d _ En Hd) as Hall. cbn [node_deps forallb] in Hall.
    apply andb_true_iff in Hall. tauto.
Qed.

Lemma readable_in_build s k b i key ds :
  ok_closed s k b -> ok_res s b -> forallb (dep_ok b) ds = true -> k <= i ->
  readable s (pt_b0 i key b) ds.
Proof.
  intros Hcl Hr Hall Hki d j tj key' Hd Hres Hk.
  rewrite forallb_forall in Hall. pose proof (resolve_alias_ok s k b Hcl _ _ _ _ (Hall d Hd) Hres) as Hj.
  assert (Hji : j <> i) by (apply (proj1 Hcl) in Hj; lia).
  rewrite pt_b0_other in Hk by exact Hji.
  rewrite pt_b0_loaded.
  destruct (Hr j tj (resolve_target _ _ _ _ Hres) Hj) as [Hl|(k0 & Hk0 & Hrl)]; [left; exact Hl | right].
  rewrite Hk in Hk0. inversion Hk0; subst k0. exact Hrl.
Qed.

(* Every build (any cache, any workspace, faults only between builds), mode minimal: when the task of
   target t has loaded its dependency outputs and is about to execute, every output of every direct
   (alias-resolved) dependency is in place and the generated command finds all it reads. *)
Theorem build_deps_present cfg s roots w c k t dh b2 :
  wf_src s -> no_overwrite s -> node_at s k = Some (NTarget t) ->
  let b := build_prefix H cfg s roots w c k in
  forallb (dep_ok b) (td_deps t) = true ->
  dep_hashes s b (td_deps t) = Some dh ->
  load_dep_outputs H (S (length (s_nodes s))) cfg s (td_deps t) (pt_b0 k (pt_key H s t dh) b) = (true, b2) ->
  (forall d j tj, In d (td_deps t) -> resolve s d = Some (j, tj) ->
     rt_loaded (get_rt b2 j) = true /\ outs_present tj (w_ws (b_world b2))) /\
  dep_parts s (w_ws (b_world b2)) (td_deps t) <> None.
Proof.
  intros Hwf Hno Hn b Hall Hdh E.
  destruct (build_prefix_A cfg s roots w c Hwf Hno k) as (L & R & N & Z). fold b in L, R, N, Z.
  pose proof (build_prefix_closed cfg s roots w c k) as Hcl. fold b in Hcl.
  assert (Hk0 : get_rt b k = rt0) by (apply Z; lia).
  assert (L0 : loaded_ok s (pt_b0 k (pt_key H s t dh) b)).
  { apply loaded_ok_pt_b0; [rewrite Hk0; reflexivity | exact L]. }
  assert (Hrd : readable s (pt_b0 k (pt_key H s t dh) b) (td_deps t))
    by (eapply readable_in_build; eauto).
  destruct (deps_present cfg s _ _ _ b2 Hwf Hno (eq_trans (pt_b0_len _ _ _) N) L0 Hrd E) as [_ Hp].
  split; [exact Hp|]. apply dep_parts_present. intros d Hd.
  destruct (dep_hashes_resolves s b _ _ Hdh d Hd) as (j & tj & Hres).
  exists j, tj. split; [exact Hres|]. apply (Hp d j tj Hd Hres).
Qed.

End C15.

(* ================================================================== Part B: witnesses (H := identity) *)
Definition hI (x : str) : str := x.
Lemma hI_inj : forall a b, hI a = hI b -> a = b.
Proof. intros a b E. exact E. Qed.

Definition x_lb (n : ascii) : label := mkLabel ["p"%char] [n].
Definition x_tg (n : ascii) (deps : list nat) : tdef :=
  mkTD (x_lb n) ["x"%char] [] [] [mkOut OFile [n; "."%char; "o"%char]] deps [] false false BNormal false.
(* a, b without dependencies; c depends on a and b (in this order) *)
Definition x_s3 : sources :=
  mkSrc [NTarget (x_tg "a" []); NTarget (x_tg "b" []); NTarget (x_tg "c" [0; 1])] [].
Definition x_cM : config := mkCfg LMinimal true false.
Definition x_cA : config := mkCfg LAll true false.
Definition x_pa : str := ["p"; "/"; "a"; "."; "o"]%char.
Definition x_pb : str := ["p"; "/"; "b"; "."; "o"]%char.
Definition x_pc : str := ["p"; "/"; "c"; "."; "o"]%char.

Definition drop_result (k : str) (c : cache) : cache :=
  mkCache (filter (fun e => negb (str_eqb k (fst e))) (c_results c)) (c_cas c) (c_taint c).
Definition key_of_node (b : bstate) (j : nat) : str :=
  match rt_key (get_rt b j) with Some k => k | None => [] end.

(* the cache after a first build of c; then c is tainted, every output is wiped and a second build in
   mode minimal has served a and b from the cache (not loaded); now a's target result becomes
   unreadable, and the task of c loads its dependency outputs *)
Definition x_c1 : cache := br_cache (build hI x_cM x_s3 [2] (mkWorld [] []) empty_cache).
Definition x_pre : bstate :=
  build_prefix hI x_cM x_s3 [2] (mkWorld [] []) (mkCache (c_results x_c1) (c_cas x_c1) [x_lb "c"]) 2.
Definition x_fault : bstate := set_cache x_pre (drop_result (key_of_node x_pre 0) (b_cache x_pre)).

Lemma x_s3_wf : wf_src x_s3.
Proof.
  intros i n Hn d Hd. destruct i as [|[|[|i]]]; cbn in Hn.
  - inversion Hn; subst. destruct Hd.
  - inversion Hn; subst. destruct Hd.
  - inversion Hn; subst. cbn in Hd. lia.
  - destruct i; discriminate.
Qed.

Lemma x_s3_no_overwrite : no_overwrite x_s3.
Proof.
  unfold no_overwrite. vm_compute. repeat constructor; simpl; intuition discriminate.
Qed.

Lemma loaded_ok_none s b :
  forallb (fun r => negb (rt_loaded r)) (b_rt b) = true -> loaded_ok s b.
Proof.
  intros Hall j tj _ Hl. exfalso. rewrite forallb_forall in Hall. unfold get_rt in Hl.
  destruct (lt_dec j (length (b_rt b))) as [Hj|Hj].
  - specialize (Hall _ (nth_In _ rt0 Hj)). rewrite Hl in Hall. discriminate.
  - rewrite nth_overflow in Hl by lia. discriminate.
Qed.

(* the early RETURN: a is re-run, the loop returns success, b's output was never loaded, c's command
   cannot read it *)
Theorem deps_present_refuted :
  exists cfg s f ds b b',
    wf_src s /\ no_overwrite s /\ rt_len b = length (s_nodes s) /\ loaded_ok s b /\
    load_dep_outputs hI f cfg s ds b = (true, b') /\
    exists d j tj o, In d ds /\ resolve s d = Some (j, tj) /\ In o (td_outs tj) /\
      rt_loaded (get_rt b' j) = false /\
      ws_get (out_path tj o) (w_ws (b_world b')) = PAbsent /\
      dep_parts s (w_ws (b_world b')) ds = None.
Proof.
  exists x_cM, x_s3, 4, [0; 1], x_fault, (snd (load_dep_outputs hI 4 x_cM x_s3 [0; 1] x_fault)).
  split; [exact x_s3_wf|]. split; [exact x_s3_no_overwrite|]. split; [vm_compute; reflexivity|].
  split; [apply loaded_ok_none; vm_compute; reflexivity|]. split; [vm_compute; reflexivity|].
  exists 1, 1, (x_tg "b" []), (mkOut OFile ["b"; "."; "o"]%char).
  split; [right; left; reflexivity|]. split; [vm_compute; reflexivity|].
  split; [left; reflexivity|]. repeat split; vm_compute; reflexivity.
Qed.

(* ... and the task of c then fails although nothing is wrong with c; without the fault it executes *)
Theorem early_return_fails_dependant :
  rt_status (get_rt (process_target hI x_cM x_s3 2 (x_tg "c" [0; 1]) x_fault) 2) = TFailed /\
  rt_status (get_rt (process_target hI x_cM x_s3 2 (x_tg "c" [0; 1]) x_pre) 2) = TExecuted.
Proof. repeat split; vm_compute; reflexivity. Qed.

Definition x_ops_results (m : lmode) : list op :=
  [OpSources x_s3; OpBuild (mkCfg m true false) [2];
   OpPerturb x_pa PAbsent; OpPerturb x_pb PAbsent; OpPerturb x_pc PAbsent; OpDropResults;
   OpBuild (mkCfg m true false) [2]].
Definition x_ops_blob (m : lmode) : list op :=
  [OpSources x_s3; OpBuild (mkCfg m true false) [2]; OpDropBlob x_pa; OpPerturb x_pa PAbsent;
   OpBuild (mkCfg m true false) [2]].
Definition br0 : build_result := mkBR (mkWorld [] []) empty_cache [] [] false.
Definition x_log (ops : list op) (k : nat) : build_result := nth k (sy_log (run_history hI ops)) br0.

(* losing every target result BETWEEN two builds does not reach the early RETURN: both modes re-run
   a, b, c and succeed (inside one build a successful dependency always has a readable result:
   build_deps_present) *)
Example results_lost_between_builds_agree :
  br_ok (x_log (x_ops_results LAll) 1) = true /\ br_ok (x_log (x_ops_results LMinimal) 1) = true /\
  br_exec (x_log (x_ops_results LAll) 1) = [x_lb "a"; x_lb "b"; x_lb "c"] /\
  br_exec (x_log (x_ops_results LMinimal) 1) = [x_lb "a"; x_lb "b"; x_lb "c"].
Proof. repeat split; vm_compute; reflexivity. Qed.

(* a lost blob DOES separate the modes: "all" cannot restore a's output and re-runs a, "minimal" serves
   everything from the cache and runs nothing *)
Theorem lockstep_refuted_dropblob :
  exists (ops : lmode -> list op) s roots p,
    (forall m, ops m = [OpSources s; OpBuild (mkCfg m true false) roots; OpDropBlob p;
                        OpPerturb p PAbsent; OpBuild (mkCfg m true false) roots]) /\
    wf_src s /\ no_overwrite s /\
    br_ok (nth 1 (sy_log (run_history hI (ops LAll))) br0) = true /\
    br_ok (nth 1 (sy_log (run_history hI (ops LMinimal))) br0) = true /\
    length (br_exec (nth 1 (sy_log (run_history hI (ops LAll))) br0)) = 1 /\
    br_exec (nth 1 (sy_log (run_history hI (ops LMinimal))) br0) = [].
Proof.
  exists x_ops_blob, x_s3, [2], x_pa. split; [intro m; reflexivity|].
  split; [exact x_s3_wf|]. split; [exact x_s3_no_overwrite|].
  repeat split; vm_compute; reflexivity.
Qed.

(* ================================================================== Part C: lock-step all / minimal *)
(* the guard of this file: every target has a command AND is cacheable (what Build_ideal.plain meant before
   C01 admitted no-cache targets; the statements of C15 keep that meaning) *)
Definition plain_cacheable_node (n : ndef) : bool :=
  match n with NTarget t => negb (null (td_cmd t)) && negb (td_nocache t) | NAlias _ _ => true end.
Definition plain_cacheable (s : sources) : Prop := forallb plain_cacheable_node (s_nodes s) = true.

Lemma plain_cacheable_target s i t :
  plain_cacheable s -> node_at s i = Some (NTarget t) -> null (td_cmd t) = false /\ td_nocache t = false.
Proof.
  unfold plain_cacheable, node_at. intros Hp Hn. apply nth_error_In in Hn.
  rewrite forallb_forall in Hp. specialize (Hp _ Hn). cbn [plain_cacheable_node] in Hp.
  apply andb_true_iff in Hp. destruct Hp as [H1 H2].
  apply negb_true_iff in H1. apply negb_true_iff in H2. auto.
Qed.

Section Lockstep.
Variable H : str -> str.
Hypothesis H_inj : forall a b, H a = H b -> a = b.

(* ------------------------------------------------------------------ cache invariant: complete and sound *)
(* every blob a stored result refers to is in the CAS and is the content with that digest (nothing is
   deleted between builds: no OpDropBlob), and the CAS maps digests to their contents *)
Definition res_ok (c : cache) : Prop :=
  forall k r def dg, rlookup k (c_results c) = Some r -> In (def, dg) (r_outs r) ->
    exists o x, def = out_def o /\ dg = out_digest H o x /\ alookup dg (c_cas c) = Some x.

Definition cinv (c : cache) : Prop := cas_sound H (c_cas c) /\ res_ok c.

Lemma NoDup_map_neq {A B} (f : A -> B) (l : list A) x y :
  NoDup (map f l) -> In x l -> In y l -> x <> y -> f x <> f y.
Proof.
  induction l as [|a l IH]; intros Hnd Hx Hy Hne; [destruct Hx|].
  cbn [map] in Hnd. inversion Hnd as [|? ? Hn Hnd']; subst.
  destruct Hx as [->|Hx]; destruct Hy as [->|Hy].
  - congruence.
  - intro E. apply Hn. rewrite E. apply in_map, Hy.
  - intro E. apply Hn. rewrite <- E. apply in_map, Hx.
  - apply IH; auto.
Qed.

(* a successful restore leaves, at every output, bytes with the recorded digest or the CAS blob *)
Lemma load_all_cur c t : forall rs ws ws',
  NoDup (map fst rs) -> NoDup (map (out_path t) (td_outs t)) ->
  load_all H c t rs ws = (true, ws') ->
  forall def dg o, In (def, dg) rs -> find_out (td_outs t) def = Some o ->
    exists x, ws_get (out_path t o) ws' = PFile x /\
              (out_digest H o x = dg \/ alookup dg (c_cas c) = Some x).
Proof.
  induction rs as [|[def0 dg0] rs IH]; intros ws ws' Hnd Hno E def dg o Hin Hf; [destruct Hin|].
  cbn [map fst] in Hnd. inversion Hnd as [|? ? Hn0 Hnd']; subst.
  cbn [load_all] in E.
  destruct (find_out (td_outs t) def0) as [o0|] eqn:Ef0;
    [|destruct (load_all H c t rs ws); discriminate].
  destruct (load_one H c t o0 dg0 ws) as [ws1|] eqn:El;
    [|destruct (load_all H c t rs ws); discriminate].
  destruct Hin as [Heq|Hin]; [|eapply IH; eauto].
  inversion Heq; subst def0 dg0; clear Heq. rewrite Ef0 in Hf. inversion Hf; subst o0; clear Hf.
  destruct (Build_c01_proofs.load_one_spec H _ _ _ _ _ _ El) as [_ (x & Hx & Hd)].
  exists x. split; [|exact Hd]. rewrite <- Hx.
  apply (Build_c01_proofs.load_all_keep H _ _ _ _ _ _ E).
  intros def1 dg1 o1 Hin1 Hf1 Ep.
  destruct (Build_c01_proofs.find_out_spec _ _ _ Hf1) as [Ho1 Hd1].
  destruct (Build_c01_proofs.find_out_spec _ _ _ Ef0) as [Ho Hd0].
  assert (Hne : o1 <> o).
  { intro Eo. subst o1. apply Hn0. rewrite <- Hd0, Hd1.
    apply (in_map fst) in Hin1. exact Hin1. }
  apply (NoDup_map_neq (out_path t) (td_outs t) o1 o Hno Ho1 Ho Hne). exact Ep.
Qed.

(* the digest recorded in a sound result pins the bytes *)
Lemma cur_digest c k r def dg o x :
  cinv c -> rlookup k (c_results c) = Some r -> In (def, dg) (r_outs r) -> out_def o = def ->
  (out_digest H o x = dg \/ alookup dg (c_cas c) = Some x) -> out_digest H o x = dg.
Proof.
  intros [_ Hres] Hr Hin Hdef [Hd|Hc]; [exact Hd|].
  destruct (Hres k r def dg Hr Hin) as (o2 & x2 & Hd2 & Hg2 & Hc2).
  rewrite Hc in Hc2. inversion Hc2; subst x2.
  assert (o2 = o) by (apply out_def_inj; congruence). subst o2. auto.
Qed.

Lemma outputs_match_nodup t r :
  NoDup (map (out_path t) (td_outs t)) -> outputs_match t r = true -> NoDup (map fst (r_outs r)).
Proof.
  intros Hnd Hm. apply outputs_match_perm in Hm.
  eapply Permutation_NoDup; [exact Hm|].
  apply FinFun.Injective_map_NoDup; [intros a b; apply out_def_inj|].
  eapply NoDup_map_inv. exact Hnd.
Qed.

(* when a restore is bound to succeed: the cache holds every recorded blob (whatever sits at the paths) *)
Lemma restorable_ok c t k r :
  cinv c -> rlookup k (c_results c) = Some r -> outputs_match t r = true ->
  restorable c t (r_outs r).
Proof.
  intros [_ Hres] Hr Hm def dg Hin.
  destruct (outputs_match_find t r def dg Hm Hin) as [o Ho]. exists o. split; [exact Ho|].
  destruct (Hres k r def dg Hr Hin) as (o2 & x2 & _ & _ & Hc). rewrite Hc. discriminate.
Qed.

(* ------------------------------------------------------------------ CAS after OnTargetComplete *)
Lemma cas_fold_sound3 : forall ds cas,
  cas_sound H cas -> (forall e, In e ds -> blob_ok H (snd (fst e)) (snd e)) ->
  cas_sound H (cas_fold ds cas) /\
  forall e, In e ds -> alookup (snd (fst e)) (cas_fold ds cas) = Some (snd e).
Proof.
  unfold cas_fold. induction ds as [|e0 ds IH]; intros cas Hs Hb; [split; [exact Hs | intros e []]|].
  cbn [fold_left].
  assert (Hb0 : blob_ok H (snd (fst e0)) (snd e0)) by (apply Hb; left; reflexivity).
  destruct (IH (cas_add (snd (fst e0)) (snd e0) cas)) as [Hs' Hhas].
  - apply cas_add_sound; assumption.
  - intros e He. apply Hb. right. exact He.
  - split; [exact Hs'|]. intros e [<-|He]; [|apply Hhas, He].
    apply (Build_c02_proofs.cas_fold_mono ds). apply (cas_add_has H H_inj); assumption.
Qed.

Lemma present_digests_struct t ws : forall outs ds,
  present_digests H t outs ws = Some ds ->
  forall e, In e ds -> exists o x, e = (o, out_digest H o x, x) /\ In o outs /\
                                   ws_get (out_path t o) ws = PFile x.
Proof.
  induction outs as [|o outs IH]; intros ds E e He; cbn [present_digests] in E.
  - inversion E; subst. destruct He.
  - destruct (ws_get (out_path t o) ws) as [| |x|] eqn:Ecur; try discriminate.
    destruct (present_digests H t outs ws) as [rest|]; [|discriminate].
    inversion E; subst ds. destruct He as [<-|He].
    + exists o, x. split; [reflexivity|]. split; [left; reflexivity | exact Ecur].
    + destruct (IH rest eq_refl e He) as (o' & x' & He' & Ho' & Hx').
      exists o', x'. split; [exact He'|]. split; [right; exact Ho' | exact Hx'].
Qed.

(* ------------------------------------------------------------------ the command, run twice *)
Lemma write_outs_agree s t reads skip : forall outs k ws1 ws2 p,
  (In p (map (out_path t) outs) \/ ws_get p ws1 = ws_get p ws2) ->
  ws_get p (write_outs s t k outs reads skip ws1) = ws_get p (write_outs s t k outs reads skip ws2).
Proof.
  induction outs as [|o outs IH]; intros k ws1 ws2 p Hp; cbn [write_outs].
  - destruct Hp as [[]|Hp]; exact Hp.
  - apply IH. cbn [map] in Hp.
    destruct (str_eq_dec (out_path t o) p) as [E|Hne].
    + right. subst p.
      destruct skip as [j|]; [destruct (Nat.eqb j k)|]; rewrite !ws_get_set_same; reflexivity.
    + destruct Hp as [[E|Hin]|Heq]; [contradiction | left; exact Hin | right].
      destruct skip as [j|]; [destruct (Nat.eqb j k)|]; rewrite !ws_get_set_other by exact Hne; exact Heq.
Qed.

Lemma run_command_rel s t wA wM :
  dep_parts s (w_ws wA) (td_deps t) = dep_parts s (w_ws wM) (td_deps t) -> w_ext wA = w_ext wM ->
  match run_command s t wA, run_command s t wM with
  | Some a, Some m =>
      w_ext a = w_ext m /\
      forall o, In o (td_outs t) -> ws_get (out_path t o) (w_ws a) = ws_get (out_path t o) (w_ws m)
  | None, None => True
  | _, _ => False
  end.
Proof.
  intros Hd He. unfold run_command. rewrite Hd, He.
  destruct (td_beh t); try exact I;
    destruct (dep_parts s (w_ws wM) (td_deps t)) as [reads|]; try exact I;
    (split; [reflexivity|]; intros o Ho; cbn [w_ws]; apply write_outs_agree; left; apply in_map, Ho).
Qed.

Lemma present_digests_ext t ws1 ws2 : forall outs,
  (forall o, In o outs -> ws_get (out_path t o) ws1 = ws_get (out_path t o) ws2) ->
  present_digests H t outs ws1 = present_digests H t outs ws2.
Proof.
  induction outs as [|o outs IH]; intro Hp; cbn [present_digests]; [reflexivity|].
  rewrite (Hp o (or_introl eq_refl)). rewrite IH; [reflexivity|].
  intros o' Ho'. apply Hp. right. exact Ho'.
Qed.

Lemma oc_pair_cfg cfg cfg' t key c ds :
  cfg_cache cfg = cfg_cache cfg' -> oc_pair H cfg t key c ds = oc_pair H cfg' t key c ds.
Proof. intro E. unfold oc_pair. rewrite E. reflexivity. Qed.

Lemma dep_parts_of_ext ws1 ws2 dt : forall outs,
  (forall o, In o outs -> ws_get (out_path dt o) ws1 = ws_get (out_path dt o) ws2) ->
  dep_parts_of ws1 dt outs = dep_parts_of ws2 dt outs.
Proof.
  induction outs as [|o outs IH]; intro Hp; cbn [dep_parts_of]; [reflexivity|].
  rewrite (Hp o (or_introl eq_refl)). rewrite IH; [reflexivity|].
  intros o' Ho'. apply Hp. right. exact Ho'.
Qed.

Lemma dep_parts_ext s ws1 ws2 : forall ds,
  (forall d j tj o, In d ds -> resolve s d = Some (j, tj) -> In o (td_outs tj) ->
     ws_get (out_path tj o) ws1 = ws_get (out_path tj o) ws2) ->
  dep_parts s ws1 ds = dep_parts s ws2 ds.
Proof.
  induction ds as [|d ds IH]; intro Hp; cbn [dep_parts]; [reflexivity|].
  destruct (resolve s d) as [[j tj]|] eqn:Er; [|reflexivity].
  rewrite (dep_parts_of_ext ws1 ws2 tj (td_outs tj)).
  - rewrite IH; [reflexivity|]. intros d' j' tj' o Hd'. apply Hp. right. exact Hd'.
  - intros o Ho. apply (Hp d j tj o (or_introl eq_refl) Er Ho).
Qed.

(* ------------------------------------------------------------------ one build, both modes *)
Section Build1.
Variables (cfgA cfgM : config) (s : sources).
Hypothesis HmA : cfg_mode cfgA = LAll.
Hypothesis HmM : cfg_mode cfgM = LMinimal.
Hypothesis HcA : cfg_cache cfgA = true.
Hypothesis HcM : cfg_cache cfgM = true.
Hypothesis Hff : cfg_failfast cfgA = cfg_failfast cfgM.
Hypothesis Hno : no_overwrite s.
Hypothesis Hpl : plain_cacheable s.

(* the outputs of target j in the workspace are the ones its result (under this build's key) records *)
Definition cur (b : bstate) (j : nat) (tj : tdef) : Prop :=
  exists key r, rt_key (get_rt b j) = Some key /\ rlookup key (c_results (b_cache b)) = Some r /\
    rt_ohash (get_rt b j) = Some (r_outhash r) /\ outputs_match tj r = true /\
    forall o dg, In o (td_outs tj) -> In (out_def o, dg) (r_outs r) ->
      exists x, ws_get (out_path tj o) (w_ws (b_world b)) = PFile x /\ out_digest H o x = dg.

(* mode all: every successful target is restored and current *)
Definition coreA (b : bstate) : Prop :=
  cinv (b_cache b) /\ rt_len b = length (s_nodes s) /\
  (forall j tj, node_at s j = Some (NTarget tj) -> dep_ok b j = true ->
     rt_loaded (get_rt b j) = true /\ cur b j tj).

(* mode all, before node k; c0 is the cache the build started from *)
Definition goodA (c0 : cache) (k : nat) (b : bstate) : Prop :=
  coreA b /\ (forall j, k <= j -> get_rt b j = rt0) /\
  (forall key, rlookup key (c_results (b_cache b)) = rlookup key (c_results c0) \/
               exists j, rt_key (get_rt b j) = Some key).

(* mode all (bA) against mode minimal (bM) *)
Definition sim (bA bM : bstate) : Prop :=
  b_cache bA = b_cache bM /\ b_exec bA = b_exec bM /\ b_stop bA = b_stop bM /\
  w_ext (b_world bA) = w_ext (b_world bM) /\ rt_len bA = rt_len bM /\
  (forall j, rt_key (get_rt bA j) = rt_key (get_rt bM j) /\
             rt_ohash (get_rt bA j) = rt_ohash (get_rt bM j) /\
             rt_status (get_rt bA j) = rt_status (get_rt bM j)) /\
  (forall j tj, node_at s j = Some (NTarget tj) -> rt_loaded (get_rt bM j) = true ->
     dep_ok bM j = true /\
     forall o, In o (td_outs tj) ->
       ws_get (out_path tj o) (w_ws (b_world bM)) = ws_get (out_path tj o) (w_ws (b_world bA))).

Lemma sim_dep_ok bA bM j : sim bA bM -> dep_ok bM j = dep_ok bA j.
Proof. intros (_ & _ & _ & _ & _ & Hrt & _). unfold dep_ok. rewrite (proj2 (proj2 (Hrt j))). reflexivity. Qed.

Lemma own_nodup j tj : node_at s j = Some (NTarget tj) -> NoDup (map (out_path tj) (td_outs tj)).
Proof. intro Hn. eapply no_overwrite_own; eauto. Qed.


Lemma outputs_match_entry t r o :
  outputs_match t r = true -> In o (td_outs t) ->
  exists dg, In (out_def o, dg) (r_outs r) /\ find_out (td_outs t) (out_def o) = Some o.
Proof.
  intros Hm Ho. pose proof (outputs_match_perm t r Hm) as Hp.
  assert (Hd : In (out_def o) (map fst (r_outs r))).
  { eapply Permutation_in; [exact Hp|]. apply in_map. exact Ho. }
  apply in_map_iff in Hd as ([def dg] & Hdef & Hin). cbn [fst] in Hdef. subst def.
  exists dg. split; [exact Hin|].
  destruct (outputs_match_find t r _ _ Hm Hin) as [o' Ho']. rewrite Ho'. f_equal.
  apply Build_c01_proofs.find_out_spec in Ho' as [_ Hd]. apply out_def_inj. exact Hd.
Qed.

(* mode minimal restores a successful dependency exactly as mode all did *)
Lemma load_dep_M bA bM j tj :
  coreA bA -> sim bA bM -> node_at s j = Some (NTarget tj) -> dep_ok bA j = true ->
  exists key r b1,
    rt_key (get_rt bM j) = Some key /\ rlookup key (c_results (b_cache bM)) = Some r /\
    load_outputs H j tj r bM = (true, b1) /\ sim bA b1 /\ rt_loaded (get_rt b1 j) = true /\
    (forall i, rt_loaded (get_rt bM i) = true -> rt_loaded (get_rt b1 i) = true).
Proof.
  intros (Hci & HlenA & Hgood) HS Hn Hok.
  pose proof HS as (Sc & Sx & Ss & Se & Sl & Srt & Sld).
  destruct (Hgood j tj Hn Hok) as [HldA (key & r & Hk & Hr & Hoh & Hm & Hcont)].
  exists key, r. rewrite <- (proj1 (Srt j)), <- Sc.
  destruct (rt_loaded (get_rt bM j)) eqn:El.
  { exists bM. split; [exact Hk|]. split; [exact Hr|]. unfold load_outputs. rewrite El. auto. }
  assert (HciM : cinv (b_cache bM)) by (rewrite <- Sc; exact Hci).
  assert (HrM : rlookup key (c_results (b_cache bM)) = Some r) by (rewrite <- Sc; exact Hr).
  pose proof (load_outputs_ok H j tj r bM El Hm (restorable_ok _ _ _ _ HciM HrM Hm)) as Hfst.
  destruct (load_outputs H j tj r bM) as [ok b1] eqn:E. cbn [fst] in Hfst. subst ok.
  exists b1. split; [exact Hk|]. split; [exact Hr|]. split; [reflexivity|].
  pose proof E as E'. apply load_outputs_cases in E' as [(Hf & _)|(_ & ws' & Ela & Hb)];
    [discriminate | | exact El].
  cbn zeta in Hb.
  assert (Hj : j < rt_len (set_world bM (mkWorld ws' (w_ext (b_world bM))))).
  { rewrite rt_len_set_world, <- Sl, HlenA. eapply node_at_lt; eauto. }
  assert (Hws : w_ws (b_world b1) = ws') by (subst b1; reflexivity).
  assert (Hoth : forall i, i <> j -> get_rt b1 i = get_rt bM i).
  { intros i Hi. subst b1. rewrite get_rt_set_rt_other by auto. reflexivity. }
  assert (Hsame : get_rt b1 j = mkRt (rt_key (get_rt bM j)) (Some (r_outhash r)) true (rt_status (get_rt bM j))).
  { subst b1. rewrite get_rt_set_rt_same by exact Hj. reflexivity. }
  split; [|split; [rewrite Hsame; reflexivity|]].
  2:{ intros i Hi'. destruct (Nat.eq_dec i j) as [->|Hne]; [rewrite Hsame; reflexivity|].
      rewrite Hoth by exact Hne. exact Hi'. }
  split; [subst b1; exact Sc|]. split; [subst b1; exact Sx|]. split; [subst b1; exact Ss|].
  split; [subst b1; exact Se|]. split; [subst b1; rewrite rt_len_set_rt, rt_len_set_world; exact Sl|].
  split.
  - intro i. destruct (Nat.eq_dec i j) as [->|Hi]; [|rewrite Hoth by exact Hi; apply Srt].
    rewrite Hsame. cbn [rt_key rt_ohash rt_status]. destruct (Srt j) as (K1 & _ & K3). auto.
  - intros i ti Hni Hli. destruct (Nat.eq_dec i j) as [->|Hi].
    + rewrite Hni in Hn. inversion Hn; subst ti. split.
      * unfold dep_ok. rewrite Hsame. cbn [rt_status]. rewrite <- (proj2 (proj2 (Srt j))). exact Hok.
      * intros o Ho. destruct (outputs_match_entry tj r o Hm Ho) as (dg & Hin & Hf).
        destruct (load_all_cur _ _ _ _ _ (outputs_match_nodup tj r (own_nodup j tj Hni) Hm)
                    (own_nodup j tj Hni) Ela _ _ _ Hin Hf) as (xM & HxM & HdM).
        pose proof (cur_digest _ _ _ _ _ _ _ HciM HrM Hin eq_refl HdM) as HgM.
        destruct (Hcont o dg Ho Hin) as (xA & HxA & HgA).
        rewrite Hws, HxM, HxA. f_equal. apply (out_digest_inj H H_inj o). congruence.
    + rewrite Hoth in Hli by exact Hi. destruct (Sld i ti Hni Hli) as [Hd Hw]. split.
      * unfold dep_ok. rewrite Hoth by exact Hi. exact Hd.
      * intros o Ho. rewrite <- (Hw o Ho). rewrite Hws.
        apply (Build_c01_proofs.load_all_frame H _ _ _ _ _ _ Ela).
        intros o' Ho'. apply (no_overwrite_other s i j ti tj o o'); auto.
Qed.

(* LoadDependencyOutputs in mode minimal, fault-free: it only restores, nothing is re-run *)
Lemma ldo_M bA : coreA bA ->
  forall ds f bM, sim bA bM -> length ds < f ->
  (forall d j tj, In d ds -> resolve s d = Some (j, tj) -> dep_ok bA j = true) ->
  exists bM', load_dep_outputs H f cfgM s ds bM = (true, bM') /\ sim bA bM' /\
    (forall i, rt_loaded (get_rt bM i) = true -> rt_loaded (get_rt bM' i) = true) /\
    (forall d j tj, In d ds -> resolve s d = Some (j, tj) -> rt_loaded (get_rt bM' j) = true).
Proof.
  intro HG. induction ds as [|d0 ds IH]; intros f bM HS Hf Hdeps.
  - destruct f; [cbn in Hf; lia|]. exists bM. cbn [load_dep_outputs].
    split; [reflexivity|]. split; [exact HS|]. split; [auto|]. intros d j tj [].
  - destruct f as [|f]; [cbn in Hf; lia|]. cbn [length] in Hf. cbn [load_dep_outputs].
    assert (Hdeps' : forall d j tj, In d ds -> resolve s d = Some (j, tj) -> dep_ok bA j = true).
    { intros d j tj Hd. apply Hdeps. right. exact Hd. }
    destruct (resolve s d0) as [[j tj]|] eqn:Er.
    + pose proof (resolve_target _ _ _ _ Er) as Hn.
      destruct (rt_loaded (get_rt bM j)) eqn:Eld.
      { destruct (IH f bM HS ltac:(lia) Hdeps') as (bM' & E & HS' & Hmono & Hall).
        exists bM'. split; [exact E|]. split; [exact HS'|]. split; [exact Hmono|].
        intros d j' tj' [<-|Hd] Hres; [|eapply Hall; eauto].
        rewrite Er in Hres. inversion Hres; subst j' tj'. apply Hmono, Eld. }
      destruct (load_dep_M bA bM j tj HG HS Hn (Hdeps d0 j tj (or_introl eq_refl) Er))
        as (key & r & b1 & Hk & Hr & El & HS1 & Hl1 & Hmono1).
      rewrite Hk, Hr, El. destruct (plain_cacheable_target s j tj Hpl Hn) as [_ Hnc]. rewrite Hnc.
      cbn [negb orb andb].
      destruct (IH f b1 HS1 ltac:(lia) Hdeps') as (bM' & E & HS' & Hmono & Hall).
      exists bM'. split; [exact E|]. split; [exact HS'|]. split; [auto|].
      intros d j' tj' [<-|Hd] Hres; [|eapply Hall; eauto].
      rewrite Er in Hres. inversion Hres; subst j' tj'. apply Hmono, Hl1.
    + destruct (IH f bM HS ltac:(lia) Hdeps') as (bM' & E & HS' & Hmono & Hall).
      exists bM'. split; [exact E|]. split; [exact HS'|]. split; [exact Hmono|].
      intros d j' tj' [<-|Hd] Hres; [congruence | eapply Hall; eauto].
Qed.

(* ------------------------------------------------------------------ executeTarget in both runs *)
Definition done_cache (cfg : config) (t : tdef) (key : str) (tn : bool) (c : cache)
           (ds : list (outdef * str * str)) : cache :=
  let c1 := mkCache (if cfg_cache cfg then results_set key (fst (oc_pair H cfg t key c ds)) (c_results c)
                     else c_results c)
                    (snd (oc_pair H cfg t key c ds)) (c_taint c) in
  if tn then mkCache (c_results c1) (c_cas c1) (label_remove (td_label t) (c_taint c1)) else c1.

Lemma exec_done_cache cfg i t key tn b w' ds :
  b_cache (exec_done H cfg i t key tn b w' ds) = done_cache cfg t key tn (b_cache b) ds.
Proof.
  unfold exec_done, done_cache, untaint, oc_state. cbv zeta.
  destruct tn; autorewrite with bst; rewrite ?exec_b0_cache; reflexivity.
Qed.

Lemma exec_done_rt cfg i t key tn b w' ds :
  i < rt_len b ->
  get_rt (exec_done H cfg i t key tn b w' ds) i =
  mkRt (rt_key (get_rt b i)) (Some (r_outhash (fst (oc_pair H cfg t key (b_cache b) ds)))) true
       (rt_status (get_rt b i)).
Proof.
  intro Hi. unfold exec_done. rewrite untaint_get_rt, oc_state_get_rt_same.
  - rewrite get_rt_set_world, exec_b0_get_rt. reflexivity.
  - rewrite rt_len_set_world. unfold rt_len. rewrite exec_b0_rt. exact Hi.
Qed.

Lemma exec_done_world cfg i t key tn b w' ds : b_world (exec_done H cfg i t key tn b w' ds) = w'.
Proof. unfold exec_done. rewrite untaint_world, oc_state_world. reflexivity. Qed.

Lemma execute_rel i t key tn bA bM okA bA' okM bM' :
  null (td_cmd t) = false -> i < rt_len bA -> i < rt_len bM ->
  b_cache bA = b_cache bM -> w_ext (b_world bA) = w_ext (b_world bM) ->
  rt_ohash (get_rt bA i) = rt_ohash (get_rt bM i) ->
  dep_parts s (w_ws (b_world bA)) (td_deps t) = dep_parts s (w_ws (b_world bM)) (td_deps t) ->
  execute H cfgA s i t key tn bA = (okA, bA') -> execute H cfgM s i t key tn bM = (okM, bM') ->
  okA = okM /\ b_cache bA' = b_cache bM' /\ w_ext (b_world bA') = w_ext (b_world bM') /\
  rt_ohash (get_rt bA' i) = rt_ohash (get_rt bM' i) /\
  (okA = true -> forall o, In o (td_outs t) ->
     ws_get (out_path t o) (w_ws (b_world bA')) = ws_get (out_path t o) (w_ws (b_world bM'))).
Proof.
  intros Hcmd HiA HiM Hc He Ho Hd EA EM. rewrite execute_eq in EA, EM. unfold exec_ran in EA, EM.
  rewrite Hcmd in EA, EM. pose proof (run_command_rel s t _ _ Hd He) as Hrel.
  assert (Hfail : forall wa wm, w_ext wa = w_ext wm ->
            (false, set_world (exec_b0 t bA) wa) = (okA, bA') ->
            (false, set_world (exec_b0 t bM) wm) = (okM, bM') ->
            okA = okM /\ b_cache bA' = b_cache bM' /\ w_ext (b_world bA') = w_ext (b_world bM') /\
            rt_ohash (get_rt bA' i) = rt_ohash (get_rt bM' i) /\
            (okA = true -> forall o, In o (td_outs t) ->
               ws_get (out_path t o) (w_ws (b_world bA')) = ws_get (out_path t o) (w_ws (b_world bM')))).
  { intros wa wm Hw E1 E2. inversion E1; subst okA bA'. inversion E2; subst okM bM'.
    rewrite !b_cache_set_world, !exec_b0_cache, !b_world_set_world, !get_rt_set_world, !exec_b0_get_rt.
    repeat split; auto. discriminate. }
  destruct (run_command s t (b_world bA)) as [wa|]; destruct (run_command s t (b_world bM)) as [wm|];
    try contradiction.
  2:{ apply (Hfail _ _) with (2 := EA) (3 := EM). rewrite !run_command_failed_world_ext. exact He. }
  destruct Hrel as [Hext Hown].
  assert (Hck : check_ok wa t = check_ok wm t) by (unfold check_ok; rewrite Hext; reflexivity).
  rewrite Hck in EA. destruct (check_ok wm t); [|apply (Hfail _ _ Hext EA EM)].
  rewrite (present_digests_ext t _ _ _ Hown) in EA.
  destruct (present_digests H t (td_outs t) (w_ws wm)) as [ds|]; [|apply (Hfail _ _ Hext EA EM)].
  inversion EA; subst okA bA'. inversion EM; subst okM bM'.
  rewrite !exec_done_cache, !exec_done_world, !exec_done_rt by assumption.
  rewrite Hc. unfold done_cache. rewrite (oc_pair_cfg cfgA cfgM) by congruence. rewrite HcA, HcM.
  repeat split; auto.
Qed.

(* ------------------------------------------------------------------ mode all: one task keeps [coreA] *)
Lemma cur_transfer b b' j tj :
  cur b j tj -> get_rt b' j = get_rt b j ->
  (forall key, rt_key (get_rt b j) = Some key ->
     rlookup key (c_results (b_cache b')) = rlookup key (c_results (b_cache b))) ->
  (forall o, In o (td_outs tj) ->
     ws_get (out_path tj o) (w_ws (b_world b')) = ws_get (out_path tj o) (w_ws (b_world b))) ->
  cur b' j tj.
Proof.
  intros (key & r & Hk & Hr & Hoh & Hm & Hc) Hrt Hres Hws. exists key, r. rewrite Hrt.
  split; [exact Hk|]. split; [rewrite (Hres key Hk); exact Hr|]. split; [exact Hoh|]. split; [exact Hm|].
  intros o dg Ho Hin. rewrite (Hws o Ho). apply Hc; assumption.
Qed.

Lemma coreA_step k t key b b' :
  node_at s k = Some (NTarget t) -> coreA b ->
  cinv (b_cache b') -> rt_len b' = rt_len b ->
  (forall j, j <> k -> get_rt b' j = get_rt b j) ->
  (forall p, not_own t p -> ws_get p (w_ws (b_world b')) = ws_get p (w_ws (b_world b))) ->
  (forall key', key' <> key ->
     rlookup key' (c_results (b_cache b')) = rlookup key' (c_results (b_cache b))) ->
  (forall j, j <> k -> rt_key (get_rt b j) <> Some key) ->
  (dep_ok b' k = true -> rt_loaded (get_rt b' k) = true /\ cur b' k t) ->
  coreA b'.
Proof.
  intros Hn (Hci & Hlen & Hgood) Hci' Hlen' Hoth Hws Hres Hfresh Hk.
  split; [exact Hci'|]. split; [congruence|].
  intros j tj Hnj Hok. destruct (Nat.eq_dec j k) as [->|Hne].
  - rewrite Hn in Hnj. inversion Hnj; subst tj. apply Hk, Hok.
  - unfold dep_ok in Hok. rewrite (Hoth j Hne) in Hok. destruct (Hgood j tj Hnj Hok) as [Hl Hc].
    split; [rewrite (Hoth j Hne); exact Hl|].
    apply (cur_transfer b b' j tj Hc (Hoth j Hne)).
    + intros key' Hk'. apply Hres. intro E. subst key'. apply (Hfresh j Hne Hk').
    + intros o Ho. apply Hws. intros o' Ho'. apply (no_overwrite_other s j k tj t o o'); auto.
Qed.

Lemma coreA_pt_b0 k key b : dep_ok b k = false -> coreA b -> coreA (pt_b0 k key b).
Proof.
  intros Hk (Hci & Hlen & Hgood). split; [exact Hci|].
  split; [rewrite pt_b0_len; exact Hlen|].
  intros j tj Hnj Hok. destruct (Nat.eq_dec j k) as [->|Hne].
  - unfold dep_ok, pt_b0 in Hok. rewrite (get_rt_set_rt_field rt_status) in Hok by reflexivity.
    unfold dep_ok in Hk. congruence.
  - unfold dep_ok in Hok. rewrite pt_b0_other in Hok by exact Hne.
    destruct (Hgood j tj Hnj Hok) as [Hl Hc]. rewrite pt_b0_other by exact Hne. split; [exact Hl|].
    apply (cur_transfer b _ j tj Hc); [apply pt_b0_other, Hne | reflexivity | reflexivity].
Qed.

(* a cache hit in mode all: the restore succeeds and node k becomes current *)
Lemma hitA k t key res b b1 :
  node_at s k = Some (NTarget t) -> coreA b -> get_rt b k = rt0 ->
  (forall j, rt_key (get_rt b j) <> Some key) ->
  rlookup key (c_results (b_cache b)) = Some res ->
  load_outputs H k t res (pt_b0 k key b) = (true, b1) ->
  coreA (mark b1 k THit) /\
  b_cache b1 = b_cache b /\ b_exec b1 = b_exec b /\ b_stop b1 = b_stop b /\
  w_ext (b_world b1) = w_ext (b_world b) /\ rt_len b1 = rt_len b /\
  get_rt b1 k = mkRt (Some key) (Some (r_outhash res)) true TNone /\
  (forall j, j <> k -> get_rt b1 j = get_rt b j) /\
  (forall p, not_own t p -> ws_get p (w_ws (b_world b1)) = ws_get p (w_ws (b_world b))).
Proof.
  intros Hn HC Hk0 Hfresh Hr E. pose proof HC as (Hci & Hlen & Hgood).
  assert (Hk : k < rt_len b) by (rewrite Hlen; eapply node_at_lt; eauto).
  set (b0 := pt_b0 k key b) in *.
  assert (H0 : get_rt b0 k = mkRt (Some key) None false TNone).
  { unfold b0. rewrite pt_b0_same by exact Hk. rewrite Hk0. reflexivity. }
  apply load_outputs_cases in E as [(Hf & _)|(Hm & ws' & Ela & Hb)];
    [discriminate | | rewrite H0; reflexivity].
  cbn zeta in Hb. rewrite H0 in Hb. cbn [rt_key rt_status] in Hb.
  assert (Hws : w_ws (b_world b1) = ws') by (subst b1; reflexivity).
  assert (Hsame : get_rt b1 k = mkRt (Some key) (Some (r_outhash res)) true TNone).
  { subst b1. rewrite get_rt_set_rt_same; [reflexivity|]. rewrite rt_len_set_world. unfold b0.
    rewrite pt_b0_len. exact Hk. }
  assert (Hoth : forall j, j <> k -> get_rt b1 j = get_rt b j).
  { intros j Hj. subst b1. rewrite get_rt_set_rt_other by auto. rewrite get_rt_set_world.
    apply pt_b0_other, Hj. }
  assert (Hfr : forall p, not_own t p -> ws_get p (w_ws (b_world b1)) = ws_get p (w_ws (b_world b))).
  { intros p Hp. rewrite Hws. apply (Build_c01_proofs.load_all_frame H _ _ _ _ _ _ Ela p Hp). }
  assert (Hlen1 : rt_len b1 = rt_len b).
  { subst b1. rewrite rt_len_set_rt, rt_len_set_world. apply pt_b0_len. }
  split; [|subst b1; repeat split; auto].
  apply (coreA_step k t key b); auto.
  - rewrite b_cache_mark. subst b1. exact Hci.
  - rewrite rt_len_mark. exact Hlen1.
  - intros j Hj. rewrite get_rt_mark_other by auto. apply Hoth, Hj.
  - rewrite b_cache_mark. subst b1. reflexivity.
  - intros _. split; [rewrite rt_loaded_mark, Hsame; reflexivity|].
    exists key, res. rewrite rt_key_mark, rt_ohash_mark, Hsame, b_cache_mark, b_world_mark.
    split; [reflexivity|]. split; [subst b1; exact Hr|]. split; [reflexivity|]. split; [exact Hm|].
    intros o dg Ho Hin.
    destruct (outputs_match_entry t res o Hm Ho) as (_ & _ & Hf).
    destruct (load_all_cur _ _ _ _ _ (outputs_match_nodup t res (own_nodup k t Hn) Hm)
                (own_nodup k t Hn) Ela _ _ _ Hin Hf) as (x & Hx & Hd).
    exists x. rewrite Hws. split; [exact Hx|].
    apply (cur_digest (b_cache b) key res (out_def o) dg o x Hci Hr Hin eq_refl Hd).
Qed.

(* ------------------------------------------------------------------ what a successful command leaves *)
Lemma run_command_reads t w w' :
  run_command s t w = Some w' -> exists reads, dep_parts s (w_ws w) (td_deps t) = Some reads.
Proof.
  unfold run_command. intro E.
  destruct (dep_parts s (w_ws w) (td_deps t)) as [reads|]; [eauto|].
  destruct (td_beh t); discriminate.
Qed.

Lemma run_command_T t w w' :
  NoDup (map (out_path t) (td_outs t)) ->
  run_command s t w = Some w' -> check_ok w' t = true ->
  (forall o, In o (td_outs t) -> exists x, ws_get (out_path t o) (w_ws w') = PFile x) ->
  forall o x, In o (td_outs t) -> ws_get (out_path t o) (w_ws w') = PFile x -> exists r, x = "T"%char :: r.
Proof.
  intros Hnd Er Hck Hall o x Ho Hx. destruct (run_command_reads t w w' Er) as [reads Hd].
  destruct (run_command_ok s t w w' reads Er Hd Hnd Hck Hall) as [_ Hc].
  assert (Hin : In o (map fst (ideal_outs s t 0 (td_outs t) reads))) by (rewrite ideal_outs_fst; exact Ho).
  apply in_map_iff in Hin as ([o' x'] & Ho' & Hin). cbn [fst] in Ho'. subst o'.
  rewrite (Hc o x' Hin) in Hx. inversion Hx; subst x'. eapply ideal_outs_T; eauto.
Qed.

Lemma oc_pair_plain cfg t key c ds :
  td_nocache t = false -> cfg_cache cfg = true ->
  oc_pair H cfg t key c ds =
  match td_outs t with
  | [] => (mkRes key [], c_cas c)
  | _ => (mkRes (output_hash H (map (fun e => ser_out (fst (fst e)) (snd (fst e))) ds))
                (map (fun e => (out_def (fst (fst e)), snd (fst e))) ds), cas_fold ds (c_cas c))
  end.
Proof. intros Hn Hc. unfold oc_pair. rewrite Hn, Hc. reflexivity. Qed.

Definition ds_ok (ds : list (outdef * str * str)) : Prop :=
  forall e, In e ds -> exists o x, e = (o, out_digest H o x, x) /\ exists r, x = "T"%char :: r.

Lemma done_cache_results cfg t key tn c ds :
  cfg_cache cfg = true ->
  c_results (done_cache cfg t key tn c ds) = results_set key (fst (oc_pair H cfg t key c ds)) (c_results c).
Proof. intro Hc. unfold done_cache. rewrite Hc. destruct tn; reflexivity. Qed.

Lemma done_cache_cas cfg t key tn c ds :
  c_cas (done_cache cfg t key tn c ds) = snd (oc_pair H cfg t key c ds).
Proof. unfold done_cache. destruct tn; reflexivity. Qed.

Lemma done_cache_cinv cfg t key tn c ds :
  td_nocache t = false -> cfg_cache cfg = true -> cinv c -> ds_ok ds ->
  cinv (done_cache cfg t key tn c ds).
Proof.
  intros Hn Hc [Hs Hres] Hds. unfold cinv, res_ok.
  rewrite done_cache_results by exact Hc. rewrite done_cache_cas, (oc_pair_plain cfg t key c ds Hn Hc).
  destruct (td_outs t) as [|o0 outs]; cbn [fst snd].
  - split; [exact Hs|]. intros k r def dg Hr Hin.
    destruct (str_eq_dec key k) as [->|Hne].
    + rewrite rlookup_set_same in Hr. inversion Hr; subst r. destruct Hin.
    + rewrite rlookup_set_other in Hr by exact Hne. eapply Hres; eauto.
  - destruct (cas_fold_sound3 ds (c_cas c) Hs) as [Hs' Hhas].
    { intros e He. destruct (Hds e He) as (o & x & -> & HT). cbn [fst snd].
      apply (blob_ok_digest H H_inj). exact HT. }
    split; [exact Hs'|]. intros k r def dg Hr Hin.
    destruct (str_eq_dec key k) as [->|Hne].
    + rewrite rlookup_set_same in Hr. inversion Hr; subst r. cbn [r_outs] in Hin.
      apply in_map_iff in Hin as (e & He & Hin). destruct (Hds e Hin) as (o & x & -> & _).
      cbn [fst snd] in He. inversion He; subst def dg. exists o, x. split; [reflexivity|].
      split; [reflexivity|]. apply (Hhas _ Hin).
    + rewrite rlookup_set_other in Hr by exact Hne.
      destruct (Hres k r def dg Hr Hin) as (o & x & Hd & Hg & Hc').
      exists o, x. split; [exact Hd|]. split; [exact Hg|].
      apply Build_c02_proofs.cas_fold_mono. exact Hc'.
Qed.

Lemma execute_len cfg i t key tn b ok b' : execute H cfg s i t key tn b = (ok, b') -> rt_len b' = rt_len b.
Proof.
  intro E. destruct ok.
  - apply (eo_len _ _ _ _ _ _ _ (Build_single_proofs.execute_ok H _ _ _ _ _ _ _ _ E)).
  - destruct (execute_fail H _ _ _ _ _ _ _ _ E) as (_ & _ & _ & _ & F5 & _). exact F5.
Qed.

(* executing node k in a cache-enabled build keeps [coreA] *)
Lemma execA cfg k t key tn b ok b3 :
  cfg_cache cfg = true -> node_at s k = Some (NTarget t) -> coreA b -> get_rt b k = rt0 ->
  (forall j, rt_key (get_rt b j) <> Some key) ->
  execute H cfg s k t key tn (pt_b0 k key b) = (ok, b3) ->
  coreA (mark b3 k (if ok then TExecuted else TFailed)).
Proof.
  intros Hcc Hn HC Hk0 Hfresh E. pose proof HC as (Hci & Hlen & Hgood).
  destruct (plain_cacheable_target s k t Hpl Hn) as [Hcmd Hnc].
  assert (Hk : k < rt_len (pt_b0 k key b)) by (rewrite pt_b0_len, Hlen; eapply node_at_lt; eauto).
  destruct (execute_shape H cfg s k t key tn _ ok b3 Hk E) as (Hoth & Hws & Hf & Ht).
  pose proof (execute_len _ _ _ _ _ _ _ _ E) as Hl3. rewrite pt_b0_len in Hl3.
  apply (coreA_step k t key b); auto.
  - (* cache *)
    destruct ok; [|destruct (Hf eq_refl) as [_ Hc]; rewrite b_cache_mark, Hc; exact Hci].
    rewrite execute_eq in E. unfold exec_ran in E. rewrite Hcmd in E.
    destruct (run_command s t (b_world (pt_b0 k key b))) as [w'|] eqn:Er; [|discriminate].
    destruct (check_ok w' t) eqn:Eck; [|discriminate].
    destruct (present_digests H t (td_outs t) (w_ws w')) as [ds|] eqn:Epd; [|discriminate].
    inversion E; subst b3. rewrite b_cache_mark, exec_done_cache. apply done_cache_cinv; auto.
    intros e He. destruct (present_digests_struct t _ _ _ Epd e He) as (o & x & -> & Ho & Hx).
    exists o, x. split; [reflexivity|].
    apply (run_command_T t _ w' (own_nodup k t Hn) Er Eck (proj2 (present_digests_spec H t _ _ _ Epd)) o x Ho Hx).
  - rewrite rt_len_mark. exact Hl3.
  - intros j Hj. rewrite get_rt_mark_other, Hoth by auto. apply pt_b0_other, Hj.
  - intros key' Hk'. rewrite b_cache_mark. destruct ok.
    + destruct (Ht eq_refl) as (res & _ & Hr & _). rewrite Hr.
      destruct (cfg_cache cfg); [apply rlookup_set_other; congruence | reflexivity].
    + destruct (Hf eq_refl) as [_ Hc]. rewrite Hc. reflexivity.
  - (* node k *)
    intro Hok. destruct ok.
    2:{ unfold dep_ok in Hok. destruct (rt_status_mark b3 k TFailed) as [Es|Es]; rewrite Es in Hok; discriminate. }
    rewrite execute_eq in E. unfold exec_ran in E. rewrite Hcmd in E.
    destruct (run_command s t (b_world (pt_b0 k key b))) as [w'|] eqn:Er; [|discriminate].
    destruct (check_ok w' t) eqn:Eck; [|discriminate].
    destruct (present_digests H t (td_outs t) (w_ws w')) as [ds|] eqn:Epd; [|discriminate].
    inversion E; subst b3.
    split; [rewrite rt_loaded_mark, exec_done_rt by exact Hk; reflexivity|].
    set (res := fst (oc_pair H cfg t key (b_cache (pt_b0 k key b)) ds)).
    exists key, res. rewrite rt_key_mark, rt_ohash_mark, b_cache_mark, b_world_mark.
    rewrite exec_done_rt by exact Hk. rewrite exec_done_cache, done_cache_results, exec_done_world by exact Hcc.
    cbn [rt_key rt_ohash]. split; [apply pt_b0_key; rewrite <- pt_b0_len with (i := k) (key := key); exact Hk|].
    split; [apply rlookup_set_same|]. split; [reflexivity|].
    destruct (present_digests_spec H t _ _ _ Epd) as [Hmap Hall].
    split; [apply oc_pair_match; auto|].
    intros o dg Ho Hin. unfold res in Hin. rewrite (oc_pair_plain cfg t key _ ds Hnc Hcc) in Hin.
    destruct (td_outs t) as [|o0 outs] eqn:Eo; [destruct Ho|]. cbn [fst r_outs] in Hin.
    apply in_map_iff in Hin as (e & He & Hine).
    destruct (present_digests_struct t _ _ _ Epd e Hine) as (o' & x & -> & Ho' & Hx).
    cbn [fst snd] in He. inversion He as [[Hd Hg]]. apply out_def_inj in Hd. subst o'.
    exists x. split; [exact Hx | reflexivity].
Qed.

(* ------------------------------------------------------------------ keeping [sim] across a step at node k *)
Lemma sim_step k t bA bM bA' bM' :
  node_at s k = Some (NTarget t) -> sim bA bM ->
  b_cache bA' = b_cache bM' -> b_exec bA' = b_exec bM' -> b_stop bA' = b_stop bM' ->
  w_ext (b_world bA') = w_ext (b_world bM') -> rt_len bA' = rt_len bM' ->
  (forall j, j <> k -> get_rt bA' j = get_rt bA j) ->
  (forall j, j <> k -> get_rt bM' j = get_rt bM j) ->
  (rt_key (get_rt bA' k) = rt_key (get_rt bM' k) /\ rt_ohash (get_rt bA' k) = rt_ohash (get_rt bM' k) /\
   rt_status (get_rt bA' k) = rt_status (get_rt bM' k)) ->
  (forall p, not_own t p -> ws_get p (w_ws (b_world bA')) = ws_get p (w_ws (b_world bA))) ->
  (forall p, not_own t p -> ws_get p (w_ws (b_world bM')) = ws_get p (w_ws (b_world bM))) ->
  (rt_loaded (get_rt bM' k) = true -> dep_ok bM' k = true /\
     forall o, In o (td_outs t) ->
       ws_get (out_path t o) (w_ws (b_world bM')) = ws_get (out_path t o) (w_ws (b_world bA'))) ->
  sim bA' bM'.
Proof.
  intros Hn (Sc & Sx & Ss & Se & Sl & Srt & Sld) Hc Hx Hs He Hl HoA HoM Hk HwA HwM Hkl.
  split; [exact Hc|]. split; [exact Hx|]. split; [exact Hs|]. split; [exact He|]. split; [exact Hl|].
  split.
  - intro j. destruct (Nat.eq_dec j k) as [->|Hne]; [exact Hk|]. rewrite HoA, HoM by exact Hne. apply Srt.
  - intros j tj Hnj Hlj. destruct (Nat.eq_dec j k) as [->|Hne].
    + rewrite Hn in Hnj. inversion Hnj; subst tj. apply Hkl, Hlj.
    + rewrite HoM in Hlj by exact Hne. destruct (Sld j tj Hnj Hlj) as [Hd Hw]. split.
      * unfold dep_ok. rewrite HoM by exact Hne. exact Hd.
      * intros o Ho.
        assert (Hp : not_own t (out_path tj o)).
        { intros o' Ho'. apply (no_overwrite_other s j k tj t o o'); auto. }
        rewrite (HwA _ Hp), (HwM _ Hp). apply Hw, Ho.
Qed.


Lemma dep_hashes_sim bA bM : sim bA bM -> forall ds, dep_hashes s bA ds = dep_hashes s bM ds.
Proof.
  intros (_ & _ & _ & _ & _ & Srt & _). induction ds as [|d ds IH]; cbn [dep_hashes]; [reflexivity|].
  destruct (resolve s d) as [[j tj]|]; [|reflexivity]. rewrite IH.
  rewrite (proj1 (proj2 (Srt j))). reflexivity.
Qed.

Lemma hit_cond_sim t bA bM : sim bA bM -> hit_cond cfgM t bM = hit_cond cfgA t bA.
Proof.
  intros (Sc & _ & _ & Se & _). unfold hit_cond, pt_tainted, check_ok. rewrite Sc, Se, HcA, HcM. reflexivity.
Qed.

Lemma coreA_mark k st b :
  (st_ok st = true -> forall t, node_at s k <> Some (NTarget t)) -> coreA b -> coreA (mark b k st).
Proof.
  intros Hst (Hci & Hlen & Hgood). split; [exact Hci|].
  split; [rewrite rt_len_mark; exact Hlen|].
  intros j tj Hnj Hok. destruct (Nat.eq_dec j k) as [->|Hne].
  - exfalso. unfold dep_ok in Hok.
    destruct (rt_status_mark b k st) as [E|E]; rewrite E in Hok; [|discriminate].
    apply (Hst Hok tj Hnj).
  - unfold dep_ok in Hok. rewrite get_rt_mark_other in Hok by auto.
    destruct (Hgood j tj Hnj Hok) as [Hl Hc]. rewrite get_rt_mark_other by auto. split; [exact Hl|].
    apply (cur_transfer b _ j tj Hc); [apply get_rt_mark_other; auto | reflexivity | reflexivity].
Qed.

Lemma sim_mark k st bA bM : sim bA bM -> dep_ok bA k = false -> sim (mark bA k st) (mark bM k st).
Proof.
  intros HS Hk. pose proof HS as (Sc & Sx & Ss & Se & Sl & Srt & Sld).
  split; [exact Sc|]. split; [exact Sx|]. split; [exact Ss|]. split; [exact Se|].
  split; [rewrite !rt_len_mark; exact Sl|]. split.
  - intro j. rewrite !rt_key_mark, !rt_ohash_mark. destruct (Srt j) as (K1 & K2 & K3).
    split; [exact K1|]. split; [exact K2|].
    destruct (Nat.eq_dec j k) as [->|Hne]; [|rewrite !get_rt_mark_other by auto; exact K3].
    destruct (lt_dec k (rt_len bA)) as [Hlt|Hge].
    + rewrite !rt_status_mark_same; [reflexivity | rewrite <- Sl; exact Hlt | exact Hlt].
    + rewrite !rt_status_mark_oob; [reflexivity | rewrite <- Sl; lia | lia].
  - intros j tj Hnj Hl. rewrite rt_loaded_mark in Hl. destruct (Sld j tj Hnj Hl) as [Hd Hw].
    assert (Hne : j <> k).
    { intros ->. rewrite (sim_dep_ok bA bM k HS) in Hd. congruence. }
    split; [|exact Hw]. unfold dep_ok. rewrite get_rt_mark_other by auto. exact Hd.
Qed.

Lemma goodA_finish c0 k bA b' :
  goodA c0 k bA -> coreA b' ->
  (forall j, j <> k -> get_rt b' j = get_rt bA j) ->
  (forall key', rlookup key' (c_results (b_cache b')) = rlookup key' (c_results (b_cache bA)) \/
                rt_key (get_rt b' k) = Some key') ->
  goodA c0 (S k) b'.
Proof.
  intros (_ & Hz & Horig) HC Hoth Hres. split; [exact HC|]. split.
  - intros j Hj. rewrite Hoth by lia. apply Hz. lia.
  - intro key'. destruct (Hres key') as [E|E]; [|right; exists k; exact E].
    rewrite E. destruct (Horig key') as [O|(j & Hj)]; [left; exact O|]. right. exists j.
    destruct (Nat.eq_dec j k) as [->|Hne]; [|rewrite Hoth by exact Hne; exact Hj].
    rewrite (Hz k (le_n _)) in Hj. discriminate.
Qed.

Lemma set_ohash_other b k oh j : j <> k -> get_rt (set_ohash b k oh) j = get_rt b j.
Proof. intro Hj. unfold set_ohash. rewrite get_rt_set_rt_other by auto. reflexivity. Qed.

Lemma set_ohash_same b k oh : k < rt_len b -> rt_ohash (get_rt (set_ohash b k oh) k) = Some oh.
Proof. intro Hk. unfold set_ohash. rewrite get_rt_set_rt_same by exact Hk. reflexivity. Qed.

Lemma sim_k_unloaded k t bA bM :
  node_at s k = Some (NTarget t) -> sim bA bM -> dep_ok bA k = false -> rt_loaded (get_rt bM k) = false.
Proof.
  intros Hn HS Hk. destruct (rt_loaded (get_rt bM k)) eqn:El; [|reflexivity].
  pose proof HS as (_ & _ & _ & _ & _ & _ & Sld). destruct (Sld k t Hn El) as [Hd _].
  rewrite (sim_dep_ok bA bM k HS) in Hd. congruence.
Qed.

(* both modes serve node k from the cache *)
Lemma hit_step c0 k t key res bA bM :
  node_at s k = Some (NTarget t) -> goodA c0 k bA -> sim bA bM ->
  (forall j, rt_key (get_rt bA j) <> Some key) ->
  (forall r, rlookup key (c_results c0) = Some r -> outputs_match t r = true) ->
  rlookup key (c_results (b_cache bA)) = Some res ->
  exists b1, load_outputs H k t res (pt_b0 k key bA) = (true, b1) /\
    goodA c0 (S k) (mark b1 k THit) /\
    sim (mark b1 k THit) (mark (set_ohash (pt_b0 k key bM) k (r_outhash res)) k THit).
Proof.
  intros Hn HG HS Hfresh Hfits Hr. pose proof HG as (HC & Hz & Horig).
  pose proof HC as (Hci & Hlen & Hgood).
  pose proof HS as (Sc & Sx & Ss & Se & Sl & Srt & Sld).
  pose proof (Hz k (le_n _)) as Hk0.
  assert (HkA : k < rt_len bA) by (rewrite Hlen; eapply node_at_lt; eauto).
  assert (HkM : k < rt_len bM) by (rewrite <- Sl; exact HkA).
  assert (Hdk : dep_ok bA k = false) by (unfold dep_ok; rewrite Hk0; reflexivity).
  assert (Hm : outputs_match t res = true).
  { destruct (Horig key) as [O|(j & Hj)]; [|exfalso; apply (Hfresh j Hj)].
    apply Hfits. rewrite <- O. exact Hr. }
  assert (Hl0 : rt_loaded (get_rt (pt_b0 k key bA) k) = false) by (rewrite pt_b0_loaded, Hk0; reflexivity).
  pose proof (load_outputs_ok H k t res (pt_b0 k key bA) Hl0 Hm
                (restorable_ok (b_cache bA) t key res Hci Hr Hm)) as Hfst.
  destruct (load_outputs H k t res (pt_b0 k key bA)) as [ok b1] eqn:E. cbn [fst] in Hfst. subst ok.
  exists b1. split; [reflexivity|].
  destruct (hitA k t key res bA b1 Hn HC Hk0 Hfresh Hr E) as (HC1 & Fc & Fx & Fs & Fe & Fl & Fk & Foth & Fws).
  split.
  - apply (goodA_finish c0 k bA); auto.
    + intros j Hj. rewrite get_rt_mark_other by auto. apply Foth, Hj.
    + intro key'. left. rewrite b_cache_mark, Fc. reflexivity.
  - apply (sim_step k t bA bM); auto.
    + transitivity (b_cache bA); [rewrite b_cache_mark; exact Fc | exact Sc].
    + transitivity (b_exec bA); [rewrite b_exec_mark; exact Fx | exact Sx].
    + transitivity (b_stop bA); [rewrite b_stop_mark; exact Fs | exact Ss].
    + transitivity (w_ext (b_world bA)); [rewrite b_world_mark; exact Fe | exact Se].
    + rewrite !rt_len_mark, Fl. unfold set_ohash. rewrite rt_len_set_rt, pt_b0_len. exact Sl.
    + intros j Hj. rewrite get_rt_mark_other by auto. apply Foth, Hj.
    + intros j Hj. rewrite get_rt_mark_other, set_ohash_other by auto. apply pt_b0_other, Hj.
    + rewrite !rt_key_mark, !rt_ohash_mark, Fk. cbn [rt_key rt_ohash].
      rewrite (set_ohash_field rt_key) by reflexivity. rewrite pt_b0_key by exact HkM.
      rewrite set_ohash_same by (rewrite pt_b0_len; exact HkM).
      split; [reflexivity|]. split; [reflexivity|].
      rewrite !rt_status_mark_same; [reflexivity | | rewrite Fl; exact HkA].
      unfold set_ohash. rewrite rt_len_set_rt, pt_b0_len. exact HkM.
    + intros Hl. exfalso. rewrite rt_loaded_mark in Hl.
      rewrite (set_ohash_field rt_loaded) in Hl by reflexivity. rewrite pt_b0_loaded in Hl.
      rewrite (sim_k_unloaded k t bA bM Hn HS Hdk) in Hl. discriminate.
Qed.

Lemma execute_exec_stop cfg i t key tn b ok b' :
  execute H cfg s i t key tn b = (ok, b') ->
  b_exec b' = b_exec (exec_start t b) /\ b_stop b' = b_stop b.
Proof.
  intro E. destruct ok.
  - pose proof (Build_single_proofs.execute_ok H _ _ _ _ _ _ _ _ E) as X.
    split; [apply (eo_exec _ _ _ _ _ _ _ X) | apply (eo_stop _ _ _ _ _ _ _ X)].
  - destruct (execute_fail H _ _ _ _ _ _ _ _ E) as (_ & _ & F3 & F4 & _). auto.
Qed.

Lemma exec_start_exec t b b' : b_exec b = b_exec b' -> b_exec (exec_start t b) = b_exec (exec_start t b').
Proof. intro E. unfold exec_start. destruct (null (td_cmd t)); [exact E|]. cbn [add_exec b_exec]. rewrite E. reflexivity. Qed.

Lemma execute_key_status cfg i t key tn b ok b' :
  i < rt_len b -> execute H cfg s i t key tn b = (ok, b') ->
  rt_key (get_rt b' i) = rt_key (get_rt b i) /\ rt_status (get_rt b' i) = rt_status (get_rt b i) /\
  rt_loaded (get_rt b' i) = (ok || rt_loaded (get_rt b i)).
Proof.
  intros Hi E. destruct (execute_shape H cfg s i t key tn b ok b' Hi E) as (_ & _ & Hf & Ht).
  destruct ok.
  - destruct (Ht eq_refl) as (res & -> & _). auto.
  - destruct (Hf eq_refl) as [-> _]. auto.
Qed.

Lemma sim_pt_b0 k t key bA bM :
  node_at s k = Some (NTarget t) -> sim bA bM -> dep_ok bA k = false -> k < rt_len bA ->
  sim (pt_b0 k key bA) (pt_b0 k key bM).
Proof.
  intros Hn HS Hdk HkA. pose proof HS as (Sc & Sx & Ss & Se & Sl & Srt & Sld).
  apply (sim_step k t bA bM); auto.
  - rewrite !pt_b0_len. exact Sl.
  - intros j Hj. apply pt_b0_other, Hj.
  - intros j Hj. apply pt_b0_other, Hj.
  - rewrite !pt_b0_same by (try rewrite <- Sl; exact HkA). cbn [rt_key rt_ohash rt_status].
    destruct (Srt k) as (_ & K2 & K3). auto.
  - intro Hl. exfalso. rewrite pt_b0_loaded in Hl.
    rewrite (sim_k_unloaded k t bA bM Hn HS Hdk) in Hl. discriminate.
Qed.

(* mode minimal, a miss at node k: the dependencies get restored, and the command then reads the same bytes *)
Lemma miss_deps k t key bA bM :
  node_at s k = Some (NTarget t) -> length (td_deps t) <= length (s_nodes s) ->
  coreA bA -> get_rt bA k = rt0 -> sim bA bM -> ok_closed s k bA ->
  forallb (dep_ok bA) (td_deps t) = true ->
  exists bM2,
    load_dep_outputs H (S (length (s_nodes s))) cfgM s (td_deps t) (pt_b0 k key bM) = (true, bM2) /\
    sim (pt_b0 k key bA) bM2 /\
    dep_parts s (w_ws (b_world (pt_b0 k key bA))) (td_deps t) =
    dep_parts s (w_ws (b_world bM2)) (td_deps t).
Proof.
  intros Hn Hshort HC Hk0 HS Hcl Hall. pose proof HC as (_ & Hlen & _).
  assert (HkA : k < rt_len bA) by (rewrite Hlen; eapply node_at_lt; eauto).
  assert (Hdk : dep_ok bA k = false) by (unfold dep_ok; rewrite Hk0; reflexivity).
  assert (Hdeps : forall d j tj, In d (td_deps t) -> resolve s d = Some (j, tj) ->
                                 dep_ok (pt_b0 k key bA) j = true).
  { intros d j tj Hd Hres. rewrite forallb_forall in Hall.
    pose proof (resolve_alias_ok s k bA Hcl _ _ _ _ (Hall d Hd) Hres) as Hj.
    assert (j <> k) by (apply (proj1 Hcl) in Hj; lia).
    unfold dep_ok. rewrite pt_b0_other by auto. exact Hj. }
  destruct (ldo_M (pt_b0 k key bA) (coreA_pt_b0 k key bA Hdk HC) (td_deps t) (S (length (s_nodes s)))
              (pt_b0 k key bM) (sim_pt_b0 k t key bA bM Hn HS Hdk HkA) ltac:(lia) Hdeps)
    as (bM2 & E2 & HS2 & _ & Hall2).
  exists bM2. split; [exact E2|]. split; [exact HS2|].
  apply dep_parts_ext. intros d j tj o Hd Hres Ho.
  pose proof HS2 as (_ & _ & _ & _ & _ & _ & Sld2).
  destruct (Sld2 j tj (resolve_target _ _ _ _ Hres) (Hall2 d j tj Hd Hres)) as [_ Hw].
  symmetry. apply Hw, Ho.
Qed.

(* both modes execute node k: same outcome, same cache, same bytes *)
Lemma exec_step c0 k t key tn bA bM2 okA bA3 okM bM3 :
  node_at s k = Some (NTarget t) -> goodA c0 k bA ->
  (forall j, rt_key (get_rt bA j) <> Some key) ->
  sim (pt_b0 k key bA) bM2 ->
  dep_parts s (w_ws (b_world (pt_b0 k key bA))) (td_deps t) = dep_parts s (w_ws (b_world bM2)) (td_deps t) ->
  execute H cfgA s k t key tn (pt_b0 k key bA) = (okA, bA3) ->
  execute H cfgM s k t key tn bM2 = (okM, bM3) ->
  okA = okM /\
  goodA c0 (S k) (mark bA3 k (if okA then TExecuted else TFailed)) /\
  sim (mark bA3 k (if okA then TExecuted else TFailed)) (mark bM3 k (if okA then TExecuted else TFailed)).
Proof.
  intros Hn HG Hfresh HS2 Hdp EA EM. pose proof HG as (HC & Hz & Horig).
  pose proof HC as (Hci & Hlen & Hgood).
  pose proof HS2 as (Sc & Sx & Ss & Se & Sl & Srt & Sld).
  pose proof (Hz k (le_n _)) as Hk0.
  destruct (plain_cacheable_target s k t Hpl Hn) as [Hcmd _].
  set (b0A := pt_b0 k key bA) in *.
  assert (HkA : k < rt_len b0A) by (unfold b0A; rewrite pt_b0_len, Hlen; eapply node_at_lt; eauto).
  assert (HkM : k < rt_len bM2) by (rewrite <- Sl; exact HkA).
  assert (Hdk : dep_ok b0A k = false).
  { unfold dep_ok, b0A, pt_b0. rewrite (get_rt_set_rt_field rt_status) by reflexivity. rewrite Hk0. reflexivity. }
  destruct (execute_rel k t key tn b0A bM2 okA bA3 okM bM3 Hcmd HkA HkM Sc Se
              (proj1 (proj2 (Srt k))) Hdp EA EM) as (Hok & Hc3 & He3 & Ho3 & Hown).
  subst okM. split; [reflexivity|].
  destruct (execute_shape H cfgA s k t key tn b0A okA bA3 HkA EA) as (HothA & HwsA & HfA & HtA).
  destruct (execute_shape H cfgM s k t key tn bM2 okA bM3 HkM EM) as (HothM & HwsM & _ & _).
  destruct (execute_key_status cfgA k t key tn b0A okA bA3 HkA EA) as (KA & StA & _).
  destruct (execute_key_status cfgM k t key tn bM2 okA bM3 HkM EM) as (KM & StM & LdM).
  destruct (execute_exec_stop cfgA k t key tn b0A okA bA3 EA) as [XA PA].
  destruct (execute_exec_stop cfgM k t key tn bM2 okA bM3 EM) as [XM PM].
  split.
  - apply (goodA_finish c0 k bA).
    + exact HG.
    + apply (execA cfgA k t key tn bA okA bA3 HcA Hn HC Hk0 Hfresh EA).
    + intros j Hj. rewrite get_rt_mark_other, HothA by auto. apply pt_b0_other, Hj.
    + intro key'. destruct (str_eq_dec key' key) as [->|Hne].
      * right. rewrite rt_key_mark, KA. apply pt_b0_key. rewrite <- (pt_b0_len k key bA). exact HkA.
      * left. rewrite b_cache_mark. destruct okA.
        -- destruct (HtA eq_refl) as (res & _ & Hr & _). rewrite Hr, HcA. apply rlookup_set_other. congruence.
        -- destruct (HfA eq_refl) as [_ Hc]. rewrite Hc. reflexivity.
  - apply (sim_step k t b0A bM2); auto.
    + rewrite !b_exec_mark, XA, XM. apply exec_start_exec, Sx.
    + rewrite !b_stop_mark, PA, PM. exact Ss.
    + rewrite !rt_len_mark, (execute_len _ _ _ _ _ _ _ _ EA), (execute_len _ _ _ _ _ _ _ _ EM). exact Sl.
    + intros j Hj. rewrite get_rt_mark_other by auto. apply HothA, Hj.
    + intros j Hj. rewrite get_rt_mark_other by auto. apply HothM, Hj.
    + rewrite !rt_key_mark, !rt_ohash_mark, KA, KM. destruct (Srt k) as (K1 & _ & _).
      split; [exact K1|]. split; [exact Ho3|].
      rewrite !rt_status_mark_same; [reflexivity | |].
      * rewrite (execute_len _ _ _ _ _ _ _ _ EM). exact HkM.
      * rewrite (execute_len _ _ _ _ _ _ _ _ EA). exact HkA.
    + intro Hl. rewrite rt_loaded_mark, LdM in Hl.
      rewrite (sim_k_unloaded k t b0A bM2 Hn HS2 Hdk), orb_false_r in Hl. subst okA. split.
      * unfold dep_ok. rewrite rt_status_mark_same; [reflexivity|].
        rewrite (execute_len _ _ _ _ _ _ _ _ EM). exact HkM.
      * intros o Ho. rewrite !b_world_mark. symmetry. apply (Hown eq_refl o Ho).
Qed.

(* the guard of node k: its key is fresh in this build, and a result stored under it by an earlier
   build lists the same outputs (C09 restricted to this history) *)
Definition node_guard (c0 : cache) (t : tdef) (bA : bstate) : Prop :=
  forall dh, dep_hashes s bA (td_deps t) = Some dh ->
    (forall j, rt_key (get_rt bA j) <> Some (pt_key H s t dh)) /\
    (forall r, rlookup (pt_key H s t dh) (c_results c0) = Some r -> outputs_match t r = true).

Lemma pt_step c0 k t bA bM :
  node_at s k = Some (NTarget t) -> length (td_deps t) <= length (s_nodes s) ->
  goodA c0 k bA -> sim bA bM -> ok_closed s k bA -> forallb (dep_ok bA) (td_deps t) = true ->
  node_guard c0 t bA ->
  goodA c0 (S k) (process_target H cfgA s k t bA) /\
  sim (process_target H cfgA s k t bA) (process_target H cfgM s k t bM).
Proof.
  intros Hn Hshort HG HS Hcl Hall Hguard. pose proof HG as (HC & Hz & Horig).
  pose proof HS as (Sc & _). pose proof (Hz k (le_n _)) as Hk0.
  assert (Hdk : dep_ok bA k = false) by (unfold dep_ok; rewrite Hk0; reflexivity).
  rewrite (pt_LAll H cfgA s k t bA HmA), (pt_LMin H cfgM s k t bM HmM).
  rewrite <- (dep_hashes_sim bA bM HS).
  destruct (dep_hashes s bA (td_deps t)) as [dh|] eqn:Edh.
  2:{ split; [|apply sim_mark; assumption].
      apply (goodA_finish c0 k bA); auto.
      - apply coreA_mark; [intro Hx; discriminate Hx | exact HC].
      - intros j Hj. apply get_rt_mark_other. auto. }
  destruct (Hguard dh Edh) as [Hfresh Hfits]. cbv zeta. set (key := pt_key H s t dh) in *.
  assert (Htn : pt_tainted t bM = pt_tainted t bA) by (unfold pt_tainted; rewrite Sc; reflexivity).
  unfold hit_res. rewrite <- Sc, (hit_cond_sim t bA bM HS), Htn.
  assert (Hmiss :
    goodA c0 (S k) (exec_tail H cfgA s k t key (pt_tainted t bA) (pt_b0 k key bA)) /\
    sim (exec_tail H cfgA s k t key (pt_tainted t bA) (pt_b0 k key bA))
        (let '(okd, b2) := load_dep_outputs H (S (length (s_nodes s))) cfgM s (td_deps t) (pt_b0 k key bM) in
         if okd then exec_tail H cfgM s k t key (pt_tainted t bA) b2 else mark b2 k TFailed)).
  { destruct (miss_deps k t key bA bM Hn Hshort HC Hk0 HS Hcl Hall) as (bM2 & E2 & HS2 & Hdp).
    rewrite E2. unfold exec_tail.
    destruct (execute H cfgA s k t key (pt_tainted t bA) (pt_b0 k key bA)) as [okA bA3] eqn:EA.
    destruct (execute H cfgM s k t key (pt_tainted t bA) bM2) as [okM bM3] eqn:EM.
    destruct (exec_step c0 k t key _ bA bM2 okA bA3 okM bM3 Hn HG Hfresh HS2 Hdp EA EM) as (Hok & G & S').
    subst okM. split; assumption. }
  destruct (rlookup key (c_results (b_cache bA))) as [res|] eqn:Er; [|exact Hmiss].
  destruct (hit_cond cfgA t bA); [|exact Hmiss].
  destruct (hit_step c0 k t key res bA bM Hn HG HS Hfresh Hfits Er) as (b1 & El & G & S').
  rewrite El. split; assumption.
Qed.

(* ------------------------------------------------------------------ one node of the walk, both modes *)
Definition deps_short : Prop :=
  forall i t, node_at s i = Some (NTarget t) -> length (td_deps t) <= length (s_nodes s).

Lemma goodA_weaken c0 k b : goodA c0 k b -> goodA c0 (S k) b.
Proof. intros (HC & Hz & Ho). split; [exact HC|]. split; [|exact Ho]. intros j Hj. apply Hz. lia. Qed.

Lemma mark_step c0 k st bA bM :
  (st_ok st = true -> forall t, node_at s k <> Some (NTarget t)) ->
  goodA c0 k bA -> sim bA bM ->
  goodA c0 (S k) (mark bA k st) /\ sim (mark bA k st) (mark bM k st).
Proof.
  intros Hst HG HS. pose proof HG as (HC & Hz & _).
  assert (Hdk : dep_ok bA k = false) by (unfold dep_ok; rewrite (Hz k (le_n _)); reflexivity).
  split; [|apply sim_mark; assumption].
  apply (goodA_finish c0 k bA); auto.
  - apply coreA_mark; assumption.
  - intros j Hj. apply get_rt_mark_other. auto.
Qed.

Lemma sim_stop bA bM :
  sim bA bM ->
  sim (mkB (b_world bA) (b_cache bA) (b_rt bA) (b_exec bA) true)
      (mkB (b_world bM) (b_cache bM) (b_rt bM) (b_exec bM) true).
Proof.
  intros (S1 & S2 & S3 & S4 & S5 & S6 & S8).
  split; [exact S1|]. split; [exact S2|]. split; [reflexivity|]. split; [exact S4|].
  split; [exact S5|]. split; [exact S6 | exact S8].
Qed.

Lemma pn_step c0 sel k bA bM :
  deps_short -> goodA c0 k bA -> sim bA bM -> ok_closed s k bA ->
  (forall t, node_at s k = Some (NTarget t) -> node_guard c0 t bA) ->
  goodA c0 (S k) (process_node H cfgA s sel bA k) /\
  sim (process_node H cfgA s sel bA k) (process_node H cfgM s sel bM k).
Proof.
  intros Hshort HG HS Hcl Hguard. pose proof HS as (_ & _ & Ss & _).
  unfold process_node. rewrite <- Ss.
  assert (Hsame : forall ds, forallb (dep_ok bM) ds = forallb (dep_ok bA) ds).
  { intro ds. apply forallb_ext_all. intro d. apply (sim_dep_ok bA bM d HS). }
  destruct (negb (existsb (Nat.eqb k) sel)); [split; [apply goodA_weaken, HG | exact HS]|].
  destruct (b_stop bA); [apply mark_step; auto; intro Hx; discriminate Hx|].
  destruct (node_at s k) as [n|] eqn:En; [|split; [apply goodA_weaken, HG | exact HS]].
  rewrite Hsame.
  destruct (forallb (dep_ok bA) (node_deps n)) eqn:Ed; cbn [negb];
    [|apply mark_step; auto; intro Hx; discriminate Hx].
  destruct n as [t|l a]; [|apply mark_step; auto; intros _ t Ht; rewrite En in Ht; discriminate Ht].
  destruct (pt_step c0 k t bA bM En (Hshort k t En) HG HS Hcl Ed (Hguard t eq_refl)) as [G S'].
  pose proof S' as (_ & _ & _ & _ & _ & Srt & _). rewrite <- (proj2 (proj2 (Srt k))).
  destruct (rt_status (get_rt (process_target H cfgA s k t bA) k)); try (split; assumption).
  rewrite <- Hff. destruct (cfg_failfast cfgA); [|split; assumption].
  split; [exact G | apply sim_stop, S'].
Qed.

(* ------------------------------------------------------------------ a whole build, both modes *)
Definition build_guard (c0 : cache) (roots : list nat) (wA : world) : Prop :=
  forall k t, node_at s k = Some (NTarget t) ->
    node_guard c0 t (build_prefix H cfgA s roots wA c0 k).

Lemma get_rt_init w c j : get_rt (build_init s w c) j = rt0.
Proof. unfold get_rt, build_init. cbn [b_rt]. apply nth_repeat. Qed.

Lemma init_good c0 wA : cinv c0 -> goodA c0 0 (build_init s wA c0).
Proof.
  intros Hci. split; [|split].
  - split; [exact Hci|]. split; [apply repeat_length|].
    intros j tj _ Hok. unfold dep_ok in Hok. rewrite get_rt_init in Hok. discriminate.
  - intros j _. apply get_rt_init.
  - intro key. left. reflexivity.
Qed.

Lemma init_sim c0 wA wM :
  w_ext wA = w_ext wM -> sim (build_init s wA c0) (build_init s wM c0).
Proof.
  intros He. split; [reflexivity|]. split; [reflexivity|]. split; [reflexivity|].
  split; [exact He|]. split; [reflexivity|]. split.
  - intro j. rewrite !get_rt_init. auto.
  - intros j tj _ Hl. rewrite get_rt_init in Hl. discriminate.
Qed.

Lemma prefix_lockstep c0 roots wA wM :
  deps_short -> cinv c0 -> w_ext wA = w_ext wM ->
  build_guard c0 roots wA ->
  forall k, goodA c0 k (build_prefix H cfgA s roots wA c0 k) /\
            sim (build_prefix H cfgA s roots wA c0 k) (build_prefix H cfgM s roots wM c0 k).
Proof.
  intros Hshort Hci He Hguard. induction k as [|k [IHg IHs]].
  - unfold build_prefix. cbn [seq fold_left]. split; [apply init_good | apply init_sim]; assumption.
  - pose proof (build_prefix_closed H cfgA s roots wA c0 k) as Hcl.
    unfold build_prefix in *. rewrite !seq_S, !fold_left_app. cbn [fold_left plus].
    apply pn_step; auto. intros t Ht. apply (Hguard k t Ht).
Qed.

Definition result_of (b : bstate) : build_result :=
  mkBR (b_world b) (b_cache b) (map rt_status (b_rt b)) (b_exec b)
       (negb (existsb (fun st => match st with TFailed => true | _ => false end) (map rt_status (b_rt b)))).

Lemma build_prefix_result cfg roots w c :
  build H cfg s roots w c = result_of (build_prefix H cfg s roots w c (length (s_nodes s))).
Proof. reflexivity. Qed.

Lemma sim_sts bA bM : sim bA bM -> map rt_status (b_rt bA) = map rt_status (b_rt bM).
Proof.
  intros (_ & _ & _ & _ & Sl & Srt & _). change (sts bA = sts bM).
  apply (nth_ext _ _ TNone TNone).
  - rewrite !sts_length. exact Sl.
  - intros n _. rewrite !nth_sts. apply (proj2 (proj2 (Srt n))).
Qed.

(* a successful, restored target of the minimal build holds the same bytes as in the all build *)
Lemma sim_materialised bA bM j tj o :
  coreA bA -> sim bA bM -> node_at s j = Some (NTarget tj) -> rt_loaded (get_rt bM j) = true ->
  In o (td_outs tj) ->
  exists c, ws_get (out_path tj o) (w_ws (b_world bM)) = PFile c /\
            ws_get (out_path tj o) (w_ws (b_world bA)) = PFile c.
Proof.
  intros (_ & _ & Hgood) HS Hn Hl Ho. pose proof HS as (_ & _ & _ & _ & _ & _ & Sld).
  destruct (Sld j tj Hn Hl) as [Hd Hw]. rewrite (sim_dep_ok bA bM j HS) in Hd.
  destruct (Hgood j tj Hn Hd) as [_ (key & r & _ & _ & _ & Hm & Hc)].
  destruct (outputs_match_entry tj r o Hm Ho) as (dg & Hin & _).
  destruct (Hc o dg Ho Hin) as (x & Hx & _). exists x. rewrite (Hw o Ho). auto.
Qed.

Theorem build_lockstep c0 roots wA wM :
  deps_short -> cinv c0 -> w_ext wA = w_ext wM ->
  build_guard c0 roots wA ->
  let rA := build H cfgA s roots wA c0 in
  let rM := build H cfgM s roots wM c0 in
  br_ok rA = br_ok rM /\ br_status rA = br_status rM /\ br_exec rA = br_exec rM /\
  br_cache rA = br_cache rM /\ w_ext (br_world rA) = w_ext (br_world rM) /\
  cinv (br_cache rA) /\
  (forall j tj o, node_at s j = Some (NTarget tj) ->
     rt_loaded (get_rt (build_prefix H cfgM s roots wM c0 (length (s_nodes s))) j) = true ->
     In o (td_outs tj) ->
     exists c, ws_get (out_path tj o) (w_ws (br_world rM)) = PFile c /\
               ws_get (out_path tj o) (w_ws (br_world rA)) = PFile c).
Proof.
  intros Hshort Hci He Hguard rA rM.
  destruct (prefix_lockstep c0 roots wA wM Hshort Hci He Hguard (length (s_nodes s))) as [HG HS].
  unfold rA, rM. rewrite !build_prefix_result. unfold result_of. cbn [br_ok br_status br_exec br_cache br_world].
  pose proof HS as (Sc & Sx & _ & Se & _). pose proof HG as (HC & _).
  pose proof HC as (Hci' & _).
  rewrite (sim_sts _ _ HS).
  split; [reflexivity|]. split; [reflexivity|]. split; [exact Sx|]. split; [exact Sc|].
  split; [exact Se|]. split; [exact Hci'|].
  intros j tj o Hn Hl Ho. apply (sim_materialised _ _ j tj o HC HS Hn Hl Ho).
Qed.

End Build1.

(* ------------------------------------------------------------------ histories, both modes *)
Definition with_mode (m : lmode) (o : op) : op :=
  match o with
  | OpBuild cfg roots => OpBuild (mkCfg m (cfg_cache cfg) (cfg_failfast cfg)) roots
  | _ => o
  end.

Definition run_from (m : lmode) (y : sys) (ops : list op) : sys :=
  fold_left (step_op H) (map (with_mode m) ops) y.

Definition log_rel (rA rM : build_result) : Prop :=
  br_ok rA = br_ok rM /\ br_status rA = br_status rM /\ br_exec rA = br_exec rM /\
  br_cache rA = br_cache rM.

Definition hsim (yA yM : sys) : Prop :=
  sy_src yA = sy_src yM /\ sy_cache yA = sy_cache yM /\
  w_ext (sy_world yA) = w_ext (sy_world yM) /\
  cinv (sy_cache yA) /\
  Forall2 log_rel (sy_log yA) (sy_log yM).

(* guards of one operation, evaluated on the state of the mode-all run *)
Definition op_guard (yA : sys) (o : op) : Prop :=
  match o with
  | OpBuild cfg roots =>
      cfg_cache cfg = true /\ no_overwrite (sy_src yA) /\ plain_cacheable (sy_src yA) /\ deps_short (sy_src yA) /\
      build_guard (mkCfg LAll (cfg_cache cfg) (cfg_failfast cfg)) (sy_src yA) (sy_cache yA) roots (sy_world yA)
  | OpDropBlob _ => False
  | _ => True
  end.

Fixpoint hist_guard (yA : sys) (ops : list op) : Prop :=
  match ops with
  | [] => True
  | o :: r => op_guard yA o /\ hist_guard (step_op H yA (with_mode LAll o)) r
  end.

Lemma cinv_same c c' : c_results c' = c_results c -> c_cas c' = c_cas c -> cinv c -> cinv c'.
Proof. intros Hr Hc [Hs Hres]. unfold cinv, res_ok. rewrite Hr, Hc. split; assumption. Qed.

Lemma step_hsim yA yM o :
  hsim yA yM -> op_guard yA o ->
  hsim (step_op H yA (with_mode LAll o)) (step_op H yM (with_mode LMinimal o)).
Proof.
  intros (Hsrc & Hc & He & Hci & Hlog) Hg.
  destruct o as [s'|ls|p st|l|p| |cfg roots]; cbn [with_mode step_op].
  - unfold hsim. cbn [sy_src sy_cache sy_world sy_log]. auto 10.
  - unfold hsim. cbn [sy_src sy_cache sy_world sy_log]. rewrite <- Hc.
    split; [exact Hsrc|]. split; [reflexivity|]. split; [exact He|].
    split; [apply (cinv_same (sy_cache yA)); [reflexivity | reflexivity | exact Hci]|]. auto.
  - unfold hsim. cbn [sy_src sy_cache sy_world sy_log w_ws w_ext]. cbn [op_guard] in Hg.
    split; [exact Hsrc|]. split; [exact Hc|]. split; [exact He|]. split; [exact Hci|]. exact Hlog.
  - unfold hsim. cbn [sy_src sy_cache sy_world sy_log w_ws w_ext]. rewrite He. auto 10.
  - destruct Hg.
  - unfold hsim. cbn [sy_src sy_cache sy_world sy_log]. rewrite <- Hc.
    split; [exact Hsrc|]. split; [reflexivity|]. split; [exact He|]. split; [|auto].
    split; [apply Hci|]. intros k r def dg Hr. discriminate Hr.
  - cbn [op_guard] in Hg. destruct Hg as (Hcc & Hno & Hpl & Hshort & Hbg).
    rewrite <- Hsrc, <- Hc.
    destruct (build_lockstep (mkCfg LAll (cfg_cache cfg) (cfg_failfast cfg))
                (mkCfg LMinimal (cfg_cache cfg) (cfg_failfast cfg)) (sy_src yA)
                eq_refl eq_refl Hcc Hcc eq_refl Hno Hpl (sy_cache yA) roots (sy_world yA) (sy_world yM)
                Hshort Hci He Hbg) as (B1 & B2 & B3 & B4 & B5 & B6 & _).
    unfold hsim. cbn [sy_src sy_cache sy_world sy_log].
    split; [reflexivity|]. split; [exact B4|]. split; [exact B5|]. split; [exact B6|].
    apply Forall2_app; [exact Hlog|]. constructor; [|constructor]. repeat split; assumption.
Qed.

Lemma lockstep_from : forall ops yA yM,
  hsim yA yM -> hist_guard yA ops -> hsim (run_from LAll yA ops) (run_from LMinimal yM ops).
Proof.
  induction ops as [|o ops IH]; intros yA yM Hs Hg; [exact Hs|].
  destruct Hg as [Hg Hr]. unfold run_from. cbn [map fold_left].
  apply IH; [apply step_hsim; assumption | exact Hr].
Qed.

Lemma hsim_sys0 : hsim sys0 sys0.
Proof.
  unfold hsim, sys0. cbn [sy_src sy_cache sy_world sy_log w_ws w_ext].
  split; [reflexivity|]. split; [reflexivity|]. split; [reflexivity|]. split.
  - split; [intros dg x Hx; discriminate Hx | intros k r def dg Hr; discriminate Hr].
  - constructor.
Qed.

(* the headline: the same history run with every build in mode all and with every build in mode
   minimal: build by build the same exit status, the same per-node statuses, the same commands in
   the same order, the same cache afterwards (results, CAS and taints: the caches of the two runs are
   equal), the same external conditions *)
Theorem history_lockstep ops :
  hist_guard sys0 ops -> hsim (run_from LAll sys0 ops) (run_from LMinimal sys0 ops).
Proof. intro Hg. apply lockstep_from; [apply hsim_sys0 | exact Hg]. Qed.

Lemma hist_guard_app : forall pre y post,
  hist_guard y (pre ++ post) -> hist_guard y pre /\ hist_guard (run_from LAll y pre) post.
Proof.
  induction pre as [|o pre IH]; intros y post Hg; [split; [exact I | exact Hg]|].
  cbn [app hist_guard] in Hg. destruct Hg as [Hg Hr]. destruct (IH _ _ Hr) as [H1 H2].
  split; [split; assumption | exact H2].
Qed.

(* every output that a build of the minimal run materialises has the bytes it has in the all run *)
Theorem history_materialised pre cfg roots post :
  hist_guard sys0 (pre ++ OpBuild cfg roots :: post) ->
  let yA := run_from LAll sys0 pre in
  let yM := run_from LMinimal sys0 pre in
  let cfgM := mkCfg LMinimal (cfg_cache cfg) (cfg_failfast cfg) in
  let cfgA := mkCfg LAll (cfg_cache cfg) (cfg_failfast cfg) in
  let s := sy_src yM in
  let rA := build H cfgA (sy_src yA) roots (sy_world yA) (sy_cache yA) in
  let rM := build H cfgM s roots (sy_world yM) (sy_cache yM) in
  forall j tj o, node_at s j = Some (NTarget tj) ->
    rt_loaded (get_rt (build_prefix H cfgM s roots (sy_world yM) (sy_cache yM) (length (s_nodes s))) j) = true ->
    In o (td_outs tj) ->
    exists c, ws_get (out_path tj o) (w_ws (br_world rM)) = PFile c /\
              ws_get (out_path tj o) (w_ws (br_world rA)) = PFile c.
Proof.
  intros Hg yA yM cfgM cfgA s rA rM.
  destruct (hist_guard_app pre sys0 _ Hg) as [Hpre Hpost]. fold yA in Hpost.
  cbn [hist_guard op_guard] in Hpost. destruct Hpost as [(Hcc & Hno & Hpl & Hshort & Hbg) _].
  pose proof (lockstep_from pre sys0 sys0 hsim_sys0 Hpre) as (Hsrc & Hc & He & Hci & _).
  fold yA yM in Hsrc, Hc, He, Hci.
  unfold rA, rM, s. rewrite <- Hsrc, <- Hc.
  apply (build_lockstep cfgA cfgM (sy_src yA) eq_refl eq_refl Hcc Hcc eq_refl Hno Hpl (sy_cache yA) roots
           (sy_world yA) (sy_world yM) Hshort Hci He Hbg).
Qed.

(* ------------------------------------------------------------------ the guards, decidable *)
Definition node_guardb (s : sources) (c0 : cache) (t : tdef) (bA : bstate) : bool :=
  match dep_hashes s bA (td_deps t) with
  | None => true
  | Some dh =>
      let key := pt_key H s t dh in
      forallb (fun r => match rt_key r with Some k' => negb (str_eqb k' key) | None => true end) (b_rt bA) &&
      match rlookup key (c_results c0) with Some r => outputs_match t r | None => true end
  end.

Lemma node_guardb_ok s c0 t bA : node_guardb s c0 t bA = true -> node_guard s c0 t bA.
Proof.
  unfold node_guardb, node_guard. intros Hb dh Hdh. rewrite Hdh in Hb. cbv zeta in Hb.
  apply andb_true_iff in Hb as [Hf Hr]. split.
  - intros j Hj. rewrite forallb_forall in Hf. unfold get_rt in Hj.
    destruct (lt_dec j (length (b_rt bA))) as [Hlt|Hge].
    + specialize (Hf _ (nth_In _ rt0 Hlt)). rewrite Hj, str_eqb_refl in Hf. discriminate.
    + rewrite nth_overflow in Hj by lia. discriminate.
  - intros r Hr'. rewrite Hr' in Hr. exact Hr.
Qed.

Definition build_guardb (cfgA : config) (s : sources) (c0 : cache) (roots : list nat) (wA : world) : bool :=
  forallb (fun k => match node_at s k with
                    | Some (NTarget t) => node_guardb s c0 t (build_prefix H cfgA s roots wA c0 k)
                    | _ => true
                    end) (seq 0 (length (s_nodes s))).

Lemma build_guardb_ok cfgA s c0 roots wA :
  build_guardb cfgA s c0 roots wA = true -> build_guard cfgA s c0 roots wA.
Proof.
  unfold build_guardb, build_guard. intros Hb k t Hn. rewrite forallb_forall in Hb.
  assert (Hk : In k (seq 0 (length (s_nodes s)))) by (apply in_seq; pose proof (node_at_lt s k _ Hn); lia).
  specialize (Hb k Hk). rewrite Hn in Hb. apply node_guardb_ok, Hb.
Qed.

Definition deps_shortb (s : sources) : bool :=
  forallb (fun n => match n with
                    | NTarget t => length (td_deps t) <=? length (s_nodes s)
                    | NAlias _ _ => true
                    end) (s_nodes s).

Lemma deps_shortb_ok s : deps_shortb s = true -> deps_short s.
Proof.
  unfold deps_shortb, deps_short, node_at. intros Hb i t Hn. rewrite forallb_forall in Hb.
  specialize (Hb _ (nth_error_In _ _ Hn)). apply Nat.leb_le. exact Hb.
Qed.

Fixpoint nodupb (l : list str) : bool :=
  match l with [] => true | x :: r => negb (existsb (str_eqb x) r) && nodupb r end.

Lemma nodupb_ok l : nodupb l = true -> NoDup l.
Proof.
  induction l as [|x l IH]; intro Hb; [constructor|]. cbn [nodupb] in Hb.
  apply andb_true_iff in Hb as [Hx Hl]. constructor; [|apply IH, Hl].
  intro Hin. apply negb_true_iff in Hx.
  assert (existsb (str_eqb x) l = true) by (apply existsb_exists; exists x; split; [exact Hin | apply str_eqb_refl]).
  congruence.
Qed.

Definition op_guardb (yA : sys) (o : op) : bool :=
  match o with
  | OpBuild cfg roots =>
      cfg_cache cfg && nodupb (all_out_paths (sy_src yA)) && forallb plain_cacheable_node (s_nodes (sy_src yA)) &&
      deps_shortb (sy_src yA) &&
      build_guardb (mkCfg LAll (cfg_cache cfg) (cfg_failfast cfg)) (sy_src yA) (sy_cache yA) roots (sy_world yA)
  | OpDropBlob _ => false
  | _ => true
  end.

Fixpoint hist_guardb (yA : sys) (ops : list op) : bool :=
  match ops with
  | [] => true
  | o :: r => op_guardb yA o && hist_guardb (step_op H yA (with_mode LAll o)) r
  end.

Lemma op_guardb_ok yA o : op_guardb yA o = true -> op_guard yA o.
Proof.
  destruct o as [s'|ls|p st|l|p| |cfg roots]; cbn [op_guardb op_guard]; intro Hb; try exact I.
  - discriminate Hb.
  - apply andb_true_iff in Hb as [Hb H5]. apply andb_true_iff in Hb as [Hb H4].
    apply andb_true_iff in Hb as [Hb H3]. apply andb_true_iff in Hb as [H1 H2].
    split; [exact H1|]. split; [apply nodupb_ok, H2|]. split; [exact H3|].
    split; [apply deps_shortb_ok, H4 | apply build_guardb_ok, H5].
Qed.

Lemma hist_guardb_ok : forall ops yA, hist_guardb yA ops = true -> hist_guard yA ops.
Proof.
  induction ops as [|o ops IH]; intros yA Hb; [exact I|]. cbn [hist_guardb] in Hb.
  apply andb_true_iff in Hb as [H1 H2]. split; [apply op_guardb_ok, H1 | apply IH, H2].
Qed.

(* the headline with the decidable guard *)
Theorem history_lockstep_b ops :
  hist_guardb sys0 ops = true -> hsim (run_from LAll sys0 ops) (run_from LMinimal sys0 ops).
Proof. intro Hb. apply history_lockstep, hist_guardb_ok, Hb. Qed.
End Lockstep.

(* ================================================================== non-vacuity (H := identity) *)
(* a <- alias <- b, a <- c; a reads the input file p/a.i *)
Definition y_tg (n : ascii) (cmd : str) (ins : list str) (deps : list nat) : tdef :=
  mkTD (x_lb n) cmd [] ins [mkOut OFile [n; "."%char; "o"%char]] deps [] false false BNormal false.
Definition y_src (ain : str) (ccmd : str) : sources :=
  mkSrc [NTarget (y_tg "a" ["x"%char] [["a"; "."; "i"]%char] []);
         NAlias (x_lb "l") 0;
         NTarget (y_tg "b" ["x"%char] [] [1]);
         NTarget (y_tg "c" ccmd [] [0])]
        [(["p"; "/"; "a"; "."; "i"]%char, ain)].
(* build; edit a's input; build; lose a's output and edit c's command; build; lose every target
   result; build *)
Definition y_ops : list op :=
  [OpSources (y_src ["1"%char] ["x"%char]); OpBuild x_cA [2; 3];
   OpSources (y_src ["2"%char] ["x"%char]); OpBuild x_cA [2; 3];
   OpPerturb x_pa PAbsent; OpSources (y_src ["2"%char] ["y"%char]); OpBuild x_cA [2; 3];
   OpDropResults; OpBuild x_cA [2; 3]].

Example lockstep_nonvacuous :
  hist_guardb hI sys0 y_ops = true /\
  map (fun r => map lname (br_exec r)) (sy_log (run_from hI LMinimal sys0 y_ops)) =
    [[["a"]; ["b"]; ["c"]]; [["a"]; ["b"]; ["c"]]; [["c"]]; [["a"]; ["b"]; ["c"]]]%char /\
  map br_status (sy_log (run_from hI LMinimal sys0 y_ops)) =
    [[TExecuted; THit; TExecuted; TExecuted]; [TExecuted; THit; TExecuted; TExecuted];
     [THit; THit; THit; TExecuted]; [TExecuted; THit; TExecuted; TExecuted]].
Proof. repeat split; vm_compute; reflexivity. Qed.

(* in the third build mode minimal serves a from the cache and restores its (lost) output only because
   c executes; b's output is not touched *)
Example minimal_loads_on_demand :
  let y := run_from hI LMinimal sys0 (firstn 6 y_ops) in
  let b := build_prefix hI x_cM (sy_src y) [2; 3] (sy_world y) (sy_cache y) 4 in
  ws_get x_pa (w_ws (sy_world y)) = PAbsent /\
  map rt_loaded (b_rt b) = [true; false; false; true] /\
  exists c, ws_get x_pa (w_ws (b_world b)) = PFile c.
Proof. cbv zeta. split; [vm_compute; reflexivity|]. split; [vm_compute; reflexivity|]. eexists. vm_compute. reflexivity. Qed.

Example deps_present_nonvacuous :
  wf_src (y_src ["2"%char] ["y"%char]) /\ no_overwrite (y_src ["2"%char] ["y"%char]).
Proof.
  split.
  - intros i n Hn d Hd. destruct i as [|[|[|[|i]]]]; cbn in Hn; try (inversion Hn; subst; cbn in Hd; lia).
    destruct i; discriminate.
  - apply nodupb_ok. vm_compute. reflexivity.
Qed.

(* ================================================================== why each guard is there *)
Definition x_exec (m : lmode) (ops : lmode -> list op) : list (list str) :=
  map (fun r => map lname (br_exec r)) (sy_log (run_history hI (ops m))).
Definition x_stat (m : lmode) (ops : lmode -> list op) : list (list tstatus) :=
  map br_status (sy_log (run_history hI (ops m))).

(* a blob lost and a dependant forced to run: mode minimal re-runs the dependency a inside the task of
   c (after a was reported as a cache hit), mode all re-runs it in its own task: the same commands run,
   both builds succeed, but a's status differs (THit vs TExecuted) *)
Definition x_ops_blob_taint (m : lmode) : list op :=
  [OpSources x_s3; OpBuild (mkCfg m true false) [2]; OpDropBlob x_pa; OpPerturb x_pa PAbsent;
   OpTaint [x_lb "c"]; OpBuild (mkCfg m true false) [2]].
Example blob_fault_dependency_rerun :
  x_exec LAll x_ops_blob_taint = [[["a"]; ["b"]; ["c"]]; [["a"]; ["c"]]]%char /\
  x_exec LMinimal x_ops_blob_taint = [[["a"]; ["b"]; ["c"]]; [["a"]; ["c"]]]%char /\
  nth 1 (x_stat LAll x_ops_blob_taint) [] = [TExecuted; THit; TExecuted] /\
  nth 1 (x_stat LMinimal x_ops_blob_taint) [] = [THit; THit; TExecuted].
Proof. repeat split; vm_compute; reflexivity. Qed.

(* a cache-disabled build used to store output-less results, and the next cached build re-ran everything in
   mode all (restore failed) and nothing in mode minimal (formerly lockstep_refuted_cache_off; C02-F2 / C13-F1).
   A disabled cache is no longer written: build, build with the cache off, build -- both modes run
   everything, everything, nothing, with the same statuses; and a cached build after a cache-disabled first
   build runs everything in both modes *)
Definition x_ops_cache_off (m : lmode) : list op :=
  [OpSources x_s3; OpBuild (mkCfg m false false) [2]; OpBuild (mkCfg m true false) [2]].
Definition x_ops_cache_toggle (m : lmode) : list op :=
  [OpSources x_s3; OpBuild (mkCfg m true false) [2]; OpBuild (mkCfg m false false) [2];
   OpBuild (mkCfg m true false) [2]].
Theorem lockstep_cache_off_in_lockstep :
  x_exec LAll x_ops_cache_off = [[["a"]; ["b"]; ["c"]]; [["a"]; ["b"]; ["c"]]]%char /\
  x_exec LMinimal x_ops_cache_off = [[["a"]; ["b"]; ["c"]]; [["a"]; ["b"]; ["c"]]]%char /\
  x_stat LAll x_ops_cache_off = x_stat LMinimal x_ops_cache_off /\
  x_exec LAll x_ops_cache_toggle = [[["a"]; ["b"]; ["c"]]; [["a"]; ["b"]; ["c"]]; []]%char /\
  x_exec LMinimal x_ops_cache_toggle = [[["a"]; ["b"]; ["c"]]; [["a"]; ["b"]; ["c"]]; []]%char /\
  x_stat LAll x_ops_cache_toggle = x_stat LMinimal x_ops_cache_toggle /\
  sy_cache (run_history hI (x_ops_cache_toggle LAll)) = sy_cache (run_history hI (x_ops_cache_toggle LMinimal)).
Proof. do 6 (split; [vm_compute; reflexivity|]). vm_compute. reflexivity. Qed.

(* a directory where a file output is declared (this history used to refute the lock-step: mode all could
   not restore a's output over the directory and re-ran a, mode minimal did not look; C06-F3): the restore
   now replaces the directory, the history meets the guard and both modes run nothing in the second build,
   with the same statuses *)
Definition x_ops_wrongkind (m : lmode) : list op :=
  [OpSources x_s3; OpBuild (mkCfg m true false) [2]; OpPerturb x_pa PWrongKind;
   OpBuild (mkCfg m true false) [2]].
Theorem wrongkind_in_lockstep :
  hist_guardb hI sys0 (x_ops_wrongkind LAll) = true /\
  nth 1 (x_exec LAll x_ops_wrongkind) [["?"]]%char = [] /\
  nth 1 (x_exec LMinimal x_ops_wrongkind) [["?"]]%char = [] /\
  nth 1 (x_stat LAll x_ops_wrongkind) [] = [THit; THit; THit] /\
  nth 1 (x_stat LMinimal x_ops_wrongkind) [] = [THit; THit; THit] /\
  (exists c, ws_get x_pa (w_ws (sy_world (run_history hI (x_ops_wrongkind LAll)))) = PFile c) /\
  ws_get x_pa (w_ws (sy_world (run_history hI (x_ops_wrongkind LMinimal)))) = PWrongKind.
Proof. repeat split; try (vm_compute; reflexivity). vm_compute. eexists; reflexivity. Qed.

(* ================================================================== cache faults while loading: the two paths *)
Section Faults.
Variable H : str -> str.

(* a dependency whose outputs cannot be restored (lost blob, ...) is re-run after ITS dependencies were
   loaded, and the loop goes on with the remaining dependencies *)
Lemma ldo_load_failure f cfg s d0 ds b d dt dkey r b1 :
  resolve s d0 = Some (d, dt) -> rt_key (get_rt b d) = Some dkey ->
  rlookup dkey (c_results (b_cache b)) = Some r -> load_outputs H d dt r b = (false, b1) ->
  load_dep_outputs H (S f) cfg s (d0 :: ds) b =
  let '(ok2, b2) := load_dep_outputs H f cfg s (td_deps dt) b1 in
  if ok2 then let '(ok3, b3) := execute H cfg s d dt dkey false b2 in
              if ok3 then load_dep_outputs H f cfg s ds b3 else (false, b3)
  else (false, b2).
Proof.
  intros Hr Hk Hl El.
  assert (Eld : rt_loaded (get_rt b d) = false).
  { unfold load_outputs in El. destruct (rt_loaded (get_rt b d)); [discriminate | reflexivity]. }
  cbn [load_dep_outputs]. rewrite Hr, Eld, Hk, Hl, El. cbn [negb orb].
  destruct (load_dep_outputs H f cfg s (td_deps dt) b1) as [ok2 b2]. destruct ok2; reflexivity.
Qed.

(* a dependency that is not loaded yet and whose result cannot be read is re-run and the loop RETURNS: the
   remaining dependencies are not looked at *)
Lemma ldo_unreadable_returns f cfg s d0 ds b d dt dkey :
  resolve s d0 = Some (d, dt) -> rt_loaded (get_rt b d) = false -> rt_key (get_rt b d) = Some dkey ->
  rlookup dkey (c_results (b_cache b)) = None ->
  load_dep_outputs H (S f) cfg s (d0 :: ds) b = execute H cfg s d dt dkey false b.
Proof. intros Hr Hld Hk Hl. cbn [load_dep_outputs]. rewrite Hr, Hld, Hk, Hl. reflexivity. Qed.

(* a dependency whose outputs are already in place (executed or restored earlier in this build) is not
   looked up in the cache at all *)
Lemma ldo_loaded_skips f cfg s d0 ds b d dt :
  resolve s d0 = Some (d, dt) -> rt_loaded (get_rt b d) = true ->
  load_dep_outputs H (S f) cfg s (d0 :: ds) b = load_dep_outputs H f cfg s ds b.
Proof. intros Hr Hld. cbn [load_dep_outputs]. rewrite Hr, Hld. reflexivity. Qed.

End Faults.

(* the hypotheses of [deps_present] hold in the fault-free state x_pre (a, b served from the cache, not
   loaded), and LoadDependencyOutputs succeeds there *)
Example deps_present_partial_nonvacuous :
  wf_src x_s3 /\ no_overwrite x_s3 /\ rt_len x_pre = length (s_nodes x_s3) /\ loaded_ok x_s3 x_pre /\
  readable x_s3 x_pre [0; 1] /\
  fst (load_dep_outputs hI 4 x_cM x_s3 [0; 1] x_pre) = true /\
  map rt_loaded (b_rt (snd (load_dep_outputs hI 4 x_cM x_s3 [0; 1] x_pre))) = [true; true; false].
Proof.
  split; [exact x_s3_wf|]. split; [exact x_s3_no_overwrite|]. split; [vm_compute; reflexivity|].
  split; [apply loaded_ok_none; vm_compute; reflexivity|]. split; [|split; vm_compute; reflexivity].
  intros d j tj key Hd Hres Hk.
  destruct Hd as [<-|[<-|[]]]; vm_compute in Hres; inversion Hres; subst j tj;
    vm_compute in Hk; inversion Hk; subst key; right; vm_compute; discriminate.
Qed.
