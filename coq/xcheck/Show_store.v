(* Show_store.v -- Gallina mirror of ocaml/store/driver.ml (engine `store`: Store.v; C07, C08).
   Not part of the development; definitions only. *)
From Coq Require Import String.   (* first, so that the List names win *)
From Grog Require Import Str Store.
From GrogX Require Import XSupport.

Inductive xop :=
| XBad                 (* the driver's "bad-op" *)
| XNoop                (* lbreak / lfix: the harness makes a local fault happen; the driver prints the unchanged world *)
| XOp (o : wop).

Inductive case :=
| CCase (rf : list rfault) (lf : list lfault) (ops : list xop)
| CSteps (opss : list (list op)) (sched : list nat) (faults : list bool)
| CGuard (l r : list str).

Definition path_name (p : path) : str :=
  match p with PCas => L "cas" | PTarget => L "target" | PTaint => L "taint" end.

Definition commas_to_dots (s : str) : str :=
  map (fun c => if Ascii.eqb c ","%char then "."%char else c) s.

(* a marshalled TargetResult is 'r' ^ csv: shown as "r:" ^ the csv with dots *)
Definition show_val (p : path) (b : str) : str :=
  match p with
  | PTarget => L "r:" ++ commas_to_dots (tl b)
  | _ => hex b
  end.

Definition obs (m : fsmap) : str :=
  cat (L ",") (sort_uniq_strs
    (map (fun e => path_name (fst (fst e)) ++ L "/" ++ snd (fst e) ++ L "=" ++ show_val (fst (fst e)) (snd e)) m)).

Definition op_path (o : wop) : path :=
  match o with
  | Do _ _ (AGet p _) => p
  | _ => PCas
  end.

Definition show_res (o : wop) (r : res) : str :=
  match r with
  | ROk => L "ok" | RMiss => L "miss" | RErr => L "error" | RTrue => L "true" | RFalse => L "false"
  | RHit b => L "ok=" ++ show_val (op_path o) b
  end.

Fixpoint do_ops (w : world) (ops : list xop) : list str :=
  match ops with
  | [] => []
  | XBad :: rest => L "bad-op" :: do_ops w rest
  | XNoop :: rest =>
      (L "ok|A:" ++ obs (locA w) ++ L "|B:" ++ obs (locB w) ++ L "|R:" ++ obs (rem w)) :: do_ops w rest
  | XOp o :: rest =>
      let '(r, w') := do_op w o in
      (show_res o r ++ L "|A:" ++ obs (locA w') ++ L "|B:" ++ obs (locB w') ++ L "|R:" ++ obs (rem w'))
        :: do_ops w' rest
  end.

(* ---- Layer 1 *)
Definition show_state (nthreads : nat) (st : state) : str :=
  let ts := seq 0 nthreads in
  let tmps := length (filter (fun t => match tmp st t with Some _ => true | None => false end) ts) in
  let deads := filter (dead st) ts in
  obs (vis st) ++ L "|tmp=" ++ dec tmps ++ L "|dead=" ++ catmap (L ".") dec deads.

Definition do_steps (opss : list (list op)) (sch : list nat) (fl : list bool) : str :=
  let il := merge_by sch (per_target_lists opss) in
  let nt := length opss in
  tabs (map (fun i => show_state nt (run_store (boot []) (firstn i il) fl)) (seq 0 (S (length il)))).

Definition do_guard (l r : list str) : str :=
  let mk := map (fun k => ((PCas, k), @nil ascii)) in
  let w0 := empty_world [] [] in
  let w := mkW (mk l) (locB w0) (mk r) (wmemo w0) (wstored w0) (rfl w0) (lfl w0) in
  if local_sub_remote w MA then L "true" else L "false".

Definition run_case (c : case) : str :=
  match c with
  | CCase rf lf ops => tabs (do_ops (empty_world rf lf) ops)
  | CSteps opss sch fl => do_steps opss sch fl
  | CGuard l r => do_guard l r
  end.
