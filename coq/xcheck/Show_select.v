(* Show_select.v -- Gallina mirror of ocaml/select/driver.ml (engine `select`: Graph.v + Select.v; C12, C19, C20).
   The configuration arrives with its patterns as raw command line strings, parsed here by
   Label.parse_patterns_or_all exactly as the driver does with the extracted function.
   Not part of the development; definitions only. *)
From Coq Require Import String.   (* first, so that the List names win *)
From Grog Require Import Str Label Graph Select.
From GrogX Require Import XSupport.

Record rawcfg := mkRaw {
  rcur : str; rpats : list str; rtags : list str; rexcl : list str; rtype : tsel; rplat : str; rall : bool }.

Inductive case :=
| CSelect (ns : list node) (g : graph) (c : rawcfg)
| CSelectSpec (ns : list node) (g : graph) (c : rawcfg)
| CSelCost (ns : list node) (g : graph) (c : rawcfg)
| CRoots (ns : list node) (g : graph) (c : rawcfg)
| CList (ns : list node) (g : graph) (c : rawcfg)
| CAncestors (g : graph) (n : nat)
| CDescendants (g : graph) (n : nat)
| CAncestorsPaths (g : graph) (n : nat)
| CDescendantsPaths (g : graph) (n : nat)
| CDirect (g : graph) (n : nat)
| CDeps (ns : list node) (g : graph) (c : rawcfg) (n : nat) (t : bool)
| CRdeps (ns : list node) (g : graph) (c : rawcfg) (n : nat) (t : bool)
| COwners (ns : list node) (files : list str)
| COwnersVerbatim (ns : list node) (files : list str)
| CListq (ns : list node) (g : graph) (c : rawcfg)
| CCost (g : graph) (t b : nat)
| CCostv (g : graph) (t b : nat)
| CSets (g : graph) (t b : nat)
| CLadder (w d : nat)
| CChain (n : nat).

Definition with_cfg (r : rawcfg) (f : config -> str) : str :=
  match parse_patterns_or_all (rcur r) (rpats r) with
  | None => L "pattern-error"
  | Some ps => f (mkCfg ps (rtags r) (rexcl r) (rtype r) (rplat r) (rall r))
  end.

Definition idxs (l : list nat) : str := catmap (L ",") dec l.
Definition sorted_idxs (l : list nat) : str := idxs (sort_nats l).
Definition lines (l : list str) : str := catmap (L ",") hex l.

Definition show_graph (g : graph) : str :=
  catmap (L ",") (fun ds => match ds with [] => L "-" | _ => catmap (L ".") dec ds end) g.

(* entries into the recursive function of the three traversals and the exact cost formula, on the returned lists *)
Definition calls (g : graph) (t b : nat) : str :=
  let deg (next : nat -> list nat) v := 1 + length (next v) in
  let wsum next l := fold_left (fun acc v => acc + deg next v) l 0 in
  let sv := fst (select_visited g t) in
  let av := fst (ancestors_visited g t) in
  let dv := fst (descendants_visited g b) in
  tabs [L "calls"; dec (length sv); dec (1 + length av); dec (1 + length dv); L "formula";
        dec (wsum (deps g) sv); dec (deg (deps g) t + wsum (deps g) av);
        dec (deg (dependants g) b + wsum (dependants g) dv)].

Definition show_sel (extra : config -> list nat -> list str) (c : config) (r : sel_result) : str :=
  match r with
  | PlatformError => L "platform-error"
  | Selected s => tabs (L "sel" :: idxs s :: extra c s)
  end.

Definition run_case (c : case) : str :=
  match c with
  | CSelect ns g r => with_cfg r (fun c =>
      show_sel (fun c s => [dec (selected_count ns s); dec (platform_skipped c ns g)]) c (select_for_build c ns g))
  | CSelectSpec ns g r => with_cfg r (fun c =>
      show_sel (fun _ s => [dec (selected_count ns s)]) c (select_for_build_spec c ns g))
  | CSelCost ns g r => with_cfg r (fun c =>
      let '(res, calls) := select_marks_c c ns g in
      tabs [L "selcost"; match res with None => L "platform-error" | Some _ => L "ok" end; dec calls])
  | CRoots ns g r => with_cfg r (fun c => tabs [L "roots"; idxs (roots c ns g); idxs (spec_roots c ns g)])
  | CList ns g r => with_cfg r (fun c => tabs [L "list"; idxs (select_targets c ns g)])
  | CAncestors g n => let l := fst (ancestors_visited g n) in tabs [L "ms"; sorted_idxs l; L "ord"; idxs l]
  | CDescendants g n => tabs [L "ms"; sorted_idxs (fst (descendants_visited g n))]
  | CAncestorsPaths g n => tabs [L "ms"; sorted_idxs (ancestors_paths g n)]
  | CDescendantsPaths g n => tabs [L "ms"; sorted_idxs (descendants_paths g n)]
  | CDirect g n => tabs [L "direct"; sorted_idxs (deps g n); sorted_idxs (dependants g n)]
  | CDeps ns g r n t => with_cfg r (fun c =>
      tabs [L "lines"; lines (deps_query c ns g n t); lines (deps_query_dedup c ns g n t)])
  | CRdeps ns g r n t => with_cfg r (fun c =>
      tabs [L "lines"; lines (rdeps_query c ns g n t); lines (rdeps_query_dedup c ns g n t)])
  | COwners ns files => tabs [L "lines"; lines (owners ns files)]
  | COwnersVerbatim ns files => tabs [L "lines"; lines (owners_verbatim ns files)]
  | CListq ns g r => with_cfg r (fun c => tabs [L "lines"; lines (list_query c ns g)])
  | CCost g t b =>
      if negb (topob g && wf_graphb g) then L "not-topological" else
      tabs [L "cost"; L "paths"; dec (select_paths_cost g t); dec (ancestors_paths_cost g t);
            dec (descendants_paths_cost g b); L "visited"; dec (select_visited_cost g t);
            dec (ancestors_visited_cost g t); dec (descendants_visited_cost g b);
            L "VE"; dec (length g); dec (edges g); calls g t b]
  | CCostv g t b =>
      if negb (topob g && wf_graphb g) then L "not-topological" else
      tabs [L "costv"; L "visited"; dec (select_visited_cost g t); dec (ancestors_visited_cost g t);
            dec (descendants_visited_cost g b); L "VE"; dec (length g); dec (edges g); calls g t b]
  | CSets g t b =>
      tabs [L "sets"; sorted_idxs (ancestors_set g t); sorted_idxs (fst (ancestors_visited g t));
            sorted_idxs (descendants_set g b); sorted_idxs (fst (descendants_visited g b))]
  | CLadder w d => tabs [L "graph"; show_graph (ladder w d)]
  | CChain n => tabs [L "graph"; show_graph (chain n)]
  end.
