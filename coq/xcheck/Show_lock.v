(* Show_lock.v -- Gallina mirror of ocaml/lock/driver.ml (engine `lock`: Lock.v; C10): the `run` and
   `witness` commands (the `explore` command is a search written in OCaml over the extracted [step];
   its schedules come back through `run`).
   Not part of the development; definitions only. *)
From Coq Require Import String.   (* first, so that the List names win *)
From Grog Require Import Str Lock.
From GrogX Require Import XSupport.

(* a schedule token: an explicit event, or "s<p>" = whichever non-crash event p can take now
   (raw = the token's text, printed when p has nothing to do) *)
Inductive tok := TEv (e : event) | TNext (p : pid) (raw : str).

Inductive case :=
| CRun (n : nat) (dead : list pid) (lk : option (option pid)) (toks : list tok)
| CWitness1
| CWitness2.

Definition show_pc (c : pc) : str :=
  match c with
  | Idle => L "I"
  | WantRead => L "R"
  | WantProbe i q => L "P" ++ dec i ++ L "." ++ dec q
  | WantRemove None => L "X-"
  | WantRemove (Some i) => L "X" ++ dec i
  | Waiting => L "W"
  | GaveUp => L "G"
  | Held i => L "H" ++ dec i
  | Done => L "D"
  | Dead => L "Z"
  end.

Definition show_lock (s : state) : str :=
  match lock s with
  | None => L "absent"
  | Some i => match content s i with
              | None => L "blank:" ++ dec i
              | Some q => L "pid" ++ dec q ++ L ":" ++ dec i
              end
  end.

Definition holders (n : nat) (s : state) : list nat := filter (holds_b s) (seq 0 n).

Definition show_state (n : nat) (s : state) : str :=
  let hs := holders n s in
  show_lock s ++ L "/" ++ catmap (L ",") (fun p => show_pc (pcs s p)) (seq 0 n) ++ L "/"
  ++ match hs with [] => L "-" | _ => catmap (L "+") dec hs end.

Definition show_event (e : event) : str :=
  match e with
  | TryCreate p => L "c" ++ dec p | Read p => L "r" ++ dec p
  | Probe p => L "p" ++ dec p | Remove p => L "x" ++ dec p | Wake p => L "k" ++ dec p
  | Unlock p => L "u" ++ dec p | Crash p => L "!" ++ dec p | Cancel p => L "a" ++ dec p
  end.

Definition guard_flag (s : state) (e : event) : str :=
  if remove_of_unexamined_inode s e then L "u" else L "-".

Definition disabled (n : nat) (what : str) (s : state) : str := what ++ L "/0/" ++ show_state n s ++ L "/-".

Fixpoint run_toks (n : nat) (s : state) (toks : list tok) : list str :=
  match toks with
  | [] => []
  | t :: rest =>
      let oe := match t with TEv e => Some e | TNext p _ => next_event s p end in
      match oe with
      | None => disabled n (match t with TNext _ raw => raw | TEv e => show_event e end) s :: run_toks n s rest
      | Some e =>
          match step s e with
          | None => disabled n (show_event e) s :: run_toks n s rest
          | Some s' =>
              (show_event e ++ L "/1/" ++ show_state n s' ++ L "/" ++ guard_flag s e) :: run_toks n s' rest
          end
      end
  end.

Definition run_case (c : case) : str :=
  match c with
  | CRun n dead lk toks =>
      let s := mk_init dead lk in
      tabs [L "run"; cat (L ";") ((L "init/1/" ++ show_state n s ++ L "/-") :: run_toks n s toks)]
  | CWitness1 => catmap (L ",") show_event w1_sched
  | CWitness2 => catmap (L ",") show_event w2_sched
  end.
