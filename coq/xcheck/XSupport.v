(* XSupport.v -- helpers shared by the extraction cross-check (tools/xcheck.py).
   NOT part of the development (not in _CoqProject, no theorem depends on it): the files under
   coq/xcheck re-implement, in Gallina, the result PRINTERS of the OCaml drivers (ocaml/<engine>/driver.ml)
   so that the text a driver prints for a case can be compared with what the model computes for the same
   case inside Coq (vm_compute).  Definitions only, no proofs, no axioms. *)
From Coq Require Import NArith Uint63.
From Coq Require Import String.   (* before Str: List.length, ++ on lists etc. must win *)
From Grog Require Import Str.

(* string literals of the generated case files: [L "printable ascii"] or [bytes [104; 105]] *)
Definition L (s : String.string) : str := lit s.
Arguments L s%string.
Definition bytes (l : list N) : str := map ascii_of_N l.
Arguments bytes l%N.

(* long strings: seven bytes per primitive 63-bit integer literal, least significant byte first, closed by a
   byte 1 (so that trailing zero bytes survive): "ab" = 0x016261.  Coq's front end spends 30-50 us on every
   token of a literal whatever its kind, so this is what keeps a cases.v of a megabyte of strings in budget. *)
Definition ascii_of_int (x : int) : ascii :=
  Ascii (bit x 0) (bit x 1) (bit x 2) (bit x 3) (bit x 4) (bit x 5) (bit x 6) (bit x 7).
Fixpoint unpack1 (fuel : nat) (x : int) : str :=
  match fuel with
  | 0 => []
  | S f => if (x =? 1)%uint63 then [] else ascii_of_int x :: unpack1 f (x >> 8)%uint63
  end.
Definition P (l : list int) : str := flat_map (unpack1 8) l.

Definition tab : str := ["009"%char].
Definition tabs (l : list str) : str := join tab l.

Definition b01 (b : bool) : str := if b then L "1" else L "0".

(* ---- Wire.hex : "-" for the empty string, two lower-case digits per byte otherwise *)
Definition nib (b3 b2 b1 b0 : bool) : ascii :=
  match b3, b2, b1, b0 with
  | false, false, false, false => "0" | false, false, false, true => "1"
  | false, false, true, false => "2"  | false, false, true, true => "3"
  | false, true, false, false => "4"  | false, true, false, true => "5"
  | false, true, true, false => "6"   | false, true, true, true => "7"
  | true, false, false, false => "8"  | true, false, false, true => "9"
  | true, false, true, false => "a"   | true, false, true, true => "b"
  | true, true, false, false => "c"   | true, true, false, true => "d"
  | true, true, true, false => "e"    | true, true, true, true => "f"
  end%char.
Fixpoint hex_raw (s : str) : str :=
  match s with
  | [] => []
  | Ascii b0 b1 b2 b3 b4 b5 b6 b7 :: s' => nib b7 b6 b5 b4 :: nib b3 b2 b1 b0 :: hex_raw s'
  end.
Definition hex (s : str) : str := match s with [] => L "-" | _ => hex_raw s end.

(* ---- string_of_int on naturals *)
Fixpoint dec_aux (fuel n : nat) (acc : str) : str :=
  match fuel with
  | 0 => acc
  | S f => let acc' := ascii_of_nat (48 + n mod 10) :: acc in
           if n / 10 =? 0 then acc' else dec_aux f (n / 10) acc'
  end.
Definition dec (n : nat) : str := dec_aux (S n) n [].

(* ---- String.concat sep (List.map f l) *)
Definition cat (sep : str) (l : list str) : str := join sep l.
Definition catmap {A} (sep : str) (f : A -> str) (l : list A) : str := join sep (map f l).

(* ---- List.sort compare / List.sort_uniq compare on strings (OCaml compares strings bytewise,
   a proper prefix first) and on naturals *)
Fixpoint uniq_sorted (l : list str) : list str :=
  match l with
  | x :: (y :: _) as l' => if str_eqb x y then uniq_sorted l' else x :: uniq_sorted l'
  | _ => l
  end.
Definition sort_uniq_strs (l : list str) : list str := uniq_sorted (sort_strs l).

Fixpoint insert_nat (x : nat) (l : list nat) : list nat :=
  match l with
  | [] => [x]
  | y :: l' => if x <=? y then x :: l else y :: insert_nat x l'
  end.
Definition sort_nats (l : list nat) : list nat := fold_right insert_nat [] l.

(* pairs of strings, compared component-wise (List.sort compare on (string * string)) *)
Definition pair_leb (a b : str * str) : bool :=
  if str_ltb (fst a) (fst b) then true
  else if str_ltb (fst b) (fst a) then false
  else str_leb (snd a) (snd b).
Fixpoint insert_pair (x : str * str) (l : list (str * str)) : list (str * str) :=
  match l with
  | [] => [x]
  | y :: l' => if pair_leb x y then x :: l else y :: insert_pair x l'
  end.
Definition sort_pairs (l : list (str * str)) : list (str * str) := fold_right insert_pair [] l.

(* ---- the comparison: indices of the cases whose computed text differs from the expected text *)
Fixpoint mismatches_from {A} (run : A -> str) (i : nat) (cases : list (A * str)) : list nat :=
  match cases with
  | [] => []
  | (c, want) :: rest =>
      if str_eqb (run c) want then mismatches_from run (S i) rest
      else i :: mismatches_from run (S i) rest
  end.
Definition mismatches {A} (run : A -> str) (cases : list (A * str)) : list nat :=
  mismatches_from run 0 cases.

(* an injective, '_'-free, self-delimiting stand-in for the digest function (the OCaml drivers intern
   strings in a hash table instead; the observations never contain digests, only their equalities) *)
Definition Hx (s : str) : str := hex_raw s ++ L "~".
