(* XSupport.v -- helpers shared by the extraction cross-check (tools/xcheck.py).
   NOT part of the development (not in _CoqProject, no theorem depends on it): the files under
   coq/xcheck re-implement, in Gallina, the result PRINTERS of the OCaml drivers (ocaml/<engine>/driver.ml)
   so that the text a driver prints for a case can be compared with what the model computes for the same
   case inside Coq (vm_compute).  Definitions only, no proofs, no axioms. *)
From Coq Require Import NArith.
From Grog Require Import Str.

(* string literals of the generated case files: [L "printable ascii"] or [bytes [104; 105]] *)
Definition L (s : String.string) : str := lit s.
Arguments L s%string.
Definition bytes (l : list N) : str := map ascii_of_N l.
Arguments bytes l%N.

Definition tab : str := ["009"%char].
Definition tabs (l : list str) : str := join tab l.

Definition b01 (b : bool) : str := if b then L "1" else L "0".

(* ---- Wire.hex : "-" for the empty string, two lower-case digits per byte otherwise *)
Definition hexdigit (n : nat) : ascii :=
  nth n ["0";"1";"2";"3";"4";"5";"6";"7";"8";"9";"a";"b";"c";"d";"e";"f"]%char "?"%char.
Fixpoint hex_raw (s : str) : str :=
  match s with
  | [] => []
  | c :: s' => let n := nat_of_ascii c in hexdigit (n / 16) :: hexdigit (n mod 16) :: hex_raw s'
  end.
Definition hex (s : str) : str := match s with [] => L "-" | _ => hex_raw s end.

(* ---- string_of_int on naturals *)
Fixpoint dec_aux (fuel n : nat) (acc : str) : str :=
  match fuel with
  | 0 => acc
  | S f => let acc' := ascii_of_nat (48 + n mod 10) :: acc in
           if n / 10 =? 0 then acc' else dec_aux f (n / 10) acc'
  end.
Definition dec (n : nat) : str := dec_aux (S n) n [].

(* ---- String.concat sep (List.map f l) *)
Definition cat (sep : str) (l : list str) : str := join sep l.
Definition catmap {A} (sep : str) (f : A -> str) (l : list A) : str := join sep (map f l).

(* ---- List.sort compare / List.sort_uniq compare on strings (OCaml compares strings bytewise,
   a proper prefix first) and on naturals *)
Fixpoint uniq_sorted (l : list str) : list str :=
  match l with
  | x :: (y :: _) as l' => if str_eqb x y then uniq_sorted l' else x :: uniq_sorted l'
  | _ => l
  end.
Definition sort_uniq_strs (l : list str) : list str := uniq_sorted (sort_strs l).

Fixpoint insert_nat (x : nat) (l : list nat) : list nat :=
  match l with
  | [] => [x]
  | y :: l' => if x <=? y then x :: l else y :: insert_nat x l'
  end.
Definition sort_nats (l : list nat) : list nat := fold_right insert_nat [] l.

(* pairs of strings, compared component-wise (List.sort compare on (string * string)) *)
Definition pair_leb (a b : str * str) : bool :=
  if str_ltb (fst a) (fst b) then true
  else if str_ltb (fst b) (fst a) then false
  else str_leb (snd a) (snd b).
Fixpoint insert_pair (x : str * str) (l : list (str * str)) : list (str * str) :=
  match l with
  | [] => [x]
  | y :: l' => if pair_leb x y then x :: l else y :: insert_pair x l'
  end.
Definition sort_pairs (l : list (str * str)) : list (str * str) := fold_right insert_pair [] l.

(* ---- the comparison: indices of the cases whose computed text differs from the expected text *)
Fixpoint mismatches_from {A} (run : A -> str) (i : nat) (cases : list (A * str)) : list nat :=
  match cases with
  | [] => []
  | (c, want) :: rest =>
      if str_eqb (run c) want then mismatches_from run (S i) rest
      else i :: mismatches_from run (S i) rest
  end.
Definition mismatches {A} (run : A -> str) (cases : list (A * str)) : list nat :=
  mismatches_from run 0 cases.

(* an injective, '_'-free, self-delimiting stand-in for the digest function (the OCaml drivers intern
   strings in a hash table instead; the observations never contain digests, only their equalities) *)
Definition Hx (s : str) : str := hex_raw s ++ L "~".
