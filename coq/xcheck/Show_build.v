(* Show_build.v -- Gallina mirror of ocaml/build/driver.ml (engine `build`: Build.v; C01, C02, C05, C13, C14, C15).
   A case is one history (the list of ops the driver parses from its token stream); the answer is the
   driver's line: the builds of the log separated by ';', each
     ok '|' executed labels '|' status letters '|' workspace (sorted by path),
   followed by "#k=" and the boolean structural guard of KEYFAITH.v on the visited snapshots.
   The driver's digest function interns byte strings in a hash table (an injective, '_'-free, fixed-length
   function); here the digest is XSupport.Hx (injective, '_'-free, self-delimiting).  The observation contains
   no digest, only what the equalities between digests decide, so the two must agree.
   Not part of the development; definitions only. *)
From Coq Require Import String.   (* first, so that the List names win *)
From Grog Require Import Str Label HashKey Build Build_ideal Build_keyfaith.
From GrogX Require Import XSupport.

Definition case := list op.

Definition show_state (s : pstate) : str :=
  match s with
  | PAbsent => L "A"
  | PNoParent => L "N"
  | PWrongKind => L "W"
  | PFile c => L "F" ++ hex c
  end.

Definition show_status (s : tstatus) : str :=
  match s with
  | TNone => L "-"
  | THit => L "h"
  | TExecuted => L "e"
  | TFailed => L "f"
  | TSkipped => L "s"
  end.

Definition show_build (r : build_result) : str :=
  let ex := catmap (L ",") (fun l => hex (print_label l)) (br_exec r) in
  let st := concat (map show_status (br_status r)) in
  let ws := sort_pairs (map (fun ps => (fst ps, show_state (snd ps))) (w_ws (br_world r))) in
  let ws := catmap (L ",") (fun ps => hex (fst ps) ++ L ":" ++ snd ps) ws in
  b01 (br_ok r) ++ L "|" ++ ex ++ L "|" ++ st ++ L "|" ++ ws.

Definition run_case (ops : case) : str :=
  catmap (L ";") show_build (sy_log (run_history Hx ops)) ++ L "#k=" ++ b01 (snaps_okb (snaps ops)).
