(* Show_glob.v -- Gallina mirror of ocaml/glob/driver.ml (engine `glob`: Glob.v; glob stage of C01).
   tools/xcheck.py decodes the hex fields and the comma separated lists (Wire.unhex / Wire.split_comma) into
   [str] / [list str]; what is mirrored here is the command dispatch and the answer printer.
   Not part of the development; definitions only. *)
From Coq Require Import String.   (* first, so that the List names win *)
From Grog Require Import Str Glob.
From GrogX Require Import XSupport.

Inductive case :=
| CIsGlob (s : str)                              (* isglob <hex> *)
| CMatch (p s : str)                             (* match <hexpattern> <hexpath> *)
| CResolve (fs ins exs : list str).              (* resolve <files> <inputs> <excludes> *)

(* let b x = if x then "true" else "false" *)
Definition show_bool (x : bool) : str := if x then L "true" else L "false".

(* do_match: uncovered | bad | true|false <tab> meta|lit *)
Definition do_match (p s : str) : str :=
  if negb (covered p) then L "uncovered"
  else match parse p with
       | None => L "bad"
       | Some pt => show_bool (matches pt s) ++ (if has_meta pt then tab ++ L "meta" else tab ++ L "lit")
       end.

(* do_resolve: uncovered | err | ok <tab> hex,hex,... *)
Definition do_resolve (fs ins exs : list str) : str :=
  if negb (forallb (fun e => negb (is_glob e) || covered e) ins && forallb covered exs) then L "uncovered"
  else if negb (resolve_ok ins exs) then L "err"
  else L "ok" ++ tab ++ catmap (L ",") hex (resolve_inputs fs ins exs).

Definition run_case (c : case) : str :=
  match c with
  | CIsGlob s => show_bool (is_glob s)
  | CMatch p s => do_match p s
  | CResolve fs ins exs => do_resolve fs ins exs
  end.
