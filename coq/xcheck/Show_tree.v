(* Show_tree.v -- Gallina mirror of ocaml/tree/driver.ml (engine `tree`: Tree.v; C06, restore part of C04).
   tools/xcheck.py parses the tree / destination tokens (and the octal modes) into [node] / [dest_state].
   Not part of the development; definitions only. *)
From Coq Require Import String.   (* first, so that the List names win *)
From Grog Require Import Str Tree.
From GrogX Require Import XSupport.

Inductive case :=
| CDir (t : node) (d : dest_state) (missing : list (option str))   (* None = the tree blob, Some c = the blob of content c *)
| CFile (c : str) (x : bool) (d : dest_state) (missing : bool).

(* pre-order listing; the root has path "-" (so has an entry whose path is empty) *)
Fixpoint listing (path : str) (n : node) : list str :=
  let p := match path with [] => L "-" | _ => hex path end in
  match n with
  | File c x => [p ++ L ":f:" ++ b01 x ++ L ":" ++ hex c]
  | Link t => [p ++ L ":l:" ++ hex t]
  | Dir es =>
      (p ++ L ":d") ::
      (fix go (es : list (str * node)) : list str :=
         match es with
         | [] => []
         | (k, e) :: r => listing (match path with [] => k | _ => path ++ L "/" ++ k end) e ++ go r
         end) es
  end.

Definition show (n : node) : str := cat (L ",") (listing [] n).

Definition show_result (r : result node) : str * str :=
  match r with
  | Done n => (L "ok", show n)
  | Error => (L "error", L "-")
  | Stuck => (L "hang", L "-")
  end.

Definition do_dir (t : node) (d : dest_state) (missing : list (option str)) : str :=
  let wf := b01 (wf_treeb t) in
  let dp := dec (depth t) in
  match x_write_tree t [] with
  | None => tabs [L "werror"; L "-"; L "-"; L "wf=" ++ wf ++ L ";failed=-;cap=0;depth=" ++ dp]
  | Some (st, r) =>
      let st := fold_left (fun st m => match m with
                                       | None => cas_del r st
                                       | Some c => cas_del (x_file_key c) st
                                       end) missing st in
      let m := x_tree_msg_of t in
      let failed := match x_load_failures m st with None => L "-" | Some k => dec k end in
      let '(cls, lst) := show_result (x_load_tree r st d) in
      tabs [L "ok"; cls; lst;
            L "wf=" ++ wf ++ L ";failed=" ++ failed ++ L ";cap=" ++ dec err_chan_cap ++ L ";depth=" ++ dp]
  end.

Definition do_file (c : str) (x : bool) (d : dest_state) (missing : bool) : str :=
  let '(st, fm) := x_file_write c x [] in
  let st := if missing then cas_del (d_hash (fm_digest fm)) st else st in
  let '(cls, lst) := show_result (x_file_load fm st d) in
  tabs [cls; lst;
        L "prior_exec=" ++ b01 (file_restore_exec d) ++ L ";exec_recorded=" ++ b01 (fm_exec fm)].

Definition run_case (c : case) : str :=
  match c with
  | CDir t d missing => do_dir t d missing
  | CFile c x d missing => do_file c x d missing
  end.
