(* Show_analysis.v -- Gallina mirror of ocaml/analysis/driver.ml (engine `analysis`: Path.v + Analysis.v; C11).
   Not part of the development; definitions only. *)
From Coq Require Import String.   (* first, so that the List names win *)
From Grog Require Import Str Label Path Analysis.
From GrogX Require Import XSupport.

Inductive case :=
| CGraph (rootc : list str) (g : nodes)
| CClean (p : str)
| CJoin (a c : str)
| CEsc (p : str)
| CWithin (p d : str)
| COutpath (rootc : list str) (p i : str)
| CWs (rootc : list str) (p i : str).

Definition cls_name (c : cls) : str :=
  match c with
  | Dup => L "dup" | Missing => L "missing" | SelfLoop => L "self" | Cycle => L "cycle" | CycleFuel => L "fuel"
  | Conflict => L "conflict" | InputPath => L "input-path" | OutputPath => L "output-path"
  | TestNoCmd => L "test-no-command" | DepRule => L "deprule"
  end.

(* show sep cs: None for [], else the sorted, de-duplicated class names joined by sep *)
Definition show (sep : str) (cs : list cls) : option str :=
  match cs with
  | [] => None
  | _ => Some (cat sep (sort_uniq_strs (map cls_name cs)))
  end.

Definition do_graph (rc : list str) (g : nodes) : str :=
  match classes rc g with
  | [Dup] => L "dup"
  | _ =>
      let gc := match show (L "+") (graph_classes rc g) with None => L "ok" | Some s => s end in
      let cc := match show (L ",") (constraint_classes rc g) with None => L "-" | Some s => s end in
      let v := match validate rc g with Accept => L "accept" | Reject _ => L "reject" end in
      tabs [L "graph=" ++ gc; L "cons=" ++ cc; v]
  end.

Definition run_case (c : case) : str :=
  match c with
  | CGraph rc g => do_graph rc g
  | CClean p => hex (clean p)
  | CJoin a c => hex (join_path [a; c])
  | CEsc p => b01 (tries_to_escape p)
  | CWithin p d => b01 (path_within p d)
  | COutpath rc p i => hex (clean_output_path rc p i)
  | CWs rc p i => b01 (is_within_workspace rc p i)
  end.
