(* Show_walker.v -- Gallina mirror of ocaml/walker/driver.ml (engine `walker`: Walker.v; C03, C04, C05, C18):
   graph / ev / state / enabled / obs (the driver is a session: a case carries the graph line and the state-changing
   commands before it), replay, and walk (the event sequence the OCaml random walk chose is re-run here: every event
   must be accepted and the final state must print the same).  `explore` is a search written in OCaml: no mirror.
   Not part of the development; definitions only. *)
From Coq Require Import String.   (* first, so that the List names win *)
From Grog Require Import Str Graph Walker.
From GrogX Require Import XSupport.

Inductive wcmd :=
| KGraph | KState | KEnabled
| KEv (e : event)
| KObs (sS sEnq sB1 sB2 sOk sFail : list nat) (oret : bool) (returned : option (list nat * list nat)).

Inductive case :=
| CSess (w : nat) (f : bool) (g : graph) (pre : list wcmd) (last : wcmd)
| CReplay (w : nat) (f : bool) (g : graph) (evs : list (event * str))   (* the event and its text in the input *)
| CWalk (w : nat) (f : bool) (g : graph) (evs : list event).

(* ---- sets of node numbers: sorted lists without repetition (Set.Make(Int)) *)
Fixpoint uniq_nat (l : list nat) : list nat :=
  match l with
  | x :: (y :: _) as l' => if Nat.eqb x y then uniq_nat l' else x :: uniq_nat l'
  | _ => l
  end.
Definition nset (l : list nat) : list nat := uniq_nat (sort_nats l).
Fixpoint nats_eqb (a b : list nat) : bool :=
  match a, b with
  | [], [] => true
  | x :: a', y :: b' => Nat.eqb x y && nats_eqb a' b'
  | _, _ => false
  end.
Definition show_set (l : list nat) : str := catmap (L ",") dec l.
Definition bool_s (b : bool) : str := if b then L "true" else L "false".

Section Ctx.
Variables (g : graph) (c : config).
Let n := size g.

(* the driver re-tabulates the function-typed components after every step *)
Definition tabulate {A} (f : nat -> A) : nat -> A :=
  let l := map f (seq 0 n) in let d := f n in fun k => nth k l d.
Definition norm (s : state) : state :=
  mkState (tabulate (st s)) (tabulate (cp s)) (tabulate (cmd s)) (fft s) (ctxc s) (dead s) (ret s)
          (tabulate (snap s)).
Definition apply (s : state) (e : event) : option state := option_map norm (step g c s e).

Definition where_ (p : nat -> bool) : list nat := filter p (seq 0 n).
Definition nodes_where (p : nat -> bool) : str := show_set (where_ p).

Definition late (s : state) : bool :=
  ret s && existsb (fun i => negb (entry_eqb (snap s i) (entry_of (st s i)))) (seq 0 n).

Definition show (s : state) : str :=
  let by_ x := nodes_where (fun i => status_eqb (st s i) x) in
  L "P=" ++ by_ Parked ++ L " R=" ++ by_ Ready ++ L " Q=" ++ by_ Queued ++ L " X=" ++ by_ Running
  ++ L " O=" ++ by_ Ok ++ L " F=" ++ by_ Failed ++ L " S=" ++ by_ Skipped ++ L " A=" ++ by_ Aborted
  ++ L " cp=" ++ nodes_where (cp s) ++ L " cmd=" ++ nodes_where (cmd s)
  ++ L " fft=" ++ b01 (fft s) ++ L " ctx=" ++ b01 (ctxc s) ++ L " dead=" ++ dec (dead s) ++ L " ret=" ++ b01 (ret s)
  ++ L " rok=" ++ nodes_where (fun i => entry_eqb (snap s i) Success)
  ++ L " rfail=" ++ nodes_where (fun i => entry_eqb (snap s i) Failure)
  ++ L " late=" ++ b01 (late s) ++ L " run=" ++ dec (running g s) ++ L " term=" ++ b01 (terminalb g c s).

Definition ev_name (e : event) : str :=
  match e with
  | Start k => L "Start " ++ dec k | CancelRecv k => L "CancelRecv " ++ dec k | Pick k => L "Pick " ++ dec k
  | CmdStart k => L "CmdStart " ++ dec k | Reject k => L "Reject " ++ dec k | FinishOk k => L "FinishOk " ++ dec k
  | FinishFail k => L "FinishFail " ++ dec k | FinishCancelled k => L "FinishCancelled " ++ dec k
  | CtxCancel => L "CtxCancel" | WorkerExit => L "WorkerExit" | WalkReturn => L "WalkReturn"
  end.

(* ---- observe: explain a quiescent observation by internal events, then compare both ways *)
Section Observe.
Variables (sS sEnq sB1 sB2 sOk sFail : list nat) (oret : bool) (returned : option (list nat * list nat)).
Let sE := nset (sB1 ++ sB2).
Definition to_return (s : state) : bool := oret && negb (ret s).
Definition unseen (i : nat) : bool :=
  match returned with Some (_, rFail) => negb (mem_nat i rFail) | None => false end.
Definition is_st (s : state) (x : status) (i : nat) : bool := status_eqb (st s i) x.
Definition own_is_returned (s : state) : bool :=
  match returned with
  | Some (rOk, rFail) => nats_eqb (nset rOk) (where_ (is_st s Ok)) && nats_eqb (nset rFail) (where_ (is_st s Failed))
  | None => true
  end.
Definition try (sp : state * bool) (e : event) : state * bool :=
  match apply (fst sp) e with Some s' => (s', true) | None => sp end.

Definition visit (sp : state * bool) (i : nat) : state * bool :=
  let s := fst sp in
  let x := st s i in
  if status_eqb x Ready && mem_nat i sS then try sp (Start i)
  else if (status_eqb x Parked || status_eqb x Ready) && negb (mem_nat i sS) && cp s i then try sp (CancelRecv i)
  else if status_eqb x Queued && mem_nat i sFail && negb (to_return s && unseen i) then try sp (Reject i)
  else if status_eqb x Queued && mem_nat i sE then try sp (Pick i)
  else sp.

Definition pass (s : state) : state * bool :=
  let sp := fold_left visit (seq 0 n) (s, false) in
  let sp := if to_return (fst sp) && own_is_returned (fst sp) then try sp WalkReturn else sp in
  if negb (snd sp) && to_return (fst sp) then try sp WalkReturn else sp.

Fixpoint explain (fuel : nat) (s : state) : state :=
  match fuel with
  | 0 => s
  | S f => let '(s', progress) := pass s in if progress then explain f s' else s'
  end.

Definition cmp_ (name : str) (real model : list nat) : list str :=
  if nats_eqb (nset real) model then []
  else [name ++ L ": real={" ++ show_set (nset real) ++ L "} model={" ++ show_set model ++ L "}"].

Definition observe (s0 : state) : state * str :=
  let s := explain (S (S (mu g c s0))) s0 in       (* every event lowers mu: more passes cannot happen *)
  let entered i := match st s i with Queued | Running | Ok | Failed | Aborted => true | _ => false end in
  let why :=
    cmp_ (L "callback-entered") sS (where_ entered)
    ++ cmp_ (L "in-task") sE (where_ (is_st s Running))
    ++ cmp_ (L "command-started-and-running") sB2 (where_ (fun i => is_st s Running i && cmd s i))
    ++ cmp_ (L "completed-ok") sOk (where_ (is_st s Ok))
    ++ cmp_ (L "completed-failed") sFail (where_ (is_st s Failed))
    ++ (if Bool.eqb oret (ret s) then []
        else [L "walk-returned: real=" ++ bool_s oret ++ L " model=" ++ bool_s (ret s)])
    ++ match returned with
       | Some (rOk, rFail) =>
           cmp_ (L "returned-map-ok") rOk (where_ (fun i => entry_eqb (snap s i) Success))
           ++ cmp_ (L "returned-map-failed") rFail (where_ (fun i => entry_eqb (snap s i) Failure))
       | None => []
       end
    ++ flat_map (fun i =>
         if is_st s Ready i then [L "node " ++ dec i ++ L " is Ready in the model but its callback was not entered"]
         else if is_st s Queued i && mem_nat i sEnq && negb (closed s) && (running g s <? W c)
         then [L "node " ++ dec i ++ L " is enqueued, a worker is idle, and it was not picked"] else []) (seq 0 n)
    ++ (if negb (ret s) && enabledb g c s WalkReturn then [L "model enables WalkReturn but Walk has not returned"] else []) in
  (s, match why with
      | [] => L "ok " ++ show s
      | _ => L "BREAK " ++ cat (L "; ") why ++ L " | " ++ show s
      end).
End Observe.

Definition effect (s : state) (k : wcmd) : state :=
  match k with
  | KEv e => match apply s e with Some s' => s' | None => s end
  | KObs a b c1 d e f r m => fst (observe a b c1 d e f r m s)
  | _ => s
  end.

Definition answer (s : state) (k : wcmd) : str :=
  match k with
  | KGraph => L "graph " ++ dec n ++ L " topo=" ++ b01 (topob g) ++ L " wf=" ++ b01 (wf_graphb g) ++ L " " ++ show s
  | KState => show s
  | KEnabled => catmap (L ";") ev_name (enabled g c s)
  | KEv e => match apply s e with Some s' => L "ok " ++ show s' | None => L "rej " ++ show s end
  | KObs a b c1 d e f r m => snd (observe a b c1 d e f r m s)
  end.

Definition start : state := norm (init g).

Fixpoint replay (s : state) (evs : list (event * str)) : list str :=
  match evs with
  | [] => []
  | (e, txt) :: r =>
      match apply s e with
      | Some s' => (L "ok " ++ txt ++ L " -> " ++ show s') :: replay s' r
      | None => (L "rej " ++ txt ++ L " -> " ++ show s) :: replay s r
      end
  end.

Fixpoint run_all (s : state) (evs : list event) : option state :=
  match evs with
  | [] => Some s
  | e :: r => match apply s e with Some s' => run_all s' r | None => None end
  end.
End Ctx.

Definition run_case (k : case) : str :=
  match k with
  | CSess w f g pre last => let c := mkConfig w f in answer g c (fold_left (effect g c) pre (start g)) last
  | CReplay w f g evs => cat (L " | ") (replay g (mkConfig w f) (start g) evs)
  | CWalk w f g evs =>
      let c := mkConfig w f in
      match run_all g c (start g) evs with
      | Some s => L "walk " ++ dec (length evs) ++ L " " ++ catmap (L ";") (ev_name) evs ++ L " | " ++ show g c s
      | None => L "walk: an event of the OCaml walk is not enabled in Coq"
      end
  end.
