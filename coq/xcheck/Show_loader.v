(* Show_loader.v -- Gallina mirror of ocaml/loader/driver.ml (engine `loader`: Loader.v; C16): the commands
   scanmk, scansh, guardmk, enrich, merge, trim.  The oracle tables (YAML decoder, glob, duration parser) are
   association lists; the driver answers "driver-error" when a key is missing (tools/xcheck.py leaves such a case out),
   here a missing key reads as an error of the oracle.  `blocksmk`/`blockssh` log the calls of the decoder through a
   side effect and have no mirror.
   Not part of the development; definitions only. *)
From Coq Require Import String.   (* first, so that the List names win *)
From Grog Require Import Str Label Loader.
From GrogX Require Import XSupport.

Definition table (A : Type) := list (str * option A).
Fixpoint oracle {A} (t : table A) (k : str) : option A :=
  match t with
  | [] => None
  | (k', v) :: t' => if str_eqb k k' then v else oracle t' k
  end.

Inductive case :=
| CScanMk (content : str) (y : table annot) (maxlen : option nat)
| CScanSh (file content : str) (y : table annot) (maxlen : option nat)
| CGuardMk (content : str) (maxlen : option nat)
| CEnrich (path : str) (d : package_dto) (g : table (list str)) (du : table str)
| CMerge (frs : list (str * package_dto)) (g : table (list str)) (du : table str)
| CTrim (s : str).

Definition max_token : nat := 256 * 256.
Definition mx (o : option nat) : nat := match o with Some n => n | None => max_token end.

(* ---- JSON output, strings hex encoded *)
Definition q (s : str) : str := L """" ++ hex s ++ L """".
Definition jl {A} (f : A -> str) (l : list A) : str := L "[" ++ catmap (L ",") f l ++ L "]".
Definition jp (p : str * str) : str := L "[" ++ q (fst p) ++ L "," ++ q (snd p) ++ L "]".
Definition jopt (o : option (list str)) : str := match o with None => L "[]" | Some l => jl q l end.
Definition jlab (l : label) : str := L "[" ++ q (lpkg l) ++ L "," ++ q (lname l) ++ L "]".
Definition jout (o : output) : str := L "[" ++ q (o_type o) ++ L "," ++ q (o_id o) ++ L "]".
Definition field (name : String.string) (v : str) : str := L """" ++ lit name ++ L """:" ++ v.
Definition obj (fs : list str) : str := L "{" ++ cat (L ",") fs ++ L "}".

Definition j_dto (t : target_dto) : str :=
  obj [field "name" (q (td_name t)); field "command" (q (td_command t)); field "deps" (jl q (td_deps t));
       field "inputs" (jl q (td_inputs t)); field "outputs" (jl q (td_outputs t)); field "bin" (q (td_bin t));
       field "tags" (jl q (td_tags t)); field "fingerprint" (jl jp (td_fingerprint t)); field "env" (jl jp (td_env t));
       field "platforms" (jopt (td_platforms t));
       field "has_platforms" (match td_platforms t with None => L "false" | Some _ => L "true" end);
       field "timeout" (q (td_timeout t))].

Definition j_target (t : target) : str :=
  let bin := if null (o_type (t_bin t)) && null (o_id (t_bin t)) then L "null" else jout (t_bin t) in
  obj [field "name" (q (lname (t_label t))); field "pkg" (q (lpkg (t_label t))); field "command" (q (t_command t));
       field "inputs" (jl q (t_inputs t)); field "unresolved" (jl q (t_unresolved t)); field "excludes" (jl q (t_excludes t));
       field "outputs" (jl jout (t_outputs t)); field "bin" bin; field "deps" (jl jlab (t_deps t));
       field "tags" (jl q (t_tags t)); field "fingerprint" (jl jp (t_fingerprint t)); field "env" (jl jp (t_env t));
       field "platforms" (jopt (t_platforms t)); field "timeout" (L """" ++ t_timeout t ++ L """");
       field "checks" (jl jp (t_checks t))].

Definition j_alias (a : alias) : str :=
  obj [field "name" (q (lname (a_label a))); field "pkg" (q (lpkg (a_label a))); field "actual" (jlab (a_actual a))].

Definition j_pkg (p : package) : str :=
  obj [field "path" (q (p_path p)); field "targets" (jl j_target (p_targets p)); field "aliases" (jl j_alias (p_aliases p))].

Definition scan_err (e : scan_error) : str :=
  match e with ErrYaml => L "yaml" | ErrNoColon => L "nocolon" | ErrTooLong => L "toolong" end.
Definition load_err (e : load_error) : str :=
  match e with
  | ELabel => L "label" | EDuplicate => L "duplicate" | EGlob => L "glob" | EOutput => L "output"
  | EBinOutput => L "binoutput" | EBinNotFile => L "binnotfile" | ETimeout => L "timeout"
  | ENullTarget => L "nulltarget" | ENullAlias => L "nullalias"
  end.

Definition show_scan {A} (f : A -> str) (r : scan_result A) : str :=
  match r with
  | Panic => L "panic"
  | ScanErr e => tabs [L "error"; scan_err e]
  | ScanOk found a => tabs [L "ok"; if found then L "true" else L "false"; f a]
  end.

Definition guard_of (ml : nat) (content : str) : str :=
  if mk_guard (fst (split_lines ml content)) then L "guard=1" else L "guard=0".

Fixpoint enrich_all (g : str -> option (list str)) (d : str -> option str) (frs : list (str * package_dto))
  : result (list package) :=
  match frs with
  | [] => Ok []
  | (p, dto) :: r =>
      match enrich g d p dto with
      | Err e => Err e
      | Ok pk => match enrich_all g d r with Err e => Err e | Ok l => Ok (pk :: l) end
      end
  end.

Definition do_merge (frs : list (str * package_dto)) (g : table (list str)) (du : table str) : str :=
  match enrich_all (oracle g) (oracle du) frs with
  | Err e => tabs [L "error"; load_err e]
  | Ok pks =>
      match merge_all pks with
      | None => tabs [L "error"; L "duplicate"]
      | Some m =>
          tabs [L "ok"; match load_all pks with Some _ => L "nodes-ok" | None => L "nodes-error" end; jl j_pkg m]
      end
  end.

Definition run_case (c : case) : str :=
  match c with
  | CScanMk content y n =>
      tabs [show_scan (jl j_dto) (scan_makefile_file (mx n) (oracle y) content); guard_of (mx n) content]
  | CScanSh file content y n =>
      show_scan (fun t => jl j_dto [t]) (scan_script_file (mx n) (oracle y) file content)
  | CGuardMk content n => guard_of (mx n) content
  | CEnrich p d g du =>
      match enrich (oracle g) (oracle du) p d with
      | Ok pk => tabs [L "ok"; j_pkg pk]
      | Err e => tabs [L "error"; load_err e]
      end
  | CMerge frs g du => do_merge frs g du
  | CTrim s => tabs [L "trim"; hex (trim_space s)]
  end.
