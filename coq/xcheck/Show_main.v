(* Show_main.v -- Gallina mirror of ocaml/main/driver.ml (engine `main`: Label.v + HashKey.v; C17, C09).
   [run_case c] is the text the OCaml driver prints for the input line that tools/xcheck.py translated
   into [c].  Not part of the development; definitions only. *)
From Coq Require Import String.   (* first, so that the List names win *)
From Grog Require Import Str Label HashKey.
From GrogX Require Import XSupport.

Inductive case :=
| CLabel (cur s : str)
| CUniverse (u : list label)
| CPattern (u : list label) (cur s : str)
| CKey (pkg name cmd : str) (ins : list str) (files : list (str * option str))
       (outs : list (str * str)) (deps : list str) (fp : list (str * str)) (multi : bool).

Definition show_label (l : label) : str := tabs [hex (lpkg l); hex (lname l); hex (print_label l)].

Definition do_label (cur s : str) : str :=
  match parse_label cur s with
  | None => L "err"
  | Some l =>
      let rt := match parse_label (L "zz") (print_label l) with
                | None => L "rt-err"
                | Some l2 => hex (lpkg l2) ++ L ":" ++ hex (lname l2)
                end in
      tabs [L "ok"; show_label l; rt]
  end.

Definition matchvec (p : pattern) (u : list label) : str :=
  concat (map (fun l => b01 (matches p l)) u).

Definition do_pattern (u : list label) (cur s : str) : str :=
  match parse_pattern cur s with
  | None => L "err"
  | Some p =>
      let pr := print_pattern p in
      let '(re, rp) := match parse_pattern cur pr with
                       | None => (L "reparse-err", L "reparse-err")
                       | Some p' => (matchvec p' u,
                                     hex (pprefix p') ++ L ":" ++ hex (ptarget p') ++ L ":" ++ b01 (prec p'))
                       end in
      tabs [L "ok"; hex (pprefix p); hex (ptarget p); b01 (prec p); hex pr; matchvec p u; re; rp]
  end.

(* List.assoc on the file table: first entry wins; a path that is not listed does not exist *)
Fixpoint assoc_file (p : str) (l : list (str * option str)) : option str :=
  match l with
  | [] => None
  | (k, v) :: l' => if str_eqb p k then v else assoc_file p l'
  end.

Definition do_key (pkg name cmd : str) (ins : list str) (files : list (str * option str))
           (outs : list (str * str)) (deps : list str) (fp : list (str * str)) (multi : bool) : str :=
  let fs := fun p => assoc_file p files in
  let outs' := map (fun ti => fst ti ++ L "::" ++ snd ti) outs in
  let st := mkT (mkLabel pkg name) cmd ins outs' deps fp (if multi then None else Some (L "lx/a64")) in
  let cs := catmap (L ",") hex (comps st) in
  let fl := if no_inputs st then L "none" else hex (encode_files fs st) in
  tabs [cs; fl; if wf_state st then L "wf" else L "nwf"].

Definition run_case (c : case) : str :=
  match c with
  | CLabel cur s => do_label cur s
  | CUniverse u => tabs [L "universe"; dec (length u)]
  | CPattern u cur s => do_pattern u cur s
  | CKey pkg name cmd ins files outs deps fp multi => do_key pkg name cmd ins files outs deps fp multi
  end.
