(* Show_main.v -- Gallina mirror of ocaml/main/driver.ml (engine `main`: Label.v + HashKey.v; C17, C09).
   [run_case c] is the text the OCaml driver prints for the input line that tools/xcheck.py translated
   into [c].  Not part of the development; definitions only. *)
From Coq Require Import String.   (* first, so that the List names win *)
From Grog Require Import Str Label HashKey.
From GrogX Require Import XSupport.

Inductive case :=
| CLabel (cur s : str)
| CUniverse (u : list label)
| CPattern (u : list label) (cur s : str)
| CKey (pkg name cmd : str) (ins : list str) (files : list (str * option (str * str)))
       (outs : list (str * str)) (deps : list str) (fp : list (str * str)) (multi : bool).

Definition show_label (l : label) : str := tabs [hex (lpkg l); hex (lname l); hex (print_label l)].

Definition do_label (cur s : str) : str :=
  match parse_label cur s with
  | None => L "err"
  | Some l =>
      let rt := match parse_label (L "zz") (print_label l) with
                | None => L "rt-err"
                | Some l2 => hex (lpkg l2) ++ L ":" ++ hex (lname l2)
                end in
      tabs [L "ok"; show_label l; rt]
  end.

Definition matchvec (p : pattern) (u : list label) : str :=
  concat (map (fun l => b01 (matches p l)) u).

Definition do_pattern (u : list label) (cur s : str) : str :=
  match parse_pattern cur s with
  | None => L "err"
  | Some p =>
      let pr := print_pattern p in
      let '(re, rp) := match parse_pattern cur pr with
                       | None => (L "reparse-err", L "reparse-err")
                       | Some p' => (matchvec p' u,
                                     hex (pprefix p') ++ L ":" ++ hex (ptarget p') ++ L ":" ++ b01 (prec p'))
                       end in
      tabs [L "ok"; hex (pprefix p); hex (ptarget p); b01 (prec p); hex pr; matchvec p u; re; rp]
  end.

(* List.assoc on the file table: first entry wins; a path that is not listed does not exist.  A present file is listed with
   its content and the digest the implementation computed for that content *)
Fixpoint assoc_file (p : str) (l : list (str * option (str * str))) : option (str * str) :=
  match l with
  | [] => None
  | (k, v) :: l' => if str_eqb p k then v else assoc_file p l'
  end.

(* the digest function handed to the model: the table content -> digest of the listed files, "?" elsewhere *)
Fixpoint assoc_digest (c : str) (l : list (str * str)) : str :=
  match l with
  | [] => L "?"
  | (k, d) :: l' => if str_eqb c k then d else assoc_digest c l'
  end.

Definition digest_table (files : list (str * option (str * str))) : list (str * str) :=
  flat_map (fun e => match snd e with None => [] | Some cd => [cd] end) files.

Definition do_key (pkg name cmd : str) (ins : list str) (files : list (str * option (str * str)))
           (outs : list (str * str)) (deps : list str) (fp : list (str * str)) (multi : bool) : str :=
  let fs := fun p => option_map fst (assoc_file p files) in
  let h := fun c => assoc_digest c (digest_table files) in
  let outs' := map (fun ti => fst ti ++ L "::" ++ snd ti) outs in
  let st := mkT (mkLabel pkg name) cmd ins outs' deps fp (if multi then None else Some (L "lx/a64")) in
  let fl := if no_inputs st then L "none" else hex (encode_files h fs st) in
  tabs [hex (encode_def st); fl].

Definition run_case (c : case) : str :=
  match c with
  | CLabel cur s => do_label cur s
  | CUniverse u => tabs [L "universe"; dec (length u)]
  | CPattern u cur s => do_pattern u cur s
  | CKey pkg name cmd ins files outs deps fp multi => do_key pkg name cmd ins files outs deps fp multi
  end.
