(* C16_loadmerge -- "the loaded graph does not depend on directory-walk order or worker count", the part that
   C16_merge_order_independent only ASSUMED: that W worker goroutines of LoadPackages behave like SOME arrival
   order of the per-file fragments.  LoadMerge.v cuts the worker loop into its shared-memory steps
   (Take from the channel, loadedMutex.Lock, the map lookup, mergePackages / the map insert, Unlock; a failed
   merge sets the sticky error; files taken after the error are dropped) and every interleaving is a run.
   Only statements, each closed by [exact] of a lemma from LoadMerge_proofs.v.
   [run v W (init frs) evs = Some s]: evs is an interleaving of W workers on the queue frs under the step function
   of variant v (VCorrect = the order of /repo); [complete W s]: queue empty, every worker back at the top of
   its loop; [result s] = what LoadPackages returns (None = error); [loaded s] = that followed by
   BuildNodeMapFromPackages' duplicate check, as in [load_all]; [commit_order s] = the fragments in the order
   of their Merge / Insert steps, then the dropped ones (ghost logs, never read by [step]).
   No theorem about VCorrect carries a hypothesis besides being a (complete) run; progress needs 1 <= W. *)
From Coq Require Import Permutation.
From Grog Require Import Str Label Loader Loader_proofs LoadMerge LoadMerge_proofs.
Import Coq.Strings.String.
Local Open Scope string_scope.
Local Open Scope list_scope.

(* 1. linearizable: a complete run (any W, any queue, any interleaving) returns what the sequential merge loop
      returns on ONE arrival order, the order of the critical sections: the registry is its merge, and the run
      ends in the error state iff that merge fails *)
Theorem C16_loadmerge_linearizable : forall W frs evs s,
  run VCorrect W (init frs) evs = Some s -> complete W s ->
  Permutation frs (commit_order s) /\
  result s = merge_all (commit_order s) /\
  (err s = true <-> merge_all (commit_order s) = None) /\
  (err s = false -> merge_all (commit_order s) = Some (reg s)).
Proof. exact loadmerge_linearizable_full. Qed.
Print Assumptions C16_loadmerge_linearizable.

(* 2. worker count, scheduling and walk order do not matter: two complete runs on permuted queues, any worker
      counts, any interleavings, are both rejected or hold the same packages ([pkgs_equiv]) ... *)
Theorem C16_loadmerge_interleaving_independent : forall W W' frs frs' evs evs' s s',
  Permutation frs frs' ->
  run VCorrect W (init frs) evs = Some s -> complete W s ->
  run VCorrect W' (init frs') evs' = Some s' -> complete W' s' ->
  (loaded s = None <-> loaded s' = None) /\
  (forall m m', loaded s = Some m -> loaded s' = Some m' -> pkgs_equiv m m').
Proof. exact loadmerge_interleaving_independent. Qed.
Print Assumptions C16_loadmerge_interleaving_independent.

(* ... in particular every complete run agrees with the sequential loader on the queue order ... *)
Theorem C16_loadmerge_agrees_with_load_all : forall W frs evs s,
  run VCorrect W (init frs) evs = Some s -> complete W s ->
  (loaded s = None <-> load_all frs = None) /\
  (forall m m0, loaded s = Some m -> load_all frs = Some m0 -> pkgs_equiv m m0).
Proof. exact loadmerge_agrees_with_load_all. Qed.
Print Assumptions C16_loadmerge_agrees_with_load_all.

(* ... which IS the 1-worker run: with one worker the fragments are registered in queue order *)
Theorem C16_loadmerge_one_worker : forall frs evs s,
  run VCorrect 1 (init frs) evs = Some s -> complete 1 s ->
  commit_order s = frs /\ result s = merge_all frs /\ loaded s = load_all frs.
Proof. exact loadmerge_one_worker. Qed.
Print Assumptions C16_loadmerge_one_worker.

(* 3. no deadlock, a run has at most 5 steps per fragment, and every reachable state has a continuation of at
      most [measure] steps that completes the load *)
Theorem C16_loadmerge_progress : forall W frs, 1 <= W ->
  (forall s, reachable VCorrect W frs s -> complete W s \/ exists e s', step VCorrect W s e = Some s') /\
  (forall evs s, run VCorrect W (init frs) evs = Some s -> List.length evs <= 5 * List.length frs) /\
  (forall s, reachable VCorrect W frs s ->
     exists evs s', run VCorrect W s evs = Some s' /\ complete W s' /\ List.length evs <= measure W s).
Proof. exact loadmerge_progress. Qed.
Print Assumptions C16_loadmerge_progress.

(* 4. mutual exclusion: a worker is between Lock and Unlock iff it holds the mutex; so at most one is *)
Theorem C16_loadmerge_mutex : forall W frs s, reachable VCorrect W frs s ->
  (forall w, in_cs (pcs s w) = true <-> lock s = Some w) /\
  (forall w w', in_cs (pcs s w) = true -> in_cs (pcs s w') = true -> w = w') /\
  (forall w, in_cs (pcs s w) = true -> w < W).
Proof. exact loadmerge_mutex. Qed.
Print Assumptions C16_loadmerge_mutex.

(* the package a worker is about to merge into is the registered one (the model's snapshot of the Go pointer
   is the live entry), and the critical section Lookup; Merge / Insert is the body of the sequential loop *)
Theorem C16_loadmerge_snapshot_current : forall W frs s, reachable VCorrect W frs s ->
  forall w f ex, pcs s w = PMerging f ex -> reg_lookup (pkey f) (reg s) = Some ex.
Proof. exact merging_snapshot_current. Qed.
Print Assumptions C16_loadmerge_snapshot_current.

Theorem C16_loadmerge_critical_section_is_insert_fragment : forall f m,
  insert_fragment f m =
  match reg_lookup (pkey f) m with
  | None => Some (reg_store f m)
  | Some ex => match merge_packages f ex with None => None | Some p' => Some (reg_store p' m) end
  end.
Proof. exact insert_fragment_as_lookup. Qed.
Print Assumptions C16_loadmerge_critical_section_is_insert_fragment.

(* 5. the seeded orders (kept in /verif/seeded/C16c C16g and C16f C16i), 2 workers, one-target files of ONE directory.
      Merge outside the mutex: a complete, accepted run has lost //p:b ... *)
Theorem C16_loadmerge_merge_outside_refuted :
  exists evs m m0,
    run_outcome VMergeOutside 2 [fr_a; fr_b; fr_c] evs = Some (Some m) /\
    load_all [fr_a; fr_b; fr_c] = Some m0 /\
    all_labels m = [L "p" "a"; L "p" "c"] /\ all_labels m0 = [L "p" "a"; L "p" "b"; L "p" "c"] /\
    ~ pkgs_equiv m m0.
Proof. exact merge_outside_loses_target. Qed.
Print Assumptions C16_loadmerge_merge_outside_refuted.

(* ... Load-then-Store on a sync.Map: a whole file (a.json) is lost ... *)
Theorem C16_loadmerge_load_then_store_refuted :
  exists evs m m0,
    run_outcome VLoadThenStore 2 [fr_a; fr_b] evs = Some (Some m) /\
    load_all [fr_a; fr_b] = Some m0 /\
    m = [fr_b] /\ all_labels m0 = [L "p" "a"; L "p" "b"] /\ ~ pkgs_equiv m m0.
Proof. exact load_then_store_loses_fragment. Qed.
Print Assumptions C16_loadmerge_load_then_store_refuted.

(* ... and a label defined in two files, which the sequential loader rejects, is accepted on some run of either *)
Theorem C16_loadmerge_duplicate_accepted_refuted :
  (exists evs m, run_outcome VMergeOutside 2 [fr_a; fr_b; fr_b] evs = Some (Some m) /\
                 load_all [fr_a; fr_b; fr_b] = None /\ ~ NoDup (frag_labels [fr_a; fr_b; fr_b])) /\
  (exists evs m, run_outcome VLoadThenStore 2 [fr_b; fr_b] evs = Some (Some m) /\
                 load_all [fr_b; fr_b] = None /\ ~ NoDup (frag_labels [fr_b; fr_b])).
Proof. exact (conj merge_outside_accepts_duplicate load_then_store_accepts_duplicate). Qed.
Print Assumptions C16_loadmerge_duplicate_accepted_refuted.

(* [run_outcome v W frs evs = Some r] means: evs is a complete run and r is what is loaded *)
Theorem C16_loadmerge_run_outcome_spec : forall v W frs evs r,
  run_outcome v W frs evs = Some r <->
  exists s, run v W (init frs) evs = Some s /\ complete W s /\ loaded s = r.
Proof. exact run_outcome_spec. Qed.
Print Assumptions C16_loadmerge_run_outcome_spec.

(* 6. non-vacuity: 2 workers, three files of the directory p and one of q; worker 1 is merging while worker 0,
      its file in hand, cannot take the mutex; the run completes with the targets of p in another order than
      the sequential loader's, same packages; and the error side: a duplicate label, the run ends in the error
      state with a dropped file *)
Theorem C16_loadmerge_nonvacuous :
  (exists s1 m m0,
    run VCorrect 2 (init frs_nonvacuous) sched_contention_pre = Some s1 /\
    pcs s1 0 = PLoaded fr_b /\ pcs s1 1 = PMerging fr_c fr_a /\ lock s1 = Some 1 /\
    step VCorrect 2 s1 (0, SLock) = None /\
    run_outcome VCorrect 2 frs_nonvacuous (sched_contention_pre ++ sched_contention_post) = Some (Some m) /\
    load_all frs_nonvacuous = Some m0 /\
    m <> m0 /\ List.length m = 2 /\ pkgs_equiv m m0) /\
  (exists s, run VCorrect 2 (init [fr_a; fr_b; fr_b; fr_c]) sched_error = Some s /\ complete 2 s /\
             err s = true /\ log s = [fr_a; fr_b; fr_b] /\ dropped s = [fr_c] /\
             merge_all (commit_order s) = None /\ load_all [fr_a; fr_b; fr_b; fr_c] = None).
Proof. exact (conj loadmerge_nonvacuous loadmerge_nonvacuous_error). Qed.
Print Assumptions C16_loadmerge_nonvacuous.
