(* C11 -- Invalid build graphs are rejected before anything runs; valid ones accepted.
   Only statements, each closed by [exact] of a lemma from theories/*_proofs.v.

   [validate rootc g] (Analysis.v) mirrors BuildNodeMapFromPackages, BuildGraph and
   CheckTargetConstraints; [defect_free rootc g] is the declarative reading of the property.
   One direction is true without any guard: [C11_accept_sound], what grog accepts has none of the
   listed defects.  The converse is FALSE of the faithful model (one [_refuted] witness below,
   reproduced on the real code by tools/c11.py, known finding C11-F2: grog rejects overlapping
   outputs of ONE target, which the property's list does not name); the strongest true
   equivalence is [C11_sound_complete_partial].  C11-F1 -- dir outputs not checked against the
   workspace boundary --, C11-F3 -- an output spelled so that it leaves the workspace lexically and
   re-enters it escaped conflict detection -- and C11-F4 -- a dir output that is the workspace
   root overlapped nothing -- are repaired in the code this model mirrors; their former witnesses
   are now [C11_dir_output_escape_rejected] / [C11_reentrant_overlap_rejected] /
   [C11_root_dir_overlap_rejected].  The clause-wise theorems carry only
   the guards they need; cycle detection, ordering by ancestor sets, duplicate / missing labels,
   input paths, output paths (file AND directory), tests-have-commands and the test/testonly
   rules are UNGUARDED (beyond a well-formed node map).

   Cycle detection: the faithful proof went through (three-colour DFS with depth fuel vs
   [exists n, reach g n n], any graph size, no bounded sweep; out-of-fuel is impossible). *)
From Grog Require Import Str Label Path Analysis Path_proofs Cycle_proofs Ancestors_proofs Analysis_proofs.

(* ---- duplicate labels, across targets and aliases *)
Theorem C11_dup_iff : forall g, has_dup (labels g) = false <-> NoDup (labels g).
Proof. exact dup_iff. Qed.
Print Assumptions C11_dup_iff.

(* ---- dependency on an undefined label (alias -> actual included) *)
Theorem C11_missing_iff : forall g,
  has_missing g = false <->
  (forall nd d, In nd g -> In d (node_deps nd) -> In d (labels g)).
Proof. exact missing_iff. Qed.
Print Assumptions C11_missing_iff.

(* ---- cycles: the DFS reports a cycle exactly when some node is its own transitive dependency *)
Theorem C11_find_cycle_iff : forall g, find_cycle g = DfsCycle <-> exists n, reach g n n.
Proof. exact find_cycle_iff. Qed.
Print Assumptions C11_find_cycle_iff.

Theorem C11_find_cycle_fuel : forall g, find_cycle g <> DfsFuel.
Proof. exact find_cycle_fuel. Qed.
Print Assumptions C11_find_cycle_fuel.

(* self loops (rejected by AddEdge) and longer cycles (rejected by FindCycle) together *)
Theorem C11_cycle_iff : forall g,
  (has_self g = false /\ exists black, find_cycle g = DfsDone black) <-> ~ exists n, reach g n n.
Proof. exact cycle_iff. Qed.
Print Assumptions C11_cycle_iff.

Theorem C11_structure_iff : forall g,
  (has_dup (labels g) = false /\ has_missing g = false /\ has_self g = false /\
   exists b, find_cycle g = DfsDone b)
  <-> (no_dup_labels g /\ no_dangling g /\ acyclic g).
Proof. exact structure_iff. Qed.
Print Assumptions C11_structure_iff.

(* ---- "ordered by dependency": the ancestor sets are the transitive dependencies *)
Theorem C11_ancestor_set_iff : forall g n a, NoDup (labels g) -> no_dangling g ->
  (In a (ancestor_set g n) <-> reach g a n).
Proof. exact ancestor_set_spec. Qed.
Print Assumptions C11_ancestor_set_iff.

Theorem C11_ordered_iff : forall g a b, NoDup (labels g) -> no_dangling g ->
  (ordered g a b = true <-> reach g a b \/ reach g b a).
Proof. exact ordered_iff. Qed.
Print Assumptions C11_ordered_iff.

(* ---- output conflicts *)
(* exactly what the pair loops decide: some pair of output RECORDS (two outputs of one target
   included) of owners not ordered by dependency whose keys clash *)
Theorem C11_conflict_exact : forall rootc g, NoDup (labels g) -> no_dangling g ->
  (has_conflict rootc g = true <->
   exists r1 r2, In (r1, r2) (pairs (records rootc g)) /\
                 ~ ordered_spec g (r_owner r1) (r_owner r2) /\ keys_clash r1 r2 = true).
Proof. exact conflict_exact. Qed.
Print Assumptions C11_conflict_exact.

(* against the declarative clause (two DISTINCT targets, overlap of the places the outputs
   denote), for path outputs inside the workspace (the other clause, [C11_outputs_iff]) however
   they are spelled: when the pair loops find nothing there is no conflict ... *)
Theorem C11_no_conflict_sound : forall rootc g,
  NoDup (labels g) -> no_dangling g -> Forall plain_comp rootc -> outputs_ok rootc g ->
  has_conflict rootc g = false -> no_conflict rootc g.
Proof. exact no_conflict_sound. Qed.
Print Assumptions C11_no_conflict_sound.

(* ... and, under G3 (no target overlaps itself), conversely *)
Theorem C11_conflict_iff_partial : forall rootc g,
  NoDup (labels g) -> no_dangling g -> Forall plain_comp rootc ->
  outputs_ok rootc g -> no_self_overlap rootc g ->
  (has_conflict rootc g = false <-> no_conflict rootc g).
Proof. exact conflict_iff_partial. Qed.
Print Assumptions C11_conflict_iff_partial.

(* ---- paths *)
(* Clean does not change what a relative path means, and decides equality of meaning *)
Theorem C11_clean_semantics : forall p, is_abs p = false -> resolve (clean p) = resolve p.
Proof. exact clean_semantics. Qed.
Print Assumptions C11_clean_semantics.

Theorem C11_clean_eq_iff_resolve : forall p q,
  is_abs p = false -> is_abs q = false -> resolve p <> None -> resolve q <> None ->
  (clean p = clean q <-> resolve p = resolve q).
Proof. exact clean_eq_iff_resolve. Qed.
Print Assumptions C11_clean_eq_iff_resolve.

(* pathTriesToEscape = the walk leaves its starting directory *)
Theorem C11_tries_to_escape_iff : forall p, is_abs p = false ->
  (tries_to_escape p = true <-> resolve p = None).
Proof. exact tries_to_escape_resolve. Qed.
Print Assumptions C11_tries_to_escape_iff.

(* pathWithin on rendered paths = prefix on path elements (the separator matters: dist / dist2) *)
Theorem C11_path_within_iff : forall a d,
  a <> [] -> d <> [] -> Forall plain a -> Forall plain d ->
  (path_within (join slash a) (join slash d) = true <-> exists r, a = d ++ r).
Proof. exact path_within_comps. Qed.
Print Assumptions C11_path_within_iff.

(* the same with the workspace root, which Clean writes ".", on either side *)
Theorem C11_path_within_root_iff : forall a d, Forall plain a -> Forall plain d ->
  (path_within (render_rel a) (render_rel d) = true <-> exists r, a = d ++ r).
Proof. exact path_within_rel. Qed.
Print Assumptions C11_path_within_root_iff.

(* cleanOutputPath = the elements of the output's location below the workspace root ("." for
   none), for every output inside the workspace, whatever its spelling *)
Theorem C11_clean_output_path : forall rootc pkg id r,
  location rootc pkg id = rootc ++ r -> clean_output_path rootc pkg id = render_rel r.
Proof. exact clean_output_path_within. Qed.
Print Assumptions C11_clean_output_path.

(* on a spelling that never climbs above the root it is the lexical Clean(Join(pkg, id)) the code
   compared before the repair of C11-F3: no key of such an output changed *)
Theorem C11_clean_output_path_conservative : forall rootc pkg id, Forall plain_comp rootc ->
  resolve_from [] (split_slash pkg ++ split_slash id) <> None ->
  is_abs pkg = false -> (pkg = [] -> is_abs id = false) ->
  clean_output_path rootc pkg id = lexical_output_path pkg id.
Proof. exact clean_output_path_lexical. Qed.
Print Assumptions C11_clean_output_path_conservative.

Theorem C11_inputs_iff : forall g, has_bad_input g = false <-> inputs_ok g.
Proof. exact inputs_iff. Qed.
Print Assumptions C11_inputs_iff.

(* against the declarative clause (EVERY path output, file or directory, relative and inside the
   workspace), unguarded *)
Theorem C11_outputs_iff : forall rootc g, Forall plain_comp rootc ->
  (has_bad_output rootc g = false <-> outputs_ok rootc g).
Proof. exact outputs_iff. Qed.
Print Assumptions C11_outputs_iff.

Theorem C11_paths_iff : forall rootc g, Forall plain_comp rootc ->
  (has_bad_input g = false /\ has_bad_output rootc g = false <-> inputs_ok g /\ outputs_ok rootc g).
Proof. exact paths_iff. Qed.
Print Assumptions C11_paths_iff.

(* ---- grog's extra rule *)
Theorem C11_tests_have_commands_iff : forall g, has_test_nocmd g = false <-> tests_have_commands g.
Proof. exact test_nocmd_iff. Qed.
Print Assumptions C11_tests_have_commands_iff.

(* ---- test / testonly dependency rules, aliases resolved *)
Theorem C11_resolve_dep_iff : forall g d t, NoDup (labels g) -> acyclic g ->
  (resolve_dep (S (length g)) g d = Some t <-> resolves_to g d t).
Proof. exact resolve_dep_spec. Qed.
Print Assumptions C11_resolve_dep_iff.

Theorem C11_deprules_iff : forall g, NoDup (labels g) -> acyclic g ->
  (has_bad_dep g = false <-> deprules_ok g).
Proof. exact deprules_iff. Qed.
Print Assumptions C11_deprules_iff.

(* ---- the whole property.  First half, UNGUARDED: nothing with a listed defect is accepted *)
Theorem C11_accept_sound : forall rootc g,
  clean_root rootc -> validate rootc g = Accept -> defect_free rootc g.
Proof. exact accept_sound. Qed.
Print Assumptions C11_accept_sound.

(* the equivalence, guarded (G3: no target declares two overlapping outputs of its own) *)
Theorem C11_sound_complete_partial : forall rootc g,
  clean_root rootc -> no_self_overlap rootc g ->
  (validate rootc g = Accept <-> defect_free rootc g).
Proof. exact sound_complete_partial. Qed.
Print Assumptions C11_sound_complete_partial.

(* the guard is met by an accepted graph with a directory and two file outputs, one of them
   spelled by leaving the workspace and re-entering it (outside the former guard G2) *)
Theorem C11_sound_complete_partial_nonvacuous :
  clean_root Witness.root /\ no_self_overlap Witness.root Witness.g_ok /\ ~ plain_outputs Witness.g_ok /\
  validate Witness.root Witness.g_ok = Accept /\ defect_free Witness.root Witness.g_ok.
Proof. exact Witness.sound_complete_partial_nonvacuous. Qed.
Print Assumptions C11_sound_complete_partial_nonvacuous.

(* ---- and why the guard is needed: the unguarded equivalence fails, in the direction
   "defect free -> accepted" *)
Theorem C11_sound_complete_refuted :
  exists rootc g, clean_root rootc /\ rel_pkgs g /\ defect_free rootc g /\ validate rootc g <> Accept.
Proof. exact Witness.sound_complete_refuted. Qed.
Print Assumptions C11_sound_complete_refuted.

(* F2 (guard G3): one target with dir::dist and bin_output dist/app has no listed defect and is rejected *)
Theorem C11_same_target_overlap_refuted :
  exists rootc g, clean_root rootc /\ defect_free rootc g /\ validate rootc g = Reject [Conflict].
Proof. exact Witness.same_target_refuted. Qed.
Print Assumptions C11_same_target_overlap_refuted.

(* former F3, repaired: two unordered writers of one file, one spelled ../../ws/p1/a (so the former
   guard G2 excluded the graph); every output is a file output inside the workspace, no target
   overlaps itself; the graph has a conflict and is rejected for it *)
Theorem C11_reentrant_overlap_rejected :
  clean_root Witness.root /\ no_self_overlap Witness.root Witness.g_reentrant /\
  ~ plain_outputs Witness.g_reentrant /\ outputs_ok Witness.root Witness.g_reentrant /\
  (forall t o, In (NTarget t) Witness.g_reentrant -> In o (all_outputs t) -> o_type o = OFile) /\
  ~ no_conflict Witness.root Witness.g_reentrant /\
  validate Witness.root Witness.g_reentrant = Reject [Conflict].
Proof. exact Witness.reentrant_rejected. Qed.
Print Assumptions C11_reentrant_overlap_rejected.

(* former F1, repaired: dir::../../outside lies outside the workspace and is rejected for it *)
Theorem C11_dir_output_escape_rejected :
  validate Witness.root Witness.g_dir_escape = Reject [OutputPath] /\
  ~ outputs_ok Witness.root Witness.g_dir_escape.
Proof. exact Witness.dir_escape_rejected. Qed.
Print Assumptions C11_dir_output_escape_rejected.

(* former F4, repaired: a directory output that IS the workspace root (dir::.. from p1) next to an
   unordered writer of p1/a meets the guard of C11_sound_complete_partial (and its former guards),
   has a conflict, and is rejected for it *)
Theorem C11_root_dir_overlap_rejected :
  clean_root Witness.root /\ rel_pkgs Witness.g_root_dir /\ plain_outputs Witness.g_root_dir /\
  no_self_overlap Witness.root Witness.g_root_dir /\
  outputs_ok Witness.root Witness.g_root_dir /\ ~ no_conflict Witness.root Witness.g_root_dir /\
  validate Witness.root Witness.g_root_dir = Reject [Conflict].
Proof. exact Witness.root_dir_rejected. Qed.
Print Assumptions C11_root_dir_overlap_rejected.
