(* C11 -- Invalid build graphs are rejected before anything runs; valid ones accepted.
   Only statements, each closed by [exact] of a lemma from theories/*_proofs.v.

   [validate rootc g] (Analysis.v) mirrors BuildNodeMapFromPackages, BuildGraph and
   CheckTargetConstraints; [defect_free rootc g] is the declarative reading of the property.
   The unguarded equivalence is FALSE of the faithful model (two [_refuted] witnesses below, each
   reproduced on the real code by tools/c11.py, known findings C11-F2 and C11-F3; C11-F1 -- dir
   outputs not checked against the workspace boundary -- and C11-F4 -- a dir output that is the
   workspace root overlaps nothing -- are repaired in the code this model mirrors, their former
   witnesses are now [C11_dir_output_escape_rejected] / [C11_root_dir_overlap_rejected]); the
   strongest true statement is [C11_sound_complete_partial].  The clause-wise theorems carry only
   the guards they need; cycle detection, ordering by ancestor sets, duplicate / missing labels,
   input paths, output paths (file AND directory), tests-have-commands and the test/testonly
   rules are UNGUARDED (beyond a well-formed node map).

   Cycle detection: the faithful proof went through (three-colour DFS with depth fuel vs
   [exists n, reach g n n], any graph size, no bounded sweep; out-of-fuel is impossible). *)
From Grog Require Import Str Label Path Analysis Path_proofs Cycle_proofs Ancestors_proofs Analysis_proofs.

(* ---- duplicate labels, across targets and aliases *)
Theorem C11_dup_iff : forall g, has_dup (labels g) = false <-> NoDup (labels g).
Proof. exact dup_iff. Qed.
Print Assumptions C11_dup_iff.

(* ---- dependency on an undefined label (alias -> actual included) *)
Theorem C11_missing_iff : forall g,
  has_missing g = false <->
  (forall nd d, In nd g -> In d (node_deps nd) -> In d (labels g)).
Proof. exact missing_iff. Qed.
Print Assumptions C11_missing_iff.

(* ---- cycles: the DFS reports a cycle exactly when some node is its own transitive dependency *)
Theorem C11_find_cycle_iff : forall g, find_cycle g = DfsCycle <-> exists n, reach g n n.
Proof. exact find_cycle_iff. Qed.
Print Assumptions C11_find_cycle_iff.

Theorem C11_find_cycle_fuel : forall g, find_cycle g <> DfsFuel.
Proof. exact find_cycle_fuel. Qed.
Print Assumptions C11_find_cycle_fuel.

(* self loops (rejected by AddEdge) and longer cycles (rejected by FindCycle) together *)
Theorem C11_cycle_iff : forall g,
  (has_self g = false /\ exists black, find_cycle g = DfsDone black) <-> ~ exists n, reach g n n.
Proof. exact cycle_iff. Qed.
Print Assumptions C11_cycle_iff.

Theorem C11_structure_iff : forall g,
  (has_dup (labels g) = false /\ has_missing g = false /\ has_self g = false /\
   exists b, find_cycle g = DfsDone b)
  <-> (no_dup_labels g /\ no_dangling g /\ acyclic g).
Proof. exact structure_iff. Qed.
Print Assumptions C11_structure_iff.

(* ---- "ordered by dependency": the ancestor sets are the transitive dependencies *)
Theorem C11_ancestor_set_iff : forall g n a, NoDup (labels g) -> no_dangling g ->
  (In a (ancestor_set g n) <-> reach g a n).
Proof. exact ancestor_set_spec. Qed.
Print Assumptions C11_ancestor_set_iff.

Theorem C11_ordered_iff : forall g a b, NoDup (labels g) -> no_dangling g ->
  (ordered g a b = true <-> reach g a b \/ reach g b a).
Proof. exact ordered_iff. Qed.
Print Assumptions C11_ordered_iff.

(* ---- output conflicts *)
(* exactly what the pair loops decide: some pair of output RECORDS (two outputs of one target
   included) of owners not ordered by dependency whose keys clash *)
Theorem C11_conflict_exact : forall g, NoDup (labels g) -> no_dangling g ->
  (has_conflict g = true <->
   exists r1 r2, In (r1, r2) (pairs (records g)) /\
                 ~ ordered_spec g (r_owner r1) (r_owner r2) /\ keys_clash r1 r2 = true).
Proof. exact conflict_exact. Qed.
Print Assumptions C11_conflict_exact.

(* against the declarative clause (two DISTINCT targets, overlap of the places the outputs
   denote), under G2 (no output spelling climbs above the root when read from it; an output that
   IS the root is covered) and G3 (no target overlaps itself) *)
Theorem C11_conflict_iff_partial : forall rootc g,
  NoDup (labels g) -> no_dangling g -> Forall plain_comp rootc ->
  rel_pkgs g -> rel_outputs g -> plain_outputs g -> no_self_overlap rootc g ->
  (has_conflict g = false <-> no_conflict rootc g).
Proof. exact conflict_iff_partial. Qed.
Print Assumptions C11_conflict_iff_partial.

(* ---- paths *)
(* Clean does not change what a relative path means, and decides equality of meaning *)
Theorem C11_clean_semantics : forall p, is_abs p = false -> resolve (clean p) = resolve p.
Proof. exact clean_semantics. Qed.
Print Assumptions C11_clean_semantics.

Theorem C11_clean_eq_iff_resolve : forall p q,
  is_abs p = false -> is_abs q = false -> resolve p <> None -> resolve q <> None ->
  (clean p = clean q <-> resolve p = resolve q).
Proof. exact clean_eq_iff_resolve. Qed.
Print Assumptions C11_clean_eq_iff_resolve.

(* pathTriesToEscape = the walk leaves its starting directory *)
Theorem C11_tries_to_escape_iff : forall p, is_abs p = false ->
  (tries_to_escape p = true <-> resolve p = None).
Proof. exact tries_to_escape_resolve. Qed.
Print Assumptions C11_tries_to_escape_iff.

(* pathWithin on rendered paths = prefix on path elements (the separator matters: dist / dist2) *)
Theorem C11_path_within_iff : forall a d,
  a <> [] -> d <> [] -> Forall plain a -> Forall plain d ->
  (path_within (join slash a) (join slash d) = true <-> exists r, a = d ++ r).
Proof. exact path_within_comps. Qed.
Print Assumptions C11_path_within_iff.

(* the same with the workspace root, which Clean writes ".", on either side *)
Theorem C11_path_within_root_iff : forall a d, Forall plain a -> Forall plain d ->
  (path_within (render_rel a) (render_rel d) = true <-> exists r, a = d ++ r).
Proof. exact path_within_rel. Qed.
Print Assumptions C11_path_within_root_iff.

(* cleanOutputPath = the elements of the walk ("." for none), when the walk never climbs above the root *)
Theorem C11_clean_output_path : forall pkg id r,
  resolve_from [] (split_slash pkg ++ split_slash id) = Some r ->
  is_abs pkg = false -> (pkg = [] -> is_abs id = false) ->
  clean_output_path pkg id = render_rel r.
Proof. exact clean_output_path_rel. Qed.
Print Assumptions C11_clean_output_path.

Theorem C11_inputs_iff : forall g, has_bad_input g = false <-> inputs_ok g.
Proof. exact inputs_iff. Qed.
Print Assumptions C11_inputs_iff.

(* against the declarative clause (EVERY path output, file or directory, relative and inside the
   workspace), unguarded *)
Theorem C11_outputs_iff : forall rootc g, Forall plain_comp rootc ->
  (has_bad_output rootc g = false <-> outputs_ok rootc g).
Proof. exact outputs_iff. Qed.
Print Assumptions C11_outputs_iff.

Theorem C11_paths_iff : forall rootc g, Forall plain_comp rootc ->
  (has_bad_input g = false /\ has_bad_output rootc g = false <-> inputs_ok g /\ outputs_ok rootc g).
Proof. exact paths_iff. Qed.
Print Assumptions C11_paths_iff.

(* ---- grog's extra rule *)
Theorem C11_tests_have_commands_iff : forall g, has_test_nocmd g = false <-> tests_have_commands g.
Proof. exact test_nocmd_iff. Qed.
Print Assumptions C11_tests_have_commands_iff.

(* ---- test / testonly dependency rules, aliases resolved *)
Theorem C11_resolve_dep_iff : forall g d t, NoDup (labels g) -> acyclic g ->
  (resolve_dep (S (length g)) g d = Some t <-> resolves_to g d t).
Proof. exact resolve_dep_spec. Qed.
Print Assumptions C11_resolve_dep_iff.

Theorem C11_deprules_iff : forall g, NoDup (labels g) -> acyclic g ->
  (has_bad_dep g = false <-> deprules_ok g).
Proof. exact deprules_iff. Qed.
Print Assumptions C11_deprules_iff.

(* ---- the whole property, guarded (G2: no output spelling climbs above the workspace root;
   G3: no target declares two overlapping outputs of its own) *)
Theorem C11_sound_complete_partial : forall rootc g,
  clean_root rootc -> rel_pkgs g ->
  plain_outputs g -> no_self_overlap rootc g ->
  (validate rootc g = Accept <-> defect_free rootc g).
Proof. exact sound_complete_partial. Qed.
Print Assumptions C11_sound_complete_partial.

(* the guards are met by an accepted graph with a directory and two file outputs *)
Theorem C11_sound_complete_partial_nonvacuous :
  clean_root Witness.root /\ rel_pkgs Witness.g_ok /\ plain_outputs Witness.g_ok /\
  no_self_overlap Witness.root Witness.g_ok /\
  validate Witness.root Witness.g_ok = Accept /\ defect_free Witness.root Witness.g_ok.
Proof. exact Witness.sound_complete_partial_nonvacuous. Qed.
Print Assumptions C11_sound_complete_partial_nonvacuous.

(* ---- and why the guards are needed: the unguarded equivalence fails in both directions *)
Theorem C11_sound_complete_refuted :
  (exists rootc g, clean_root rootc /\ rel_pkgs g /\ validate rootc g = Accept /\ ~ defect_free rootc g) /\
  (exists rootc g, clean_root rootc /\ rel_pkgs g /\ defect_free rootc g /\ validate rootc g <> Accept).
Proof. exact Witness.sound_complete_refuted. Qed.
Print Assumptions C11_sound_complete_refuted.

(* F2 (guard G3): one target with dir::dist and bin_output dist/app has no listed defect and is rejected *)
Theorem C11_same_target_overlap_refuted :
  exists rootc g, clean_root rootc /\ defect_free rootc g /\ validate rootc g = Reject [Conflict].
Proof. exact Witness.same_target_refuted. Qed.
Print Assumptions C11_same_target_overlap_refuted.

(* F3 (guard G2): two unordered writers of one file, one spelled ../../ws/p1/a, are accepted;
   every output is a file output inside the workspace *)
Theorem C11_reentrant_overlap_refuted :
  exists rootc g, clean_root rootc /\ rel_pkgs g /\ validate rootc g = Accept /\
    outputs_ok rootc g /\
    (forall t o, In (NTarget t) g -> In o (all_outputs t) -> o_type o = OFile) /\
    ~ no_conflict rootc g.
Proof. exact Witness.reentrant_refuted. Qed.
Print Assumptions C11_reentrant_overlap_refuted.

(* former F1, repaired: dir::../../outside lies outside the workspace and is rejected for it *)
Theorem C11_dir_output_escape_rejected :
  validate Witness.root Witness.g_dir_escape = Reject [OutputPath] /\
  ~ outputs_ok Witness.root Witness.g_dir_escape.
Proof. exact Witness.dir_escape_rejected. Qed.
Print Assumptions C11_dir_output_escape_rejected.

(* former F4, repaired: a directory output that IS the workspace root (dir::.. from p1) next to an
   unordered writer of p1/a meets every guard of C11_sound_complete_partial, has a conflict, and is
   rejected for it *)
Theorem C11_root_dir_overlap_rejected :
  clean_root Witness.root /\ rel_pkgs Witness.g_root_dir /\ plain_outputs Witness.g_root_dir /\
  no_self_overlap Witness.root Witness.g_root_dir /\
  outputs_ok Witness.root Witness.g_root_dir /\ ~ no_conflict Witness.root Witness.g_root_dir /\
  validate Witness.root Witness.g_root_dir = Reject [Conflict].
Proof. exact Witness.root_dir_rejected. Qed.
Print Assumptions C11_root_dir_overlap_rejected.
