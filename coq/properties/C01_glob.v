(* C01 / C02 (input patterns) -- "files added, removed or renamed under declared globs": which files the entries of
   `inputs:` / `exclude_inputs:` select.  Only statements, each closed by [exact] of a lemma from Glob_proofs.v.
   Model: Glob.v (mirror of resolveInputs in internal/loading/enrich_package.go and of the part of doublestar v4.9.1
   it calls: Glob(os.DirFS(pkg), entry, WithFilesOnly())); tied to the code by tools/c01_glob.py (glob stage of ./check C01).
   smatch g f = "entry g, parsed, selects the package-relative file path f".
   What resolve_inputs returns reaches the key through HashKey.encode_files (path + content of every listed file): a file
   that is selected has its content in the key, a file that is not selected has not. *)
From Coq Require Import List Ascii Bool Permutation.
From Grog Require Import Str Glob Glob_proofs.
Import ListNotations.

(* 1. an entry without any of the bytes * ? [ { } \ selects exactly the path spelled like it *)
Theorem glob_literal : forall s t, plain s = true -> smatch s t = str_eqb s t.
Proof. exact literal_selects_itself. Qed.
Print Assumptions glob_literal.

(* 2. `*` matches exactly the slash-free names; `?` exactly the one-character names other than "/" *)
Theorem glob_star_no_slash : forall s, smatch [ch_star] s = negb (mem_ch ch_slash s).
Proof. exact smatch_star. Qed.
Print Assumptions glob_star_no_slash.

Theorem glob_question_one_char : forall s, smatch [ch_qm] s = true <-> exists c, s = [c] /\ c <> ch_slash.
Proof. exact smatch_question. Qed.
Print Assumptions glob_question_one_char.

(* whatever the pattern: a pattern that is ONE segment (no `/`, not `**`) selects no path with a slash, and every name a
   segment pattern is compared with is slash free *)
Theorem glob_segment_no_slash : forall p s, path_match [SPat p] (split_path s) = true -> mem_ch ch_slash s = false.
Proof. exact single_segment_no_slash. Qed.
Print Assumptions glob_segment_no_slash.

Theorem glob_names_slash_free : forall s n, In n (split_path s) -> mem_ch ch_slash n = false.
Proof. exact split_path_segments. Qed.
Print Assumptions glob_names_slash_free.

(* 3. alternatives distribute (one level, any literal/meta tokens before, anything after) *)
Theorem glob_brace_distributes : forall pre a b post s,
  matches (map PTok pre ++ PAlt [a; b] :: post) s =
  matches (map PTok pre ++ map PTok a ++ post) s || matches (map PTok pre ++ map PTok b ++ post) s.
Proof. exact brace_distributes. Qed.
Print Assumptions glob_brace_distributes.

(* 4. a package file selected by a glob entry and by no exclude entry is in the resolved list ... *)
Theorem glob_content_sensitivity : forall files ins exs g f,
  In f files -> In g ins -> is_glob g = true -> smatch g f = true ->
  (forall e, In e exs -> smatch e f = false) ->
  In f (resolve_inputs files ins exs).
Proof. exact content_sensitivity. Qed.
Print Assumptions glob_content_sensitivity.

(* ... and nothing else is: a resolved entry is a literal entry as spelled, or a package file selected by a glob entry *)
Theorem glob_content_sensitivity_converse : forall files ins exs x,
  In x (resolve_inputs files ins exs) ->
  (exists e, In e ins /\ is_glob e = false /\ x = e) \/
  (exists g, In g ins /\ is_glob g = true /\ In x files /\ smatch g x = true).
Proof. exact selection_converse. Qed.
Print Assumptions glob_content_sensitivity_converse.

Theorem glob_excluded_not_selected : forall files ins exs e x,
  In e exs -> In x files -> smatch e x = true -> ~ In x (resolve_inputs files ins exs).
Proof. exact excluded_not_selected. Qed.
Print Assumptions glob_excluded_not_selected.

(* 5. every entry whose parse contains a construct other than a literal character is a glob for the loader *)
Theorem glob_is_glob_complete : forall s p, parse s = Some p -> has_meta p = true -> is_glob s = true.
Proof. exact is_glob_complete. Qed.
Print Assumptions glob_is_glob_complete.

(* ... which is false for the character set of seeded change C02m (`{` dropped): src/{a,b}.txt selects src/a.txt *)
Theorem glob_is_glob_without_brace_refuted :
  exists s p f, parse s = Some p /\ has_meta p = true /\ matches p f = true /\ f <> s /\
                is_glob_nobrace s = false /\ is_glob s = true.
Proof. exact without_brace_refuted. Qed.
Print Assumptions glob_is_glob_without_brace_refuted.

(* 6. the resolved list does not depend on the order in which the package's files are enumerated *)
Theorem resolve_inputs_order_independent : forall f1 f2 ins exs,
  Permutation f1 f2 -> resolve_inputs f1 ins exs = resolve_inputs f2 ins exs.
Proof. exact resolve_inputs_perm. Qed.
Print Assumptions resolve_inputs_order_independent.

(* non-vacuity: 6 files, 5 input entries (4 globs, 1 literal that is absent), 1 exclude *)
Theorem resolve_inputs_order_independent_nonvacuous :
  Permutation ex_files ex_files_perm /\
  resolve_inputs ex_files ex_inputs ex_excludes =
    ex_expected /\
  resolve_inputs ex_files_perm ex_inputs ex_excludes = resolve_inputs ex_files ex_inputs ex_excludes /\
  resolve_inputs ex_files ex_inputs [] <> resolve_inputs ex_files ex_inputs ex_excludes.
Proof. exact example_resolve. Qed.
Print Assumptions resolve_inputs_order_independent_nonvacuous.
