(* C06 -- Cached outputs are restored exactly, from any workspace state.  Statements only.
   H = digest function, ser_dir / ser_tree = deterministic protobuf Marshal, deser_tree = Unmarshal;
   they are idealised by the three hypotheses of each theorem (satisfiable: last theorem). *)
From Grog Require Import Str Tree Tree_proofs.

(* Directory outputs: whatever sits at the destination (absent, parents absent, the same tree, modified /
   truncated content, stale extra entries, a regular file), restoring a tree that was written to a sound
   store yields exactly its canonical listing: names, contents, exec bits, link targets, empty
   sub-directories, nothing extra.  Hypotheses forced by the proof: entry names are distinct (wf_tree: a
   real directory), the store is content-addressed when the output is written (cas_sound: Cas.Write skips
   existing digests and Load never re-hashes, so a corrupt blob would be restored as is -- C07's subject),
   the tree nests no deeper than the path length the OS accepts (maxdepth), and the directory found at
   the destination, if any, is a real directory too (wf_dest). *)
Theorem C06_dir_roundtrip :
  forall (H : str -> str) (ser_dir : dir_msg -> str) (ser_tree : tree_msg -> str)
         (deser_tree : str -> option tree_msg),
    (forall x y, H x = H y -> x = y) ->
    (forall x y, ser_dir x = ser_dir y -> x = y) ->
    (forall m, deser_tree (ser_tree m) = Some m) ->
  forall t st st' ref maxdepth,
    wf_tree t -> cas_sound H st -> depth t <= maxdepth ->
    write_tree H ser_dir ser_tree t st = Some (st', ref) ->
    forall dest, wf_dest dest ->
      load_tree H ser_dir ser_tree deser_tree maxdepth ref st' dest = Done (normalise t).
Proof. exact dir_roundtrip. Qed.
Print Assumptions C06_dir_roundtrip.

(* the "skip when the local directory hashes to the stored digest" shortcut is sound: equal tree
   digests mean equal directories (up to the order in which entries are listed) *)
Theorem C06_digest_faithful :
  forall (H : str -> str) (ser_dir : dir_msg -> str) (ser_tree : tree_msg -> str)
         (deser_tree : str -> option tree_msg),
    (forall x y, H x = H y -> x = y) ->
    (forall x y, ser_dir x = ser_dir y -> x = y) ->
    (forall m, deser_tree (ser_tree m) = Some m) ->
  forall es1 es2, wf_tree (Dir es1) -> wf_tree (Dir es2) ->
    tree_digest H ser_dir ser_tree (Dir es1) = tree_digest H ser_dir ser_tree (Dir es2) ->
    normalise (Dir es1) = normalise (Dir es2).
Proof. exact digest_faithful. Qed.
Print Assumptions C06_digest_faithful.

(* File outputs.  The unguarded statement
     forall content exec dest, file_load (file_write (content, exec)) dest = Done (File content exec)
   is false of the faithful model (two refutations below).  Strongest true version: the restore
   succeeds iff no directory sits at the path (file_restore_possible; a missing parent directory
   is created), and then the exec bit is the one the path had before -- never the cached
   one (file_restore_exec dest = exec is the guard under which the round trip is exact). *)
Theorem C06_file_roundtrip_partial :
  forall (H : str -> str), (forall x y, H x = H y -> x = y) ->
  forall c x st dest,
    cas_sound H st ->
    file_restore_possible dest = true ->
    file_restore_exec dest = x ->
    let '(st', d) := file_write H c x st in
    file_load H d st' dest = Done (File c x).
Proof. exact file_roundtrip_guarded. Qed.
Print Assumptions C06_file_roundtrip_partial.

(* the bytes always come back (modified, truncated, absent, identical prior content alike) *)
Theorem C06_file_content_restored :
  forall (H : str -> str), (forall x y, H x = H y -> x = y) ->
  forall c x st dest,
    cas_sound H st -> file_restore_possible dest = true ->
    let '(st', d) := file_write H c x st in
    file_load H d st' dest = Done (File c (file_restore_exec dest)).
Proof. exact file_content_restored. Qed.
Print Assumptions C06_file_content_restored.

Theorem C06_file_roundtrip_refuted_exec :
  exists c x st dest,
    let '(st', d) := file_write Hid c x st in
    file_load Hid d st' dest <> Done (File c x) /\ file_load Hid d st' dest = Done (File c false) /\
    x = true /\ dest = DAbsent.
Proof. exact file_roundtrip_refuted_exec. Qed.
Print Assumptions C06_file_roundtrip_refuted_exec.

(* a missing parent directory is created (fixed upstream in bb649a3; it used to be a second refutation) *)
Theorem C06_file_roundtrip_parent_absent :
  forall c st, cas_sound Hid st ->
    let '(st', d) := file_write Hid c false st in
    file_load Hid d st' DParentAbsent = Done (File c false).
Proof. exact file_roundtrip_parent_absent. Qed.
Print Assumptions C06_file_roundtrip_parent_absent.

Theorem C06_file_roundtrip_refuted_directory :
  exists c x st,
    let '(st', d) := file_write Hid c x st in
    file_load Hid d st' (DDir []) = Error.
Proof. exact file_roundtrip_refuted_directory. Qed.
Print Assumptions C06_file_roundtrip_refuted_directory.

(* the hypotheses on H / ser_dir / ser_tree / deser_tree are satisfiable (by the encoders the
   extracted model runs with) *)
Theorem C06_hypotheses_nonvacuous :
  (forall x y, Hid x = Hid y -> x = y) /\
  (forall x y, enc_dir x = enc_dir y -> x = y) /\
  (forall m, dec_tree (enc_tree m) = Some m).
Proof. exact model_hypotheses_nonvacuous. Qed.
Print Assumptions C06_hypotheses_nonvacuous.
