(* C06 -- Cached outputs are restored exactly, from any workspace state.  Statements only.
   H = digest function, ser_dir / ser_tree = deterministic protobuf Marshal, deser_tree = Unmarshal;
   they are idealised by the three hypotheses of each theorem (satisfiable: last theorem). *)
From Grog Require Import Str Tree Tree_proofs.

(* Directory outputs: whatever sits at the destination (absent, parents absent, the same tree, modified /
   truncated content, stale extra entries, a regular file), restoring a tree that was written to a sound
   store yields exactly its canonical listing: names, contents, exec bits, link targets, empty
   sub-directories, nothing extra.  Hypotheses forced by the proof: entry names are distinct (wf_tree: a
   real directory), the store is content-addressed when the output is written (cas_sound: Cas.Write skips
   existing digests and Load never re-hashes, so a corrupt blob would be restored as is -- C07's subject),
   the tree nests no deeper than the path length the OS accepts (maxdepth), and the directory found at
   the destination, if any, is a real directory too (wf_dest). *)
Theorem C06_dir_roundtrip :
  forall (H : str -> str) (ser_dir : dir_msg -> str) (ser_tree : tree_msg -> str)
         (deser_tree : str -> option tree_msg),
    (forall x y, H x = H y -> x = y) ->
    (forall x y, ser_dir x = ser_dir y -> x = y) ->
    (forall m, deser_tree (ser_tree m) = Some m) ->
  forall t st st' ref maxdepth,
    wf_tree t -> cas_sound H st -> depth t <= maxdepth ->
    write_tree H ser_dir ser_tree t st = Some (st', ref) ->
    forall dest, wf_dest dest ->
      load_tree H ser_dir ser_tree deser_tree maxdepth ref st' dest = Done (normalise t).
Proof. exact dir_roundtrip. Qed.
Print Assumptions C06_dir_roundtrip.

(* the "skip when the local directory hashes to the stored digest" shortcut is sound: equal tree
   digests mean equal directories (up to the order in which entries are listed) *)
Theorem C06_digest_faithful :
  forall (H : str -> str) (ser_dir : dir_msg -> str) (ser_tree : tree_msg -> str)
         (deser_tree : str -> option tree_msg),
    (forall x y, H x = H y -> x = y) ->
    (forall x y, ser_dir x = ser_dir y -> x = y) ->
    (forall m, deser_tree (ser_tree m) = Some m) ->
  forall es1 es2, wf_tree (Dir es1) -> wf_tree (Dir es2) ->
    tree_digest H ser_dir ser_tree (Dir es1) = tree_digest H ser_dir ser_tree (Dir es2) ->
    normalise (Dir es1) = normalise (Dir es2).
Proof. exact digest_faithful. Qed.
Print Assumptions C06_digest_faithful.

(* File outputs.  Content AND executable bit are restored (FileOutput.is_executable is recorded by
   Write and applied by Load since the repair of C06-F1), from EVERY prior state of the path --
   absent, parent directory absent, the same file, a modified / truncated file, either exec bit, and
   a directory sitting at the path, whatever it holds (Load removes it before creating the file since
   the repair of C06-F3; the theorem used to be C06_file_roundtrip_partial with the guard
   file_restore_possible dest = true).  The one remaining hypothesis is about the store, not about the
   path: cas_sound as for directories. *)
Theorem C06_file_roundtrip :
  forall (H : str -> str), (forall x y, H x = H y -> x = y) ->
  forall c x st dest,
    cas_sound H st ->
    let '(st', m) := file_write H c x st in
    file_load H m st' dest = Done (File c x).
Proof. exact file_roundtrip. Qed.
Print Assumptions C06_file_roundtrip.

(* what is left of "the restore is impossible" (formerly C06_file_restore_impossible: a directory at
   the path => Error): for ANY file record, store and prior state, Load fails exactly when the store
   does not hold the blob and the path does not already hold the recorded content; it never hangs *)
Theorem C06_file_restore_fails_iff :
  forall (H : str -> str) m st dest,
    (file_load H m st dest = Error <->
     file_in_place H m dest = false /\ cas_get st (d_hash (fm_digest m)) = None) /\
    file_load H m st dest <> Stuck.
Proof. exact file_restore_fails_iff. Qed.
Print Assumptions C06_file_restore_fails_iff.

(* concrete instances (the witness that used to refute the round trip, C06-F1): a cached executable comes
   back executable into an absent path, an absent parent, over a non-executable file with the same and
   with other content; a cached non-executable file loses the exec bit of the file it replaces *)
Theorem C06_file_roundtrip_exec_witness :
  let '(st', m) := file_write Hid (s1 "x") true [] in
  file_load Hid m st' DAbsent = Done (File (s1 "x") true) /\
  file_load Hid m st' DParentAbsent = Done (File (s1 "x") true) /\
  file_load Hid m st' (DFile (s1 "x") false) = Done (File (s1 "x") true) /\
  file_load Hid m st' (DFile (s1 "y") false) = Done (File (s1 "x") true) /\
  (let '(st2, m2) := file_write Hid (s1 "x") false [] in
   file_load Hid m2 st2 (DFile (s1 "x") true) = Done (File (s1 "x") false)).
Proof. exact file_roundtrip_exec_witness. Qed.
Print Assumptions C06_file_roundtrip_exec_witness.

(* a missing parent directory is created (fixed upstream in bb649a3; it used to be a second refutation) *)
Theorem C06_file_roundtrip_parent_absent :
  forall c x st, cas_sound Hid st ->
    let '(st', m) := file_write Hid c x st in
    file_load Hid m st' DParentAbsent = Done (File c x).
Proof. exact file_roundtrip_parent_absent. Qed.
Print Assumptions C06_file_roundtrip_parent_absent.

(* the witness that used to refute the round trip (C06-F3, C06_file_roundtrip_refuted_directory): an empty
   directory and one holding a file and a sub-directory are replaced by the cached file *)
Theorem C06_file_roundtrip_directory_replaced :
  forall c x st, cas_sound Hid st ->
    let '(st', m) := file_write Hid c x st in
    file_load Hid m st' (DDir []) = Done (File c x) /\
    file_load Hid m st' (DDir stale_dir) = Done (File c x).
Proof. exact file_roundtrip_directory_replaced. Qed.
Print Assumptions C06_file_roundtrip_directory_replaced.

(* the hypotheses on H / ser_dir / ser_tree / deser_tree are satisfiable (by the encoders the
   extracted model runs with) *)
Theorem C06_hypotheses_nonvacuous :
  (forall x y, Hid x = Hid y -> x = y) /\
  (forall x y, enc_dir x = enc_dir y -> x = y) /\
  (forall m, dec_tree (enc_tree m) = Some m).
Proof. exact model_hypotheses_nonvacuous. Qed.
Print Assumptions C06_hypotheses_nonvacuous.
