(* C19 -- Graph algorithms scale polynomially, not with the number of paths.
   Only statements, each closed by [exact] of a lemma from Select_proofs.v.
   Cost = number of entries into the recursive Go function ([*_paths_cost]: the code as it is,
   selectAllAncestorsForBuild / GetAncestors / GetDescendants without a visited set) resp.
   entries + edges inspected ([*_visited_cost]: the same traversals with a visited set). *)
From Grog Require Import Str Label Graph Select Select_proofs.

(* with a visited set every traversal is linear *)
Theorem C19_select_linear : forall g r, wf_graph g -> select_visited_cost g r <= size g + edges g + 1.
Proof. exact select_visited_linear. Qed.
Print Assumptions C19_select_linear.

Theorem C19_ancestors_linear : forall g n, wf_graph g -> ancestors_visited_cost g n <= size g + edges g + 1.
Proof. exact ancestors_visited_linear. Qed.
Print Assumptions C19_ancestors_linear.

Theorem C19_descendants_linear : forall g n, wf_graph g -> descendants_visited_cost g n <= size g + edges g + 1.
Proof. exact descendants_visited_linear. Qed.
Print Assumptions C19_descendants_linear.

(* the code as it is: the number of calls is the number of dependency paths + 1 ... *)
Theorem C19_select_calls_are_paths : forall g r, select_paths_cost g r = S (length (ancestors_paths g r)).
Proof. exact select_paths_cost_eq. Qed.
Print Assumptions C19_select_calls_are_paths.

Theorem C19_ancestors_calls_are_paths : forall g n, ancestors_paths_cost g n = S (length (ancestors_paths g n)).
Proof. exact ancestors_paths_cost_eq. Qed.
Print Assumptions C19_ancestors_calls_are_paths.

Theorem C19_descendants_calls_are_paths : forall g n, descendants_paths_cost g n = S (length (descendants_paths g n)).
Proof. exact descendants_paths_cost_eq. Qed.
Print Assumptions C19_descendants_calls_are_paths.

(* ... which is exponential in the depth of a ladder: 1 + w + w^2 + ... + w^d from any top node
   of ladder w d, i.e. 2^(d+1) - 1 for width 2 ... *)
Theorem C19_paths_geometric : forall w d k, k < w -> select_paths_cost (ladder w d) (d * w + k) = geom w d.
Proof. exact select_cost_ladder. Qed.
Print Assumptions C19_paths_geometric.

Theorem C19_paths_exponential : forall d, select_paths_cost (ladder 2 d) (2 * d) = 2 ^ (d + 1) - 1.
Proof. exact select_cost_ladder2. Qed.
Print Assumptions C19_paths_exponential.

Theorem C19_ancestors_paths_exponential : forall d, ancestors_paths_cost (ladder 2 d) (2 * d) = 2 ^ (d + 1) - 1.
Proof. exact ancestors_cost_ladder2. Qed.
Print Assumptions C19_ancestors_paths_exponential.

(* ... while a chain costs its length *)
Theorem C19_chain_linear : forall n, 0 < n -> select_paths_cost (chain n) (n - 1) = n.
Proof. exact select_cost_chain. Qed.
Print Assumptions C19_chain_linear.

Theorem C19_chain_same_size : size (chain 30) = size (ladder 2 14) /\ select_paths_cost (chain 30) 29 = 30.
Proof. exact chain_same_size_linear. Qed.
Print Assumptions C19_chain_same_size.

(* polynomial bound REFUTED for the code as it is (known findings C19-F1..F3): the 30-node
   ladder of width 2 exceeds 4*(V+E+1)^2 *)
Theorem C19_poly_refuted :
  exists g r, topo g /\ select_paths_cost g r > 4 * (size g + edges g + 1) ^ 2.
Proof. exact select_poly_refuted. Qed.
Print Assumptions C19_poly_refuted.

Theorem C19_ancestors_poly_refuted :
  exists g n, topo g /\ ancestors_paths_cost g n > 4 * (size g + edges g + 1) ^ 2.
Proof. exact ancestors_poly_refuted. Qed.
Print Assumptions C19_ancestors_poly_refuted.

Theorem C19_descendants_poly_refuted :
  exists g n, topo g /\ descendants_paths_cost g n > 4 * (size g + edges g + 1) ^ 2.
Proof. exact descendants_poly_refuted. Qed.
Print Assumptions C19_descendants_poly_refuted.
