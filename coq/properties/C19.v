(* C19 -- Graph algorithms scale polynomially, not with the number of paths.
   Only statements, each closed by [exact] of a lemma from Select_proofs.v.
   The three traversals are modelled as the code has them since the repair of C19-F1..F3:
   selectAllAncestorsForBuild, GetAncestors and GetDescendants keep a visited map
   ([select_visited] / [ancestors_visited] / [descendants_visited] = Select.dfs over the
   dependencies resp. the dependants).  Cost = entries into the recursive function + edges
   inspected ([*_visited_cost]); [*_visited_calls] = the entries alone, which is what the check
   counts on the implementation.  [wsum next l] = sum over v in l of (1 + number of successors of v). *)
From Grog Require Import Str Label Graph Select Select_proofs.

(* every traversal is linear in nodes + edges ... *)
Theorem C19_select_linear : forall g r, wf_graph g -> select_visited_cost g r <= size g + edges g + 1.
Proof. exact select_visited_linear. Qed.
Print Assumptions C19_select_linear.

Theorem C19_ancestors_linear : forall g n, wf_graph g -> ancestors_visited_cost g n <= size g + edges g + 1.
Proof. exact ancestors_visited_linear. Qed.
Print Assumptions C19_ancestors_linear.

Theorem C19_descendants_linear : forall g n, wf_graph g -> descendants_visited_cost g n <= size g + edges g + 1.
Proof. exact descendants_visited_linear. Qed.
Print Assumptions C19_descendants_linear.

(* ... hence below the small polynomial the property asks for (the bound that was refuted for the
   path-enumerating versions: former C19_poly_refuted / _ancestors_ / _descendants_) *)
Theorem C19_select_poly : forall g r, wf_graph g -> select_visited_cost g r <= 4 * (size g + edges g + 1) ^ 2.
Proof. exact select_visited_poly. Qed.
Print Assumptions C19_select_poly.

Theorem C19_ancestors_poly : forall g n, wf_graph g -> ancestors_visited_cost g n <= 4 * (size g + edges g + 1) ^ 2.
Proof. exact ancestors_visited_poly. Qed.
Print Assumptions C19_ancestors_poly.

Theorem C19_descendants_poly : forall g n, wf_graph g -> descendants_visited_cost g n <= 4 * (size g + edges g + 1) ^ 2.
Proof. exact descendants_visited_poly. Qed.
Print Assumptions C19_descendants_poly.

(* the cost is exactly one unit per node entered plus one per edge leaving an entered node ... *)
Theorem C19_select_cost_exact : forall g r, topo g ->
  select_visited_cost g r = wsum (deps g) (fst (select_visited g r)).
Proof. exact select_visited_cost_exact. Qed.
Print Assumptions C19_select_cost_exact.

Theorem C19_ancestors_cost_exact : forall g n, topo g ->
  ancestors_visited_cost g n = weight (deps g) n + wsum (deps g) (deps_t g n).
Proof. exact ancestors_visited_cost_exact. Qed.
Print Assumptions C19_ancestors_cost_exact.

Theorem C19_descendants_cost_exact : forall g n, topo g ->
  descendants_visited_cost g n = weight (dependants g) n + wsum (dependants g) (rdeps_t g n).
Proof. exact descendants_visited_cost_exact. Qed.
Print Assumptions C19_descendants_cost_exact.

(* ... and the recursive function is entered once per distinct node: 1 + the number of distinct
   transitive dependencies / dependants (the count the check reads off the implementation) *)
Theorem C19_select_calls : forall g r, select_visited_calls g r = S (length (deps_t g r)).
Proof. exact select_visited_calls_eq. Qed.
Print Assumptions C19_select_calls.

Theorem C19_ancestors_calls : forall g n, ancestors_visited_calls g n = S (length (deps_t g n)).
Proof. exact ancestors_visited_calls_eq. Qed.
Print Assumptions C19_ancestors_calls.

Theorem C19_descendants_calls : forall g n, descendants_visited_calls g n = S (length (rdeps_t g n)).
Proof. exact descendants_visited_calls_eq. Qed.
Print Assumptions C19_descendants_calls.

(* the traversal whose cost is bounded is the one the selection (C12) performs: without platform
   constraints the visited map of selecting the single root r is the one of [select_visited] *)
Theorem C19_select_visited_is_selection : forall g r,
  selv_roots g (fun _ => true) [r] [] = Some (fst (select_visited g r)).
Proof. exact select_visited_is_selection. Qed.
Print Assumptions C19_select_visited_is_selection.

(* the witness of the former refutation: the 30-node ladder of width 2 (32767 calls each before
   the repair) costs 83 steps; V + E + 1 = 87 *)
Theorem C19_ladder_2_14 :
  select_visited_cost (ladder 2 14) 28 = 83 /\ ancestors_visited_cost (ladder 2 14) 28 = 83 /\
  descendants_visited_cost (ladder 2 14) 0 = 83 /\ size (ladder 2 14) + edges (ladder 2 14) + 1 = 87.
Proof. exact ladder_2_14_cost. Qed.
Print Assumptions C19_ladder_2_14.

(* the hypotheses [wf_graph] / [topo] hold on every ladder (and every finite DAG has a topological numbering) *)
Theorem C19_hypotheses_nonvacuous : forall w d, topo (ladder w d) /\ wf_graph (ladder w d).
Proof. exact visited_bounds_nonvacuous. Qed.
Print Assumptions C19_hypotheses_nonvacuous.
