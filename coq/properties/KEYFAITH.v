(* KEYFAITH -- C01's abstract guard [key_faithful] discharged from C09's injectivity of the framed
   key encoding and a decidable, structural guard on the snapshots of the history.
   Statements only; definitions in theories/Build_keyfaith.v ([dep_shape], [cmd_faithful] and its
   boolean [cmd_faithfulb], [labels_unique] / [labels_uniqueb], [outdefs_comma_free] /
   [outdefs_comma_freeb], [snaps_okb] = all three, the digest [pf_enc], [incremental_differs]);
   proofs in theories/Build_keyfaith_proofs.v.
   The digest H is idealised as injective, lower-case-hex-only and prefix-free.

   No-cache targets are admitted anywhere in the graph ([op_ok] / [plain] only ask for a command).
   [cmd_faithful] also asks that equal label + equal command text give an equal no-cache tag (the key
   does not cover the tag), and [outdefs_comma_free] that no output path of a no-cache target contains
   a ',' (the no-cache output hash joins its "<definition>=<digest>" items with ','; with that, an equal
   contribution of a no-cache dependency means equal bytes at its outputs).  A dependency that is no-cache
   in one snapshot and cacheable in another needs no guard: its two output hashes are digests of a text
   with '=' resp. of hex digits only, and cannot coincide. *)
From Coq Require Import List Ascii.
From Grog Require Import Str Label HashKey Build Build_ideal Build_keyfaith Build_keyfaith_proofs.
Import ListNotations.

(* the structural guard is decidable *)
Theorem KEYFAITH_cmd_faithful_decidable : forall V, cmd_faithfulb V = true <-> cmd_faithful V.
Proof. exact cmd_faithfulb_spec. Qed.
Print Assumptions KEYFAITH_cmd_faithful_decidable.

Theorem KEYFAITH_guard_decidable : forall V,
  snaps_okb V = true <-> cmd_faithful V /\ Forall labels_unique V /\ Forall outdefs_comma_free V.
Proof. exact snaps_okb_spec. Qed.
Print Assumptions KEYFAITH_guard_decidable.

(* unique printed labels = unique labels, for names without ':' (validateName) *)
Theorem KEYFAITH_labels_unique_of_names : forall s,
  NoDup (map node_label (s_nodes s)) ->
  (forall n, In n (s_nodes s) -> ~ In ch_colon (lname (node_label n))) ->
  labels_unique s.
Proof. exact labels_unique_of_names. Qed.
Print Assumptions KEYFAITH_labels_unique_of_names.

(* 1. the bridge: equal label + equal command text => equal salt / behaviour / check flag / read shape /
   no-cache tag, unique printed labels per snapshot and comma-free output paths of the no-cache targets
   give the abstract guard of C01 *)
Theorem KEYFAITH_key_faithful : forall (H : str -> str),
  (forall a b, H a = H b -> a = b) ->
  (forall x c, In c (H x) -> is_hex c = true) ->
  (forall x y p, H y = H x ++ p -> p = []) ->
  forall V, Forall labels_unique V -> Forall outdefs_comma_free V -> cmd_faithful V -> key_faithful H V.
Proof. exact key_faithful_of_cmd_faithful. Qed.
Print Assumptions KEYFAITH_key_faithful.

(* 2. hence the guard of the C01 theorems *)
Theorem KEYFAITH_hist_ok : forall (H : str -> str),
  (forall a b, H a = H b -> a = b) ->
  (forall x c, In c (H x) -> is_hex c = true) ->
  (forall x y p, H y = H x ++ p -> p = []) ->
  forall ops, Forall op_ok ops -> Forall labels_unique (snaps ops) ->
  Forall outdefs_comma_free (snaps ops) -> cmd_faithful (snaps ops) -> hist_ok H ops.
Proof. exact hist_ok_of_cmd_faithful. Qed.
Print Assumptions KEYFAITH_hist_ok.

Theorem KEYFAITH_hist_ok_bool : forall (H : str -> str),
  (forall a b, H a = H b -> a = b) ->
  (forall x c, In c (H x) -> is_hex c = true) ->
  (forall x y p, H y = H x ++ p -> p = []) ->
  forall ops, Forall op_ok ops -> snaps_okb (snaps ops) = true -> hist_ok H ops.
Proof. exact hist_ok_of_structure. Qed.
Print Assumptions KEYFAITH_hist_ok_bool.

(* 3. the C01 theorems with no abstract guard: incremental = clean ... *)
Theorem KEYFAITH_incremental_equals_clean : forall (H : str -> str),
  (forall a b, H a = H b -> a = b) ->
  (forall x c, In c (H x) -> is_hex c = true) ->
  (forall x y p, H y = H x ++ p -> p = []) ->
  forall ops cfg roots ext', Forall op_ok ops -> snaps_okb (snaps ops) = true -> cfg_ok cfg ->
  let y := run_history H ops in
  let r := build H cfg (sy_src y) roots (sy_world y) (sy_cache y) in
  let rc := clean_build H cfg (sy_src y) roots ext' in
  forall i t o, node_at (sy_src y) i = Some (NTarget t) -> In o (td_outs t) ->
    nth i (br_status r) TNone = THit \/ nth i (br_status r) TNone = TExecuted ->
    nth i (br_status rc) TNone = THit \/ nth i (br_status rc) TNone = TExecuted ->
    exists x, ws_get (out_path t o) (w_ws (br_world r)) = PFile x /\
              ws_get (out_path t o) (w_ws (br_world rc)) = PFile x.
Proof. exact kf_incremental_equals_clean. Qed.
Print Assumptions KEYFAITH_incremental_equals_clean.

(* ... every successful target holds the ideal bytes ... *)
Theorem KEYFAITH_build_ideal : forall (H : str -> str),
  (forall a b, H a = H b -> a = b) ->
  (forall x c, In c (H x) -> is_hex c = true) ->
  (forall x y p, H y = H x ++ p -> p = []) ->
  forall ops cfg roots, Forall op_ok ops -> snaps_okb (snaps ops) = true -> cfg_ok cfg ->
  let y := run_history H ops in
  let r := build H cfg (sy_src y) roots (sy_world y) (sy_cache y) in
  forall i t, node_at (sy_src y) i = Some (NTarget t) ->
    nth i (br_status r) TNone = THit \/ nth i (br_status r) TNone = TExecuted ->
    exists d, nth i (ideal H (sy_src y)) None = Some d /\ map fst (i_outs d) = td_outs t /\
      forall o x, In (o, x) (i_outs d) -> ws_get (out_path t o) (w_ws (br_world r)) = PFile x.
Proof. exact kf_build_ideal. Qed.
Print Assumptions KEYFAITH_build_ideal.

(* ... the persistent cache stays sound ... *)
Theorem KEYFAITH_cache_sound_every_history : forall (H : str -> str),
  (forall a b, H a = H b -> a = b) ->
  (forall x c, In c (H x) -> is_hex c = true) ->
  (forall x y p, H y = H x ++ p -> p = []) ->
  forall ops, Forall op_ok ops -> snaps_okb (snaps ops) = true ->
  cache_sound H (snaps ops) (sy_cache (run_history H ops)).
Proof. exact kf_cache_sound_every_history. Qed.
Print Assumptions KEYFAITH_cache_sound_every_history.

(* ... a hit is served only to a target with the key and the ideal outputs of the producer ... *)
Theorem KEYFAITH_hit_only_for_equal_key_state : forall (H : str -> str),
  (forall a b, H a = H b -> a = b) ->
  (forall x c, In c (H x) -> is_hex c = true) ->
  (forall x y p, H y = H x ++ p -> p = []) ->
  forall ops cfg roots, Forall op_ok ops -> snaps_okb (snaps ops) = true -> cfg_ok cfg ->
  let y := run_history H ops in
  let r := build H cfg (sy_src y) roots (sy_world y) (sy_cache y) in
  forall i t, node_at (sy_src y) i = Some (NTarget t) ->
    nth i (br_status r) TNone = THit ->
    exists key res s' j' d' d,
      served H (sy_src y) i t
             (build_prefix H cfg (sy_src y) roots (sy_world y) (sy_cache y) i) = Some (key, res) /\
      In s' (snaps ops) /\ is_target s' j' /\
      nth j' (ideal H s') None = Some d' /\ nth i (ideal H (sy_src y)) None = Some d /\
      i_key d' = key /\ i_key d = key /\ res = res_of H d' /\ same_outs d d'.
Proof. exact kf_hit_only_for_equal_key_state. Qed.
Print Assumptions KEYFAITH_hit_only_for_equal_key_state.

(* ... also after cache faults *)
Theorem KEYFAITH_after_cache_faults : forall (H : str -> str),
  (forall a b, H a = H b -> a = b) ->
  (forall x c, In c (H x) -> is_hex c = true) ->
  (forall x y p, H y = H x ++ p -> p = []) ->
  forall ops faults cfg roots ext',
  Forall op_ok ops -> snaps_okb (snaps ops) = true -> Forall is_cache_fault faults -> cfg_ok cfg ->
  let y := run_history H (ops ++ faults) in
  let r := build H cfg (sy_src y) roots (sy_world y) (sy_cache y) in
  let rc := clean_build H cfg (sy_src y) roots ext' in
  forall i t o, node_at (sy_src y) i = Some (NTarget t) -> In o (td_outs t) ->
    nth i (br_status r) TNone = THit \/ nth i (br_status r) TNone = TExecuted ->
    nth i (br_status rc) TNone = THit \/ nth i (br_status rc) TNone = TExecuted ->
    exists x, ws_get (out_path t o) (w_ws (br_world r)) = PFile x /\
              ws_get (out_path t o) (w_ws (br_world rc)) = PFile x.
Proof. exact kf_after_cache_faults. Qed.
Print Assumptions KEYFAITH_after_cache_faults.

(* 4. every conjunct of the guard is needed (digest pf_enc, checked by the kernel).  In each witness
   every other conjunct holds ([cmd_faithfulb_m]: the guard with the named conjunct switched off).
   Salt: two snapshots that differ only in the salt; the build after the edit is a Hit that serves the
   bytes of the first snapshot *)
Theorem KEYFAITH_without_salt_refuted :
  exists ops cfg roots ext' i t o,
    Forall op_ok ops /\ Forall labels_unique (snaps ops) /\ Forall outdefs_comma_free (snaps ops) /\
    cfg_ok cfg /\ cmd_faithfulb_m (mkMask false true true true true) (snaps ops) = true /\
    incremental_differs pf_enc ops cfg roots ext' i t o /\ ~ key_faithful pf_enc (snaps ops).
Proof. exact salt_needed. Qed.
Print Assumptions KEYFAITH_without_salt_refuted.

(* read shape: two snapshots that differ only in the order of two dependencies: one key, other bytes *)
Theorem KEYFAITH_without_dep_shape_refuted :
  exists ops cfg roots ext' i t o,
    Forall op_ok ops /\ Forall labels_unique (snaps ops) /\ Forall outdefs_comma_free (snaps ops) /\
    cfg_ok cfg /\ cmd_faithfulb_m (mkMask true true true false true) (snaps ops) = true /\
    incremental_differs pf_enc ops cfg roots ext' i t o /\ ~ key_faithful pf_enc (snaps ops).
Proof. exact dep_shape_needed. Qed.
Print Assumptions KEYFAITH_without_dep_shape_refuted.

(* behaviour: a failing and a succeeding command with one key *)
Theorem KEYFAITH_without_beh_refuted :
  exists V, Forall src_ok V /\ Forall labels_unique V /\ Forall outdefs_comma_free V /\
    cmd_faithfulb_m (mkMask true false true true true) V = true /\ ~ key_faithful pf_enc V.
Proof. exact beh_needed. Qed.
Print Assumptions KEYFAITH_without_beh_refuted.

(* check flag: the command destroys the condition its own output check inspects / has no check *)
Theorem KEYFAITH_without_check_refuted :
  exists V, Forall src_ok V /\ Forall labels_unique V /\ Forall outdefs_comma_free V /\
    cmd_faithfulb_m (mkMask true true false true true) V = true /\ ~ key_faithful pf_enc V.
Proof. exact check_needed. Qed.
Print Assumptions KEYFAITH_without_check_refuted.

(* the masked guard with every conjunct on is the guard *)
Theorem KEYFAITH_mask_full : forall V, cmd_faithfulb_m (mkMask true true true true true) V = cmd_faithfulb V.
Proof. exact cmd_faithfulb_m_full. Qed.
Print Assumptions KEYFAITH_mask_full.

(* uniqueness of the PRINTED labels: unique labels are not enough (("a:b","c") and ("a","b:c") both
   print "//a:b:c", and dependency contributions carry the printed label) *)
Theorem KEYFAITH_without_printed_labels_refuted :
  exists ops cfg roots ext' i t o,
    Forall op_ok ops /\ Forall (fun s => NoDup (map node_label (s_nodes s))) (snaps ops) /\
    Forall outdefs_comma_free (snaps ops) /\ cfg_ok cfg /\
    cmd_faithfulb (snaps ops) = true /\
    incremental_differs pf_enc ops cfg roots ext' i t o /\ ~ key_faithful pf_enc (snaps ops).
Proof. exact printed_labels_needed. Qed.
Print Assumptions KEYFAITH_without_printed_labels_refuted.

(* the no-cache tag: t (no outputs) is no-cache in the first snapshot and cacheable in the second, u depends
   on t.  One key for t in both, so [key_faithful] fails; in the build after the edit t is served the
   output-less record of its no-cache execution and u is looked up (here: served) under a key that differs
   from the key the from-scratch build of the same sources gives it.  (The bytes agree -- t has no
   outputs --, so this witness refutes the abstract guard and the key-level invariant of the proof, not
   incremental = clean.) *)
Theorem KEYFAITH_without_nocache_tag_refuted :
  exists ops cfg roots,
    Forall op_ok ops /\ Forall labels_unique (snaps ops) /\ Forall outdefs_comma_free (snaps ops) /\
    cfg_ok cfg /\ cmd_faithfulb_m (mkMask true true true true false) (snaps ops) = true /\
    ~ key_faithful pf_enc (snaps ops) /\
    let y := run_history pf_enc ops in
    let r := build pf_enc cfg (sy_src y) roots (sy_world y) (sy_cache y) in
    br_status r = [THit; THit] /\
    rt_key (get_rt (build_prefix pf_enc cfg (sy_src y) roots (sy_world y) (sy_cache y) 2) 1) <>
    option_map i_key (nth 1 (ideal pf_enc (sy_src y)) None).
Proof. exact nocache_flag_needed. Qed.
Print Assumptions KEYFAITH_without_nocache_tag_refuted.

(* comma-free output paths: what the guard buys is the unique decoding of the no-cache output hash ... *)
Theorem KEYFAITH_nocache_hash_injective : forall (H : str -> str),
  (forall a b, H a = H b -> a = b) ->
  forall l l' : list (str * str), length l = length l' ->
  (forall e, In e l -> ~ In ch_comma (nocache_item e)) ->
  (forall e, In e l' -> ~ In ch_comma (nocache_item e)) ->
  nocache_output_hash H l = nocache_output_hash H l' ->
  Permutation (map nocache_item l) (map nocache_item l').
Proof. exact nocache_hash_inj. Qed.
Print Assumptions KEYFAITH_nocache_hash_injective.

(* ... which fails without it, for every digest function: the definitions "file::a" and "file::a=0,file::a"
   holding the digests 0, 1 resp. 1, 0 are hashed as one text.  (No history of Build.v reaches this state --
   every generated output embeds its own definition, two outputs never exchange digests --, so there is no
   witness at the level of histories: the guard is what the proof of the bridge uses.) *)
Theorem KEYFAITH_nocache_hash_needs_comma_free :
  exists l l' : list (str * str), length l = length l' /\
    (forall e, In e (l ++ l') -> ~ In ch_eq (snd e) /\ ~ In ch_comma (snd e)) /\
    ~ Permutation (map nocache_item l) (map nocache_item l') /\
    forall H : str -> str, nocache_output_hash H l = nocache_output_hash H l'.
Proof. exact nocache_hash_needs_comma_free. Qed.
Print Assumptions KEYFAITH_nocache_hash_needs_comma_free.

(* a dependency whose no-cache tag differs between two snapshots contributes differently (no guard needed) *)
Theorem KEYFAITH_nocache_hash_not_output_hash : forall (H : str -> str),
  (forall a b, H a = H b -> a = b) ->
  (forall x c, In c (H x) -> is_hex c = true) ->
  forall (l : list (str * str)) (m : list str), l <> [] -> m <> [] ->
  nocache_output_hash H l <> output_hash H m.
Proof. exact nocache_hash_not_output_hash. Qed.
Print Assumptions KEYFAITH_nocache_hash_not_output_hash.

(* 5. non-vacuity: the three hypotheses on the digest are satisfiable ... *)
Theorem KEYFAITH_digest_hypotheses_nonvacuous :
  (forall a b, pf_enc a = pf_enc b -> a = b) /\
  (forall x c, In c (pf_enc x) -> is_hex c = true) /\
  (forall x y p, pf_enc y = pf_enc x ++ p -> p = []).
Proof. exact pf_enc_digest_ok. Qed.
Print Assumptions KEYFAITH_digest_hypotheses_nonvacuous.

(* ... the history of C01_guards_nonvacuous satisfies the structural guard ... *)
Theorem KEYFAITH_nonvacuous :
  exists ops cfg roots,
    Forall op_ok ops /\ snaps_okb (snaps ops) = true /\ cfg_ok cfg /\
    let y := run_history pf_enc ops in
    let r := build pf_enc cfg (sy_src y) roots (sy_world y) (sy_cache y) in
    map br_status (sy_log y) = [[TExecuted; THit; TExecuted]; [TExecuted; THit; TExecuted]] /\
    br_status r = [TExecuted; THit; THit] /\ br_ok r = true.
Proof. exact keyfaith_nonvacuous. Qed.
Print Assumptions KEYFAITH_nonvacuous.

(* ... and so does a history with two DIFFERENT snapshots sharing their keys (the inputs of a target
   declared in another order): the build after the edit is served from the cache *)
Theorem KEYFAITH_nonvacuous_reorder :
  exists ops cfg roots,
    Forall op_ok ops /\ snaps_okb (snaps ops) = true /\ cfg_ok cfg /\
    (exists s s', In s (snaps ops) /\ In s' (snaps ops) /\ s <> s') /\
    let y := run_history pf_enc ops in
    let r := build pf_enc cfg (sy_src y) roots (sy_world y) (sy_cache y) in
    map br_status (sy_log y) = [[TExecuted; TExecuted]] /\
    br_status r = [THit; THit] /\ br_ok r = true.
Proof. exact keyfaith_nonvacuous_reorder. Qed.
Print Assumptions KEYFAITH_nonvacuous_reorder.

(* ... and so does the history of C01_nocache_chain_nonvacuous: a no-cache target (a file and a directory
   output) in the middle of a chain; the build after [build; edit; build] serves its dependency and its
   dependant from the cache and runs the no-cache target *)
Theorem KEYFAITH_nonvacuous_nocache :
  exists ops cfg roots,
    Forall op_ok ops /\ snaps_okb (snaps ops) = true /\ cfg_ok cfg /\
    (exists s t, In s (snaps ops) /\ In (NTarget t) (s_nodes s) /\ td_nocache t = true /\
                 td_outs t <> [] /\ td_deps t <> []) /\
    let y := run_history pf_enc ops in
    let r := build pf_enc cfg (sy_src y) roots (sy_world y) (sy_cache y) in
    map br_status (sy_log y) = [[TExecuted; TExecuted; TExecuted]; [TExecuted; TExecuted; TExecuted]] /\
    br_status r = [THit; TExecuted; THit] /\ br_ok r = true.
Proof. exact keyfaith_nonvacuous_nocache. Qed.
Print Assumptions KEYFAITH_nonvacuous_nocache.
