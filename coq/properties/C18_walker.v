(* C18 (walker part) -- after the outer context is cancelled no command starts, Walk can return,
   and when everything has stopped no node is left waiting or running.
   Only statements, each closed by [exact] of a lemma from Walker_proofs.v. *)
From Grog Require Import Graph Walker Walker_proofs.

Theorem C18_no_start_after_cancel : forall g c pre post s n,
  run g c (pre ++ CtxCancel :: post) = Some s -> ~ In (CmdStart n) post.
Proof. exact no_start_after_cancel. Qed.
Print Assumptions C18_no_start_after_cancel.

Theorem C18_walk_returns_after_cancel : forall g c s,
  reachable g c s -> ctxc s = true -> ret s = false -> In WalkReturn (enabled g c s).
Proof. exact walk_returns_after_cancel. Qed.
Print Assumptions C18_walk_returns_after_cancel.

Theorem C18_cancelled_parked_skipped : forall g c s,
  topo g -> wf_graph g -> W c >= 1 ->
  reachable g c s -> terminal g c s -> ctxc s = true ->
  forall n, n < size g -> st s n <> Parked /\ st s n <> Ready /\ st s n <> Running.
Proof. exact cancelled_parked_skipped. Qed.
Print Assumptions C18_cancelled_parked_skipped.
