(* C20 -- Query commands agree with the graph and predict rebuilds.
   Only statements, each closed by [exact] of a lemma from Select_proofs.v.
   [deps_t] / [rdeps_t] are the code's path enumerations (GetAncestors / GetDescendants),
   [deps_query] / [rdeps_query] / [owners] / [list_query] the printed, sorted lines.
   (C20_rebuild_predicted needs the build model and is stated with it, not here.) *)
From Grog Require Import Str Label Graph Select Select_proofs.

(* deps -t / rdeps -t contain exactly the transitive dependencies / dependants ... *)
Theorem C20_deps_exact : forall g n x, topo g -> (In x (deps_t g n) <-> reach g x n).
Proof. exact ancestors_paths_exact. Qed.
Print Assumptions C20_deps_exact.

Theorem C20_rdeps_exact : forall g n x, topo g -> (In x (rdeps_t g n) <-> reach g n x).
Proof. exact descendants_paths_exact. Qed.
Print Assumptions C20_rdeps_exact.

(* ... but NOT each label once: REFUTED (known finding C20-F1), on the indices and on the
   printed lines (the diamond prints its base twice) *)
Theorem C20_nodup_refuted : exists g n, topo g /\ ~ NoDup (deps_t g n).
Proof. exact deps_nodup_refuted. Qed.
Print Assumptions C20_nodup_refuted.

Theorem C20_rdeps_nodup_refuted : exists g n, topo g /\ ~ NoDup (rdeps_t g n).
Proof. exact rdeps_nodup_refuted. Qed.
Print Assumptions C20_rdeps_nodup_refuted.

Theorem C20_printed_nodup_refuted : exists cfg ns g n, topo g /\ ~ NoDup (deps_query cfg ns g n true).
Proof. exact deps_query_nodup_refuted. Qed.
Print Assumptions C20_printed_nodup_refuted.

(* the de-duplicated enumerations are exact and duplicate free *)
Theorem C20_deps_dedup_exact : forall g n, topo g ->
  NoDup (ancestors_set g n) /\ forall x, In x (ancestors_set g n) <-> reach g x n.
Proof. exact ancestors_set_exact. Qed.
Print Assumptions C20_deps_dedup_exact.

Theorem C20_rdeps_dedup_exact : forall g n, topo g ->
  NoDup (descendants_set g n) /\ forall x, In x (descendants_set g n) <-> reach g n x.
Proof. exact descendants_set_exact. Qed.
Print Assumptions C20_rdeps_dedup_exact.

(* mutual inverses *)
Theorem C20_inverse : forall g n x, topo g -> (In x (deps_t g n) <-> In n (rdeps_t g x)).
Proof. exact deps_rdeps_inverse. Qed.
Print Assumptions C20_inverse.

(* the printed lines: exactly the labels of the (transitive / direct) dependencies and
   dependants that pass the query selector *)
Theorem C20_deps_printed_exact : forall cfg ns g n s, topo g ->
  (In s (deps_query cfg ns g n true) <->
   exists x, reach g x n /\ node_match (query_cfg cfg) (attr ns x) = true /\ s = print_label (nlabel (attr ns x))).
Proof. exact deps_query_exact. Qed.
Print Assumptions C20_deps_printed_exact.

Theorem C20_rdeps_printed_exact : forall cfg ns g n s, topo g ->
  (In s (rdeps_query cfg ns g n true) <->
   exists x, reach g n x /\ node_match (query_cfg cfg) (attr ns x) = true /\ s = print_label (nlabel (attr ns x))).
Proof. exact rdeps_query_exact. Qed.
Print Assumptions C20_rdeps_printed_exact.

Theorem C20_deps_direct_exact : forall cfg ns g n s,
  (In s (deps_query cfg ns g n false) <->
   exists x, In x (deps g n) /\ node_match (query_cfg cfg) (attr ns x) = true /\ s = print_label (nlabel (attr ns x))).
Proof. exact deps_query_direct_exact. Qed.
Print Assumptions C20_deps_direct_exact.

Theorem C20_rdeps_direct_exact : forall cfg ns g n s,
  (In s (rdeps_query cfg ns g n false) <->
   exists x, x < size g /\ In n (deps g x) /\ node_match (query_cfg cfg) (attr ns x) = true
             /\ s = print_label (nlabel (attr ns x))).
Proof. exact rdeps_query_direct_exact. Qed.
Print Assumptions C20_rdeps_direct_exact.

(* owners f: exactly the targets having f among their resolved inputs *)
Theorem C20_owners_exact : forall ns files s,
  In s (owners ns files) <->
  exists i, i < length ns /\ is_target (attr ns i) = true /\
            (exists f inp, In f files /\ In inp (ninputs (attr ns i)) /\ input_path (attr ns i) inp = f) /\
            s = print_label (nlabel (attr ns i)).
Proof. exact owners_exact. Qed.
Print Assumptions C20_owners_exact.

(* list: exactly the pattern and filter matches (the code's filter: an alias only has to match
   the pattern -- known finding C20-F2) *)
Theorem C20_list_exact : forall cfg ns g s,
  In s (list_query cfg ns g) <->
  exists i, i < size g /\ node_matches_filters cfg (attr ns i) = true /\
            node_matches_platform cfg (attr ns i) = true /\ s = print_label (nlabel (attr ns i)).
Proof. exact list_exact. Qed.
Print Assumptions C20_list_exact.
