(* C20 -- Query commands agree with the graph and predict rebuilds.
   Only statements, each closed by [exact] of a lemma from Select_proofs.v.
   [deps_t] / [rdeps_t] are the node lists GetAncestors / GetDescendants return (depth-first with a
   visited map, since the repair of C19-F2/F3), [deps_query] / [rdeps_query] / [owners] /
   [list_query] the printed, sorted lines (label.PrintSorted compacts the sorted list since the
   repair of C20-F1).
   (C20_rebuild_predicted needs the build model and is stated with it, not here.) *)
From Grog Require Import Str Label Graph Select Select_proofs.

(* deps -t / rdeps -t contain exactly the transitive dependencies / dependants ... *)
Theorem C20_deps_exact : forall g n x, topo g -> (In x (deps_t g n) <-> reach g x n).
Proof. exact deps_t_exact. Qed.
Print Assumptions C20_deps_exact.

Theorem C20_rdeps_exact : forall g n x, topo g -> (In x (rdeps_t g n) <-> reach g n x).
Proof. exact rdeps_t_exact. Qed.
Print Assumptions C20_rdeps_exact.

(* ... each node once (formerly REFUTED: C20_nodup_refuted / C20_rdeps_nodup_refuted, finding C20-F1) ... *)
Theorem C20_deps_nodup : forall g n, NoDup (deps_t g n).
Proof. exact deps_t_nodup. Qed.
Print Assumptions C20_deps_nodup.

Theorem C20_rdeps_nodup : forall g n, NoDup (rdeps_t g n).
Proof. exact rdeps_t_nodup. Qed.
Print Assumptions C20_rdeps_nodup.

(* ... and every query prints each label once, transitive or direct, even when a dependency is declared
   twice (formerly REFUTED: C20_printed_nodup_refuted) *)
Theorem C20_deps_printed_nodup : forall cfg ns g n t, NoDup (deps_query cfg ns g n t).
Proof. exact deps_query_nodup. Qed.
Print Assumptions C20_deps_printed_nodup.

Theorem C20_rdeps_printed_nodup : forall cfg ns g n t, NoDup (rdeps_query cfg ns g n t).
Proof. exact rdeps_query_nodup. Qed.
Print Assumptions C20_rdeps_printed_nodup.

Theorem C20_owners_printed_nodup : forall ns files, NoDup (owners ns files).
Proof. exact owners_nodup. Qed.
Print Assumptions C20_owners_printed_nodup.

(* the diamond prints its base once; a dependency declared twice is printed once *)
Theorem C20_diamond_printed :
  deps_query all_cfg dia_nodes diamond 3 true =
  [dslash ++ ch_colon :: w_al; dslash ++ ch_colon :: w_plain; dslash ++ ch_colon :: w_x].
Proof. exact deps_query_diamond. Qed.
Print Assumptions C20_diamond_printed.

Theorem C20_declared_twice_printed :
  deps_query all_cfg dia_nodes [[]; [0; 0]] 1 false = [dslash ++ ch_colon :: w_plain].
Proof. exact deps_query_declared_twice. Qed.
Print Assumptions C20_declared_twice_printed.

(* the node lists are the de-duplicated enumerations of all dependency paths *)
Theorem C20_deps_is_dedup : forall g n x, topo g -> (In x (deps_t g n) <-> In x (ancestors_set g n)).
Proof. exact deps_t_is_ancestors_set. Qed.
Print Assumptions C20_deps_is_dedup.

Theorem C20_rdeps_is_dedup : forall g n x, topo g -> (In x (rdeps_t g n) <-> In x (descendants_set g n)).
Proof. exact rdeps_t_is_descendants_set. Qed.
Print Assumptions C20_rdeps_is_dedup.

(* mutual inverses *)
Theorem C20_inverse : forall g n x, topo g -> (In x (deps_t g n) <-> In n (rdeps_t g x)).
Proof. exact deps_rdeps_inverse. Qed.
Print Assumptions C20_inverse.

(* the printed lines: exactly the labels of the (transitive / direct) dependencies and
   dependants that pass the query selector *)
Theorem C20_deps_printed_exact : forall cfg ns g n s, topo g ->
  (In s (deps_query cfg ns g n true) <->
   exists x, reach g x n /\ node_match (query_cfg cfg) (attr ns x) = true /\ s = print_label (nlabel (attr ns x))).
Proof. exact deps_query_exact. Qed.
Print Assumptions C20_deps_printed_exact.

Theorem C20_rdeps_printed_exact : forall cfg ns g n s, topo g ->
  (In s (rdeps_query cfg ns g n true) <->
   exists x, reach g n x /\ node_match (query_cfg cfg) (attr ns x) = true /\ s = print_label (nlabel (attr ns x))).
Proof. exact rdeps_query_exact. Qed.
Print Assumptions C20_rdeps_printed_exact.

Theorem C20_deps_direct_exact : forall cfg ns g n s,
  (In s (deps_query cfg ns g n false) <->
   exists x, In x (deps g n) /\ node_match (query_cfg cfg) (attr ns x) = true /\ s = print_label (nlabel (attr ns x))).
Proof. exact deps_query_direct_exact. Qed.
Print Assumptions C20_deps_direct_exact.

Theorem C20_rdeps_direct_exact : forall cfg ns g n s,
  (In s (rdeps_query cfg ns g n false) <->
   exists x, x < size g /\ In n (deps g x) /\ node_match (query_cfg cfg) (attr ns x) = true
             /\ s = print_label (nlabel (attr ns x))).
Proof. exact rdeps_query_direct_exact. Qed.
Print Assumptions C20_rdeps_direct_exact.

(* owners f: exactly the targets having f among their resolved inputs *)
Theorem C20_owners_exact : forall ns files s,
  In s (owners ns files) <->
  exists i, i < length ns /\ is_target (attr ns i) = true /\
            (exists f inp, In f files /\ In inp (ninputs (attr ns i)) /\ input_path (attr ns i) inp = f) /\
            s = print_label (nlabel (attr ns i)).
Proof. exact owners_exact. Qed.
Print Assumptions C20_owners_exact.

(* list: exactly the pattern and filter matches (the code's filter: an alias only has to match
   the pattern -- known finding C20-F2) *)
Theorem C20_list_exact : forall cfg ns g s,
  In s (list_query cfg ns g) <->
  exists i, i < size g /\ node_matches_filters cfg (attr ns i) = true /\
            node_matches_platform cfg (attr ns i) = true /\ s = print_label (nlabel (attr ns i)).
Proof. exact list_exact. Qed.
Print Assumptions C20_list_exact.
