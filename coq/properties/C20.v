(* C20 -- Query commands agree with the graph and predict rebuilds.
   Only statements, each closed by [exact] of a lemma from Select_proofs.v or Owners_proofs.v.
   [deps_t] / [rdeps_t] are the node lists GetAncestors / GetDescendants return (depth-first with a
   visited map, since the repair of C19-F2/F3), [deps_query] / [rdeps_query] / [owners] /
   [list_query] the printed, sorted lines (label.PrintSorted compacts the sorted list since the
   repair of C20-F1).  The query selector filters a node by the target it stands for (an alias stands for
   the target it resolves to) since the repair of C20-F2: [passes_filters] is the type / tag /
   exclude-tag / platform test on that target.
   (C20_rebuild_predicted needs the build model and is stated with it, not here.) *)
From Grog Require Import Str Path Path_proofs Label Graph Select Select_proofs Owners_proofs.

(* deps -t / rdeps -t contain exactly the transitive dependencies / dependants ... *)
Theorem C20_deps_exact : forall g n x, topo g -> (In x (deps_t g n) <-> reach g x n).
Proof. exact deps_t_exact. Qed.
Print Assumptions C20_deps_exact.

Theorem C20_rdeps_exact : forall g n x, topo g -> (In x (rdeps_t g n) <-> reach g n x).
Proof. exact rdeps_t_exact. Qed.
Print Assumptions C20_rdeps_exact.

(* ... each node once (formerly REFUTED: C20_nodup_refuted / C20_rdeps_nodup_refuted, finding C20-F1) ... *)
Theorem C20_deps_nodup : forall g n, NoDup (deps_t g n).
Proof. exact deps_t_nodup. Qed.
Print Assumptions C20_deps_nodup.

Theorem C20_rdeps_nodup : forall g n, NoDup (rdeps_t g n).
Proof. exact rdeps_t_nodup. Qed.
Print Assumptions C20_rdeps_nodup.

(* ... and every query prints each label once, transitive or direct, even when a dependency is declared
   twice (formerly REFUTED: C20_printed_nodup_refuted) *)
Theorem C20_deps_printed_nodup : forall cfg ns g n t, NoDup (deps_query cfg ns g n t).
Proof. exact deps_query_nodup. Qed.
Print Assumptions C20_deps_printed_nodup.

Theorem C20_rdeps_printed_nodup : forall cfg ns g n t, NoDup (rdeps_query cfg ns g n t).
Proof. exact rdeps_query_nodup. Qed.
Print Assumptions C20_rdeps_printed_nodup.

Theorem C20_owners_printed_nodup : forall ns files, NoDup (owners ns files).
Proof. exact owners_nodup. Qed.
Print Assumptions C20_owners_printed_nodup.

(* the diamond prints its base once; a dependency declared twice is printed once *)
Theorem C20_diamond_printed :
  deps_query all_cfg dia_nodes diamond 3 true =
  [dslash ++ ch_colon :: w_al; dslash ++ ch_colon :: w_plain; dslash ++ ch_colon :: w_x].
Proof. exact deps_query_diamond. Qed.
Print Assumptions C20_diamond_printed.

Theorem C20_declared_twice_printed :
  deps_query all_cfg dia_nodes [[]; [0; 0]] 1 false = [dslash ++ ch_colon :: w_plain].
Proof. exact deps_query_declared_twice. Qed.
Print Assumptions C20_declared_twice_printed.

(* an alias is filtered like the target it stands for (deps --tag=x, deps, rdeps --exclude-tag=x, list --tag=x //...) *)
Theorem C20_alias_filtered_printed :
  deps_query (mkCfg [] [w_x] [] AllTargets w_linux false) wit_nodes [[]; [0]; [1]] 2 true = [] /\
  deps_query all_cfg wit_nodes [[]; [0]; [1]] 2 true = [dslash ++ ch_colon :: w_al; dslash ++ ch_colon :: w_plain] /\
  rdeps_query (mkCfg [] [] [w_x] AllTargets w_linux false) wit_nodes [[]; [0]; [1]] 0 true = [dslash ++ ch_colon :: w_al] /\
  list_query wit_cfg wit_nodes wit_graph = [dslash ++ ch_colon :: w_tagged].
Proof. exact deps_query_alias_filtered. Qed.
Print Assumptions C20_alias_filtered_printed.

(* the node lists are the de-duplicated enumerations of all dependency paths *)
Theorem C20_deps_is_dedup : forall g n x, topo g -> (In x (deps_t g n) <-> In x (ancestors_set g n)).
Proof. exact deps_t_is_ancestors_set. Qed.
Print Assumptions C20_deps_is_dedup.

Theorem C20_rdeps_is_dedup : forall g n x, topo g -> (In x (rdeps_t g n) <-> In x (descendants_set g n)).
Proof. exact rdeps_t_is_descendants_set. Qed.
Print Assumptions C20_rdeps_is_dedup.

(* mutual inverses *)
Theorem C20_inverse : forall g n x, topo g -> (In x (deps_t g n) <-> In n (rdeps_t g x)).
Proof. exact deps_rdeps_inverse. Qed.
Print Assumptions C20_inverse.

(* the printed lines: exactly the labels of the (transitive / direct) dependencies and
   dependants whose target passes the filters (formerly stated with the code's filter, which let every alias
   through: finding C20-F2) *)
Theorem C20_deps_printed_exact : forall cfg ns g n s, topo g ->
  (In s (deps_query cfg ns g n true) <->
   exists x, reach g x n /\ passes_filters cfg ns g x = true /\ s = print_label (nlabel (attr ns x))).
Proof. exact deps_query_exact. Qed.
Print Assumptions C20_deps_printed_exact.

Theorem C20_rdeps_printed_exact : forall cfg ns g n s, topo g ->
  (In s (rdeps_query cfg ns g n true) <->
   exists x, reach g n x /\ passes_filters cfg ns g x = true /\ s = print_label (nlabel (attr ns x))).
Proof. exact rdeps_query_exact. Qed.
Print Assumptions C20_rdeps_printed_exact.

Theorem C20_deps_direct_exact : forall cfg ns g n s,
  (In s (deps_query cfg ns g n false) <->
   exists x, In x (deps g n) /\ passes_filters cfg ns g x = true /\ s = print_label (nlabel (attr ns x))).
Proof. exact deps_query_direct_exact. Qed.
Print Assumptions C20_deps_direct_exact.

Theorem C20_rdeps_direct_exact : forall cfg ns g n s,
  (In s (rdeps_query cfg ns g n false) <->
   exists x, x < size g /\ In n (deps g x) /\ passes_filters cfg ns g x = true
             /\ s = print_label (nlabel (attr ns x))).
Proof. exact rdeps_query_direct_exact. Qed.
Print Assumptions C20_rdeps_direct_exact.

(* owners f: exactly the targets having f among their resolved inputs.  Inputs ([ninputs]) are the literal inputs AS
   SPELLED in the BUILD file, the files are the arguments as typed (relative to the workspace root); an input names the
   file [canon_input pkg inp] = Clean(Join(pkg, inp)), an argument the file [canon_arg f] = Clean(f) *)
Theorem C20_owners_exact : forall ns files s,
  In s (owners ns files) <->
  exists i, i < length ns /\ is_target (attr ns i) = true /\
            (exists f inp, In f files /\ In inp (ninputs (attr ns i)) /\
                           canon_input (lpkg (nlabel (attr ns i))) inp = canon_arg f) /\
            s = print_label (nlabel (attr ns i)).
Proof. exact owners_exact. Qed.
Print Assumptions C20_owners_exact.

(* only the file named matters, not its spelling: inputs replaced by other spellings of the same files (same kind and
   label: [respelled]) and arguments by other spellings of the same files print the same lines *)
Theorem C20_owners_spelling_independent : forall ns ns' files files',
  Forall2 respelled ns ns' -> args_respelled files files' -> owners ns files = owners ns' files'.
Proof. exact owners_spelling_independent. Qed.
Print Assumptions C20_owners_spelling_independent.

(* ... in particular one input of one target, or one argument *)
Theorem C20_owners_input_respelled : forall pre post a i j ins1 ins2 files,
  ninputs a = ins1 ++ i :: ins2 ->
  canon_input (lpkg (nlabel a)) i = canon_input (lpkg (nlabel a)) j ->
  owners (pre ++ a :: post) files = owners (pre ++ with_inputs a (ins1 ++ j :: ins2) :: post) files.
Proof. exact owners_input_respelled. Qed.
Print Assumptions C20_owners_input_respelled.

Theorem C20_owners_arg_respelled : forall ns fs1 fs2 f f',
  canon_arg f = canon_arg f' -> owners ns (fs1 ++ f :: fs2) = owners ns (fs1 ++ f' :: fs2).
Proof. exact owners_arg_respelled. Qed.
Print Assumptions C20_owners_arg_respelled.

Theorem C20_owners_spelling_independent_nonvacuous :
  Forall2 respelled spelled_nodes canonical_nodes /\ args_respelled [arg_pf'; arg_pdg'] [arg_pf; arg_pdg] /\
  spelled_nodes <> canonical_nodes /\
  owners spelled_nodes [arg_pf'; arg_pdg'] = owners canonical_nodes [arg_pf; arg_pdg].
Proof. exact owners_spelling_independent_nonvacuous. Qed.
Print Assumptions C20_owners_spelling_independent_nonvacuous.

(* package p, //p:t1..t4 with the inputs ./f, zz/../f, d//g, d/./g, //p:t5 with f: all found by `owners p/f p/d/g`,
   and by `owners ./p//f p/x/../d/./g` *)
Theorem C20_owners_spelled_nonvacuous :
  owners spelled_nodes [arg_pf; arg_pdg] = [plab t_1; plab t_2; plab t_3; plab t_4; plab t_5] /\
  owners spelled_nodes [arg_pf'; arg_pdg'] = [plab t_1; plab t_2; plab t_3; plab t_4; plab t_5] /\
  owners spelled_nodes [arg_pf] = [plab t_1; plab t_2; plab t_5] /\
  owners spelled_nodes [arg_pdg'] = [plab t_3; plab t_4].
Proof. exact owners_spelled_found. Qed.
Print Assumptions C20_owners_spelled_nonvacuous.

(* the comparison with the input as spelled (seeded changes C20c, C20d, C20f) misses them *)
Theorem C20_owners_verbatim_refuted :
  owners_verbatim spelled_nodes [arg_pf; arg_pdg] = [plab t_5] /\
  owners spelled_nodes [arg_pf; arg_pdg] <> owners_verbatim spelled_nodes [arg_pf; arg_pdg].
Proof. exact owners_verbatim_refuted. Qed.
Print Assumptions C20_owners_verbatim_refuted.

(* [owners] leaves out the workspace root, which owners.go puts in front of both sides ([owners_abs]: Join(root,
   Join(pkg, input)) against Abs(argument), root = "/" ++ rootc joined by "/").  REFUTED for paths that climb above
   the root (root /w/ws, `owners ../ws/p/f`); true when no input and no argument does *)
Theorem C20_owners_abs_is_owners_refuted :
  owners_abs [s_w; s_ws] climb_nodes [climb_arg] = [dslash ++ s_p ++ ch_colon :: s_t] /\
  owners climb_nodes [climb_arg] = [] /\
  stays_inside climb_arg = false.
Proof. exact owners_root_dropped_refuted. Qed.
Print Assumptions C20_owners_abs_is_owners_refuted.

Theorem C20_owners_abs_is_owners_partial : forall rootc ns files,
  Forall plain rootc ->
  (forall a inp, In a ns -> In inp (ninputs a) -> stays_inside (input_path a inp) = true) ->
  (forall f, In f files -> stays_inside f = true) ->
  owners_abs rootc ns files = owners ns files.
Proof. exact owners_abs_is_owners. Qed.
Print Assumptions C20_owners_abs_is_owners_partial.

Theorem C20_owners_abs_is_owners_nonvacuous :
  Forall plain [s_w; s_ws] /\
  (forall a inp, In a climb_nodes -> In inp (ninputs a) -> stays_inside (input_path a inp) = true) /\
  (forall f, In f [s_p ++ ch_slash :: dot ++ ch_slash :: s_f] -> stays_inside f = true) /\
  owners_abs [s_w; s_ws] climb_nodes [s_p ++ ch_slash :: dot ++ ch_slash :: s_f] = [dslash ++ s_p ++ ch_colon :: s_t].
Proof. exact owners_abs_is_owners_nonvacuous. Qed.
Print Assumptions C20_owners_abs_is_owners_nonvacuous.

(* the guard on inputs is what analysis.checkInputPathsRelative enforces: an input that is relative and does not leave
   its package does not leave the workspace (package path = plain elements joined by "/", "" for the root package) *)
Theorem C20_input_stays_in_workspace : forall a inp comps,
  Forall plain comps -> lpkg (nlabel a) = join slash comps ->
  stays_inside inp = true -> stays_inside (input_path a inp) = true.
Proof. exact input_stays_in_workspace. Qed.
Print Assumptions C20_input_stays_in_workspace.

(* list: exactly the nodes matched by a pattern whose target passes the filters *)
Theorem C20_list_exact : forall cfg ns g s,
  In s (list_query cfg ns g) <->
  exists i, i < size g /\ matches_patterns (cpats cfg) (nlabel (attr ns i)) = true /\
            passes_filters cfg ns g i = true /\ s = print_label (nlabel (attr ns i)).
Proof. exact list_exact. Qed.
Print Assumptions C20_list_exact.

(* what "passes the filters" means, by kind: a target is tested itself, an alias passes iff its `actual` passes *)
Theorem C20_filter_target : forall cfg ns g i,
  nkind (attr ns i) = KTarget ->
  passes_filters cfg ns g i = target_filters cfg (attr ns i) && node_matches_platform cfg (attr ns i).
Proof. exact passes_filters_target. Qed.
Print Assumptions C20_filter_target.

Theorem C20_filter_alias : forall cfg ns g i d, topo g ->
  nkind (attr ns i) = KAlias -> deps g i = [d] -> passes_filters cfg ns g i = passes_filters cfg ns g d.
Proof. exact passes_filters_alias. Qed.
Print Assumptions C20_filter_alias.

(* the query selector (no patterns) is that test *)
Theorem C20_query_filter_is_spec : forall cfg ns g x,
  node_match (query_cfg cfg) ns g x = passes_filters cfg ns g x.
Proof. exact query_match. Qed.
Print Assumptions C20_query_filter_is_spec.
