(* C07 -- the cache stays consistent across crashes and storage faults.
   Only statements, each closed by [exact] of a lemma from Store_proofs.v.

   Store.v: a backend is a map (path, key) -> bytes plus temp files; FileSystemCache.Set is the step
   list MkdirAll; CreateTemp; Write*; Close; Rename; Remove(temp) and every other call one step.  A
   build's cache traffic is, per executed target, blob writes then the result write; the targets'
   step lists interleave arbitrarily.  A crash is a prefix of the interleaving ([firstn n il]); a
   storage fault makes a step return an error ([faults], consumed one per step). *)
From Coq Require Import List.
From Grog Require Import Str Store Store_proofs.
From Grog Require Label HashKey Build Build_ideal Build_c01_proofs.
Import ListNotations.

(* The invariant  Inv : every blob visible under a content digest has exactly that content, and a
   visible target result references only visible blobs  holds after EVERY prefix of EVERY
   interleaving of the per-target step lists under EVERY fault sequence -- for any digest function H
   and any decoding [refs] of a result's references. *)
Theorem C07_inv_every_prefix :
  forall (H : bytes -> key) (refs : bytes -> list key) st0 opss il,
    Inv H refs st0 -> idle st0 ->
    interleaving il (per_target_lists opss) ->
    Forall (wf_ops H refs (have_of st0)) opss ->
    forall n faults, Inv H refs (run_store st0 (firstn n il) faults).
Proof. exact inv_every_prefix. Qed.
Print Assumptions C07_inv_every_prefix.

(* One Set: whatever prefix of its steps ran and whatever faults hit, no other key changes, and the
   key itself shows either what it showed before or the COMPLETE new content -- and the latter only
   once the Rename (the last step but one) has run: no partially written entry is ever visible. *)
Theorem C07_set_visible_only_complete : forall t p k cs st n fl,
  let steps := set_steps t p k cs in
  let st' := run_store st (firstn n steps) fl in
  (forall p' k', (p' <> p \/ k' <> k) -> visible st' p' k' = visible st p' k') /\
  (visible st' p k = visible st p k \/
   (visible st' p k = Some (concat cs) /\ length steps - 1 <= n)).
Proof. exact set_visible_only_complete. Qed.
Print Assumptions C07_set_visible_only_complete.

(* no step other than a Rename changes what is visible, whatever the fault: temp files never are *)
Theorem C07_temps_never_visible : forall st x f p k,
  is_rename (s_kind x) = false -> visible (exec st x f) p k = visible st p k.
Proof. exact temps_never_visible. Qed.
Print Assumptions C07_temps_never_visible.

(* non-vacuity: a concrete two-target build (digest = identity, result = comma separated digests)
   meets the hypotheses; its 37-step interleaving ends with the result visible, and the result is
   not yet visible after 20 steps *)
Theorem C07_hypotheses_nonvacuous :
  interleaving ex_il (per_target_lists ex_opss) /\
  Forall (wf_ops ex_H refs_csv (have_of (boot []))) ex_opss /\
  (Inv ex_H refs_csv (boot []) /\ idle (boot [])) /\
  visible (run_store (boot []) ex_il []) PTarget s_k1 = Some (s_aa ++ ch_comma :: s_b) /\
  visible (run_store (boot []) ex_il []) PCas s_aa = Some s_aa /\
  visible (run_store (boot []) (firstn 20 ex_il) []) PTarget s_k1 = None /\
  length ex_il = 37.
Proof. exact (conj ex_interleaving (conj ex_wf (conj ex_inv0 ex_final))). Qed.
Print Assumptions C07_hypotheses_nonvacuous.

(* The next build on the same cache and workspace still satisfies C01, re-executing whatever was lost:
   over Build.v, a crash or fault leaves (by the invariant above) a cache whose visible entries are
   right but in which blobs and/or target results may be missing, and an arbitrary workspace; lost
   entries are the history ops OpDropBlob / OpDropResults, workspace damage is OpPerturb.  After ANY
   admissible history followed by ANY such losses, every target that is successful in the follow-up
   build and in the from-scratch build has byte-identical outputs in both (guards of C01: builds are
   load_outputs=all with the cache on, outputs do not overlap, no key collision among the visited
   states, injective digest). *)
Theorem C07_next_build_ok_partial :
  forall (H : Str.str -> Str.str), (forall a b, H a = H b -> a = b) ->
  forall ops faults cfg roots ext',
  Build_ideal.hist_ok H ops -> Forall Build_ideal.is_cache_fault faults -> Build_ideal.cfg_ok cfg ->
  let y := Build.run_history H (ops ++ faults) in
  let r := Build.build H cfg (Build.sy_src y) roots (Build.sy_world y) (Build.sy_cache y) in
  let rc := Build.clean_build H cfg (Build.sy_src y) roots ext' in
  forall i t o, Build.node_at (Build.sy_src y) i = Some (Build.NTarget t) -> In o (Build.td_outs t) ->
    nth i (Build.br_status r) Build.TNone = Build.THit \/ nth i (Build.br_status r) Build.TNone = Build.TExecuted ->
    nth i (Build.br_status rc) Build.TNone = Build.THit \/ nth i (Build.br_status rc) Build.TNone = Build.TExecuted ->
    exists x, Build.ws_get (Build.out_path t o) (Build.w_ws (Build.br_world r)) = Build.PFile x /\
              Build.ws_get (Build.out_path t o) (Build.w_ws (Build.br_world rc)) = Build.PFile x.
Proof. exact Build_c01_proofs.c01_after_cache_faults. Qed.
Print Assumptions C07_next_build_ok_partial.
