(* C14 -- success implies postconditions: exit 0, outputs exist, checks pass; a failing output
   check forces execution; a target whose checks still fail after execution fails.
   Only statements, each closed by [exact] of a lemma from Build_lift_proofs.v / Build_examples.v. *)
From Coq Require Import List String.
Local Open Scope string_scope.
From Grog Require Import Str Label HashKey Build Build_single_proofs Build_ideal Build_lift_proofs Build_examples.
Import ListNotations.

(* A target reported Executed: right after its task every output check passes, every declared
   output exists, its command (if it has one) exited 0, and its result is stored under its key. *)
Theorem C14_success_post : forall (H : str -> str) cfg s roots w c,
  cfg_mode cfg = LAll ->
  forall i t, i < length (s_nodes s) -> node_at s i = Some (NTarget t) ->
  nth i (br_status (build H cfg s roots w c)) TNone = TExecuted ->
  let b := build_prefix H cfg s roots w c i in
  let b' := build_prefix H cfg s roots w c (S i) in
  check_ok (b_world b') t = true /\
  (forall o, In o (td_outs t) -> exists x, ws_get (out_path t o) (w_ws (b_world b')) = PFile x) /\
  (null (td_cmd t) = false ->
     exists w0, w_ext w0 = w_ext (b_world b) /\ run_command s t w0 = Some (b_world b')) /\
  (cfg_cache cfg = true ->        (* a disabled cache is not written (C13_cache_off_leaves_cache) *)
   exists dh res, dep_hashes s b (td_deps t) = Some dh /\
                  rlookup (key_of H s t dh) (c_results (b_cache b')) = Some res).
Proof. exact executed_post. Qed.
Print Assumptions C14_success_post.

(* cached only if successful: the task of a target changes the stored results only by a
   successful execution (whose postconditions are the ones above) *)
Theorem C14_cached_only_if : forall (H : str -> str) cfg s roots w c,
  cfg_mode cfg = LAll ->
  forall i t, i < length (s_nodes s) -> node_at s i = Some (NTarget t) ->
  c_results (b_cache (build_prefix H cfg s roots w c (S i))) <>
  c_results (b_cache (build_prefix H cfg s roots w c i)) ->
  nth i (br_status (build H cfg s roots w c)) TNone = TExecuted.
Proof. exact cached_only_if_executed. Qed.
Print Assumptions C14_cached_only_if.

(* a command that did not exit 0 stores nothing (exit <> 0, timeout and interrupt are all "no exit 0") *)
Theorem C14_no_exit0_no_result : forall (H : str -> str) cfg s i t key tainted b,
  null (td_cmd t) = false -> run_command s t (b_world b) = None ->
  exists b', execute H cfg s i t key tainted b = (false, b') /\ b_cache b' = b_cache b.
Proof. exact no_exit0_no_result. Qed.
Print Assumptions C14_no_exit0_no_result.

(* a failing output check forces execution even when a cached result exists: the target is not
   served from the cache, whatever the cache holds *)
Theorem C14_failing_check_forces : forall (H : str -> str) cfg s roots w c,
  cfg_mode cfg = LAll ->
  forall i t, i < length (s_nodes s) -> node_at s i = Some (NTarget t) -> unique_label s i t ->
  td_check t = true -> label_in (td_label t) (w_ext w) = false ->
  nth i (br_status (build H cfg s roots w c)) TNone <> THit.
Proof. exact failing_check_forces. Qed.
Print Assumptions C14_failing_check_forces.

(* non-vacuity (digest = identity): the checked condition of a is destroyed after it was cached:
   the next build executes a (and re-establishes the condition); a command that leaves its check
   failing after execution (BBreakCheck), exits 3, exits 3 after writing or skips an output fails
   the build, skips the dependant and stores nothing *)
Theorem C14_nonvacuous :
  (br_status r5 = [TExecuted; THit; TExecuted] /\ w_ext (br_world r5) = [L "a"]) /\
  Forall (fun beh => br_status (fail_run beh) = [TFailed; TSkipped; TExecuted] /\
                     br_ok (fail_run beh) = false /\
                     map fst (c_results (br_cache (fail_run beh))) = map fst (c_results (br_cache r2)))
         [BFail; BFailAfter; BSkipOutput 0; BBreakCheck].
Proof. exact (conj ex_check_forces ex_failures). Qed.
Print Assumptions C14_nonvacuous.
