(* C05 -- failures: keep-going still builds everything that does not depend on a failed target,
   dependants of a failed target never run, fail-fast starts nothing new.
   Only statements, each closed by [exact] of a lemma from Walker_proofs.v. *)
From Grog Require Import Graph Walker Walker_proofs.

(* keep-going, no outer cancellation: a node none of whose transitive dependencies failed has been
   run to completion when the walk ends *)
Theorem C05_independent_still_built : forall g c s n,
  topo g -> wf_graph g -> W c >= 1 -> ff c = false ->
  reachable g c s -> ctxc s = false -> terminal g c s -> n < size g ->
  (forall a, reach g a n -> st s a <> Failed) ->
  st s n = Ok \/ st s n = Failed.
Proof. exact independent_still_built. Qed.
Print Assumptions C05_independent_still_built.

(* both modes, any cancellation: the walk callback of a (transitive) dependant of a failed node is
   never entered *)
Theorem C05_dependants_not_run : forall g c evs s a n,
  topo g -> wf_graph g ->
  run g c evs = Some s -> st s a = Failed -> reach g a n -> ~ In (Start n) evs.
Proof. exact dependants_not_run. Qed.
Print Assumptions C05_dependants_not_run.

(* fail-fast: after the first recorded failure no command starts *)
Theorem C05_failfast_no_new_command : forall g c pre e a post s n,
  ff c = true -> (e = FinishFail a \/ e = Reject a) ->
  run g c (pre ++ e :: post) = Some s -> ~ In (CmdStart n) post.
Proof. exact failfast_no_new_command. Qed.
Print Assumptions C05_failfast_no_new_command.

(* fail-fast: a node still waiting for its dependencies at the first failure is never started *)
Theorem C05_failfast_parked_never_start : forall g c pre e a post s1 s n,
  topo g -> wf_graph g -> ff c = true -> (e = FinishFail a \/ e = Reject a) ->
  run g c (pre ++ [e]) = Some s1 -> run_from g c s1 post = Some s -> st s1 n = Parked ->
  ~ In (Start n) post.
Proof. exact failfast_parked_never_start. Qed.
Print Assumptions C05_failfast_parked_never_start.

(* diamond, keep-going, 2 workers, node 1 fails: 2 is still built, 3 is skipped *)
Theorem C05_nonvacuous :
  exists evs s, run diamond (mkConfig 2 false) evs = Some s /\
    terminal diamond (mkConfig 2 false) s /\
    st s 0 = Ok /\ st s 1 = Failed /\ st s 2 = Ok /\ st s 3 = Skipped.
Proof. exact c05_example. Qed.
Print Assumptions C05_nonvacuous.
