(* C05 -- failures: keep-going still builds everything that does not depend on a failed target,
   dependants of a failed target never run, fail-fast starts nothing new.
   Only statements, each closed by [exact] of a lemma from Walker_proofs.v. *)
From Coq Require Import List String.
From Grog Require Import Graph Walker Walker_proofs.
From Grog Require Str Label HashKey Build Build_ideal Build_lift_proofs Build_examples.
Import ListNotations.
Local Open Scope string_scope.

(* keep-going, no outer cancellation: a node none of whose transitive dependencies failed has been
   run to completion when the walk ends *)
Theorem C05_independent_still_built : forall g c s n,
  topo g -> wf_graph g -> W c >= 1 -> ff c = false ->
  reachable g c s -> ctxc s = false -> terminal g c s -> n < size g ->
  (forall a, reach g a n -> st s a <> Failed) ->
  st s n = Ok \/ st s n = Failed.
Proof. exact independent_still_built. Qed.
Print Assumptions C05_independent_still_built.

(* both modes, any cancellation: the walk callback of a (transitive) dependant of a failed node is
   never entered *)
Theorem C05_dependants_not_run : forall g c evs s a n,
  topo g -> wf_graph g ->
  run g c evs = Some s -> st s a = Failed -> reach g a n -> ~ In (Start n) evs.
Proof. exact dependants_not_run. Qed.
Print Assumptions C05_dependants_not_run.

(* fail-fast: after the first recorded failure no command starts *)
Theorem C05_failfast_no_new_command : forall g c pre e a post s n,
  ff c = true -> (e = FinishFail a \/ e = Reject a) ->
  run g c (pre ++ e :: post) = Some s -> ~ In (CmdStart n) post.
Proof. exact failfast_no_new_command. Qed.
Print Assumptions C05_failfast_no_new_command.

(* fail-fast: a node still waiting for its dependencies at the first failure is never started *)
Theorem C05_failfast_parked_never_start : forall g c pre e a post s1 s n,
  topo g -> wf_graph g -> ff c = true -> (e = FinishFail a \/ e = Reject a) ->
  run g c (pre ++ [e]) = Some s1 -> run_from g c s1 post = Some s -> st s1 n = Parked ->
  ~ In (Start n) post.
Proof. exact failfast_parked_never_start. Qed.
Print Assumptions C05_failfast_parked_never_start.

(* diamond, keep-going, 2 workers, node 1 fails: 2 is still built, 3 is skipped *)
Theorem C05_nonvacuous :
  exists evs s, run diamond (mkConfig 2 false) evs = Some s /\
    terminal diamond (mkConfig 2 false) s /\
    st s 0 = Ok /\ st s 1 = Failed /\ st s 2 = Ok /\ st s 3 = Skipped.
Proof. exact c05_example. Qed.
Print Assumptions C05_nonvacuous.

(* ------------------------------------------------------------------ never cached (Build.v) *)
(* A target that failed -- non-zero exit before or after writing, declared output missing, output
   check failing after execution, or a dependency without an output hash -- leaves the cache
   (results, blobs, taints) exactly as its task found it: there is no entry to serve, so the next
   build attempts it again (a hit needs a stored result: C13_hit_needs).  For every digest,
   snapshot, selection, workspace and cache; mode load_outputs=all. *)
Theorem C05_failed_not_cached : forall (H : Str.str -> Str.str) cfg s roots w c,
  Build.cfg_mode cfg = Build.LAll ->
  forall i t, i < length (Build.s_nodes s) -> Build.node_at s i = Some (Build.NTarget t) ->
  nth i (Build.br_status (Build.build H cfg s roots w c)) Build.TNone = Build.TFailed ->
  Build.b_cache (Build_ideal.build_prefix H cfg s roots w c (S i)) =
  Build.b_cache (Build_ideal.build_prefix H cfg s roots w c i).
Proof. exact Build_lift_proofs.failed_not_cached. Qed.
Print Assumptions C05_failed_not_cached.

(* a target skipped because a dependency failed (or fail-fast fired) is neither run nor cached *)
Theorem C05_skipped_not_run_not_cached : forall (H : Str.str -> Str.str) cfg s roots w c,
  Build.cfg_mode cfg = Build.LAll ->
  forall i t, i < length (Build.s_nodes s) -> Build.node_at s i = Some (Build.NTarget t) ->
  nth i (Build.br_status (Build.build H cfg s roots w c)) Build.TNone = Build.TSkipped ->
  Build.b_cache (Build_ideal.build_prefix H cfg s roots w c (S i)) =
  Build.b_cache (Build_ideal.build_prefix H cfg s roots w c i) /\
  Build.b_exec (Build_ideal.build_prefix H cfg s roots w c (S i)) =
  Build.b_exec (Build_ideal.build_prefix H cfg s roots w c i).
Proof. exact Build_lift_proofs.skipped_not_cached_not_run. Qed.
Print Assumptions C05_skipped_not_run_not_cached.

(* non-vacuity (digest = identity): each of the four failure causes fails a, skips its dependant b,
   exits non-zero and leaves the same result keys as before; with fail-fast nothing else starts *)
Theorem C05_cache_nonvacuous :
  Forall (fun beh => Build.br_status (Build_examples.fail_run beh) = [Build.TFailed; Build.TSkipped; Build.TExecuted] /\
                     Build.br_ok (Build_examples.fail_run beh) = false /\
                     map fst (Build.c_results (Build.br_cache (Build_examples.fail_run beh))) =
                     map fst (Build.c_results (Build.br_cache Build_examples.r2)))
         [Build.BFail; Build.BFailAfter; Build.BSkipOutput 0; Build.BBreakCheck] /\
  (Build.br_status Build_examples.r6 = [Build.TFailed; Build.TSkipped; Build.TSkipped] /\
   Build.br_exec Build_examples.r6 = [Build_examples.L "a"]).
Proof. exact (conj Build_examples.ex_failures Build_examples.ex_failfast). Qed.
Print Assumptions C05_cache_nonvacuous.
