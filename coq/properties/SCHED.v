(* SCHED -- schedule independence of the sequential build semantics (Build.v), mode load_outputs=all,
   keep-going (cfg_failfast = false).  Only statements, each closed by [exact] of a lemma from
   Build_sched_proofs.v.
   [step H cfg s sel b i] = Build.process_node: one node of the walk;  [runl ... l b] = the fold of [step]
   over the node list l;  [beq b b'] = equal runtime records and stop flag, the same commands started up
   to a permutation, and workspace / external conditions / target results / CAS / taints equal as maps
   (through ws_get, label_in, rlookup, alookup).
   [reads s i] = the direct node_deps of node i plus the targets its dependencies resolve to through
   aliases;  [indep s i j] = i <> j and neither reads the other.
   Guards: [no_overwrite] (declared output paths pairwise distinct), [labels_distinct], [keys_apart]
   (different targets never get the same change key; follows from [labels_distinct] for an injective
   hex digest), [cmds_ok] (a target that declares outputs has a command), [cache_complete] (every stored
   result's blobs are in the CAS: no blob faults). *)
From Coq Require Import List Permutation.
From Coq Require String.
Import String.StringSyntax.
From Grog Require Import Str Label HashKey Build Build_ideal Build_c02_proofs Build_c15_proofs Build_sched_proofs.
Import ListNotations.

(* beq is an equivalence ... *)
Theorem SCHED_beq_equivalence :
  (forall b, beq b b) /\ (forall b b', beq b b' -> beq b' b) /\
  (forall a b c, beq a b -> beq b c -> beq a c).
Proof. exact (conj beq_refl (conj beq_sym beq_trans)). Qed.
Print Assumptions SCHED_beq_equivalence.

(* ... that process_node respects (no guard on the snapshot or the state) *)
Theorem SCHED_step_respects_beq : forall (H : str -> str),
  (forall a b, H a = H b -> a = b) ->
  forall cfg s sel, cfg_mode cfg = LAll -> cfg_failfast cfg = false ->
  forall b b' k, beq b b' -> beq (step H cfg s sel b k) (step H cfg s sel b' k).
Proof. exact step_congr. Qed.
Print Assumptions SCHED_step_respects_beq.

(* 1. two steps of nodes that do not read each other commute, from ANY state b with a complete cache *)
Theorem SCHED_swap_independent_partial : forall (H : str -> str),
  (forall a b, H a = H b -> a = b) ->
  forall cfg s sel, cfg_mode cfg = LAll -> cfg_failfast cfg = false ->
  forall b i j,
    indep s i j -> no_overwrite s -> labels_apart s i j -> keys_apart_at H s b i j ->
    cache_complete (b_cache b) -> cmd_ok s i -> cmd_ok s j ->
    beq (step H cfg s sel (step H cfg s sel b i) j) (step H cfg s sel (step H cfg s sel b j) i).
Proof. exact swap_independent. Qed.
Print Assumptions SCHED_swap_independent_partial.

(* ... independence on the DIRECT node_deps alone is not enough (a dependency through an alias) *)
Theorem SCHED_swap_independent_refuted :
  exists s sel b i j ni nj,
    node_at s i = Some ni /\ node_at s j = Some nj /\ i <> j /\
    ~ In i (node_deps nj) /\ ~ In j (node_deps ni) /\
    guards dH s /\ cache_complete (b_cache b) /\
    ~ beq (step dH d_cfg s sel (step dH d_cfg s sel b i) j) (step dH d_cfg s sel (step dH d_cfg s sel b j) i).
Proof. exact swap_direct_deps_refuted. Qed.
Print Assumptions SCHED_swap_independent_refuted.

(* ... fail-fast is order dependent *)
Theorem SCHED_swap_failfast_refuted :
  exists cfg s sel b i j,
    cfg_mode cfg = LAll /\ cfg_failfast cfg = true /\ indep s i j /\ guards dH s /\ cache_complete (b_cache b) /\
    ~ beq (step dH cfg s sel (step dH cfg s sel b i) j) (step dH cfg s sel (step dH cfg s sel b j) i).
Proof. exact swap_failfast_refuted. Qed.
Print Assumptions SCHED_swap_failfast_refuted.

(* ... a cache that lost a blob is order dependent *)
Theorem SCHED_swap_incomplete_cache_refuted :
  exists s sel b i j,
    indep s i j /\ guards dH s /\ ~ cache_complete (b_cache b) /\
    ~ beq (step dH d_cfg s sel (step dH d_cfg s sel b i) j) (step dH d_cfg s sel (step dH d_cfg s sel b j) i).
Proof. exact swap_incomplete_cache_refuted. Qed.
Print Assumptions SCHED_swap_incomplete_cache_refuted.

(* ... and so are declared outputs of targets without a command (file "D"++q against directory q) *)
Theorem SCHED_swap_cmdless_outputs_refuted :
  exists s sel b i j,
    indep s i j /\ no_overwrite s /\ labels_distinct s /\ keys_apart dH s /\ cache_complete (b_cache b) /\
    ~ beq (step dH d_cfg s sel (step dH d_cfg s sel b i) j) (step dH d_cfg s sel (step dH d_cfg s sel b j) i).
Proof. exact swap_cmdless_outputs_refuted. Qed.
Print Assumptions SCHED_swap_cmdless_outputs_refuted.

(* 2. any two orders of the same nodes in which every node comes (once) after all its direct node_deps
      (alias nodes are nodes) give beq states, from any state with a complete cache *)
Theorem SCHED_topo_order_independent : forall (H : str -> str),
  (forall a b, H a = H b -> a = b) ->
  forall cfg s sel, cfg_mode cfg = LAll -> cfg_failfast cfg = false ->
  guards H s ->
  forall l1 l2 b,
    Permutation l1 l2 -> dep_closed_order s l1 -> dep_closed_order s l2 -> cache_complete (b_cache b) ->
    beq (runl H cfg s sel l1 b) (runl H cfg s sel l2 b).
Proof. exact topo_order_independent. Qed.
Print Assumptions SCHED_topo_order_independent.

(* ... more generally: orders (of any subset of the nodes) in which nothing a node reads comes after it *)
Theorem SCHED_read_order_independent : forall (H : str -> str),
  (forall a b, H a = H b -> a = b) ->
  forall cfg s sel, cfg_mode cfg = LAll -> cfg_failfast cfg = false ->
  guards H s ->
  forall l1 l2 b,
    Permutation l1 l2 -> topo s l1 -> topo s l2 -> cache_complete (b_cache b) ->
    beq (runl H cfg s sel l1 b) (runl H cfg s sel l2 b).
Proof. exact topo_perm_beq. Qed.
Print Assumptions SCHED_read_order_independent.

(* 3. Build.build (index order of a topologically numbered snapshot) against every compatible order:
      equal statuses and exit status, Permutation of br_exec, extensionally equal world and cache *)
Theorem SCHED_build_is_any_topo_order : forall (H : str -> str),
  (forall a b, H a = H b -> a = b) ->
  forall cfg s roots w c, cfg_mode cfg = LAll -> cfg_failfast cfg = false ->
  guards H s -> Build_c15_proofs.wf_src s -> cache_complete c ->
  forall l, Permutation l (seq 0 (length (s_nodes s))) -> dep_closed_order s l ->
  breq (build H cfg s roots w c) (build_in_order H cfg s roots w c l).
Proof. exact build_is_any_closed_order. Qed.
Print Assumptions SCHED_build_is_any_topo_order.

Theorem SCHED_build_is_any_read_order : forall (H : str -> str),
  (forall a b, H a = H b -> a = b) ->
  forall cfg s roots w c, cfg_mode cfg = LAll -> cfg_failfast cfg = false ->
  guards H s -> Build_c15_proofs.wf_src s -> cache_complete c ->
  forall l, Permutation l (seq 0 (length (s_nodes s))) -> topo s l ->
  breq (build H cfg s roots w c) (build_in_order H cfg s roots w c l).
Proof. exact build_is_any_topo_order. Qed.
Print Assumptions SCHED_build_is_any_read_order.

(* the guard on the keys follows from the guard on the labels for hex digests (framed key encoding, C09_injective) *)
Theorem SCHED_keys_apart_labels_distinct : forall (H : str -> str) s,
  (forall x y, H x = H y -> x = y) -> (forall x, ~ In ch_us (H x)) ->
  labels_distinct s -> keys_apart H s.
Proof. exact keys_apart_labels_distinct. Qed.
Print Assumptions SCHED_keys_apart_labels_distinct.

Local Open Scope string_scope.
(* 4. non-vacuity: the diamond a; b, c -> a; d -> b, c with the identity digest *)
Theorem SCHED_diamond_guards_nonvacuous :
  guards dH d_s /\ Build_c15_proofs.wf_src d_s /\
  dep_closed_order d_s [0; 1; 2; 3] /\ dep_closed_order d_s [0; 2; 1; 3] /\ Permutation [0; 1; 2; 3] [0; 2; 1; 3] /\
  indep d_s 1 2.
Proof. exact (conj d_guards (conj d_wf d_orders)). Qed.
Print Assumptions SCHED_diamond_guards_nonvacuous.

Theorem SCHED_diamond_runs_differ_as_lists :
  map rt_status (b_rt (d_run [0; 1; 2; 3])) = [TExecuted; TExecuted; TExecuted; TExecuted] /\
  b_exec (d_run [0; 1; 2; 3]) = [dL "a"; dL "b"; dL "c"; dL "d"] /\
  b_exec (d_run [0; 2; 1; 3]) = [dL "a"; dL "c"; dL "b"; dL "d"] /\
  map fst (w_ws (b_world (d_run [0; 1; 2; 3]))) <> map fst (w_ws (b_world (d_run [0; 2; 1; 3]))) /\
  map fst (c_results (b_cache (d_run [0; 1; 2; 3]))) <> map fst (c_results (b_cache (d_run [0; 2; 1; 3]))).
Proof. exact d_runs_differ_as_lists. Qed.
Print Assumptions SCHED_diamond_runs_differ_as_lists.

Theorem SCHED_swap_nonvacuous :
  let b := step dH d_cfg d_s d_sel d_b0 0 in
  beq (step dH d_cfg d_s d_sel (step dH d_cfg d_s d_sel b 1) 2)
      (step dH d_cfg d_s d_sel (step dH d_cfg d_s d_sel b 2) 1).
Proof. exact d_swap_nonvacuous. Qed.
Print Assumptions SCHED_swap_nonvacuous.

Theorem SCHED_topo_nonvacuous : beq (d_run [0; 1; 2; 3]) (d_run [0; 2; 1; 3]).
Proof. exact d_topo_nonvacuous. Qed.
Print Assumptions SCHED_topo_nonvacuous.

Theorem SCHED_build_nonvacuous :
  breq (build dH d_cfg d_s [3] (mkWorld [] []) empty_cache)
       (build_in_order dH d_cfg d_s [3] (mkWorld [] []) empty_cache [0; 2; 1; 3]).
Proof. exact d_build_nonvacuous. Qed.
Print Assumptions SCHED_build_nonvacuous.

(* the congruence on two states that differ as lists *)
Theorem SCHED_step_respects_beq_nonvacuous :
  let b := step dH d_cfg d_s d_sel d_b0 0 in
  let b12 := step dH d_cfg d_s d_sel (step dH d_cfg d_s d_sel b 1) 2 in
  let b21 := step dH d_cfg d_s d_sel (step dH d_cfg d_s d_sel b 2) 1 in
  b_exec b12 <> b_exec b21 /\
  beq (step dH d_cfg d_s d_sel b12 3) (step dH d_cfg d_s d_sel b21 3).
Proof. exact d_congr_nonvacuous. Qed.
Print Assumptions SCHED_step_respects_beq_nonvacuous.

(* the key guard from the labels with an injective hex digest: the diamond satisfies all guards *)
Theorem SCHED_keys_apart_labels_distinct_nonvacuous :
  labels_distinct d_s /\ guards HashKey_proofs.hex_enc d_s.
Proof. exact (conj d_labels_distinct d_guards_hex). Qed.
Print Assumptions SCHED_keys_apart_labels_distinct_nonvacuous.
