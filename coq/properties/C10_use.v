(* C10, the caller's side -- how cmds/build.go uses the lock.  Only statements, each closed by
   [exact] of a lemma from LockUse_proofs.v.  Lock.v's theorems are about processes that lock once
   and unlock at most once; these say what that protocol is and what happens outside it. *)
From Coq Require Import List.
From Grog Require Import Lock LockUse LockUse_proofs.
Import ListNotations.

(* The protocol of build.go (Lock; build; one Unlock) is Lock.v's own event language: runs without
   a second release ARE runs of Lock.v, so every C10 theorem applies to them. *)
Theorem C10_use_single_unlock_is_model : forall evs s, urun s (map Base evs) = run s evs.
Proof. exact single_unlock_is_model. Qed.
Print Assumptions C10_use_single_unlock_is_model.

(* A second release by a process that already released breaks mutual exclusion with three live
   processes, no stale lock file and every removal guarded (this is not finding C10-F2): A acquires
   and releases, B acquires, A's second release deletes B's file, C acquires. *)
Theorem C10_use_double_unlock_refuted :
  exists s, urun (mk_init [] None) double_unlock_sched = Some s /\
            all_guarded (mk_init [] None) double_unlock_sched = true /\
            holds_b s 1 = true /\ holds_b s 2 = true /\ count_holders s 3 = 2.
Proof. exact double_unlock_refuted. Qed.
Print Assumptions C10_use_double_unlock_refuted.

(* It is harmless exactly when nobody acquired in between ... *)
Theorem C10_use_unlock_again_when_free : forall s p s',
  ustep s (UnlockAgain p) = Some s' -> lock s = None -> s' = s.
Proof. exact unlock_again_when_free. Qed.
Print Assumptions C10_use_unlock_again_when_free.

(* ... and otherwise, for ANY state with a holder q and an idle contender r, one more step gives two
   processes past Lock(). *)
Theorem C10_use_unlock_again_then_second_holder : forall s p q i s',
  ustep s (UnlockAgain p) = Some s' -> pcs s q = Held i -> forall r, pcs s r = Idle -> r <> q ->
  exists s'', ustep s' (Base (TryCreate r)) = Some s'' /\ holds_b s'' q = true /\ holds_b s'' r = true.
Proof. exact unlock_again_then_second_holder. Qed.
Print Assumptions C10_use_unlock_again_then_second_holder.
