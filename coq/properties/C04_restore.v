(* C04, restore part -- a directory restore never hangs.  Statements only (to be imported / merged by
   the C04 property file).  load_tree_msg = DirectoryOutputHandler.Load after the tree blob was read. *)
From Grog Require Import Str Tree Tree_proofs.

(* The unguarded statement  forall tree cas faults, load_tree ... <> Stuck  is false of the faithful
   model: a flat directory with one file whose blob is missing from the cache (errChan capacity
   = len(tree.Children) = 0, one sender, the receiver only runs after waitGroup.Wait). *)
Theorem C04_restore_terminates_refuted :
  exists t st,
    wf_tree t /\
    match write_tree Hid enc_dir enc_tree t st with
    | Some (st', ref) =>
        load_tree Hid enc_dir enc_tree dec_tree max_depth ref (cas_del (Hid (s1 "x")) st') DAbsent = Stuck
    | None => False
    end.
Proof. exact restore_terminates_refuted. Qed.
Print Assumptions C04_restore_terminates_refuted.

(* guarded: for EVERY tree message and store (any digest function, any serialisation), the call
   returns when every file blob the message refers to is present ... *)
Theorem C04_restore_terminates_partial :
  forall (H : str -> str) (ser_dir : dir_msg -> str) maxdepth m st,
    blobs_present m st -> load_tree_msg H ser_dir maxdepth m st <> Stuck.
Proof. exact restore_terminates_blobs_present. Qed.
Print Assumptions C04_restore_terminates_partial.

(* ... and the exact guard: it hangs iff the recursion itself succeeds and more downloads fail than
   the tree has distinct sub-directories *)
Theorem C04_restore_stuck_iff :
  forall (H : str -> str) (ser_dir : dir_msg -> str) maxdepth m st,
    load_tree_msg H ser_dir maxdepth m st = Stuck <->
    exists k, load_failures H ser_dir maxdepth m st = Some k /\ length (tm_children m) < k.
Proof. exact restore_stuck_iff. Qed.
Print Assumptions C04_restore_stuck_iff.

(* the Stuck clause is the deadlock of the channel transition system: k senders, capacity
   len(tree.Children), no receiver before all senders are through *)
Theorem C04_restore_stuck_is_channel_deadlock :
  forall (H : str -> str) (ser_dir : dir_msg -> str) maxdepth m st k,
    load_failures H ser_dir maxdepth m st = Some k ->
    (load_tree_msg H ser_dir maxdepth m st = Stuck <->
     chan_released (chan_run k (mkChan k 0 (length (tm_children m)))) = false).
Proof. exact restore_stuck_is_channel_deadlock. Qed.
Print Assumptions C04_restore_stuck_is_channel_deadlock.

(* one (empty) sub-directory next to the file is enough capacity: the same fault returns an error *)
Theorem C04_restore_one_subdir_returns :
  match write_tree Hid enc_dir enc_tree (Dir [(s1 "a", File (s1 "x") false); (s1 "d", Dir [])]) [] with
  | Some (st', ref) =>
      load_tree Hid enc_dir enc_tree dec_tree max_depth ref (cas_del (Hid (s1 "x")) st') DAbsent = Error
  | None => False
  end.
Proof. exact restore_one_subdir_returns. Qed.
Print Assumptions C04_restore_one_subdir_returns.
