(* C19 (conflict detection) -- detecting output conflicts takes time bounded by a small
   polynomial in the number of targets and edges.
   Only statements, each closed by [exact] of a lemma from ConflictCost_proofs.v.
   Model: ConflictCost.v, the explicit-stack getAncestorSet with its per-call seen-set and the
   shared ancestorCache, targetsAreOrdered, and the four pair loops of detectOutputConflicts.
   Counters: c_calls (getAncestorSet entries), c_pops (loop iterations = edge occurrences
   pushed), c_fresh (nodes added by a pop), c_merged (elements copied out of cached sets);
   steps = c_calls + c_pops + c_fresh, work = steps + c_merged.
   V = size g, E = n_edges g (= Select.edges g), R = length recs, T = n_owners recs. *)
From Grog Require Import Str Label Graph Select Select_proofs ConflictCost ConflictCost_proofs.

Theorem C19_conflicts_edges : forall g, n_edges g = edges g.
Proof. exact n_edges_edges. Qed.
Print Assumptions C19_conflicts_edges.

(* --- one call of getAncestorSet, whatever sound cache it is given *)

(* the fuel length (deps g n) + E always suffices *)
Theorem C19_conflicts_ancestors_total : forall g c n,
  wf_graph g -> cache_sound g c -> ancestor_set_c g c n <> None.
Proof. exact ancestor_set_c_total. Qed.
Print Assumptions C19_conflicts_ancestors_total.

(* the result is the ancestor set, duplicate free; the cache stays sound and now holds n *)
Theorem C19_conflicts_ancestors_correct : forall g c n set c' k,
  wf_graph g -> cache_sound g c -> ancestor_set_c g c n = Some (set, c', k) ->
  NoDup set /\ (forall x, In x set <-> reach g x n) /\ cache_sound g c' /\ cache_get c' n = Some set.
Proof. exact ancestor_set_c_correct. Qed.
Print Assumptions C19_conflicts_ancestors_correct.

(* ... which is the set the functional model of Analysis.v (C11) computes on the same graph *)
Theorem C19_conflicts_ancestors_same_as_analysis : forall g c n set c' k,
  wf_graph g -> cache_sound g c -> ancestor_set_c g c n = Some (set, c', k) ->
  (forall x, In x set <-> In (lab x) (Analysis.ancestor_set (to_nodes g) (lab n))) /\
  (forall A, In A (Analysis.ancestor_set (to_nodes g) (lab n)) -> exists x, A = lab x /\ In x set).
Proof. exact ancestor_set_c_matches_analysis. Qed.
Print Assumptions C19_conflicts_ancestors_same_as_analysis.

(* lookups + pops + nodes added: linear, independent of the number of paths *)
Theorem C19_conflicts_ancestors_linear : forall g c n set c' k,
  wf_graph g -> cache_sound g c -> ~ reach g n n -> ancestor_set_c g c n = Some (set, c', k) ->
  steps k <= size g + n_edges g + 1.
Proof. exact ancestor_set_c_linear. Qed.
Print Assumptions C19_conflicts_ancestors_linear.

(* on a cycle through n the initial push can be repeated once *)
Theorem C19_conflicts_ancestors_linear_cyclic : forall g c n set c' k,
  wf_graph g -> cache_sound g c -> ancestor_set_c g c n = Some (set, c', k) ->
  steps k <= size g + n_edges g + length (deps g n) + 1.
Proof. exact ancestor_set_c_linear_cyclic. Qed.
Print Assumptions C19_conflicts_ancestors_linear_cyclic.

(* the merge work of a call is at most quadratic in V ... *)
Theorem C19_conflicts_ancestors_merged : forall g c n set c' k,
  wf_graph g -> cache_sound g c -> ancestor_set_c g c n = Some (set, c', k) ->
  c_merged k <= size g * size g.
Proof. exact ancestor_set_c_merged. Qed.
Print Assumptions C19_conflicts_ancestors_merged.

(* ... and nil when nothing is cached yet: then all the work is linear *)
Theorem C19_conflicts_ancestors_nocache : forall g n set c' k,
  wf_graph g -> ~ reach g n n -> ancestor_set_c g [] n = Some (set, c', k) ->
  c_merged k = 0 /\ work k <= size g + n_edges g + 1.
Proof. exact ancestor_set_c_nocache. Qed.
Print Assumptions C19_conflicts_ancestors_nocache.

(* targetsAreOrdered answers what Analysis.ordered answers *)
Theorem C19_conflicts_ordered_same_as_analysis : forall g c a b r c' k,
  wf_graph g -> acyclic g -> cache_ok g c -> ordered_c g c a b = Some (r, c', k) ->
  r = Analysis.ordered (to_nodes g) (lab a) (lab b).
Proof. exact ordered_c_matches_analysis. Qed.
Print Assumptions C19_conflicts_ordered_same_as_analysis.

(* --- the whole detection, from an empty cache *)

Theorem C19_conflicts_detect_total : forall g recs,
  wf_graph g -> acyclic g -> detect_conflicts_c g recs <> None.
Proof. exact detect_conflicts_c_total. Qed.
Print Assumptions C19_conflicts_detect_total.

(* reported = compared, unordered and clashing *)
Theorem C19_conflicts_detect_correct : forall g recs out c' k,
  wf_graph g -> acyclic g -> detect_conflicts_c g recs = Some (out, c', k) ->
  forall p, In p out <-> In p (compared recs) /\ conflicting g p.
Proof. exact detect_conflicts_c_correct. Qed.
Print Assumptions C19_conflicts_detect_correct.

(* memoisation: T linear traversals + at most R^2 lookups; merge work at most T V^2 *)
Theorem C19_conflicts_detect_sharp : forall g recs out c' k,
  wf_graph g -> acyclic g -> detect_conflicts_c g recs = Some (out, c', k) ->
  steps k <= n_owners recs * (size g + n_edges g) + length recs * length recs /\
  c_merged k <= n_owners recs * (size g * size g).
Proof. exact detect_conflicts_c_sharp. Qed.
Print Assumptions C19_conflicts_detect_sharp.

(* every call bounded on its own *)
Theorem C19_conflicts_detect_poly : forall g recs out c' k,
  wf_graph g -> acyclic g -> detect_conflicts_c g recs = Some (out, c', k) ->
  steps k <= length recs * length recs * (size g + n_edges g + 1) /\
  work k <= length recs * length recs * (size g + n_edges g + 1 + size g * size g).
Proof. exact detect_conflicts_c_poly. Qed.
Print Assumptions C19_conflicts_detect_poly.

(* all the work, in V, E and R *)
Theorem C19_conflicts_detect_sharp_VE : forall g recs out c' k,
  wf_graph g -> acyclic g -> owners_ok g recs -> detect_conflicts_c g recs = Some (out, c', k) ->
  work k <= size g * (size g + n_edges g + size g * size g) + length recs * length recs.
Proof. exact detect_conflicts_c_sharp_VE. Qed.
Print Assumptions C19_conflicts_detect_sharp_VE.

(* against the bound of the measurements: with no more records than nodes, steps <= 2 (V+E+1)^2 *)
Theorem C19_conflicts_detect_small : forall g recs out c' k,
  wf_graph g -> acyclic g -> length recs <= size g -> detect_conflicts_c g recs = Some (out, c', k) ->
  steps k <= 2 * (size g + n_edges g + 1) ^ 2.
Proof. exact detect_conflicts_c_small. Qed.
Print Assumptions C19_conflicts_detect_small.

(* --- contrast: the same loop without the seen-set and without the cache *)

(* one pop per dependency path: exactly the calls of GetAncestors (C19_ancestors_calls_are_paths) *)
Theorem C19_conflicts_paths_cost : forall g n fuel,
  topo g -> length (ancestors_paths g n) <= fuel ->
  exists set k, ancestor_set_paths_c fuel g n = Some (set, k) /\
    c_pops k = length (ancestors_paths g n) /\ c_fresh k = c_pops k /\ c_merged k = 0 /\
    S (c_pops k) = ancestors_paths_cost g n.
Proof. exact ancestor_set_paths_c_cost. Qed.
Print Assumptions C19_conflicts_paths_cost.

Theorem C19_conflicts_paths_exponential : forall d fuel,
  2 ^ (d + 1) - 2 <= fuel ->
  exists set k, ancestor_set_paths_c fuel (ladder 2 d) (2 * d) = Some (set, k) /\
    S (c_pops k) = 2 ^ (d + 1) - 1.
Proof. exact ancestor_set_paths_c_ladder2. Qed.
Print Assumptions C19_conflicts_paths_exponential.

Theorem C19_conflicts_paths_poly_refuted :
  exists g n fuel set k, topo g /\ ancestor_set_paths_c fuel g n = Some (set, k) /\
    S (c_pops k) > 4 * (size g + n_edges g + 1) ^ 2.
Proof. exact ancestor_set_paths_poly_refuted. Qed.
Print Assumptions C19_conflicts_paths_poly_refuted.

(* --- non-vacuity: concrete instances of the hypotheses, with their exact counts *)

Theorem C19_conflicts_ancestors_nonvacuous :
  exists g c n set c' k,
    wf_graph g /\ c <> [] /\ cache_sound g c /\ ~ reach g n n /\
    ancestor_set_c g c n = Some (set, c', k) /\
    k = mkCost 1 20 12 6 /\ steps k <= size g + n_edges g + 1 /\ length set = 12.
Proof. exact ancestor_set_c_nonvacuous. Qed.
Print Assumptions C19_conflicts_ancestors_nonvacuous.

Theorem C19_conflicts_detect_ladder_2_6 :
  family_ok (ladder 2 6) /\
  summary (detect_conflicts_c (ladder 2 6) (every_second (ladder 2 6))) = Some (0, 7, mkCost 42 42 42 70) /\
  (size (ladder 2 6), n_edges (ladder 2 6), length (every_second (ladder 2 6)), n_owners (every_second (ladder 2 6)))
  = (14, 24, 7, 7).
Proof. exact detect_ladder_2_6. Qed.
Print Assumptions C19_conflicts_detect_ladder_2_6.

Theorem C19_conflicts_detect_dense_6 :
  family_ok (dense 6) /\
  summary (detect_conflicts_c (dense 6) (every_second (dense 6))) = Some (0, 3, mkCost 6 10 4 2) /\
  (size (dense 6), n_edges (dense 6), length (every_second (dense 6)), n_owners (every_second (dense 6)))
  = (6, 15, 3, 3).
Proof. exact detect_dense_6. Qed.
Print Assumptions C19_conflicts_detect_dense_6.

Theorem C19_conflicts_detect_chain_10 :
  family_ok (chain 10) /\
  summary (detect_conflicts_c (chain 10) (every_second (chain 10))) = Some (0, 5, mkCost 20 8 8 12) /\
  (size (chain 10), n_edges (chain 10), length (every_second (chain 10)), n_owners (every_second (chain 10)))
  = (10, 9, 5, 5).
Proof. exact detect_chain_10. Qed.
Print Assumptions C19_conflicts_detect_chain_10.

Theorem C19_conflicts_detect_fork :
  wf_graph fork /\ acyclic fork /\ owners_ok fork fork_recs /\
  detect_conflicts_c fork fork_recs =
    Some ([(mkCrec 0 CDocker key_o, mkCrec 1 CDocker key_o); (mkCrec 0 CDir key_o, mkCrec 1 CFile key_ox)],
          [(3, [1; 0; 2]); (1, []); (0, []); (2, [0; 1])], mkCost 10 3 3 2).
Proof. exact detect_fork. Qed.
Print Assumptions C19_conflicts_detect_fork.

Theorem C19_conflicts_seen_set_contrast :
  (exists set c', ancestor_set_c (ladder 2 6) [] 12 = Some (set, c', mkCost 1 22 12 0)) /\
  (exists set, ancestor_set_paths_c 126 (ladder 2 6) 12 = Some (set, mkCost 1 126 126 0)).
Proof. exact seen_set_contrast. Qed.
Print Assumptions C19_conflicts_seen_set_contrast.
