(* C08 -- the remote cache is a write-through / read-through mirror shared across machines.
   Only statements, each closed by [exact] of a lemma from Store_proofs.v.

   Store.v, layer 2: a world = local stores of machines A and B + one remote store + the CAS
   exists-memo and stored-memo of each process + fault lists consumed by remote and local calls; RemoteWrapper
   Get = local, else remote and fill; Set = tee into both, error if either fails; Exists = local OR
   remote; ExistsEverywhere = local AND remote; Cas.Write skipped when the digest is in the process'
   stored-memo or ExistsEverywhere.  [publish m blobs k r] = what a build does for one target:
   write every blob through the CAS, then the result that references them. *)
From Coq Require Import List Bool.
From Grog Require Import Str Store Store_proofs.
Import ListNotations.

(* every published result and every blob it references is retrievable from the remote afterwards, "even
   when a blob already existed in the local cache": for every world (whatever both local caches and the
   remote hold), machine, blob list, fault lists and reference decoding, a publish in which every call
   returned ok leaves the result and every referenced blob in the remote.  The one premise is about the
   writing process' own memo: every digest it remembers as stored is in the remote (boolean guard). *)
Theorem C08_no_dangling :
  forall (refs : bytes -> list key) w m blobs k r,
    stored_in_remote w m = true -> no_dangling_at refs w m blobs k r.
Proof. exact no_dangling. Qed.
Print Assumptions C08_no_dangling.

(* the premise holds for a new process (empty memo) in any world ... *)
Theorem C08_no_dangling_new_process :
  forall (refs : bytes -> list key) w m blobs k r,
    wstored w m Wrapped = [] -> no_dangling_at refs w m blobs k r.
Proof. exact no_dangling_new_process. Qed.
Print Assumptions C08_no_dangling_new_process.

(* ... and is an invariant of every history of back-end / CAS / result ops and process restarts on both
   machines under any faults, as long as nothing is deleted (grog deletes nothing during a build) *)
Theorem C08_stored_memo_invariant :
  forall ops w m,
    forallb (fun o => negb (is_delete o)) ops = true ->
    stored_in_remote w m = true -> stored_in_remote (snd (run_ops w ops)) m = true.
Proof. exact stored_in_remote_invariant. Qed.
Print Assumptions C08_stored_memo_invariant.

Theorem C08_no_dangling_after_history :
  forall (refs : bytes -> list key) w m ops blobs k r,
    forallb (fun o => negb (is_delete o)) ops = true ->
    no_dangling_at refs (snd (run_ops (reset_memo w m) ops)) m blobs k r.
Proof. exact no_dangling_after_history. Qed.
Print Assumptions C08_no_dangling_after_history.

(* the premise cannot be dropped: a process whose memo names a digest that is no longer in the remote skips
   the upload (the memo assumes, as the code's comment says, that the back end does not lose a digest during
   the run) *)
Theorem C08_stored_memo_guard_needed :
  exists w m blobs k r, stored_in_remote w m = false /\ ~ no_dangling_at wit_refs w m blobs k r.
Proof. exact stored_guard_needed. Qed.
Print Assumptions C08_stored_memo_guard_needed.

(* the history of finding C08-F1 (blob in A's local cache only, empty remote): both calls return ok and the
   remote ends with the result AND the blob *)
Theorem C08_local_only_blob_uploaded :
  lookup (locA wit_world) PCas wit_d = Some wit_x /\ rem wit_world = [] /\
  stored_in_remote wit_world MA = true /\
  map fst (run_trace wit_world (publish MA [(wit_d, wit_x)] wit_k wit_d)) = [ROk; ROk] /\
  rem (snd (run_ops wit_world (publish MA [(wit_d, wit_x)] wit_k wit_d)))
  = [((PTarget, wit_k), wit_d); ((PCas, wit_d), wit_x)].
Proof. exact repaired_trace. Qed.
Print Assumptions C08_local_only_blob_uploaded.

(* machine B, empty local cache, same namespace, no faults: reading each result and every blob it
   references is answered exactly by the remote, executes nothing (every answer is the remote's
   content), fills B's local cache with everything read and leaves the remote unchanged *)
Theorem C08_machineB_restores :
  forall (refs : bytes -> list key) w results,
    remote_complete refs w results -> locB w = [] -> rfl w = [] -> lfl w = [] ->
    let items := restore_items refs w results in
    let out := run_ops w (get_ops items) in
    fst out = map (remote_answer w) items /\
    (forall e, In e items -> exists b, lookup (rem w) (fst e) (snd e) = Some b /\
                                       lookup (locB (snd out)) (fst e) (snd e) = Some b) /\
    rem (snd out) = rem w.
Proof. exact machineB_restores. Qed.
Print Assumptions C08_machineB_restores.

(* faults degrade: under ANY fault lists a wrapper Get answers the stored bytes (from the local store,
   or from the remote and then also from the filled local store), a miss, or an error -- never other
   bytes, never a stuck outcome -- and never modifies the remote *)
Theorem C08_faults_degrade : forall w m p k,
  let (r, w') := w_get w m p k in
  rem w' = rem w /\
  match r with
  | RHit b => (lookup (loc w m) p k = Some b \/
               (lookup (loc w m) p k = None /\ lookup (rem w) p k = Some b)) /\
              lookup (loc w' m) p k = Some b
  | RMiss => loc w' m = loc w m
  | RErr => loc w' m = loc w m
  | _ => False
  end.
Proof. exact get_faults_degrade. Qed.
Print Assumptions C08_faults_degrade.

(* non-vacuity: machine A, the blob in its local cache only, publishes (guard true, all calls ok, remote
   complete), B restores with two hits; and a fault example: first remote Get fails, second is "not found",
   third hits *)
Theorem C08_no_dangling_nonvacuous :
  let out := run_ops wit_world (publish MA [(wit_d, wit_x)] wit_k wit_d) in
  stored_in_remote wit_world MA = true /\ forallb is_ok (fst out) = true /\
  remote_complete wit_refs (snd out) [wit_k] /\ locB (snd out) = [] /\
  fst (run_ops (snd out) (get_ops (restore_items wit_refs (snd out) [wit_k]))) = [RHit wit_d; RHit wit_x].
Proof. exact no_dangling_nonvacuous. Qed.
Print Assumptions C08_no_dangling_nonvacuous.

Theorem C08_degrade_nonvacuous :
  let w := mkW [] [] [((PCas, wit_d), wit_x)] (fun _ _ => []) (fun _ _ => []) [FFail; FNotFound] [] in
  map fst (run_trace w [Do MB Wrapped (AGet PCas wit_d); Do MB Wrapped (AGet PCas wit_d); Do MB Wrapped (AGet PCas wit_d)])
  = [RErr; RMiss; RHit wit_x].
Proof. exact degrade_example. Qed.
Print Assumptions C08_degrade_nonvacuous.
