(* C08 -- the remote cache is a write-through / read-through mirror shared across machines.
   Only statements, each closed by [exact] of a lemma from Store_proofs.v.

   Store.v, layer 2: a world = local stores of machines A and B + one remote store + the CAS
   exists-memo of each process + fault lists consumed by remote and local calls; RemoteWrapper
   Get = local, else remote and fill; Set = tee into both, error if either fails; Exists = local OR
   remote; Cas.Write skipped when Exists.  [publish m blobs k r] = what a build does for one target:
   write every blob through the CAS, then the result that references them. *)
From Coq Require Import List Bool.
From Grog Require Import Str Store Store_proofs.
Import ListNotations.

(* the unguarded claim (every published result and every blob it references is retrievable from the
   remote afterwards, "even when a blob already existed in the local cache") is FALSE of the faithful
   model: the blob is in A's local cache only, Cas.Write skips it, the result is uploaded *)
Theorem C08_no_dangling_refuted :
  exists w m blobs k r, ~ no_dangling_at wit_refs w m blobs k r.
Proof. exact no_dangling_refuted. Qed.
Print Assumptions C08_no_dangling_refuted.

(* the witness as a trace: both calls return ok, the remote ends with the result and no blob, and
   the guard of the partial theorem is false on it *)
Theorem C08_no_dangling_refuted_trace :
  map fst (run_trace wit_world (publish MA [(wit_d, wit_x)] wit_k wit_d)) = [ROk; ROk] /\
  rem (snd (run_ops wit_world (publish MA [(wit_d, wit_x)] wit_k wit_d))) = [((PTarget, wit_k), wit_d)] /\
  local_sub_remote wit_world MA = false.
Proof. exact refuted_trace. Qed.
Print Assumptions C08_no_dangling_refuted_trace.

(* guarded: when every blob of the writing machine's local cache is mirrored in the remote (boolean
   guard, evaluated by the check on any failing history), a publish in which every call returned ok
   leaves the result and every referenced blob in the remote -- for every world, machine, blob
   list, fault list and reference decoding *)
Theorem C08_no_dangling_partial :
  forall (refs : bytes -> list key) w m blobs k r,
    local_sub_remote w m = true -> no_dangling_at refs w m blobs k r.
Proof. exact no_dangling_guarded. Qed.
Print Assumptions C08_no_dangling_partial.

(* machine B, empty local cache, same namespace, no faults: reading each result and every blob it
   references is answered exactly by the remote, executes nothing (every answer is the remote's
   content), fills B's local cache with everything read and leaves the remote unchanged *)
Theorem C08_machineB_restores :
  forall (refs : bytes -> list key) w results,
    remote_complete refs w results -> locB w = [] -> rfl w = [] -> lfl w = [] ->
    let items := restore_items refs w results in
    let out := run_ops w (get_ops items) in
    fst out = map (remote_answer w) items /\
    (forall e, In e items -> exists b, lookup (rem w) (fst e) (snd e) = Some b /\
                                       lookup (locB (snd out)) (fst e) (snd e) = Some b) /\
    rem (snd out) = rem w.
Proof. exact machineB_restores. Qed.
Print Assumptions C08_machineB_restores.

(* faults degrade: under ANY fault lists a wrapper Get answers the stored bytes (from the local store,
   or from the remote and then also from the filled local store), a miss, or an error -- never other
   bytes, never a stuck outcome -- and never modifies the remote *)
Theorem C08_faults_degrade : forall w m p k,
  let (r, w') := w_get w m p k in
  rem w' = rem w /\
  match r with
  | RHit b => (lookup (loc w m) p k = Some b \/
               (lookup (loc w m) p k = None /\ lookup (rem w) p k = Some b)) /\
              lookup (loc w' m) p k = Some b
  | RMiss => loc w' m = loc w m
  | RErr => loc w' m = loc w m
  | _ => False
  end.
Proof. exact get_faults_degrade. Qed.
Print Assumptions C08_faults_degrade.

(* non-vacuity: a cold machine A publishes (guard true, all calls ok, remote complete), B restores
   with two hits; and a fault example: first remote Get fails, second is "not found", third hits *)
Theorem C08_guarded_nonvacuous :
  let w0 := empty_world [] [] in
  let out := run_ops w0 (publish MA [(wit_d, wit_x)] wit_k wit_d) in
  local_sub_remote w0 MA = true /\ forallb is_ok (fst out) = true /\
  remote_complete wit_refs (snd out) [wit_k] /\ locB (snd out) = [] /\
  fst (run_ops (snd out) (get_ops (restore_items wit_refs (snd out) [wit_k]))) = [RHit wit_d; RHit wit_x].
Proof. exact guarded_nonvacuous. Qed.
Print Assumptions C08_guarded_nonvacuous.

Theorem C08_degrade_nonvacuous :
  let w := mkW [] [] [((PCas, wit_d), wit_x)] (fun _ _ => []) [FFail; FNotFound] [] in
  map fst (run_trace w [Do MB Wrapped (AGet PCas wit_d); Do MB Wrapped (AGet PCas wit_d); Do MB Wrapped (AGet PCas wit_d)])
  = [RErr; RMiss; RHit wit_x].
Proof. exact degrade_example. Qed.
Print Assumptions C08_degrade_nonvacuous.
