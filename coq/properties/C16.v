(* C16 -- BUILD loaders agree across formats, are deterministic, and never crash.
   Only statements, each closed by [exact] of a lemma from Loader_proofs.v.
   Loader.v mirrors the Makefile / script annotation scanners (with an explicit [Panic] outcome
   where Go indexes an empty slice), getEnrichedPackage and the merge loop of LoadPackages +
   BuildNodeMapFromPackages.  yaml.Unmarshal, doublestar.Glob and time.ParseDuration are oracle
   parameters ([yaml], [glob], [dur]); the JSON / YAML / Starlark decoders are not modelled
   (partial by nature: covered by the differential run of ./check C16 only). *)
From Coq Require Import Permutation.
From Grog Require Import Str Label Loader Loader_proofs.

(* ---- never crash: the Makefile annotation scanner *)

(* full statement "no input panics the scanner": REFUTED -- '# @grog' directly followed by the
   goal line indexes annotationLineNumbers[-1], whatever the YAML decoder does (C16-F1) *)
Theorem C16_scan_no_panic_refuted :
  exists lines, forall yaml, scan_makefile yaml lines = Panic.
Proof. exact scan_no_panic_refuted. Qed.
Print Assumptions C16_scan_no_panic_refuted.

(* strongest true statement: outside the shape described by the decidable guard [mk_guard]
   (an annotation block with no comment line before its goal line) no decoder behaviour makes
   the scanner panic *)
Theorem C16_scan_no_panic_partial : forall lines,
  mk_guard lines = true -> forall yaml, is_panic (scan_makefile yaml lines) = false.
Proof. exact scan_no_panic_partial. Qed.
Print Assumptions C16_scan_no_panic_partial.

(* the guard is exact: it fails iff some decoder behaviour leads to the panic ... *)
Theorem C16_scan_guard_exact : forall lines,
  mk_guard lines = false <-> exists yaml, is_panic (scan_makefile yaml lines) = true.
Proof. exact mk_guard_exact. Qed.
Print Assumptions C16_scan_guard_exact.

(* ... and with a decoder that accepts every block it fails iff the scanner panics *)
Theorem C16_scan_guard_exact_total : forall yaml lines,
  (forall s, yaml s <> None) ->
  (is_panic (scan_makefile yaml lines) = true <-> mk_guard lines = false).
Proof. exact mk_guard_exact_total. Qed.
Print Assumptions C16_scan_guard_exact_total.

(* the same for the whole file (bufio.Scanner line splitting, token-too-long cut included) *)
Theorem C16_makefile_file_no_panic_partial : forall maxlen yaml content,
  mk_guard (fst (split_lines maxlen content)) = true ->
  is_panic (scan_makefile_file maxlen yaml content) = false.
Proof. exact makefile_file_no_panic_partial. Qed.
Print Assumptions C16_makefile_file_no_panic_partial.

(* ---- never crash: the script annotation scanner, full strength *)
Theorem C16_script_scan_no_panic : forall yaml name lines,
  is_panic (scan_script yaml name lines) = false.
Proof. exact script_scan_no_panic. Qed.
Print Assumptions C16_script_scan_no_panic.

Theorem C16_script_file_no_panic : forall maxlen yaml name content,
  is_panic (scan_script_file maxlen yaml name content) = false.
Proof. exact script_file_no_panic. Qed.
Print Assumptions C16_script_file_no_panic.

(* ---- agree across formats: every field the annotation schema declares reaches the target *)

(* REFUTED for Makefile annotations (C16-F2): an annotation that sets fingerprint,
   environment_variables, timeout and platforms loads to a TargetDTO with all four empty, which
   differs from the DTO of the same settings written as BUILD.json ([full_dto]); the script
   loader copies the same four fields *)
Theorem C16_makefile_fields_refuted :
  exists (a : annot) (lines : list str) (td : target_dto),
    scan_makefile (fun _ => Some a) lines = ScanOk true [td] /\
    td = mk_target a goal_foo /\
    an_fingerprint a <> [] /\ an_env a <> [] /\ an_timeout a <> [] /\ an_platforms a <> None /\
    td_fingerprint td = [] /\ td_env td = [] /\ td_timeout td = [] /\ td_platforms td = None /\
    td <> full_dto a goal_foo /\
    td_fingerprint (script_target a script_x) = an_fingerprint a /\
    td_env (script_target a script_x) = an_env a /\
    td_timeout (script_target a script_x) = an_timeout a /\
    td_platforms (script_target a script_x) = an_platforms a.
Proof. exact makefile_fields_refuted. Qed.
Print Assumptions C16_makefile_fields_refuted.

(* strongest true statement: name, command, dependencies, inputs, outputs and tags are copied,
   and the Makefile DTO equals the JSON DTO exactly when none of the four fields is set *)
Theorem C16_makefile_fields_partial : forall a goal,
  let td := mk_target a goal in
  td_name td = td_name (full_dto a goal) /\ td_command td = td_command (full_dto a goal) /\
  td_deps td = an_deps a /\ td_inputs td = an_inputs a /\ td_outputs td = an_outputs a /\
  td_tags td = an_tags a /\
  (no_dropped_fields a = true <-> td = full_dto a goal).
Proof. exact makefile_fields_partial. Qed.
Print Assumptions C16_makefile_fields_partial.

(* ---- agree across formats: enrichment sees the DTO content only *)

(* the one format-dependent value handed to getEnrichedPackage, the source file name, flows
   into the source fields and nowhere else: outcome (ok / which error) and every other field
   of the package are the same for BUILD.json, BUILD.yaml, BUILD.star, Makefile, ... as soon as
   the decoders deliver the same DTO *)
Theorem C16_enrich_format_free : forall glob dur path d s,
  enrich glob dur path (dto_with_source s d) =
  map_result (package_with_source s) (enrich glob dur path d).
Proof. exact enrich_source_only. Qed.
Print Assumptions C16_enrich_format_free.

(* labels of an enriched package: package part = the normalised package path, name = the name
   of the DTO, in DTO order; all labels of the package pairwise distinct *)
Theorem C16_enrich_labels : forall glob dur path d p,
  enrich glob dur path d = Ok p ->
  map t_label (p_targets p) = map (tlabel path) (pd_targets d) /\
  map a_label (p_aliases p) = map (alabel path) (pd_aliases d) /\
  NoDup (pkg_labels p) /\
  pkey p = norm_path path.
Proof. exact enrich_labels. Qed.
Print Assumptions C16_enrich_labels.

(* every target is a function of its own DTO (plus source, path, default platforms) *)
Theorem C16_enrich_targets_pointwise : forall glob dur path d p,
  enrich glob dur path d = Ok p ->
  Forall2 (fun td t => enrich_target glob dur (pd_source d) path (pd_default_platforms d) [] td = Ok t)
          (pd_targets d) (p_targets p).
Proof. exact enrich_targets_pointwise. Qed.
Print Assumptions C16_enrich_targets_pointwise.

(* ---- deterministic: walk order and worker count only permute the list of per-file fragments *)

(* accept/reject does not depend on the arrival order, and two accepted results hold the same
   packages: one per key, same keys, per key the same targets and aliases up to their order
   inside the package ([pkgs_equiv]; Go keeps them in maps) *)
Theorem C16_merge_order_independent : forall frs frs',
  Permutation frs frs' ->
  (load_all frs = None <-> load_all frs' = None) /\
  (forall m m', load_all frs = Some m -> load_all frs' = Some m' -> pkgs_equiv m m').
Proof. exact merge_order_independent. Qed.
Print Assumptions C16_merge_order_independent.

(* the accepted fragment lists are exactly those whose labels are pairwise distinct *)
Theorem C16_load_accepts_iff_distinct : forall frs,
  (exists m, load_all frs = Some m) <-> NoDup (frag_labels frs).
Proof. exact load_all_accepts_iff. Qed.
Print Assumptions C16_load_accepts_iff_distinct.

(* plain equality of the results is REFUTED: target order inside a package and Package.Path of a
   root package ("." vs "") follow the arrival order (neither is observable through labels) *)
Theorem C16_merge_result_equality_refuted :
  exists frs frs' m m', Permutation frs frs' /\ load_all frs = Some m /\ load_all frs' = Some m' /\
    m <> m' /\ map p_path m <> map p_path m' /\ pkgs_equiv m m'.
Proof. exact load_all_equality_refuted. Qed.
Print Assumptions C16_merge_result_equality_refuted.

(* order independence of LoadPackages ALONE is REFUTED: an alias registered first and a target of
   the same label arriving later merge silently, the opposite order is an error; the duplicate
   is reported by BuildNodeMapFromPackages in both orders, so only the error text differs *)
Theorem C16_merge_all_order_independent_refuted :
  exists frs frs', Permutation frs frs' /\
    (exists m, merge_all frs = Some m) /\ merge_all frs' = None /\
    load_all frs = None /\ load_all frs' = None.
Proof. exact merge_all_order_dependent. Qed.
Print Assumptions C16_merge_all_order_independent_refuted.
