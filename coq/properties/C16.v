(* C16 -- BUILD loaders agree across formats, are deterministic, and never crash.
   Only statements, each closed by [exact] of a lemma from Loader_proofs.v.
   Loader.v mirrors the Makefile / script annotation scanners (with an explicit [Panic] outcome
   where the Go handleTarget functions index an empty slice), getEnrichedPackage (a nil element
   of the targets / aliases slice is [None]) and the merge loop of LoadPackages +
   BuildNodeMapFromPackages.  yaml.Unmarshal, doublestar.Glob and time.ParseDuration are oracle
   parameters ([yaml], [glob], [dur]); the JSON / YAML / Starlark decoders are not modelled
   (partial by nature: covered by the differential run of ./check C16 only). *)
From Coq Require Import Permutation.
From Grog Require Import Str Label Loader Loader_proofs.

(* ---- never crash: the Makefile annotation scanner, full strength *)

(* no input and no decoder behaviour makes the scanner panic: a '# @grog' marker with no
   annotation line before the next non-comment line is skipped before handleTarget could index
   annotationLineNumbers[-1] (C16-F1 repaired) *)
Theorem C16_scan_no_panic : forall yaml lines, is_panic (scan_makefile yaml lines) = false.
Proof. exact scan_no_panic. Qed.
Print Assumptions C16_scan_no_panic.

(* the same for the whole file (bufio.Scanner line splitting, token-too-long cut included) *)
Theorem C16_makefile_file_no_panic : forall maxlen yaml content,
  is_panic (scan_makefile_file maxlen yaml content) = false.
Proof. exact makefile_file_no_panic. Qed.
Print Assumptions C16_makefile_file_no_panic.

(* the repair changed nothing else: wherever the parser without the skip
   ([scan_makefile_noskip], the code in which C16-F1 was found) did not panic, the parser with
   it gives the same result ... *)
Theorem C16_scan_fix_conservative : forall yaml lines,
  is_panic (scan_makefile_noskip yaml lines) = false ->
  scan_makefile yaml lines = scan_makefile_noskip yaml lines.
Proof. exact scan_fix_conservative. Qed.
Print Assumptions C16_scan_fix_conservative.

(* ... and the inputs concerned are exactly those described by the decidable [mk_guard]
   (an annotation block with no comment line before its goal line): it fails iff some decoder
   behaviour made the parser without the skip panic *)
Theorem C16_scan_guard_exact : forall lines,
  mk_guard lines = false <-> exists yaml, is_panic (scan_makefile_noskip yaml lines) = true.
Proof. exact mk_guard_exact. Qed.
Print Assumptions C16_scan_guard_exact.

Theorem C16_scan_guard_exact_total : forall yaml lines,
  (forall s, yaml s <> None) ->
  (is_panic (scan_makefile_noskip yaml lines) = true <-> mk_guard lines = false).
Proof. exact mk_guard_exact_total. Qed.
Print Assumptions C16_scan_guard_exact_total.

(* ---- never crash: the script annotation scanner, full strength *)
Theorem C16_script_scan_no_panic : forall yaml name lines,
  is_panic (scan_script yaml name lines) = false.
Proof. exact script_scan_no_panic. Qed.
Print Assumptions C16_script_scan_no_panic.

Theorem C16_script_file_no_panic : forall maxlen yaml name content,
  is_panic (scan_script_file maxlen yaml name content) = false.
Proof. exact script_file_no_panic. Qed.
Print Assumptions C16_script_file_no_panic.

(* ---- never crash: a null entry in the targets / aliases list (C16-F4 repaired) *)

(* a package is produced only from lists without nil elements ... *)
Theorem C16_enrich_ok_no_null : forall glob dur path d p,
  enrich glob dur path d = Ok p -> ~ In None (pd_targets d) /\ ~ In None (pd_aliases d).
Proof. exact enrich_ok_no_null. Qed.
Print Assumptions C16_enrich_ok_no_null.

(* ... and a nil element is reported as such unless an entry before it is rejected first *)
Theorem C16_enrich_null_target : forall glob dur path d before after,
  pd_targets d = before ++ None :: after ->
  enrich glob dur path d =
  match enrich_targets glob dur (pd_source d) path (pd_default_platforms d) before [] with
  | Err e => Err e
  | Ok _ => Err ENullTarget
  end.
Proof. exact enrich_null_target. Qed.
Print Assumptions C16_enrich_null_target.

Theorem C16_enrich_null_alias : forall glob dur path d ts before after,
  enrich_targets glob dur (pd_source d) path (pd_default_platforms d) (pd_targets d) [] = Ok ts ->
  pd_aliases d = before ++ None :: after ->
  enrich glob dur path d =
  match enrich_aliases (pd_source d) path (map t_label ts) before [] with
  | Err e => Err e
  | Ok _ => Err ENullAlias
  end.
Proof. exact enrich_null_alias. Qed.
Print Assumptions C16_enrich_null_alias.

(* ---- agree across formats: every field the annotation schema declares reaches the target *)

(* the TargetDTO of a Makefile annotation is the DTO of the same settings written as
   BUILD.json ([full_dto]): fingerprint, platforms, timeout and environment_variables included
   (C16-F2 repaired) *)
Theorem C16_makefile_fields : forall a goal, mk_target a goal = full_dto a goal.
Proof. exact makefile_fields. Qed.
Print Assumptions C16_makefile_fields.

(* field by field: the nine declared annotation fields arrive, nothing else is set *)
Theorem C16_makefile_fields_each : forall a goal,
  let td := mk_target a goal in
  td_name td = (if null (an_name a) then goal else an_name a) /\
  td_command td = make_prefix ++ goal /\
  td_deps td = an_deps a /\ td_inputs td = an_inputs a /\ td_outputs td = an_outputs a /\
  td_tags td = an_tags a /\ td_fingerprint td = an_fingerprint a /\ td_env td = an_env a /\
  td_timeout td = an_timeout a /\ td_platforms td = an_platforms a /\
  td_excludes td = [] /\ td_bin td = [] /\ td_checks td = [].
Proof. exact makefile_fields_each. Qed.
Print Assumptions C16_makefile_fields_each.

(* one annotation, both annotation loaders: the shared fields arrive identically *)
Theorem C16_makefile_script_fields_agree : forall a goal file,
  let m := mk_target a goal in let s := script_target a file in
  td_deps m = td_deps s /\ td_fingerprint m = td_fingerprint s /\ td_env m = td_env s /\
  td_timeout m = td_timeout s /\ td_platforms m = td_platforms s.
Proof. exact makefile_script_fields_agree. Qed.
Print Assumptions C16_makefile_script_fields_agree.

(* ---- agree across formats: enrichment sees the DTO content only *)

(* the one format-dependent value handed to getEnrichedPackage, the source file name, flows
   into the source fields and nowhere else: outcome (ok / which error) and every other field
   of the package are the same for BUILD.json, BUILD.yaml, BUILD.star, Makefile, ... as soon as
   the decoders deliver the same DTO *)
Theorem C16_enrich_format_free : forall glob dur path d s,
  enrich glob dur path (dto_with_source s d) =
  map_result (package_with_source s) (enrich glob dur path d).
Proof. exact enrich_source_only. Qed.
Print Assumptions C16_enrich_format_free.

(* labels of an enriched package: package part = the normalised package path, name = the name
   of the DTO, in DTO order ([somes] = the non-nil elements; there are no others by
   C16_enrich_ok_no_null); all labels of the package pairwise distinct *)
Theorem C16_enrich_labels : forall glob dur path d p,
  enrich glob dur path d = Ok p ->
  map t_label (p_targets p) = map (tlabel path) (somes (pd_targets d)) /\
  map a_label (p_aliases p) = map (alabel path) (somes (pd_aliases d)) /\
  NoDup (pkg_labels p) /\
  pkey p = norm_path path.
Proof. exact enrich_labels. Qed.
Print Assumptions C16_enrich_labels.

(* every target is a function of its own DTO (plus source, path, default platforms) *)
Theorem C16_enrich_targets_pointwise : forall glob dur path d p,
  enrich glob dur path d = Ok p ->
  Forall2 (fun td t => enrich_target glob dur (pd_source d) path (pd_default_platforms d) [] td = Ok t)
          (somes (pd_targets d)) (p_targets p).
Proof. exact enrich_targets_pointwise. Qed.
Print Assumptions C16_enrich_targets_pointwise.

(* ---- deterministic: walk order and worker count only permute the list of per-file fragments *)

(* accept/reject does not depend on the arrival order, and two accepted results hold the same
   packages: one per key, same keys, per key the same targets and aliases up to their order
   inside the package ([pkgs_equiv]; Go keeps them in maps) *)
Theorem C16_merge_order_independent : forall frs frs',
  Permutation frs frs' ->
  (load_all frs = None <-> load_all frs' = None) /\
  (forall m m', load_all frs = Some m -> load_all frs' = Some m' -> pkgs_equiv m m').
Proof. exact merge_order_independent. Qed.
Print Assumptions C16_merge_order_independent.

(* the accepted fragment lists are exactly those whose labels are pairwise distinct *)
Theorem C16_load_accepts_iff_distinct : forall frs,
  (exists m, load_all frs = Some m) <-> NoDup (frag_labels frs).
Proof. exact load_all_accepts_iff. Qed.
Print Assumptions C16_load_accepts_iff_distinct.

(* plain equality of the results is REFUTED: target order inside a package and Package.Path of a
   root package ("." vs "") follow the arrival order (neither is observable through labels) *)
Theorem C16_merge_result_equality_refuted :
  exists frs frs' m m', Permutation frs frs' /\ load_all frs = Some m /\ load_all frs' = Some m' /\
    m <> m' /\ map p_path m <> map p_path m' /\ pkgs_equiv m m'.
Proof. exact load_all_equality_refuted. Qed.
Print Assumptions C16_merge_result_equality_refuted.

(* order independence of LoadPackages ALONE is REFUTED: an alias registered first and a target of
   the same label arriving later merge silently, the opposite order is an error; the duplicate
   is reported by BuildNodeMapFromPackages in both orders, so only the error text differs *)
Theorem C16_merge_all_order_independent_refuted :
  exists frs frs', Permutation frs frs' /\
    (exists m, merge_all frs = Some m) /\ merge_all frs' = None /\
    load_all frs = None /\ load_all frs' = None.
Proof. exact merge_all_order_dependent. Qed.
Print Assumptions C16_merge_all_order_independent_refuted.
