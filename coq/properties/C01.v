(* C01 -- incremental builds equal clean builds, for every history of source edits, taints,
   workspace perturbations, cache faults and builds sharing one persistent cache.
   Statements only; definitions in theories/Build.v (the model) and theories/Build_ideal.v (the
   clean semantics [ideal], the guards [hist_ok] = every build is load_outputs=all with the cache
   on, every snapshot satisfies [no_overwrite] and [plain] (= every target has a command;
   command-less targets stay excluded), the visited states are [key_faithful]; the invariant
   [cache_sound]); proofs in theories/Build_c01_proofs.v.  The digest H is idealised as injective.

   No-cache targets are admitted anywhere in the graph (since the no-cache output hash pairs every
   digest with its output, /repo 76bb2af): [ideal] gives such a target the output hash
   GetNoCacheOutputHash computes (for a no-cache target without outputs: the hash of the empty item
   list, not the key), [res_of] the output-less record its execution stores, and nothing of it enters
   the CAS.  It is never restored (C13_nocache_never_restored); every build that reaches it runs it,
   and its dependants read what that run wrote.  [key_faithful] asks, besides equal outputs, that two
   visited states with one key carry the same no-cache tag (the key does not cover the tag). *)
From Coq Require Import List Ascii String.
From Grog Require Import Str Label HashKey HashKey_proofs Build Build_ideal Build_c01_proofs.
Local Open Scope string_scope.
Import ListNotations.

(* after any admissible history, a build leaves at every declared output of every target that
   ended Hit or Executed the bytes of the ideal (from-scratch) semantics of the current sources *)
Theorem C01_build_ideal_partial : forall (H : str -> str), (forall a b, H a = H b -> a = b) ->
  forall ops cfg roots, hist_ok H ops -> cfg_ok cfg ->
  let y := run_history H ops in
  let r := build H cfg (sy_src y) roots (sy_world y) (sy_cache y) in
  forall i t, node_at (sy_src y) i = Some (NTarget t) ->
    nth i (br_status r) TNone = THit \/ nth i (br_status r) TNone = TExecuted ->
    exists d, nth i (ideal H (sy_src y)) None = Some d /\ map fst (i_outs d) = td_outs t /\
      forall o x, In (o, x) (i_outs d) -> ws_get (out_path t o) (w_ws (br_world r)) = PFile x.
Proof. exact c01_build_ideal. Qed.
Print Assumptions C01_build_ideal_partial.

(* ... hence byte-identical to what the from-scratch build (empty cache, empty workspace, any
   external conditions) of the current sources produces, for every target successful in both *)
Theorem C01_incremental_equals_clean_partial : forall (H : str -> str),
  (forall a b, H a = H b -> a = b) ->
  forall ops cfg roots ext', hist_ok H ops -> cfg_ok cfg ->
  let y := run_history H ops in
  let r := build H cfg (sy_src y) roots (sy_world y) (sy_cache y) in
  let rc := clean_build H cfg (sy_src y) roots ext' in
  forall i t o, node_at (sy_src y) i = Some (NTarget t) -> In o (td_outs t) ->
    nth i (br_status r) TNone = THit \/ nth i (br_status r) TNone = TExecuted ->
    nth i (br_status rc) TNone = THit \/ nth i (br_status rc) TNone = TExecuted ->
    exists x, ws_get (out_path t o) (w_ws (br_world r)) = PFile x /\
              ws_get (out_path t o) (w_ws (br_world rc)) = PFile x.
Proof. exact c01_incremental_equals_clean. Qed.
Print Assumptions C01_incremental_equals_clean_partial.

(* the persistent cache stays sound along every admissible history: every blob present in the
   CAS is keyed by its digest, every stored result is the ideal result of a visited state *)
Theorem C01_cache_sound_every_history : forall (H : str -> str),
  (forall a b, H a = H b -> a = b) ->
  forall ops, hist_ok H ops -> cache_sound H (snaps ops) (sy_cache (run_history H ops)).
Proof. exact c01_cache_sound_every_history. Qed.
Print Assumptions C01_cache_sound_every_history.

(* a cached result is served only to a target whose state agrees with the state that produced
   it: the result looked up by the task of a target that ends Hit is the ideal result of a
   visited target with the same key and the same ideal outputs.  (A no-cache target never ends Hit:
   C13_nocache_never_restored; the output-less record [res_of] it stores is never used for
   restoring: a cacheable target with outputs refuses it -- validateTargetResultOutputs -- and runs.) *)
Theorem C01_hit_only_for_equal_key_state_partial : forall (H : str -> str),
  (forall a b, H a = H b -> a = b) ->
  forall ops cfg roots, hist_ok H ops -> cfg_ok cfg ->
  let y := run_history H ops in
  let r := build H cfg (sy_src y) roots (sy_world y) (sy_cache y) in
  forall i t, node_at (sy_src y) i = Some (NTarget t) ->
    nth i (br_status r) TNone = THit ->
    exists key res s' j' d' d,
      served H (sy_src y) i t
             (build_prefix H cfg (sy_src y) roots (sy_world y) (sy_cache y) i) = Some (key, res) /\
      In s' (snaps ops) /\ is_target s' j' /\
      nth j' (ideal H s') None = Some d' /\ nth i (ideal H (sy_src y)) None = Some d /\
      i_key d' = key /\ i_key d = key /\ res = res_of H d' /\ same_outs d d'.
Proof. exact c01_hit_only_for_equal_key_state. Qed.
Print Assumptions C01_hit_only_for_equal_key_state_partial.

(* the build that follows lost cache entries (blobs and/or target results) still equals the
   clean build: cache faults are ordinary ops of an admissible history *)
Theorem C01_after_cache_faults : forall (H : str -> str), (forall a b, H a = H b -> a = b) ->
  forall ops faults cfg roots ext',
  hist_ok H ops -> Forall is_cache_fault faults -> cfg_ok cfg ->
  let y := run_history H (ops ++ faults) in
  let r := build H cfg (sy_src y) roots (sy_world y) (sy_cache y) in
  let rc := clean_build H cfg (sy_src y) roots ext' in
  forall i t o, node_at (sy_src y) i = Some (NTarget t) -> In o (td_outs t) ->
    nth i (br_status r) TNone = THit \/ nth i (br_status r) TNone = TExecuted ->
    nth i (br_status rc) TNone = THit \/ nth i (br_status rc) TNone = TExecuted ->
    exists x, ws_get (out_path t o) (w_ws (br_world r)) = PFile x /\
              ws_get (out_path t o) (w_ws (br_world rc)) = PFile x.
Proof. exact c01_after_cache_faults. Qed.
Print Assumptions C01_after_cache_faults.

(* without [key_faithful] the statement is false of the model, whatever the key encoding: what a command
   writes ([td_salt], [td_beh]) is a field of the model's target that the command text in the key does not
   determine.  Two snapshots that differ only in the salt share their key; the second build is a Hit and
   serves the bytes of the first.  (The former witness -- a byte moving across the boundary of two input
   files, finding C01-F2 -- is gone with the framed key encoding: C09_injective.) *)
Theorem C01_incremental_equals_clean_needs_key_faithful :
  exists (H : str -> str) ops cfg roots ext' i t o,
    (forall a b, H a = H b -> a = b) /\ Forall op_ok ops /\ cfg_ok cfg /\
    let y := run_history H ops in
    let r := build H cfg (sy_src y) roots (sy_world y) (sy_cache y) in
    let rc := clean_build H cfg (sy_src y) roots ext' in
    node_at (sy_src y) i = Some (NTarget t) /\ In o (td_outs t) /\
    nth i (br_status r) TNone = THit /\ nth i (br_status rc) TNone = TExecuted /\
    ws_get (out_path t o) (w_ws (br_world r)) <> ws_get (out_path t o) (w_ws (br_world rc)).
Proof. exact c01_needs_key_faithful. Qed.
Print Assumptions C01_incremental_equals_clean_needs_key_faithful.

(* every guard holds of a concrete history (target a, an alias of a, target b depending on the
   alias): build; edit a's input; build (a and b re-execute); a's blob and a's output are lost;
   the next build re-executes a and hits b *)
Theorem C01_guards_nonvacuous :
  exists (H : str -> str) ops cfg roots,
    (forall a b, H a = H b -> a = b) /\ hist_ok H ops /\ cfg_ok cfg /\
    let y := run_history H ops in
    let r := build H cfg (sy_src y) roots (sy_world y) (sy_cache y) in
    map br_status (sy_log y) = [[TExecuted; THit; TExecuted]; [TExecuted; THit; TExecuted]] /\
    br_status r = [TExecuted; THit; THit] /\ br_ok r = true.
Proof. exact c01_guards_nonvacuous. Qed.
Print Assumptions C01_guards_nonvacuous.

(* every guard holds of a history with a no-cache target in the middle of a chain (a; b no-cache with a
   file and a directory output, depending on a; c depending on b): build; edit a's input; build (all three
   re-execute); the next build serves a and c from the cache and runs b, whose unchanged outputs give c
   its old key *)
Theorem C01_nocache_chain_nonvacuous :
  exists (H : str -> str) ops cfg roots,
    (forall a b, H a = H b -> a = b) /\ hist_ok H ops /\ cfg_ok cfg /\
    (exists s t, In s (snaps ops) /\ In (NTarget t) (s_nodes s) /\ td_nocache t = true /\
                 td_outs t <> [] /\ td_deps t <> []) /\
    let y := run_history H ops in
    let r := build H cfg (sy_src y) roots (sy_world y) (sy_cache y) in
    map br_status (sy_log y) = [[TExecuted; TExecuted; TExecuted]; [TExecuted; TExecuted; TExecuted]] /\
    br_status r = [THit; TExecuted; THit] /\ br_ok r = true.
Proof. exact c01_nocache_chain_nonvacuous. Qed.
Print Assumptions C01_nocache_chain_nonvacuous.

(* the guard [plain] no longer excludes no-cache targets (it used to: the ideal semantics had no clause for
   them).  The witness that made the exclusion necessary -- finding C01-F3: a no-cache dependency n (outputs
   ox, oy, maintained outside the build) whose two outputs exchange their contents kept its output hash, so
   the key of its dependant d did not change and d was served stale bytes -- no longer goes through: the
   no-cache output hash pairs every digest with its output, n's output hash changes with the swap, d's key
   changes, d is re-executed in the second build and its output is not the one of the first build.  (n has no
   command: this history is outside [plain], which still asks for a command.) *)
Theorem C01_nocache_swap_changes_key :
  map br_status (sy_log (run_history idH sw_ops)) = [[TExecuted; TExecuted]; [TExecuted; TExecuted]] /\
  rt_ohash (get_rt (sw_state 3) 0) <> rt_ohash (get_rt (sw_state 6) 0) /\
  rt_key (get_rt (sw_state 3) 1) <> rt_key (get_rt (sw_state 6) 1) /\
  rt_key (get_rt (sw_state 3) 1) <> None /\
  ws_get (lit "p/od") (w_ws (sy_world (run_history idH sw_ops))) <>
  ws_get (lit "p/od") (w_ws (sy_world (run_history idH (firstn 4 sw_ops)))).
Proof. exact nocache_swap_changes_key. Qed.
Print Assumptions C01_nocache_swap_changes_key.

(* ... whereas a hash of the sorted content digests alone (the formula before the repair) cannot tell the
   two states apart, for any digest function *)
Theorem C01_digests_only_hash_blind : forall (H : str -> str) (a b : str),
  H (join comma (sort_strs [a; b])) = H (join comma (sort_strs [b; a])).
Proof. exact digests_only_hash_blind. Qed.
Print Assumptions C01_digests_only_hash_blind.

(* what is hashed per output, "<output definition>=<digest>", determines the output and the digest as soon as
   digests contain no '=' (hex digests, "sha256:<hex>" image ids), whatever the output identifier contains;
   so two different outputs exchanging two different contents change the sorted list that is hashed *)
Theorem C01_nocache_item_injective : forall d1 g1 d2 g2 : str,
  ~ In ch_eq g1 -> ~ In ch_eq g2 ->
  nocache_item (d1, g1) = nocache_item (d2, g2) -> d1 = d2 /\ g1 = g2.
Proof. exact nocache_item_inj. Qed.
Print Assumptions C01_nocache_item_injective.

Theorem C01_nocache_swap_changes_items : forall d1 d2 g1 g2 : str,
  ~ In ch_eq g1 -> ~ In ch_eq g2 -> d1 <> d2 -> g1 <> g2 ->
  ~ Permutation (map nocache_item [(d1, g1); (d2, g2)]) (map nocache_item [(d1, g2); (d2, g1)]).
Proof. exact nocache_item_swap_differs. Qed.
Print Assumptions C01_nocache_swap_changes_items.
