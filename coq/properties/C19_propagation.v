(* C19 (clause "propagating a failure to dependants") -- the walker's failure propagation costs what
   GetDescendants costs.  Only statements, each closed by [exact] of a lemma from Walker_cost_proofs.v.

   Code: internal/dag/graph_walker.go onComplete, keep-going branch, under doneMutex:
       for _, dep := range w.graph.GetDescendants(node) { w.cancelNode(dep) }
   [Walker.desc g n] is the set whose cancel channels the scheduler model closes ([Walker.complete_fail]);
   [descendants_visited g n] is GetDescendants (visited-set DFS) with its cost: [fst] = the list returned,
   [descendants_visited_cost] = entries into the recursive function + edges inspected.
   [propagation_cost g n] = descendants_visited_cost g n + length (fst (descendants_visited g n)):
   one traversal + one cancelNode (a map lookup and a sync.Once) per node returned. *)
From Grog Require Import Str Label Graph Select Select_proofs Walker Walker_proofs Walker_cost_proofs.

(* the set the walker cancels is the list GetDescendants returns: same elements (= the transitive dependants),
   both duplicate-free, neither contains the failed node, same length *)
Theorem C19_propagation_set : forall g n, topo g ->
  (forall m, In m (desc g n) <-> In m (fst (descendants_visited g n))) /\
  (forall m, In m (desc g n) <-> reach g n m) /\
  NoDup (desc g n) /\ NoDup (fst (descendants_visited g n)) /\
  ~ In n (desc g n) /\ ~ In n (fst (descendants_visited g n)) /\
  length (desc g n) = length (fst (descendants_visited g n)).
Proof. exact propagation_set. Qed.
Print Assumptions C19_propagation_set.

(* the model's step says so: keep-going, no fail-fast triggered: a failed completion closes the cancel channels of
   exactly the nodes GetDescendants returns *)
Theorem C19_propagation_step : forall g c s n, topo g -> ff c = false -> fft s = false ->
  forall m, cp (complete_fail g c s n) m = cp s m || mem_nat m (fst (descendants_visited g n)).
Proof. exact complete_fail_closes_descendants. Qed.
Print Assumptions C19_propagation_step.

(* one propagation is linear in nodes + edges ... *)
Theorem C19_propagation_linear : forall g n, wf_graph g -> propagation_cost g n <= 2 * (size g + edges g + 1).
Proof. exact propagation_linear. Qed.
Print Assumptions C19_propagation_linear.

(* ... hence below the property's small polynomial *)
Theorem C19_propagation_poly : forall g n, wf_graph g -> propagation_cost g n <= 4 * (size g + edges g + 1) ^ 2.
Proof. exact propagation_poly. Qed.
Print Assumptions C19_propagation_poly.

(* all propagations of one build: a node fails at most once, so the failing nodes are a duplicate-free list of nodes *)
Theorem C19_propagations_of_a_build : forall g fs, wf_graph g -> NoDup fs -> (forall n, In n fs -> n < size g) ->
  list_sum (map (propagation_cost g) fs) <= length fs * (2 * (size g + edges g + 1)) /\
  list_sum (map (propagation_cost g) fs) <= 2 * size g * (size g + edges g + 1).
Proof. exact propagation_total_linear_per_failure. Qed.
Print Assumptions C19_propagations_of_a_build.

(* the hypotheses of the previous theorem hold of every schedule of the walker model: the nodes n with an event
   FinishFail n or Reject n (the two places where onComplete(failure) runs) are distinct nodes of the graph ... *)
Theorem C19_failures_once : forall g c evs s, run g c evs = Some s ->
  NoDup (failing_nodes evs) /\ forall n, In n (failing_nodes evs) -> n < size g.
Proof. exact failing_nodes_once. Qed.
Print Assumptions C19_failures_once.

(* ... so every failure of a walk charged a full propagation sums to O(V * (V + E)) *)
Theorem C19_propagations_of_a_walk : forall g c evs s, wf_graph g -> run g c evs = Some s ->
  walk_propagation_cost g evs <= 2 * size g * (size g + edges g + 1).
Proof. exact walk_propagation_poly. Qed.
Print Assumptions C19_propagations_of_a_walk.

(* contrast: with the path-enumerating GetDescendants (before 8493cb4) the same branch exceeds the polynomial;
   the 30-node ladder of width 2: 65533 steps against 111 now (2 (V + E + 1) = 174) *)
Theorem C19_propagation_paths_exponential :
  exists g n, topo g /\ propagation_paths_cost g n > 4 * (size g + edges g + 1) ^ 2.
Proof. exact propagation_paths_exponential. Qed.
Print Assumptions C19_propagation_paths_exponential.

Theorem C19_propagation_ladder_2_14 :
  Nat.eqb (propagation_paths_cost (ladder 2 14) 0) (2 ^ 16 - 3) = true /\
  propagation_cost (ladder 2 14) 0 = 111 /\ 2 * (size (ladder 2 14) + edges (ladder 2 14) + 1) = 174.
Proof. exact propagation_ladder_2_14. Qed.
Print Assumptions C19_propagation_ladder_2_14.

(* non-vacuity: ladder 3 6, failure of the bottom node 0: same 18 nodes on both sides, cost 85 <= 152 *)
Theorem C19_propagation_nonvacuous :
  topo (ladder 3 6) /\ wf_graph (ladder 3 6) /\
  normalize (ladder 3 6) (desc (ladder 3 6) 0) = normalize (ladder 3 6) (fst (descendants_visited (ladder 3 6) 0)) /\
  normalize (ladder 3 6) (desc (ladder 3 6) 0) = seq 3 18 /\
  length (desc (ladder 3 6) 0) = 18 /\ length (fst (descendants_visited (ladder 3 6) 0)) = 18 /\
  propagation_cost (ladder 3 6) 0 = 85 /\ 2 * (size (ladder 3 6) + edges (ladder 3 6) + 1) = 152.
Proof. exact propagation_nonvacuous. Qed.
Print Assumptions C19_propagation_nonvacuous.

(* and a schedule of the walker model on it in which the propagation happens *)
Theorem C19_propagation_run_nonvacuous :
  exists s, run (ladder 3 6) (mkConfig 2 false) [Start 0; Pick 0; FinishFail 0] = Some s /\
    map (cp s) (seq 0 21) = map (fun m => mem_nat m (fst (descendants_visited (ladder 3 6) 0))) (seq 0 21) /\
    failing_nodes [Start 0; Pick 0; FinishFail 0] = [0] /\
    walk_propagation_cost (ladder 3 6) [Start 0; Pick 0; FinishFail 0] = 85.
Proof. exact propagation_run_nonvacuous. Qed.
Print Assumptions C19_propagation_run_nonvacuous.
