(* C10 -- At most one grog build runs in a workspace; stale locks are recovered.
   Only statements, each closed by [exact] of a lemma from Lock_proofs.v.
   Model: Lock.v (one event per file-system call of WorkspaceLocker.Lock/Unlock, any number of
   processes, any pre-existing lock file, crashes anywhere, waiters interrupted at will). *)
From Coq Require Import List.
From Grog Require Import Lock Lock_proofs.
Import ListNotations.

(* Mutual exclusion is still FALSE of the faithful model (finding C10-F2): a kernel-checked
   schedule after which processes 0 and 1 are both past Lock().
   W2 (lock file names dead process 2): 0 and 1 both read and probe the stale PID; 0 removes,
   re-creates and holds; 1 then removes 0's fresh file and acquires; the guard
   [remove_of_unexamined_inode] fires on that schedule. *)
Theorem C10_mutex_refuted :
  init w2_init /\ guard_fired w2_init w2_sched = Some true /\
  exists s, run w2_init w2_sched = Some s /\ reachable w2_init s /\
    exists p q, p <> q /\ holds s p /\ holds s q.
Proof. exact mutex_refuted. Qed.
Print Assumptions C10_mutex_refuted.

(* The other schedule that used to give two holders (W1, finding C10-F1: 1 reads the file between
   0's exclusive create and 0's PID write, sees "", removes it and acquires) is gone with the
   repair: the lock file appears with its content (os.Link of a private, already written file).
   After [TryCreate 0; TryCreate 1; Read 1] process 1 has no [Remove] step; it probes 0 and waits:
   0 holds inode 0 with its PID in it, 1 is Waiting, no guard fired, one holder. *)
Theorem C10_w1_repaired :
  w1_sched = [TryCreate 0; TryCreate 1; Read 1; Probe 1] /\
  init w1_init /\ guard_fired w1_init w1_sched = Some false /\
  run w1_init [TryCreate 0; TryCreate 1; Read 1; Remove 1] = None /\
  exists s, run_g w1_init w1_sched = Some s /\ reachable_g w1_init s /\
    pcs s 0 = Held 0 /\ pcs s 1 = Waiting /\ lock s = Some 0 /\ content s 0 = Some 0 /\
    forall p q, holds s p -> holds s q -> p = q.
Proof. exact w1_repaired. Qed.
Print Assumptions C10_w1_repaired.

(* A created lock file always names its creator: in every state reachable -- by ANY steps, no
   guard -- from a state in which no inode has a creator yet (every [mk_init] configuration: lock
   file absent, empty, garbage or any PID), an inode created by process p contains p's PID. *)
Theorem C10_lock_file_never_empty : forall s0 s,
  (forall i, creator s0 i = None) -> reachable s0 s ->
  forall i p, creator s i = Some p -> content s i = Some p.
Proof. exact lock_file_names_creator. Qed.
Print Assumptions C10_lock_file_never_empty.

(* ... so no reader ever observes "" from a fresh file: a [Read] that finds no PID (and goes on to
   remove the file) has looked at an inode that was at the path before any process started. *)
Theorem C10_blank_read_is_preexisting : forall s0 s p s' i,
  init s0 -> (forall j, creator s0 j = None) -> reachable s0 s ->
  step s (Read p) = Some s' -> pcs s' p = WantRemove (Some i) ->
  lock s = Some i /\ content s i = None /\ creator s i = None /\ i < next s0.
Proof. exact blank_read_is_preexisting. Qed.
Print Assumptions C10_blank_read_is_preexisting.

Theorem C10_created_files_nonvacuous :
  (forall dead lk, (forall i p, creator (mk_init dead lk) i = Some p -> content (mk_init dead lk) i = Some p) /\
                   forall j, creator (mk_init dead lk) j = None) /\
  init blank_init /\
  (exists s s', run blank_init [TryCreate 0] = Some s /\ step s (Read 0) = Some s' /\
     pcs s' 0 = WantRemove (Some 0) /\ 0 < next blank_init) /\
  (exists s, run blank_init [TryCreate 0; Read 0; Remove 0; TryCreate 0] = Some s /\
     lock s = Some 1 /\ creator s 1 = Some 0 /\ content s 1 = Some 0 /\ content s 0 = None).
Proof. exact created_files_nonvacuous. Qed.
Print Assumptions C10_created_files_nonvacuous.

Theorem C10_mutex_unguarded_false :
  ~ (forall s0 s, init s0 -> reachable s0 s -> forall p q, holds s p -> holds s q -> p = q).
Proof. exact mutex_unguarded_false. Qed.
Print Assumptions C10_mutex_unguarded_false.

(* Strongest true statement: mutual exclusion in every state reachable by steps on which
   the ONE remaining boolean guard does not fire -- any number of processes, any initial lock file
   (absent, garbage, any PID), crashes anywhere.  What is missing for the unguarded C10_mutex:
   exactly the steps [Remove p] issued while the path names an inode other than the one p
   examined (finding C10-F2).  [reachable_g] has no other premise: the former guard
   read_before_write went away with the repair of C10-F1. *)
Theorem C10_mutex_partial : forall s0 s,
  init s0 -> reachable_g s0 s ->
  forall p q, holds s p -> holds s q -> p = q.
Proof. exact mutex_partial. Qed.
Print Assumptions C10_mutex_partial.

(* the guarded relation is not empty where it matters: from a stale lock file, with contention,
   it reaches a hand-over by Unlock and a take-over after the holder's death *)
Theorem C10_mutex_partial_nonvacuous :
  init w2_init /\
  (exists s, run_g w2_init nv_unlock_sched = Some s /\ reachable_g w2_init s /\ holds s 1 /\ pcs s 0 = Done) /\
  (exists s, run_g w2_init nv_crash_sched = Some s /\ reachable_g w2_init s /\ holds s 1 /\ pcs s 0 = Dead).
Proof. exact mutex_partial_nonvacuous. Qed.
Print Assumptions C10_mutex_partial_nonvacuous.

(* A lock file left behind by a dead process (or an empty / unparsable one) never blocks: from
   ANY state in which the path names such a file, an idle process scheduled alone ends up
   holding the lock. *)
Theorem C10_stale_recovered : forall s p i,
  lock s = Some i ->
  match content s i with None => True | Some q => pcs s q = Dead end ->
  pcs s p = Idle ->
  exists evs, Forall (fun e => actor e = p /\ e <> Crash p) evs /\
    exists s', run s evs = Some s' /\ holds s' p.
Proof. exact stale_recovered. Qed.
Print Assumptions C10_stale_recovered.

(* the same from anywhere in the acquisition loop, file absent or stale *)
Theorem C10_solo_progress : forall s p,
  (pcs s p = Idle \/ pcs s p = WantRead \/ (exists i q, pcs s p = WantProbe i q) \/
   (exists ex, pcs s p = WantRemove ex) \/ pcs s p = Waiting) ->
  match lock s with
  | None => True
  | Some i => match content s i with None => True | Some q => pcs s q = Dead end
  end ->
  exists evs, Forall (fun e => actor e = p /\ e <> Crash p) evs /\
    exists s', run s evs = Some s' /\ holds s' p.
Proof. exact solo_progress. Qed.
Print Assumptions C10_solo_progress.

(* A waiter proceeds once the holder releases or dies (any state in which the lock file is the
   holder's; w anywhere in its loop, in particular Waiting). *)
Theorem C10_waiter_proceeds : forall s h w i s1,
  pcs s h = Held i -> lock s = Some i -> content s i = Some h ->
  (pcs s w = Idle \/ pcs s w = WantRead \/ (exists i q, pcs s w = WantProbe i q) \/
   (exists ex, pcs s w = WantRemove ex) \/ pcs s w = Waiting) ->
  (step s (Unlock h) = Some s1 \/ step s (Crash h) = Some s1) ->
  exists evs, Forall (fun e => actor e = w /\ e <> Crash w) evs /\
    exists s', run s1 evs = Some s' /\ holds s' w.
Proof. exact waiter_proceeds. Qed.
Print Assumptions C10_waiter_proceeds.

(* ... and in every state of the guarded relation the lock file IS the holder's *)
Theorem C10_waiter_proceeds_reachable : forall s0 s h w s1,
  init s0 -> reachable_g s0 s -> holds s h ->
  (pcs s w = Idle \/ pcs s w = WantRead \/ (exists i q, pcs s w = WantProbe i q) \/
   (exists ex, pcs s w = WantRemove ex) \/ pcs s w = Waiting) ->
  (step s (Unlock h) = Some s1 \/ step s (Crash h) = Some s1) ->
  exists evs, Forall (fun e => actor e = w /\ e <> Crash w) evs /\
    exists s', run s1 evs = Some s' /\ holds s' w.
Proof. exact waiter_proceeds_reachable. Qed.
Print Assumptions C10_waiter_proceeds_reachable.

(* C18-style corollary: a build that exits without unlocking (every os.Exit(1) in
   cmds/build.go after Lock) is [Crash] of the holder; the lock is recoverable by the next build *)
Theorem C10_exit_without_unlock_recoverable : forall s0 s h s1 p,
  init s0 -> reachable_g s0 s -> holds s h -> step s (Crash h) = Some s1 ->
  pcs s1 p = Idle ->
  exists evs, Forall (fun e => actor e = p /\ e <> Crash p) evs /\
    exists s', run s1 evs = Some s' /\ holds s' p.
Proof. exact exit_without_unlock_recoverable. Qed.
Print Assumptions C10_exit_without_unlock_recoverable.

Theorem C10_stale_recovered_nonvacuous :
  lock w2_init = Some 0 /\ stale w2_init 0 /\ pcs w2_init 0 = Idle /\
  exists evs, Forall (fun e => actor e = 0 /\ e <> Crash 0) evs /\
    exists s', run w2_init evs = Some s' /\ holds s' 0.
Proof. exact stale_recovered_nonvacuous. Qed.
Print Assumptions C10_stale_recovered_nonvacuous.

(* ---- cancellation of a waiting contender ([Cancel p]: ctx.Done() wins the select of Lock,
   workspace_locker.go, end of the loop; SIGINT/SIGTERM cancel the build's context) ---- *)

(* An interrupted waiter changes nothing but itself: the step is enabled only at Waiting, the
   lock path, every inode's content (and the ghost creator, and the inode counter) and every
   other process's pc are unchanged, and the waiter is in GaveUp. *)
Theorem C10_cancel_frame : forall s p s',
  step s (Cancel p) = Some s' ->
  pcs s p = Waiting /\
  lock s' = lock s /\ (forall i, content s' i = content s i) /\
  (forall i, creator s' i = creator s i) /\ next s' = next s /\
  (forall q, q <> p -> pcs s' q = pcs s q) /\ pcs s' p = GaveUp.
Proof. exact cancel_frame. Qed.
Print Assumptions C10_cancel_frame.

(* Mutual exclusion survives the cancellation: in any state of the guarded relation in which h
   holds, after [Cancel w] the state is again in the guarded relation (so C10_mutex_partial applies
   to it), h still holds, the path still names h's inode and that inode still contains h's PID;
   and every further contender t, run ALONE from the top of its loop, is Waiting after its three
   calls (create fails, read, probe) and -- however long it keeps running, h alive and not
   unlocking -- never gets past Lock() and never disturbs h's file. *)
Theorem C10_cancel_keeps_holder : forall s0 s h i w s1,
  init s0 -> reachable_g s0 s -> pcs s h = Held i -> step s (Cancel w) = Some s1 ->
  reachable_g s0 s1 /\ pcs s1 h = Held i /\ lock s1 = Some i /\ content s1 i = Some h /\
  forall t, pcs s1 t = Idle ->
    (exists s2, run s1 [TryCreate t; Read t; Probe t] = Some s2 /\ pcs s2 t = Waiting) /\
    (forall evs s2, Forall (fun e => actor e = t /\ e <> Crash t) evs -> run s1 evs = Some s2 ->
       ~ holds s2 t /\ pcs s2 h = Held i /\ lock s2 = Some i /\ content s2 i = Some h).
Proof. exact cancel_keeps_holder. Qed.
Print Assumptions C10_cancel_keeps_holder.

(* A waiter can always give up, and then it never holds: [Cancel w] is enabled at Waiting, leads
   to GaveUp, no event of w other than its exit is enabled there, and no schedule at all (of any
   processes, guarded or not) brings w past Lock(). *)
Theorem C10_waiter_can_give_up : forall s w,
  pcs s w = Waiting ->
  exists s1, step s (Cancel w) = Some s1 /\ pcs s1 w = GaveUp /\
    (forall e, actor e = w -> e <> Crash w -> step s1 e = None) /\
    (forall evs s2, run s1 evs = Some s2 -> ~ holds s2 w).
Proof. exact waiter_can_give_up. Qed.
Print Assumptions C10_waiter_can_give_up.

(* The hypotheses above are satisfiable and the new event is live in the guarded relation
   (schedule NC of Lock.v, lock file initially absent): after 4 events 0 holds, 1 waits, 2 has not
   started; after [Cancel 1] and 2's three calls 0 still holds its file (inode 0, PID 0), 1 has
   given up, 2 waits; after [Unlock 0; Wake 2; TryCreate 2] 2 holds. *)
Theorem C10_cancel_nonvacuous :
  nc_sched = [TryCreate 0; TryCreate 1; Read 1; Probe 1; Cancel 1;
              TryCreate 2; Read 2; Probe 2; Unlock 0; Wake 2; TryCreate 2] /\
  init w1_init /\
  (exists s, run_g w1_init (firstn 4 nc_sched) = Some s /\ reachable_g w1_init s /\
     pcs s 0 = Held 0 /\ pcs s 1 = Waiting /\ pcs s 2 = Idle) /\
  (exists s, run_g w1_init (firstn 8 nc_sched) = Some s /\ reachable_g w1_init s /\
     pcs s 0 = Held 0 /\ pcs s 1 = GaveUp /\ pcs s 2 = Waiting /\
     lock s = Some 0 /\ content s 0 = Some 0) /\
  (exists s, run_g w1_init nc_sched = Some s /\ reachable_g w1_init s /\
     holds s 2 /\ pcs s 1 = GaveUp /\ pcs s 0 = Done).
Proof. exact cancel_nonvacuous. Qed.
Print Assumptions C10_cancel_nonvacuous.
