(* C15_depload -- load_outputs=minimal, clauses "every command that executes finds its direct dependencies'
   outputs present and current" and "cache faults while dependency outputs are being loaded", under CONCURRENCY:
   k dependants of one cache-hit dependency d with n outputs race on d (DepLoad.v: one step per acquisition of the
   executor's per-dependency lock, read of d.OutputsLoaded, targetCache.Load -- which FAILS when [rf], the task then
   re-runs d at once --, registry lock, re-check, validate,
   restore of one output -- which FAILS when the blob is lost --, write of the flag, unlock, start of d's command
   for a re-run, complete write of one output by that run, OnTargetComplete, release of the per-dependency lock,
   start of the dependant's command; any interleaving).
   Only statements, each closed by [exact] of a lemma from DepLoad_proofs.v.
   [reachable v n k miss rf s] = s is the result of some event list from [init k miss rf] under the step function of variant v;
   [miss] = the set of blobs lost from the cache (ANY set: no hypothesis on it); [rf] = every lookup of d's target RESULT
   made for a dependant fails (either way: no hypothesis on it) -- the two fault paths of LoadDependencyOutputs;
   VCorrect = the order of /repo after the repair of C15-F1 (outer lock around the whole per-dependency step, flag read
   under it; flag written after the restores or after the re-run); VNoOuterLock = the code before that repair;
   [obs s] = log of (task, what its command saw per output); [wrote s] = log of (task, what WriteOutputs read after a
   re-run); [restores s] = log of (task, output) per successful restore; [reruns s] = log of the tasks that started d's command.
   No theorem carries a hypothesis besides reachability (n, k, the lost blobs, rf, the interleaving are arbitrary). *)
From Coq Require Import List.
From Grog Require Import DepLoad DepLoad_proofs.
Import ListNotations.

(* 1. every command that ran saw all n outputs of d current; every finished dependant did run its command -- with faults *)
Theorem C15_depload_cmd_sees_current : forall n k miss rf s, reachable VCorrect n k miss rf s ->
  (forall t o, In (t, o) (obs s) -> o = repeat Current n) /\
  cmd_saw_stale s = false /\
  (forall t, t < k -> pcs s t = PDone -> In (t, repeat Current n) (obs s)).
Proof.
  exact (fun n k miss rf s Hr => conj (cmd_sees_current n k miss rf s Hr)
                                   (conj (cmd_never_saw_stale n k miss rf s Hr) (done_task_observed n k miss rf s Hr))).
Qed.
Print Assumptions C15_depload_cmd_sees_current.

(* 2. the reason: OutputsLoaded = true implies that every output is in place (restored, or re-made by a complete re-run) *)
Theorem C15_depload_flag_implies_restored : forall n k miss rf s, reachable VCorrect n k miss rf s ->
  flag s = true -> forall i, i < n -> files s i = Current.
Proof. exact flag_implies_restored. Qed.
Print Assumptions C15_depload_flag_implies_restored.

(* 3. no output is restored twice over the whole run, only outputs whose blob exists are restored, until d is re-run a file
      is current iff it was restored; a restore (also one that fails) is always made by the holder of both locks, before
      the flag is set, onto a file that is neither current nor torn *)
Theorem C15_depload_restored_once : forall n k miss rf s, reachable VCorrect n k miss rf s ->
  (NoDup (map snd (restores s)) /\
   (forall t i, In (t, i) (restores s) -> i < n /\ miss i = false) /\
   (reruns s = [] -> forall i, files s i = Current <-> exists t, In (t, i) (restores s))) /\
  (forall t i s', step VCorrect n s (t, SRestore i) = Some s' ->
     olock s = Some t /\ lock s = Some t /\ flag s = false /\ files s i = Stale).
Proof.
  exact (fun n k miss rf s Hr => conj (restored_once n k miss rf s Hr)
                                   (fun t i s' H => restore_by_holder_of_stale n k miss rf s t i s' Hr H)).
Qed.
Print Assumptions C15_depload_restored_once.

(* 4. C15-F1 repaired: in every run d's command is re-run at most once; a re-run is started only by the holder of the
      outer lock, while nobody is inside Registry.LoadOutputs, the flag is false and no re-run has happened; no command
      ever reads a torn output and WriteOutputs never caches one; a file is torn only while the holder of the outer lock
      runs d's command and has not yet written it *)
Theorem C15_depload_rerun_at_most_once : forall n k miss rf s, reachable VCorrect n k miss rf s ->
  length (reruns s) <= 1 /\
  (forall t s', step VCorrect n s (t, SRerunStart) = Some s' ->
     olock s = Some t /\ lock s = None /\ flag s = false /\ reruns s = []) /\
  (cmd_saw_torn s = false /\ cached_torn s = false) /\
  (forall t o, In (t, o) (wrote s) -> o = repeat Current n) /\
  (forall i, files s i = Torn ->
     i < n /\ exists t done, olock s = Some t /\ pcs s t = PRerun done /\ ~ In i done).
Proof.
  exact (fun n k miss rf s Hr =>
    conj (rerun_at_most_once n k miss rf s Hr)
   (conj (fun t s' H => rerun_by_outer_holder n k miss rf s t s' Hr H)
   (conj (never_torn n k miss rf s Hr)
   (conj (wrote_current n k miss rf s Hr) (torn_only_during_rerun n k miss rf s Hr))))).
Qed.
Print Assumptions C15_depload_rerun_at_most_once.

(* 4b. the result lookups fail (rf = true; any set of blobs lost as well): nothing is ever restored, nobody ever holds the
      registry's lock, and as soon as the flag is set -- in particular as soon as one dependant has finished -- d's command
      has run EXACTLY once *)
Theorem C15_depload_result_fault_one_rerun : forall n k miss s, reachable VCorrect n k miss true s ->
  restores s = [] /\ lock s = None /\
  (flag s = true -> length (reruns s) = 1) /\
  (forall t, t < k -> pcs s t = PDone -> length (reruns s) = 1).
Proof. exact result_fault_one_rerun. Qed.
Print Assumptions C15_depload_result_fault_one_rerun.

(* 5. with the outer lock: no deadlock, every run is at most k * (2n + 14) steps long, and from every reachable state some
      continuation runs every command (so a schedule that never starves an enabled task finishes) *)
Theorem C15_depload_progress : forall n k miss rf,
  (forall s, reachable VCorrect n k miss rf s -> all_tasks_done k s \/ exists e s', step VCorrect n s e = Some s') /\
  (forall evs s, run VCorrect n (init k miss rf) evs = Some s -> length evs <= k * (2 * n + 14)) /\
  (forall s, reachable VCorrect n k miss rf s -> exists evs s', run VCorrect n s evs = Some s' /\ all_tasks_done k s').
Proof. exact (fun n k miss rf => conj (no_deadlock n k miss rf) (conj (run_bounded n k miss rf) (can_finish n k miss rf))). Qed.
Print Assumptions C15_depload_progress.

(* 6. the orders that are wrong.  (a) C15-F1, the code before the outer lock, k = 2, n = 1, the blob lost: both dependants
      re-run d ([run_fault_summary] = (a command saw a torn output, torn bytes were cached, number of runs of d's command)):
      in one interleaving a dependant's command reads a torn output, in another WriteOutputs caches one; d's command runs
      twice in both.  (b) the two seeded orders (kept in /verif/seeded/C15h and C15f): a command sees a stale output *)
Theorem C15_depload_no_outer_lock_refuted :
  (exists evs, run_fault_summary VNoOuterLock 1 2 (fun _ => true) false evs = Some (true, false, 2)) /\
  (exists evs, run_fault_summary VNoOuterLock 1 2 (fun _ => true) false evs = Some (false, true, 2)).
Proof.
  exact (conj (ex_intro _ sched_torn_read (proj1 no_outer_lock_refuted))
              (ex_intro _ sched_torn_cached (proj2 no_outer_lock_refuted))).
Qed.
Print Assumptions C15_depload_no_outer_lock_refuted.

Theorem C15_depload_flag_early_refuted : exists evs, run_saw_stale VFlagEarly 1 2 evs = true.
Proof. exact flag_early_refuted. Qed.
Print Assumptions C15_depload_flag_early_refuted.

Theorem C15_depload_requested_once_refuted : exists evs, run_saw_stale VRequestedOnce 1 2 evs = true.
Proof. exact requested_once_refuted. Qed.
Print Assumptions C15_depload_requested_once_refuted.

(* (c) seed C15j (kept in /verif/seeded/C15j): the flag check and the result lookup made BEFORE the outer lock, no re-check
      under it; k = 2, n = 1, no blob lost, the result lookups fail: both dependants decide to re-run before either holds
      the lock; in one interleaving the first dependant's command reads a torn output while the second re-runs d, in
      another nobody sees a torn file; d's command runs twice in both *)
Theorem C15_depload_lookup_before_lock_refuted :
  (exists evs, run_fault_summary VLookupBeforeLock 1 2 no_blob_missing true evs = Some (true, false, 2)) /\
  (exists evs, run_fault_summary VLookupBeforeLock 1 2 no_blob_missing true evs = Some (false, false, 2)).
Proof.
  exact (conj (ex_intro _ sched_lookup_torn (proj1 lookup_before_lock_refuted))
              (ex_intro _ sched_lookup_twice (proj2 lookup_before_lock_refuted))).
Qed.
Print Assumptions C15_depload_lookup_before_lock_refuted.

(* 7. non-vacuity ([complete_and_current n k miss rf evs r q] = evs is a run after which every command has run and saw every
      output current, with r restores and q re-runs whose cached bytes are current): 2 dependants, 2 outputs, no fault, the
      second arrives during the restore and waits for the outer lock; 2 dependants, 2 outputs, the blob of output 1 lost:
      one output restored, exactly one re-run, both commands see current outputs; 2 dependants, 2 outputs, no blob lost, the
      result lookups fail: no restore, exactly one re-run, both commands see current outputs; and the outer lock does block *)
Theorem C15_depload_nonvacuous :
  complete_and_current 2 2 no_blob_missing false sched_two_two 2 0 = true /\
  complete_and_current 2 2 (fun i => Nat.eqb i 1) false sched_fault 1 1 = true /\
  complete_and_current 2 2 no_blob_missing true sched_result_fault 0 1 = true /\
  run VCorrect 2 (init 2 no_blob_missing false) [(0, SStart); (0, SOuterLock); (1, SStart); (1, SOuterLock)] = None.
Proof.
  exact (conj depload_nonvacuous (conj depload_fault_nonvacuous (conj depload_result_fault_nonvacuous lock_blocks_nonvacuous))).
Qed.
Print Assumptions C15_depload_nonvacuous.

(* 8. what the check stage evaluates (DepLoad.replay) is a run of this model, and each window ends quiescent *)
Theorem C15_depload_replay_is_a_run : forall v asc n k miss rf toks,
  reachable v n k miss rf (snd (replay_from v asc n k (init k miss rf) toks)).
Proof. exact replay_state_reachable. Qed.
Print Assumptions C15_depload_replay_is_a_run.

Theorem C15_depload_replay_window_quiescent : forall asc n k miss rf s tok, reachable VCorrect n k miss rf s ->
  fst (do_token VCorrect asc n k s tok) = true ->
  first_auto VCorrect n (snd (do_token VCorrect asc n k s tok)) (task_order asc k) = None.
Proof. exact do_token_quiescent. Qed.
Print Assumptions C15_depload_replay_window_quiescent.
