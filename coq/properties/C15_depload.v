(* C15_depload -- load_outputs=minimal, clause "every command that executes finds its direct dependencies'
   outputs present and current", under CONCURRENCY: k dependants of one cache-hit dependency d with n outputs
   race on d (DepLoad.v: one step per read of d.OutputsLoaded, targetCache.Load, lock, re-check, validate,
   restore of one output, write of the flag, unlock, start of the command; any interleaving).
   Only statements, each closed by [exact] of a lemma from DepLoad_proofs.v.
   [reachable v n k s] = s is the result of some event list from [init k] under the step function of variant v;
   VCorrect = the order of /repo (flag written after the restores, under the lock; unlocked fast-path read);
   [obs s] = log of (task, what its command saw per output); [restores s] = log of (task, output) per restore.
   No theorem carries a hypothesis besides reachability (n, k, the interleaving are arbitrary). *)
From Coq Require Import List.
From Grog Require Import DepLoad DepLoad_proofs.
Import ListNotations.

(* 1. every command that ran saw all n outputs of d current; every finished dependant did run its command *)
Theorem C15_depload_cmd_sees_current : forall n k s, reachable VCorrect n k s ->
  (forall t o, In (t, o) (obs s) -> o = repeat Current n) /\
  cmd_saw_stale s = false /\
  (forall t, t < k -> pcs s t = PDone -> In (t, repeat Current n) (obs s)).
Proof.
  exact (fun n k s Hr => conj (cmd_sees_current n k s Hr) (conj (cmd_never_saw_stale n k s Hr) (done_task_observed n k s Hr))).
Qed.
Print Assumptions C15_depload_cmd_sees_current.

(* 2. the reason: OutputsLoaded = true implies that every output is in place *)
Theorem C15_depload_flag_implies_restored : forall n k s, reachable VCorrect n k s ->
  flag s = true -> forall i, i < n -> files s i = Current.
Proof. exact flag_implies_restored. Qed.
Print Assumptions C15_depload_flag_implies_restored.

(* 3. no output is restored twice over the whole run (a file is current iff it was restored), and a restore is
      always made by the holder of d's lock, before the flag is set, onto a file that is not current yet *)
Theorem C15_depload_restored_once : forall n k s, reachable VCorrect n k s ->
  (NoDup (map snd (restores s)) /\
   (forall t i, In (t, i) (restores s) -> i < n) /\
   (forall i, files s i = Current <-> exists t, In (t, i) (restores s))) /\
  (forall t i s', step VCorrect n s (t, SRestore i) = Some s' ->
     lock s = Some t /\ flag s = false /\ files s i = Stale).
Proof.
  exact (fun n k s Hr => conj (restored_once n k s Hr)
                              (fun t i s' H => restore_by_holder_of_stale n k s t i s' Hr H)).
Qed.
Print Assumptions C15_depload_restored_once.

(* 4. no deadlock, every run is at most k * (n + 8) steps long, and from every reachable state some
      continuation runs every command (so a schedule that never starves an enabled task finishes) *)
Theorem C15_depload_progress : forall n k,
  (forall s, reachable VCorrect n k s -> all_tasks_done k s \/ exists e s', step VCorrect n s e = Some s') /\
  (forall evs s, run VCorrect n (init k) evs = Some s -> length evs <= k * (n + 8)) /\
  (forall s, reachable VCorrect n k s -> exists evs s', run VCorrect n s evs = Some s' /\ all_tasks_done k s').
Proof. exact (fun n k => conj (no_deadlock n k) (conj (run_bounded n k) (can_finish n k))). Qed.
Print Assumptions C15_depload_progress.

(* 5. the two seeded orders (kept in /verif/seeded/C15h and C15f): a command sees a stale output, k = 2, n = 1 *)
Theorem C15_depload_flag_early_refuted : exists evs, run_saw_stale VFlagEarly 1 2 evs = true.
Proof. exact flag_early_refuted. Qed.
Print Assumptions C15_depload_flag_early_refuted.

Theorem C15_depload_requested_once_refuted : exists evs, run_saw_stale VRequestedOnce 1 2 evs = true.
Proof. exact requested_once_refuted. Qed.
Print Assumptions C15_depload_requested_once_refuted.

(* 6. non-vacuity: 2 dependants, 2 outputs, the second arrives during the restore, waits for the lock, both commands
      run and saw current outputs, each output restored once; and the lock does block *)
Theorem C15_depload_nonvacuous :
  complete_and_current 2 2 sched_two_two = true /\
  run VCorrect 2 (init 2) [(0, SCheckFlag); (0, SLoadResult); (0, SLock); (1, SCheckFlag); (1, SLoadResult); (1, SLock)] = None.
Proof. exact (conj depload_nonvacuous lock_blocks_nonvacuous). Qed.
Print Assumptions C15_depload_nonvacuous.

(* 7. what the check stage evaluates (DepLoad.replay) is a run of this model, and each window ends quiescent *)
Theorem C15_depload_replay_is_a_run : forall v asc n k toks,
  reachable v n k (snd (replay_from v asc n k (init k) toks)).
Proof. exact replay_state_reachable. Qed.
Print Assumptions C15_depload_replay_is_a_run.

Theorem C15_depload_replay_window_quiescent : forall asc n k s tok, reachable VCorrect n k s ->
  fst (do_token VCorrect asc n k s tok) = true ->
  first_auto VCorrect n (snd (do_token VCorrect asc n k s tok)) (task_order asc k) = None.
Proof. exact do_token_quiescent. Qed.
Print Assumptions C15_depload_replay_window_quiescent.
