(* C03 -- the scheduler starts a target only after all its dependencies succeeded, at most once,
   and never runs more tasks than there are workers.
   Only statements, each closed by [exact] of a lemma from Walker_proofs.v. *)
From Grog Require Import Graph Walker Walker_proofs.

(* a node whose routine got its ready message (whatever happened to it afterwards) has ALL its
   transitive dependencies successfully completed *)
Theorem C03_deps_first : forall g c evs s n a,
  topo g -> wf_graph g -> W c >= 1 ->
  run g c evs = Some s ->
  (st s n = Ready \/ st s n = Queued \/ st s n = Running \/ st s n = Ok \/ st s n = Failed \/
   st s n = Aborted) ->
  reach g a n -> st s a = Ok.
Proof. exact deps_first. Qed.
Print Assumptions C03_deps_first.

Theorem C03_at_most_once : forall g c evs s n,
  run g c evs = Some s ->
  count_ev (Start n) evs <= 1 /\ count_ev (Pick n) evs <= 1 /\ count_ev (CmdStart n) evs <= 1.
Proof. exact at_most_once. Qed.
Print Assumptions C03_at_most_once.

Theorem C03_worker_bound : forall g c evs s,
  run g c evs = Some s -> running g s + dead s <= W c.
Proof. exact worker_bound. Qed.
Print Assumptions C03_worker_bound.

(* the bound is reached: 4 independent nodes, 3 workers, the 4th job waits in the queue *)
Theorem C03_worker_bound_tight_nonvacuous :
  exists evs s, run (antichain 4) (mkConfig 3 false) evs = Some s /\
    running (antichain 4) s = 3 /\ st s 3 = Queued /\
    step (antichain 4) (mkConfig 3 false) s (Pick 3) = None.
Proof. exact worker_bound_tight_example. Qed.
Print Assumptions C03_worker_bound_tight_nonvacuous.

Theorem C03_diamond_nonvacuous :
  exists evs s, run diamond (mkConfig 2 false) evs = Some s /\
    terminal diamond (mkConfig 2 false) s /\
    st s 0 = Ok /\ st s 1 = Ok /\ st s 2 = Ok /\ st s 3 = Ok.
Proof. exact diamond_example. Qed.
Print Assumptions C03_diamond_nonvacuous.

(* "all, not any": with 1 done and 2 still running, 3 stays parked and cannot start *)
Theorem C03_diamond_all_not_any_nonvacuous :
  exists evs s, run diamond (mkConfig 2 false) evs = Some s /\
    st s 1 = Ok /\ st s 2 = Running /\ st s 3 = Parked /\
    step diamond (mkConfig 2 false) s (Start 3) = None.
Proof. exact diamond_all_not_any_example. Qed.
Print Assumptions C03_diamond_all_not_any_nonvacuous.
