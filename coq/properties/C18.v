(* C18 -- interrupts stop the build promptly and leave a recoverable state.
   Only statements, each closed by [exact] of a lemma.  Three models carry the three parts:
   Walker.v (the scheduler after the outer context is cancelled), Build.v (an interrupted command
   leaves no cache entry; the follow-up build equals the clean build), Lock.v (the lock left behind
   by a process that exits without unlocking is recovered).  "Within a bounded time" and "terminates
   the running shells" are OS / runtime behaviour outside every model: decided by the e2e run only. *)
From Coq Require Import List.
From Grog Require Import Graph Walker Walker_proofs.
From Grog Require Str Label HashKey Build Build_single_proofs Build_ideal Build_c01_proofs Build_lift_proofs.
From Grog Require Lock Lock_proofs.
Import ListNotations.

(* ---- scheduler: after the cancel no command starts, Walk can return, nothing is left waiting *)
Theorem C18_no_start_after_cancel : forall g c pre post s n,
  run g c (pre ++ CtxCancel :: post) = Some s -> ~ In (CmdStart n) post.
Proof. exact no_start_after_cancel. Qed.
Print Assumptions C18_no_start_after_cancel.

Theorem C18_walk_returns_after_cancel : forall g c s,
  reachable g c s -> ctxc s = true -> ret s = false -> In WalkReturn (enabled g c s).
Proof. exact walk_returns_after_cancel. Qed.
Print Assumptions C18_walk_returns_after_cancel.

Theorem C18_cancelled_parked_skipped : forall g c s,
  topo g -> wf_graph g -> W c >= 1 ->
  reachable g c s -> terminal g c s -> ctxc s = true ->
  forall n, n < size g -> st s n <> Parked /\ st s n <> Ready /\ st s n <> Running.
Proof. exact cancelled_parked_skipped. Qed.
Print Assumptions C18_cancelled_parked_skipped.

(* ---- cache: a command that did not exit 0 (killed by the interrupt) stores nothing *)
Theorem C18_interrupted_not_cached :
  forall (H : Str.str -> Str.str) cfg s i t key tainted b,
  Str.null (Build.td_cmd t) = false -> Build.run_command s t (Build.b_world b) = None ->
  exists b', Build.execute H cfg s i t key tainted b = (false, b') /\ Build.b_cache b' = Build.b_cache b.
Proof. exact Build_lift_proofs.no_exit0_no_result. Qed.
Print Assumptions C18_interrupted_not_cached.

(* ---- the next build satisfies C01: whatever the interrupted build left in the workspace
   (OpPerturb) and whatever it lost or never stored (OpDropBlob / OpDropResults), the follow-up
   build equals the from-scratch build (C01's guards) *)
Theorem C18_followup_ok_partial :
  forall (H : Str.str -> Str.str), (forall a b, H a = H b -> a = b) ->
  forall ops faults cfg roots ext',
  Build_ideal.hist_ok H ops -> Forall Build_ideal.is_cache_fault faults -> Build_ideal.cfg_ok cfg ->
  let y := Build.run_history H (ops ++ faults) in
  let r := Build.build H cfg (Build.sy_src y) roots (Build.sy_world y) (Build.sy_cache y) in
  let rc := Build.clean_build H cfg (Build.sy_src y) roots ext' in
  forall i t o, Build.node_at (Build.sy_src y) i = Some (Build.NTarget t) -> In o (Build.td_outs t) ->
    nth i (Build.br_status r) Build.TNone = Build.THit \/ nth i (Build.br_status r) Build.TNone = Build.TExecuted ->
    nth i (Build.br_status rc) Build.TNone = Build.THit \/ nth i (Build.br_status rc) Build.TNone = Build.TExecuted ->
    exists x, Build.ws_get (Build.out_path t o) (Build.w_ws (Build.br_world r)) = Build.PFile x /\
              Build.ws_get (Build.out_path t o) (Build.w_ws (Build.br_world rc)) = Build.PFile x.
Proof. exact Build_c01_proofs.c01_after_cache_faults. Qed.
Print Assumptions C18_followup_ok_partial.

(* ---- lock: every exit path after an interrupt skips the unlock; that is [Crash] of the holder in
   Lock.v, and the next build (any idle process) acquires the lock by its own steps alone *)
Theorem C18_lock_recoverable : forall s0 s h s1 p,
  Lock.init s0 -> Lock.reachable_g s0 s -> Lock.holds s h ->
  Lock.step s (Lock.Crash h) = Some s1 -> Lock.pcs s1 p = Lock.Idle ->
  exists evs, Forall (fun e => Lock.actor e = p /\ e <> Lock.Crash p) evs /\
    exists s', Lock.run s1 evs = Some s' /\ Lock.holds s' p.
Proof. exact Lock_proofs.exit_without_unlock_recoverable. Qed.
Print Assumptions C18_lock_recoverable.
