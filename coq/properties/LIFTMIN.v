(* LIFTMIN -- the build-level "forces execution / postcondition / never cached" theorems of C05, C13 and
   C14 for BOTH load_outputs modes: the statements of properties/C13.v, C14.v and C05.v (never-cached part)
   without the hypothesis [cfg_mode cfg = LAll].
   Only statements, each closed by [exact] of a lemma from Build_liftmin_proofs.v.
   Build.v: executable semantics of `grog build`; [build H cfg s roots w c] = one build of snapshot s from
   world w and cache c; [build_prefix ... k] = the state of that build just before node k.
   In mode minimal the task of a target may, inside LoadDependencyOutputs, re-run (transitive,
   alias-resolved) dependencies before it runs the target: [rdep s (td_deps t) d dt] = target dt at node d
   is such a dependency of t. *)
From Coq Require Import List String.
Local Open Scope string_scope.
From Grog Require Import Str Label HashKey Build Build_single_proofs Build_ideal Build_lift_proofs
     Build_examples Build_liftmin_proofs.
Import ListNotations.

(* 1. A hit needs: a stored result under the target's current key, no taint, not no-cache, cache on,
   passing output checks -- all in the state just before its step; the step stores nothing and runs nothing *)
Theorem LIFTMIN_hit_needs : forall (H : str -> str) cfg s roots w c,
  forall i t, i < List.length (s_nodes s) -> node_at s i = Some (NTarget t) ->
  nth i (br_status (build H cfg s roots w c)) TNone = THit ->
  hit_facts H cfg s t (build_prefix H cfg s roots w c i) (build_prefix H cfg s roots w c (S i)).
Proof. exact hit_needs_any_mode. Qed.
Print Assumptions LIFTMIN_hit_needs.

Theorem LIFTMIN_hit_is_silent : forall (H : str -> str) cfg s roots w c,
  forall i t, i < List.length (s_nodes s) -> node_at s i = Some (NTarget t) ->
  nth i (br_status (build H cfg s roots w c)) TNone = THit ->
  b_cache (build_prefix H cfg s roots w c (S i)) = b_cache (build_prefix H cfg s roots w c i) /\
  b_exec (build_prefix H cfg s roots w c (S i)) = b_exec (build_prefix H cfg s roots w c i).
Proof. exact hit_is_silent_any_mode. Qed.
Print Assumptions LIFTMIN_hit_is_silent.

(* 2. A tainted target is never served from the cache by the next build that reaches it ... *)
Theorem LIFTMIN_taint_forces : forall (H : str -> str) cfg s roots w c,
  forall i t, i < List.length (s_nodes s) -> node_at s i = Some (NTarget t) -> unique_label s i t ->
  label_in (td_label t) (c_taint c) = true ->
  nth i (br_status (build H cfg s roots w c)) TNone <> THit.
Proof. exact taint_forces_any_mode. Qed.
Print Assumptions LIFTMIN_taint_forces.

(* ... a no-cache target is never restored ... *)
Theorem LIFTMIN_nocache_never_restored : forall (H : str -> str) cfg s roots w c,
  forall i t, i < List.length (s_nodes s) -> node_at s i = Some (NTarget t) -> td_nocache t = true ->
  nth i (br_status (build H cfg s roots w c)) TNone <> THit.
Proof. exact nocache_never_restored_any_mode. Qed.
Print Assumptions LIFTMIN_nocache_never_restored.

(* ... with the cache disabled no target is restored ... *)
Theorem LIFTMIN_cache_off_all_execute : forall (H : str -> str) cfg s roots w c,
  forall i t, i < List.length (s_nodes s) -> node_at s i = Some (NTarget t) -> cfg_cache cfg = false ->
  nth i (br_status (build H cfg s roots w c)) TNone <> THit.
Proof. exact cache_off_all_execute_any_mode. Qed.
Print Assumptions LIFTMIN_cache_off_all_execute.

(* ... and a failing output check forces execution, whatever the cache holds *)
Theorem LIFTMIN_failing_check_forces : forall (H : str -> str) cfg s roots w c,
  forall i t, i < List.length (s_nodes s) -> node_at s i = Some (NTarget t) -> unique_label s i t ->
  td_check t = true -> label_in (td_label t) (w_ext w) = false ->
  nth i (br_status (build H cfg s roots w c)) TNone <> THit.
Proof. exact failing_check_forces_any_mode. Qed.
Print Assumptions LIFTMIN_failing_check_forces.

(* 3. The taint of a target that ends Executed is not in the cache the build leaves *)
Theorem LIFTMIN_taint_consumed : forall (H : str -> str) cfg s roots w c,
  forall i t, i < List.length (s_nodes s) -> node_at s i = Some (NTarget t) ->
  nth i (br_status (build H cfg s roots w c)) TNone = TExecuted ->
  label_in (td_label t) (c_taint (br_cache (build H cfg s roots w c))) = false.
Proof. exact taint_consumed_any_mode. Qed.
Print Assumptions LIFTMIN_taint_consumed.

(* "is executed": a target that ends Executed had its command started in this build *)
Theorem LIFTMIN_executed_ran : forall (H : str -> str) cfg s roots w c,
  forall i t, i < List.length (s_nodes s) -> node_at s i = Some (NTarget t) -> null (td_cmd t) = false ->
  nth i (br_status (build H cfg s roots w c)) TNone = TExecuted ->
  In (td_label t) (br_exec (build H cfg s roots w c)).
Proof. exact executed_ran_any_mode. Qed.
Print Assumptions LIFTMIN_executed_ran.

(* 4. A target reported Executed: right after its task every output check passes, every declared output
   exists, its command (if it has one) exited 0 -- started after the commands [extra] of the dependencies
   this task re-ran, in a world whose external conditions differ from those before the task only at the
   labels in [extra] -- and its result is stored under its key *)
Theorem LIFTMIN_success_post : forall (H : str -> str) cfg s roots w c,
  forall i t, i < List.length (s_nodes s) -> node_at s i = Some (NTarget t) ->
  nth i (br_status (build H cfg s roots w c)) TNone = TExecuted ->
  check_ok (b_world (build_prefix H cfg s roots w c (S i))) t = true /\
  (forall o, In o (td_outs t) ->
     exists x, ws_get (out_path t o) (w_ws (b_world (build_prefix H cfg s roots w c (S i)))) = PFile x) /\
  (null (td_cmd t) = false ->
     exists w0 extra,
       b_exec (build_prefix H cfg s roots w c (S i)) =
         (b_exec (build_prefix H cfg s roots w c i) ++ extra ++ [td_label t])%list /\
       (forall l, ~ In l extra ->
          label_in l (w_ext w0) = label_in l (w_ext (b_world (build_prefix H cfg s roots w c i)))) /\
       run_command s t w0 = Some (b_world (build_prefix H cfg s roots w c (S i)))) /\
  (cfg_cache cfg = true ->       (* a disabled cache is not written *)
   exists dh res, dep_hashes s (build_prefix H cfg s roots w c i) (td_deps t) = Some dh /\
                  rlookup (key_of H s t dh) (c_results (b_cache (build_prefix H cfg s roots w c (S i)))) =
                  Some res).
Proof. exact executed_post_any_mode. Qed.
Print Assumptions LIFTMIN_success_post.

(* cached only if successful: the task of a target changes the stored result under a key k only if k is
   the target's own key and the target ends Executed, or k is the key of a dependency the task re-ran *)
Theorem LIFTMIN_cached_only_if : forall (H : str -> str) cfg s roots w c,
  forall i t, i < List.length (s_nodes s) -> node_at s i = Some (NTarget t) ->
  forall k,
    rlookup k (c_results (b_cache (build_prefix H cfg s roots w c (S i)))) =
    rlookup k (c_results (b_cache (build_prefix H cfg s roots w c i))) \/
    (nth i (br_status (build H cfg s roots w c)) TNone = TExecuted /\
     exists dh, dep_hashes s (build_prefix H cfg s roots w c i) (td_deps t) = Some dh /\ k = key_of H s t dh) \/
    (exists d dt, rdep s (td_deps t) d dt /\
                  rt_key (get_rt (build_prefix H cfg s roots w c (S i)) d) = Some k /\
                  exists r, rlookup k (c_results (b_cache (build_prefix H cfg s roots w c (S i)))) = Some r).
Proof. exact step_stores_any_mode. Qed.
Print Assumptions LIFTMIN_cached_only_if.

(* 5. A target that failed: its task (re-)ran the commands [extra] of dependencies that have a key, then
   possibly its own command [own]; no taint was consumed, no blob was lost, external conditions changed only
   at those labels, and the stored result under a key k changed only if k is the key of a re-run dependency
   (whose command, if it has one, is in [extra]) *)
Theorem LIFTMIN_failed_not_cached : forall (H : str -> str) cfg s roots w c,
  forall i t, i < List.length (s_nodes s) -> node_at s i = Some (NTarget t) ->
  nth i (br_status (build H cfg s roots w c)) TNone = TFailed ->
  let b := build_prefix H cfg s roots w c i in
  let b' := build_prefix H cfg s roots w c (S i) in
  c_taint (b_cache b') = c_taint (b_cache b) /\
  (forall dg x, alookup dg (c_cas (b_cache b)) = Some x -> alookup dg (c_cas (b_cache b')) = Some x) /\
  exists extra own,
    b_exec b' = (b_exec b ++ extra ++ own)%list /\ (own = [] \/ own = [td_label t]) /\
    (forall l, In l extra ->
       exists d dt, rdep s (td_deps t) d dt /\ td_label dt = l /\ rt_key (get_rt b' d) <> None) /\
    (forall l, ~ In l extra -> l <> td_label t ->
       label_in l (w_ext (b_world b')) = label_in l (w_ext (b_world b))) /\
    (forall k, rlookup k (c_results (b_cache b')) = rlookup k (c_results (b_cache b)) \/
               exists d dt, rdep s (td_deps t) d dt /\ rt_key (get_rt b' d) = Some k /\
                 (exists r, rlookup k (c_results (b_cache b')) = Some r) /\
                 (null (td_cmd dt) = false -> In (td_label dt) extra)).
Proof. exact failed_not_cached_any_mode_full. Qed.
Print Assumptions LIFTMIN_failed_not_cached.

(* ... in the form "what changed was a dependency's" ... *)
Theorem LIFTMIN_failed_stores_only_deps : forall (H : str -> str) cfg s roots w c,
  forall i t, i < List.length (s_nodes s) -> node_at s i = Some (NTarget t) ->
  nth i (br_status (build H cfg s roots w c)) TNone = TFailed ->
  forall k, rlookup k (c_results (b_cache (build_prefix H cfg s roots w c (S i)))) <>
            rlookup k (c_results (b_cache (build_prefix H cfg s roots w c i))) ->
  exists d dt, rdep s (td_deps t) d dt /\
               rt_key (get_rt (build_prefix H cfg s roots w c (S i)) d) = Some k /\
               exists r, rlookup k (c_results (b_cache (build_prefix H cfg s roots w c (S i)))) = Some r.
Proof. exact failed_stores_only_deps. Qed.
Print Assumptions LIFTMIN_failed_stores_only_deps.

(* ... hence nothing is stored under the failed target's own key, unless that key is also the key of one of
   its dependencies (possible only when the digest collides) *)
Theorem LIFTMIN_failed_own_key_kept_partial : forall (H : str -> str) cfg s roots w c,
  forall i t dh, i < List.length (s_nodes s) -> node_at s i = Some (NTarget t) ->
  nth i (br_status (build H cfg s roots w c)) TNone = TFailed ->
  dep_hashes s (build_prefix H cfg s roots w c i) (td_deps t) = Some dh ->
  (forall d dt, rdep s (td_deps t) d dt ->
     rt_key (get_rt (build_prefix H cfg s roots w c (S i)) d) <> Some (key_of H s t dh)) ->
  rlookup (key_of H s t dh) (c_results (b_cache (build_prefix H cfg s roots w c (S i)))) =
  rlookup (key_of H s t dh) (c_results (b_cache (build_prefix H cfg s roots w c i))).
Proof. exact failed_own_key_kept. Qed.
Print Assumptions LIFTMIN_failed_own_key_kept_partial.

(* the guard is needed: with a constant digest the record under the failed target's own key is replaced *)
Theorem LIFTMIN_failed_own_key_kept_refuted :
  exists (H : str -> str) cfg s roots w c i t dh,
    i < List.length (s_nodes s) /\ node_at s i = Some (NTarget t) /\
    nth i (br_status (build H cfg s roots w c)) TNone = TFailed /\
    dep_hashes s (build_prefix H cfg s roots w c i) (td_deps t) = Some dh /\
    rlookup (key_of H s t dh) (c_results (b_cache (build_prefix H cfg s roots w c (S i)))) <>
    rlookup (key_of H s t dh) (c_results (b_cache (build_prefix H cfg s roots w c i))).
Proof. exact failed_own_key_unguarded_refuted. Qed.
Print Assumptions LIFTMIN_failed_own_key_kept_refuted.

(* a target skipped because a dependency failed (or fail-fast fired) is neither run nor cached *)
Theorem LIFTMIN_skipped_not_run_not_cached : forall (H : str -> str) cfg s roots w c,
  forall i t, i < List.length (s_nodes s) -> node_at s i = Some (NTarget t) ->
  nth i (br_status (build H cfg s roots w c)) TNone = TSkipped ->
  b_cache (build_prefix H cfg s roots w c (S i)) = b_cache (build_prefix H cfg s roots w c i) /\
  b_exec (build_prefix H cfg s roots w c (S i)) = b_exec (build_prefix H cfg s roots w c i).
Proof. exact skipped_not_cached_not_run_any_mode. Qed.
Print Assumptions LIFTMIN_skipped_not_run_not_cached.

(* 6. non-vacuity in mode minimal (digest = identity; snapshots of Build_examples.v: a <- b, no-cache n).
   Build; rebuild: a, b hit, n runs; taint a: a runs, b still hits, taint gone; cache off: everything runs;
   a's check condition destroyed: a runs; the four failure causes fail a, skip b and store nothing new;
   empty workspace + stored records naming lost blobs + b tainted: a is reported Hit, yet its command is
   re-run by b's task before b's own command *)
Theorem LIFTMIN_nonvacuous :
  (br_status m1 = [TExecuted; TExecuted; TExecuted] /\ br_ok m1 = true) /\
  (br_status m2 = [THit; THit; TExecuted] /\ br_exec m2 = [L "n"] /\ br_ok m2 = true) /\
  (br_status m3 = [TExecuted; THit; TExecuted] /\ c_taint (br_cache m3) = []) /\
  br_status m4 = [TExecuted; TExecuted; TExecuted] /\
  (br_status m5 = [TExecuted; THit; TExecuted] /\ w_ext (br_world m5) = [L "a"]) /\
  Forall (fun beh => br_status (fail_min beh) = [TFailed; TSkipped; TExecuted] /\
                     br_ok (fail_min beh) = false /\
                     map fst (c_results (br_cache (fail_min beh))) = map fst (c_results (br_cache m2)))
         [BFail; BFailAfter; BSkipOutput 0; BBreakCheck] /\
  (br_status m7 = [THit; TExecuted; TExecuted] /\ br_exec m7 = [L "a"; L "b"; L "n"] /\
   br_ok m7 = true /\ c_taint (br_cache m7) = []).
Proof. exact liftmin_nonvacuous. Qed.
Print Assumptions LIFTMIN_nonvacuous.

(* a failed task that re-ran a dependency: a's record is replaced under a's key, nothing is stored under b's
   key, and the guard of LIFTMIN_failed_own_key_kept_partial holds *)
Theorem LIFTMIN_failed_nonvacuous :
  (br_status m6 = [THit; TFailed; TExecuted] /\ br_exec m6 = [L "a"; L "b"; L "n"] /\ br_ok m6 = false /\
   rlookup key_a6 (c_results (b_cache (m6_pre 2))) <> rlookup key_a6 (c_results (b_cache (m6_pre 1))) /\
   key_b6 <> [] /\ rlookup key_b6 (c_results (br_cache m6)) = None) /\
  (exists dh, dep_hashes x_sf (m6_pre 1) (td_deps x_bf) = Some dh /\
     forall d dt, rdep x_sf (td_deps x_bf) d dt ->
       rt_key (get_rt (m6_pre 2) d) <> Some (key_of xH x_sf x_bf dh)).
Proof. exact (conj exm_failed_dep_rerun exm_failed_guard). Qed.
Print Assumptions LIFTMIN_failed_nonvacuous.
