(* C13 -- taint, no-cache and enable_cache=false force execution precisely.
   Only statements, each closed by [exact] of a lemma from Build_lift_proofs.v / Build_examples.v.
   Build.v: executable semantics of `grog build`; [build H cfg s roots w c] = one build of snapshot s
   from world w and cache c; [build_prefix ... k] = the state of that build just before node k. *)
From Coq Require Import List String.
Local Open Scope string_scope.
From Grog Require Import Str Label HashKey Build Build_single_proofs Build_ideal Build_lift_proofs Build_examples.
Import ListNotations.

(* A tainted target is never served from the cache by the next build that reaches it -- for every
   digest, snapshot, selection, workspace and cache (whatever valid entry it holds) -- ... *)
Theorem C13_taint_forces : forall (H : str -> str) cfg s roots w c,
  cfg_mode cfg = LAll ->
  forall i t, i < length (s_nodes s) -> node_at s i = Some (NTarget t) -> unique_label s i t ->
  label_in (td_label t) (c_taint c) = true ->
  nth i (br_status (build H cfg s roots w c)) TNone <> THit.
Proof. exact taint_forces. Qed.
Print Assumptions C13_taint_forces.

(* ... and the taint is consumed by the successful execution (it is not in the cache the build leaves) *)
Theorem C13_taint_consumed : forall (H : str -> str) cfg s roots w c,
  cfg_mode cfg = LAll ->
  forall i t, i < length (s_nodes s) -> node_at s i = Some (NTarget t) ->
  nth i (br_status (build H cfg s roots w c)) TNone = TExecuted ->
  label_in (td_label t) (c_taint (br_cache (build H cfg s roots w c))) = false.
Proof. exact taint_consumed. Qed.
Print Assumptions C13_taint_consumed.

(* a no-cache target is never restored *)
Theorem C13_nocache_never_restored : forall (H : str -> str) cfg s roots w c,
  cfg_mode cfg = LAll ->
  forall i t, i < length (s_nodes s) -> node_at s i = Some (NTarget t) -> td_nocache t = true ->
  nth i (br_status (build H cfg s roots w c)) TNone <> THit.
Proof. exact nocache_never_restored. Qed.
Print Assumptions C13_nocache_never_restored.

(* with the cache disabled no target is restored *)
Theorem C13_disabled_all_execute : forall (H : str -> str) cfg s roots w c,
  cfg_mode cfg = LAll ->
  forall i t, i < length (s_nodes s) -> node_at s i = Some (NTarget t) -> cfg_cache cfg = false ->
  nth i (br_status (build H cfg s roots w c)) TNone <> THit.
Proof. exact cache_off_all_execute. Qed.
Print Assumptions C13_disabled_all_execute.

(* "is executed": a target that ends Executed had its command started in this build *)
Theorem C13_executed_ran : forall (H : str -> str) cfg s roots w c,
  cfg_mode cfg = LAll ->
  forall i t, i < length (s_nodes s) -> node_at s i = Some (NTarget t) -> null (td_cmd t) = false ->
  nth i (br_status (build H cfg s roots w c)) TNone = TExecuted ->
  In (td_label t) (br_exec (build H cfg s roots w c)).
Proof. exact executed_ran. Qed.
Print Assumptions C13_executed_ran.

(* a hit needs: a stored result under the target's current key, no taint, not no-cache, cache on,
   passing output checks; it stores nothing and runs nothing *)
Theorem C13_hit_needs : forall (H : str -> str) cfg s roots w c,
  cfg_mode cfg = LAll ->
  forall i t, i < length (s_nodes s) -> node_at s i = Some (NTarget t) ->
  nth i (br_status (build H cfg s roots w c)) TNone = THit ->
  hit_facts H cfg s t (build_prefix H cfg s roots w c i) (build_prefix H cfg s roots w c (S i)).
Proof. exact hit_needs. Qed.
Print Assumptions C13_hit_needs.

(* non-vacuity (digest = identity): a <- b plus a no-cache target n.  Build; rebuild: a, b hit, n runs;
   taint a: a runs, b still hits (dependants are invalidated only if outputs changed), taint gone;
   cache off: everything runs *)
Theorem C13_nonvacuous :
  (br_status r1 = [TExecuted; TExecuted; TExecuted] /\ br_ok r1 = true) /\
  (br_status r2 = [THit; THit; TExecuted] /\ br_exec r2 = [L "n"] /\ br_ok r2 = true) /\
  (br_status r3 = [TExecuted; THit; TExecuted] /\ c_taint (br_cache r3) = []) /\
  br_status r4 = [TExecuted; TExecuted; TExecuted].
Proof. exact (conj ex_first (conj ex_second (conj ex_taint ex_cache_off))). Qed.
Print Assumptions C13_nonvacuous.
