(* C13 -- taint, no-cache and enable_cache=false force execution precisely.
   Only statements, each closed by [exact] of a lemma from Build_lift_proofs.v / Build_examples.v.
   Build.v: executable semantics of `grog build`; [build H cfg s roots w c] = one build of snapshot s
   from world w and cache c; [build_prefix ... k] = the state of that build just before node k. *)
From Coq Require Import List String.
Local Open Scope string_scope.
From Grog Require Import Str Label HashKey Build Build_single_proofs Build_ideal Build_lift_proofs Build_examples.
From Grog Require Build_c02_proofs.
Import ListNotations.

(* A tainted target is never served from the cache by the next build that reaches it -- for every
   digest, snapshot, selection, workspace and cache (whatever valid entry it holds) -- ... *)
Theorem C13_taint_forces : forall (H : str -> str) cfg s roots w c,
  cfg_mode cfg = LAll ->
  forall i t, i < length (s_nodes s) -> node_at s i = Some (NTarget t) -> unique_label s i t ->
  label_in (td_label t) (c_taint c) = true ->
  nth i (br_status (build H cfg s roots w c)) TNone <> THit.
Proof. exact taint_forces. Qed.
Print Assumptions C13_taint_forces.

(* ... and the taint is consumed by the successful execution (it is not in the cache the build leaves) *)
Theorem C13_taint_consumed : forall (H : str -> str) cfg s roots w c,
  cfg_mode cfg = LAll ->
  forall i t, i < length (s_nodes s) -> node_at s i = Some (NTarget t) ->
  nth i (br_status (build H cfg s roots w c)) TNone = TExecuted ->
  label_in (td_label t) (c_taint (br_cache (build H cfg s roots w c))) = false.
Proof. exact taint_consumed. Qed.
Print Assumptions C13_taint_consumed.

(* a no-cache target is never restored *)
Theorem C13_nocache_never_restored : forall (H : str -> str) cfg s roots w c,
  cfg_mode cfg = LAll ->
  forall i t, i < length (s_nodes s) -> node_at s i = Some (NTarget t) -> td_nocache t = true ->
  nth i (br_status (build H cfg s roots w c)) TNone <> THit.
Proof. exact nocache_never_restored. Qed.
Print Assumptions C13_nocache_never_restored.

(* with the cache disabled no target is restored *)
Theorem C13_disabled_all_execute : forall (H : str -> str) cfg s roots w c,
  cfg_mode cfg = LAll ->
  forall i t, i < length (s_nodes s) -> node_at s i = Some (NTarget t) -> cfg_cache cfg = false ->
  nth i (br_status (build H cfg s roots w c)) TNone <> THit.
Proof. exact cache_off_all_execute. Qed.
Print Assumptions C13_disabled_all_execute.

(* ... and a disabled cache is neither read nor written (C02-F2 / C13-F1 repaired): in every load_outputs
   mode, from every world and cache, a build with the cache disabled leaves the stored results and the
   blobs exactly as they were and adds no taint (the taints of the targets it executed are consumed) *)
Theorem C13_cache_off_leaves_cache : forall (H : str -> str) cfg s roots w c,
  cfg_cache cfg = false ->
  let c' := br_cache (build H cfg s roots w c) in
  c_results c' = c_results c /\ c_cas c' = c_cas c /\
  (forall l, label_in l (c_taint c') = true -> label_in l (c_taint c) = true).
Proof. exact cache_off_leaves_cache. Qed.
Print Assumptions C13_cache_off_leaves_cache.

(* hence toggling the cache does not invalidate anything: build (cache on, mode all, successful, guards of
   C02_noop_rebuild), perturb output paths at will, build ANY snapshot with the cache disabled (successful),
   build the first snapshot again with the cache on -- the third build runs nothing *)
Theorem C13_cached_build_after_cache_off_is_noop :
  forall (H : str -> str) cfg cfg' s s' roots roots' w c (ps : list (str * pstate)),
  cfg_mode cfg = LAll -> cfg_cache cfg = true -> Build_c02_proofs.cache_complete c ->
  br_ok (build H cfg s roots w c) = true ->
  Build_c02_proofs.distinct_keys (Build_c02_proofs.build_state H cfg s roots w c) = true ->
  Build_c02_proofs.no_nocache_sel s (selection s roots) = true ->
  cfg_mode cfg' = LAll -> cfg_cache cfg' = false ->
  let r1 := build H cfg s roots w c in
  let w1 := mkWorld (Build_c02_proofs.apply_perturbs ps (w_ws (br_world r1))) (w_ext (br_world r1)) in
  let roff := build H cfg' s' roots' w1 (br_cache r1) in
  br_ok roff = true ->
  let r3 := build H cfg s roots (br_world roff) (br_cache roff) in
  c_results (br_cache roff) = c_results (br_cache r1) /\ c_cas (br_cache roff) = c_cas (br_cache r1) /\
  br_exec r3 = [] /\ br_ok r3 = true.
Proof. exact Build_c02_proofs.rebuild_after_cache_off. Qed.
Print Assumptions C13_cached_build_after_cache_off_is_noop.

(* the same over histories: after ANY history without a lost blob, [build on; perturbations; build off;
   build on] logs three builds of which the last runs nothing *)
Theorem C13_history_cache_toggle_is_noop :
  forall (H : str -> str) ops cfg cfg' roots roots' (ps : list (str * pstate)),
  Build_c02_proofs.no_blob_faults ops = true ->
  cfg_mode cfg = LAll -> cfg_cache cfg = true -> cfg_mode cfg' = LAll -> cfg_cache cfg' = false ->
  let y := run_history H ops in
  let s := sy_src y in
  let r1 := build H cfg s roots (sy_world y) (sy_cache y) in
  let w1 := mkWorld (Build_c02_proofs.apply_perturbs ps (w_ws (br_world r1))) (w_ext (br_world r1)) in
  let roff := build H cfg' s roots' w1 (br_cache r1) in
  let r3 := build H cfg s roots (br_world roff) (br_cache roff) in
  br_ok r1 = true ->
  Build_c02_proofs.distinct_keys (Build_c02_proofs.build_state H cfg s roots (sy_world y) (sy_cache y)) = true ->
  Build_c02_proofs.no_nocache_sel s (selection s roots) = true -> br_ok roff = true ->
  sy_log (run_history H (ops ++ OpBuild cfg roots :: Build_c02_proofs.perturb_ops ps ++
                                [OpBuild cfg' roots'; OpBuild cfg roots]))
    = sy_log y ++ [r1; roff; r3] /\
  br_exec r3 = [] /\ br_ok r3 = true.
Proof. exact Build_c02_proofs.history_rebuild_after_cache_off. Qed.
Print Assumptions C13_history_cache_toggle_is_noop.

(* "is executed": a target that ends Executed had its command started in this build *)
Theorem C13_executed_ran : forall (H : str -> str) cfg s roots w c,
  cfg_mode cfg = LAll ->
  forall i t, i < length (s_nodes s) -> node_at s i = Some (NTarget t) -> null (td_cmd t) = false ->
  nth i (br_status (build H cfg s roots w c)) TNone = TExecuted ->
  In (td_label t) (br_exec (build H cfg s roots w c)).
Proof. exact executed_ran. Qed.
Print Assumptions C13_executed_ran.

(* a hit needs: a stored result under the target's current key, no taint, not no-cache, cache on,
   passing output checks; it stores nothing and runs nothing *)
Theorem C13_hit_needs : forall (H : str -> str) cfg s roots w c,
  cfg_mode cfg = LAll ->
  forall i t, i < length (s_nodes s) -> node_at s i = Some (NTarget t) ->
  nth i (br_status (build H cfg s roots w c)) TNone = THit ->
  hit_facts H cfg s t (build_prefix H cfg s roots w c i) (build_prefix H cfg s roots w c (S i)).
Proof. exact hit_needs. Qed.
Print Assumptions C13_hit_needs.

(* non-vacuity (digest = identity): a <- b plus a no-cache target n.  Build; rebuild: a, b hit, n runs;
   taint a: a runs, b still hits (dependants are invalidated only if outputs changed), taint gone;
   cache off: everything runs *)
(* non-vacuity of the cache-off theorems: the cache-disabled build r4 of Build_examples.v starts from a cache
   with three results and two blobs and leaves them; the cached build after it serves a and b again; and the
   instance of Build_c02_proofs.v (a <- b <- alias <- c, perturbed outputs) meets every guard of
   C13_cached_build_after_cache_off_is_noop *)
Theorem C13_cache_off_nonvacuous :
  (c_results (br_cache r4) = c_results (br_cache r1) /\ c_cas (br_cache r4) = c_cas (br_cache r1) /\
   List.length (c_results (br_cache r1)) = 3 /\ List.length (c_cas (br_cache r1)) = 2) /\
  (br_status r4b = [THit; THit; TExecuted] /\ br_exec r4b = [L "n"] /\ br_ok r4b = true).
Proof. exact (conj ex_cache_off_kept ex_after_cache_off). Qed.
Print Assumptions C13_cache_off_nonvacuous.

Theorem C13_cache_toggle_nonvacuous :
  br_ok Build_c02_proofs.C02_examples.r1 = true /\
  Build_c02_proofs.distinct_keys
    (Build_c02_proofs.build_state HashKey_proofs.hex_enc Build_c02_proofs.C02_examples.cfgA
       Build_c02_proofs.C02_examples.sx [3] Build_c02_proofs.C02_examples.w0 empty_cache) = true /\
  Build_c02_proofs.no_nocache_sel Build_c02_proofs.C02_examples.sx
    (selection Build_c02_proofs.C02_examples.sx [3]) = true /\
  br_ok Build_c02_proofs.C02_examples.roff = true /\
  List.length (br_exec Build_c02_proofs.C02_examples.roff) = 3 /\
  br_status Build_c02_proofs.C02_examples.roff = [TExecuted; TExecuted; THit; TExecuted] /\
  c_results (br_cache Build_c02_proofs.C02_examples.roff) = c_results (br_cache Build_c02_proofs.C02_examples.r1) /\
  c_cas (br_cache Build_c02_proofs.C02_examples.roff) = c_cas (br_cache Build_c02_proofs.C02_examples.r1) /\
  br_exec Build_c02_proofs.C02_examples.r3 = [] /\ br_ok Build_c02_proofs.C02_examples.r3 = true /\
  br_status Build_c02_proofs.C02_examples.r3 = [THit; THit; THit; THit].
Proof. exact Build_c02_proofs.C02_examples.rebuild_after_cache_off_nonvacuous. Qed.
Print Assumptions C13_cache_toggle_nonvacuous.

Theorem C13_nonvacuous :
  (br_status r1 = [TExecuted; TExecuted; TExecuted] /\ br_ok r1 = true) /\
  (br_status r2 = [THit; THit; TExecuted] /\ br_exec r2 = [L "n"] /\ br_ok r2 = true) /\
  (br_status r3 = [TExecuted; THit; TExecuted] /\ c_taint (br_cache r3) = []) /\
  br_status r4 = [TExecuted; TExecuted; TExecuted].
Proof. exact (conj ex_first (conj ex_second (conj ex_taint ex_cache_off))). Qed.
Print Assumptions C13_nonvacuous.
