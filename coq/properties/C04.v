(* C04 -- the walk cannot get stuck: in every reachable non-terminal state the scheduler itself can
   move, every schedule is finite, and when it ends every selected node is accounted for.
   Only statements, each closed by [exact] of a lemma from Walker_proofs.v.

   [system_event e] (Walker_proofs.v) is [true] exactly for Start _, CancelRecv _, Pick _,
   FinishOk _ and WalkReturn: the moves of the scheduler itself, plus a running task returning
   (the environment's obligation).  It is [false] for the external CtxCancel (trivially enabled
   while the context is not cancelled), WorkerExit, Reject _, CmdStart _, FinishFail _ and
   FinishCancelled _. *)
From Grog Require Import Graph Walker Walker_proofs Str Tree Tree_proofs.

Theorem C04_no_deadlock : forall g c s,
  topo g -> wf_graph g -> W c >= 1 ->
  reachable g c s -> ~ terminal g c s ->
  exists e, In e (enabled g c s) /\ system_event e = true.
Proof. exact no_deadlock. Qed.
Print Assumptions C04_no_deadlock.

(* every event strictly decreases the measure [mu] (Walker.v) ... *)
Theorem C04_measure : forall g c s e s',
  step g c s e = Some s' -> mu g c s' < mu g c s.
Proof. exact measure. Qed.
Print Assumptions C04_measure.

(* ... hence no schedule is longer than 5 * nodes + workers + 2 *)
Theorem C04_bounded : forall g c evs s,
  run g c evs = Some s -> length evs <= 5 * size g + W c + 2.
Proof. exact bounded. Qed.
Print Assumptions C04_bounded.

(* at the end every node is Ok, Failed, Skipped, Aborted, or sits in the closed pool's buffer with
   all workers gone; the last two only after a cancellation; a skip has a reason *)
Theorem C04_all_resolved : forall g c s,
  topo g -> wf_graph g -> W c >= 1 ->
  reachable g c s -> terminal g c s ->
  forall n, n < size g ->
  (st s n = Ok \/ st s n = Failed \/ st s n = Skipped \/ st s n = Aborted \/
   (st s n = Queued /\ closed s = true /\ dead s = W c)) /\
  (st s n = Aborted \/ st s n = Queued -> fft s = true \/ ctxc s = true) /\
  (st s n = Skipped ->
   (exists a, st s a = Failed /\ reach g a n) \/ fft s = true \/ ctxc s = true).
Proof. exact all_resolved. Qed.
Print Assumptions C04_all_resolved.

Theorem C04_no_cancel_all_done : forall g c s,
  topo g -> wf_graph g -> W c >= 1 ->
  reachable g c s -> terminal g c s -> fft s = false -> ctxc s = false ->
  forall n, n < size g ->
  st s n = Ok \/ st s n = Failed \/
  (st s n = Skipped /\ exists a, st s a = Failed /\ reach g a n).
Proof. exact no_cancel_all_done. Qed.
Print Assumptions C04_no_cancel_all_done.

(* ---- completions-map race ---- *)
(* the completions map is written after Walk handed it to its caller only on the cancellation
   paths (fail-fast triggered or outer context cancelled) *)
Theorem C04_no_race_partial : forall g c s,
  topo g -> wf_graph g -> reachable g c s ->
  race s = true -> ret s = true /\ (fft s = true \/ ctxc s = true).
Proof. exact no_race_partial. Qed.
Print Assumptions C04_no_race_partial.

(* ... and there it does happen: fail-fast, two independent nodes, one fails, Walk returns,
   the other one completes afterwards *)
Theorem C04_no_race_refuted :
  exists g c evs s, run g c evs = Some s /\ race s = true.
Proof. exact no_race_refuted. Qed.
Print Assumptions C04_no_race_refuted.

(* ------------------------------------------------------------------ restore part *)
(* C04, restore part -- a directory restore never hangs.  Statements only (to be imported / merged by
   the C04 property file).  load_tree_msg = DirectoryOutputHandler.Load after the tree blob was read. *)

(* The unguarded statement  forall tree cas faults, load_tree ... <> Stuck  is false of the faithful
   model: a flat directory with one file whose blob is missing from the cache (errChan capacity
   = len(tree.Children) = 0, one sender, the receiver only runs after waitGroup.Wait). *)
Theorem C04_restore_terminates_refuted :
  exists t st,
    wf_tree t /\
    match write_tree Hid enc_dir enc_tree t st with
    | Some (st', ref) =>
        load_tree Hid enc_dir enc_tree dec_tree max_depth ref (cas_del (Hid (s1 "x")) st') DAbsent = Stuck
    | None => False
    end.
Proof. exact restore_terminates_refuted. Qed.
Print Assumptions C04_restore_terminates_refuted.

(* guarded: for EVERY tree message and store (any digest function, any serialisation), the call
   returns when every file blob the message refers to is present ... *)
Theorem C04_restore_terminates_partial :
  forall (H : str -> str) (ser_dir : dir_msg -> str) maxdepth m st,
    blobs_present m st -> load_tree_msg H ser_dir maxdepth m st <> Stuck.
Proof. exact restore_terminates_blobs_present. Qed.
Print Assumptions C04_restore_terminates_partial.

(* ... and the exact guard: it hangs iff the recursion itself succeeds and more downloads fail than
   the tree has distinct sub-directories *)
Theorem C04_restore_stuck_iff :
  forall (H : str -> str) (ser_dir : dir_msg -> str) maxdepth m st,
    load_tree_msg H ser_dir maxdepth m st = Stuck <->
    exists k, load_failures H ser_dir maxdepth m st = Some k /\ length (tm_children m) < k.
Proof. exact restore_stuck_iff. Qed.
Print Assumptions C04_restore_stuck_iff.

(* the Stuck clause is the deadlock of the channel transition system: k senders, capacity
   len(tree.Children), no receiver before all senders are through *)
Theorem C04_restore_stuck_is_channel_deadlock :
  forall (H : str -> str) (ser_dir : dir_msg -> str) maxdepth m st k,
    load_failures H ser_dir maxdepth m st = Some k ->
    (load_tree_msg H ser_dir maxdepth m st = Stuck <->
     chan_released (chan_run k (mkChan k 0 (length (tm_children m)))) = false).
Proof. exact restore_stuck_is_channel_deadlock. Qed.
Print Assumptions C04_restore_stuck_is_channel_deadlock.

(* one (empty) sub-directory next to the file is enough capacity: the same fault returns an error *)
Theorem C04_restore_one_subdir_returns :
  match write_tree Hid enc_dir enc_tree (Dir [(s1 "a", File (s1 "x") false); (s1 "d", Dir [])]) [] with
  | Some (st', ref) =>
      load_tree Hid enc_dir enc_tree dec_tree max_depth ref (cas_del (Hid (s1 "x")) st') DAbsent = Error
  | None => False
  end.
Proof. exact restore_one_subdir_returns. Qed.
Print Assumptions C04_restore_one_subdir_returns.
