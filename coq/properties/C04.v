(* C04 -- the walk cannot get stuck: in every reachable non-terminal state the scheduler itself can
   move, every schedule is finite, and when it ends every selected node is accounted for.
   Only statements, each closed by [exact] of a lemma from Walker_proofs.v.

   [system_event e] (Walker_proofs.v) is [true] exactly for Start _, CancelRecv _, Pick _,
   FinishOk _ and WalkReturn: the moves of the scheduler itself, plus a running task returning
   (the environment's obligation).  It is [false] for the external CtxCancel (trivially enabled
   while the context is not cancelled), WorkerExit, Reject _, CmdStart _, FinishFail _ and
   FinishCancelled _. *)
From Grog Require Import Graph Walker Walker_proofs Str Tree Tree_proofs.

Theorem C04_no_deadlock : forall g c s,
  topo g -> wf_graph g -> W c >= 1 ->
  reachable g c s -> ~ terminal g c s ->
  exists e, In e (enabled g c s) /\ system_event e = true.
Proof. exact no_deadlock. Qed.
Print Assumptions C04_no_deadlock.

(* every event strictly decreases the measure [mu] (Walker.v) ... *)
Theorem C04_measure : forall g c s e s',
  step g c s e = Some s' -> mu g c s' < mu g c s.
Proof. exact measure. Qed.
Print Assumptions C04_measure.

(* ... hence no schedule is longer than 5 * nodes + workers + 2 *)
Theorem C04_bounded : forall g c evs s,
  run g c evs = Some s -> length evs <= 5 * size g + W c + 2.
Proof. exact bounded. Qed.
Print Assumptions C04_bounded.

(* at the end every node is Ok, Failed, Skipped, Aborted, or sits in the closed pool's buffer with
   all workers gone; the last two only after a cancellation; a skip has a reason *)
Theorem C04_all_resolved : forall g c s,
  topo g -> wf_graph g -> W c >= 1 ->
  reachable g c s -> terminal g c s ->
  forall n, n < size g ->
  (st s n = Ok \/ st s n = Failed \/ st s n = Skipped \/ st s n = Aborted \/
   (st s n = Queued /\ closed s = true /\ dead s = W c)) /\
  (st s n = Aborted \/ st s n = Queued -> fft s = true \/ ctxc s = true) /\
  (st s n = Skipped ->
   (exists a, st s a = Failed /\ reach g a n) \/ fft s = true \/ ctxc s = true).
Proof. exact all_resolved. Qed.
Print Assumptions C04_all_resolved.

Theorem C04_no_cancel_all_done : forall g c s,
  topo g -> wf_graph g -> W c >= 1 ->
  reachable g c s -> terminal g c s -> fft s = false -> ctxc s = false ->
  forall n, n < size g ->
  st s n = Ok \/ st s n = Failed \/
  (st s n = Skipped /\ exists a, st s a = Failed /\ reach g a n).
Proof. exact no_cancel_all_done. Qed.
Print Assumptions C04_no_cancel_all_done.

(* ---- the completions map handed to the caller ---- *)
(* [snap s] is the map Walk returned (a copy made under doneMutex, Walker.v), which the caller reads
   without any lock at any time after the return; [own s] is the walker's own map, which node
   routines still running after a return through ctx.Done keep writing.  No event after the return
   changes the caller's map (before the fix every late FinishOk / FinishFail / Reject did) ... *)
Theorem C04_no_race : forall g c s e s',
  step g c s e = Some s' -> ret s = true -> forall n, snap s' n = snap s n.
Proof. exact no_race. Qed.
Print Assumptions C04_no_race.

(* ... however many events follow *)
Theorem C04_no_race_run : forall g c evs s s',
  run_from g c s evs = Some s' -> ret s = true -> forall n, snap s' n = snap s n.
Proof. exact no_race_run. Qed.
Print Assumptions C04_no_race_run.

(* what is handed out is exactly what was recorded at the moment of the return *)
Theorem C04_snapshot_exact : forall g c s s',
  step g c s WalkReturn = Some s' -> forall n, snap s' n = own s n /\ own s' n = own s n.
Proof. exact snapshot_exact. Qed.
Print Assumptions C04_snapshot_exact.

(* every entry the caller sees is and remains the entry of the walker's own map *)
Theorem C04_snapshot_sound : forall g c s n,
  reachable g c s ->
  (snap s n = Success -> st s n = Ok) /\ (snap s n = Failure -> st s n = Failed).
Proof. exact snapshot_sound. Qed.
Print Assumptions C04_snapshot_sound.

(* without fail-fast trigger and without interrupt the caller sees the whole, final map (as before the fix) *)
Theorem C04_snapshot_complete : forall g c s,
  reachable g c s -> ret s = true -> fft s = false -> ctxc s = false ->
  forall n, n < size g -> snap s n = own s n /\ is_final (st s n) = true.
Proof. exact snapshot_complete. Qed.
Print Assumptions C04_snapshot_complete.

(* a walk ended by fail-fast shows its caller a failure (cmds/build.go derives the exit status from it) *)
Theorem C04_snapshot_failfast_has_failure : forall g c s s',
  reachable g c s -> step g c s WalkReturn = Some s' -> fft s = true ->
  exists a, a < size g /\ snap s' a = Failure.
Proof. exact snapshot_failfast_has_failure. Qed.
Print Assumptions C04_snapshot_failfast_has_failure.

(* non-vacuity: fail-fast, two independent nodes, one fails, Walk returns, the other one completes
   afterwards; its completion reaches the walker's own map and not the caller's *)
Theorem C04_late_completion_example :
  exists g c evs s, run g c evs = Some s /\ ret s = true /\
    own s 0 = Failure /\ snap s 0 = Failure /\ own s 1 = Success /\ snap s 1 = Absent.
Proof. exact late_completion_example. Qed.
Print Assumptions C04_late_completion_example.

(* ------------------------------------------------------------------ restore part *)
(* C04, restore part -- a directory restore never hangs.  Statements only.
   load_tree = DirectoryOutputHandler.Load; load_tree_msg = the same after the tree blob was read.
   Since the repair of C04-F2 the download goroutines offer their error to errChan (capacity 1) with a
   non-blocking send; Tree.load_tree_msg reads the outcome (Stuck / Error / Done) off the channel
   transition system chan_step, so "never Stuck" is a theorem about that system, not a definition. *)

(* for EVERY digest function, serialisation, tree reference, store (any blobs missing, the tree blob
   itself missing or undecodable, children missing from the message) and prior state of the destination,
   the call returns *)
Theorem C04_restore_terminates :
  forall (H : str -> str) (ser_dir : dir_msg -> str) (ser_tree : tree_msg -> str)
         (deser_tree : str -> option tree_msg) maxdepth ref st dest,
    load_tree H ser_dir ser_tree deser_tree maxdepth ref st dest <> Stuck.
Proof. exact restore_terminates. Qed.
Print Assumptions C04_restore_terminates.

Theorem C04_restore_terminates_msg :
  forall (H : str -> str) (ser_dir : dir_msg -> str) maxdepth m st,
    load_tree_msg H ser_dir maxdepth m st <> Stuck.
Proof. exact restore_terminates_msg. Qed.
Print Assumptions C04_restore_terminates_msg.

(* the reason: in the channel system no sender is ever left pending, for any number of failing downloads
   and any capacity ... *)
Theorem C04_restore_channel_never_blocks :
  forall k cap, chan_released (chan_run k (mkChan k 0 cap)) = true.
Proof. exact chan_never_blocks. Qed.
Print Assumptions C04_restore_channel_never_blocks.

(* ... and a failed download is not lost: the call returns an error (the build then executes the target)
   exactly when at least one download failed, given the recursion itself went through *)
Theorem C04_restore_error_iff_failure :
  forall (H : str -> str) (ser_dir : dir_msg -> str) maxdepth m st k,
    load_failures H ser_dir maxdepth m st = Some k ->
    (load_tree_msg H ser_dir maxdepth m st = Error <-> 0 < k).
Proof. exact restore_error_iff_failure. Qed.
Print Assumptions C04_restore_error_iff_failure.

(* the former refutation witness (C04-F2): a flat directory with one file whose blob is missing from the
   cache -- the restore returns an error *)
Theorem C04_restore_flat_missing_blob_returns :
  wf_tree flat_tree /\
  match write_tree Hid enc_dir enc_tree flat_tree [] with
  | Some (st', ref) =>
      load_tree Hid enc_dir enc_tree dec_tree max_depth ref (cas_del (Hid (s1 "x")) st') DAbsent = Error
  | None => False
  end.
Proof. exact restore_flat_missing_blob_returns. Qed.
Print Assumptions C04_restore_flat_missing_blob_returns.

(* two failing downloads against a channel that holds one error: an error as well *)
Theorem C04_restore_two_missing_blobs_returns :
  match write_tree Hid enc_dir enc_tree (Dir [(s1 "a", File (s1 "x") false); (s1 "b", File (s1 "y") true)]) [] with
  | Some (st', ref) =>
      load_tree Hid enc_dir enc_tree dec_tree max_depth ref (cas_del (Hid (s1 "y")) (cas_del (Hid (s1 "x")) st')) DAbsent = Error
  | None => False
  end.
Proof. exact restore_two_missing_blobs_returns. Qed.
Print Assumptions C04_restore_two_missing_blobs_returns.

(* one (empty) sub-directory next to the file: the same fault returns an error (as before the repair) *)
Theorem C04_restore_one_subdir_returns :
  match write_tree Hid enc_dir enc_tree (Dir [(s1 "a", File (s1 "x") false); (s1 "d", Dir [])]) [] with
  | Some (st', ref) =>
      load_tree Hid enc_dir enc_tree dec_tree max_depth ref (cas_del (Hid (s1 "x")) st') DAbsent = Error
  | None => False
  end.
Proof. exact restore_one_subdir_returns. Qed.
Print Assumptions C04_restore_one_subdir_returns.
