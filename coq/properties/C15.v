(* C15 -- load_outputs=minimal against load_outputs=all, over theories/Build.v.
   Only statements, each closed by [exact] of a lemma from Build_c15_proofs.v.
   Suffix _partial: strongest guarded statement that is true of the model; _refuted: witness that
   the unguarded statement is false of the model. *)
From Coq Require Import List Ascii Bool Arith.
From Grog Require Import Str Label HashKey Build Build_proofs Build_ideal Build_c02_proofs Build_c15_proofs.
Import ListNotations.

(* ---------------------------------------------------------------- dependency outputs are in place *)
(* every build (any configuration, any cache and workspace, cache faults only between builds): when
   the task of target t has loaded its dependency outputs and is about to start the command, every
   output of every direct, alias-resolved dependency is a file in the workspace, the dependency is
   marked loaded, and the generated command finds everything it reads (a stored result need not exist:
   a build with the cache disabled writes none) *)
Theorem C15_deps_present : forall (H : str -> str) cfg s roots w c k t dh b2,
  wf_src s -> no_overwrite s -> node_at s k = Some (NTarget t) ->
  let b := build_prefix H cfg s roots w c k in
  forallb (dep_ok b) (td_deps t) = true ->
  dep_hashes s b (td_deps t) = Some dh ->
  load_dep_outputs H (S (length (s_nodes s))) cfg s (td_deps t) (pt_b0 k (pt_key H s t dh) b) = (true, b2) ->
  (forall d j tj, In d (td_deps t) -> resolve s d = Some (j, tj) ->
     rt_loaded (get_rt b2 j) = true /\ outs_present tj (w_ws (b_world b2))) /\
  dep_parts s (w_ws (b_world b2)) (td_deps t) <> None.
Proof. exact build_deps_present. Qed.
Print Assumptions C15_deps_present.

(* single task, ANY state (results or blobs may vanish while dependency outputs are being loaded):
   guard [readable] = no direct dependency whose outputs are not in place yet has an unreadable target
   result *)
Theorem C15_deps_present_partial : forall (H : str -> str) cfg s f ds b b',
  wf_src s -> no_overwrite s -> rt_len b = length (s_nodes s) -> loaded_ok s b -> readable s b ds ->
  load_dep_outputs H f cfg s ds b = (true, b') ->
  loaded_ok s b' /\
  forall d j tj, In d ds -> resolve s d = Some (j, tj) ->
    rt_loaded (get_rt b' j) = true /\ outs_present tj (w_ws (b_world b')).
Proof. exact deps_present. Qed.
Print Assumptions C15_deps_present_partial.

(* without the guard: first dependency's result unreadable => it is re-run, the loop returns success,
   the second dependency's output was never loaded and the dependant's command cannot read it *)
Theorem C15_deps_present_refuted :
  exists cfg s f ds b b',
    wf_src s /\ no_overwrite s /\ rt_len b = length (s_nodes s) /\ loaded_ok s b /\
    load_dep_outputs hI f cfg s ds b = (true, b') /\
    exists d j tj o, In d ds /\ resolve s d = Some (j, tj) /\ In o (td_outs tj) /\
      rt_loaded (get_rt b' j) = false /\
      ws_get (out_path tj o) (w_ws (b_world b')) = PAbsent /\
      dep_parts s (w_ws (b_world b')) ds = None.
Proof. exact deps_present_refuted. Qed.
Print Assumptions C15_deps_present_refuted.

Theorem C15_early_return_fails_dependant :
  rt_status (get_rt (process_target hI x_cM x_s3 2 (x_tg "c" [0; 1]) x_fault) 2) = TFailed /\
  rt_status (get_rt (process_target hI x_cM x_s3 2 (x_tg "c" [0; 1]) x_pre) 2) = TExecuted.
Proof. exact early_return_fails_dependant. Qed.
Print Assumptions C15_early_return_fails_dependant.

(* ---------------------------------------------------------------- cache faults while loading *)
Theorem C15_faults_rerun_after_own_deps : forall (H : str -> str) f cfg s d0 ds b d dt dkey r b1,
  resolve s d0 = Some (d, dt) -> rt_key (get_rt b d) = Some dkey ->
  rlookup dkey (c_results (b_cache b)) = Some r -> load_outputs H d dt r b = (false, b1) ->
  load_dep_outputs H (S f) cfg s (d0 :: ds) b =
  let '(ok2, b2) := load_dep_outputs H f cfg s (td_deps dt) b1 in
  if ok2 then let '(ok3, b3) := execute H cfg s d dt dkey false b2 in
              if ok3 then load_dep_outputs H f cfg s ds b3 else (false, b3)
  else (false, b2).
Proof. exact ldo_load_failure. Qed.
Print Assumptions C15_faults_rerun_after_own_deps.

Theorem C15_faults_unreadable_returns : forall (H : str -> str) f cfg s d0 ds b d dt dkey,
  resolve s d0 = Some (d, dt) -> rt_loaded (get_rt b d) = false -> rt_key (get_rt b d) = Some dkey ->
  rlookup dkey (c_results (b_cache b)) = None ->
  load_dep_outputs H (S f) cfg s (d0 :: ds) b = execute H cfg s d dt dkey false b.
Proof. exact ldo_unreadable_returns. Qed.
Print Assumptions C15_faults_unreadable_returns.

(* a dependency whose outputs are already in place (executed or restored earlier in this build) is not
   looked up in the cache: with the cache disabled (nothing is stored) no dependency is re-run *)
Theorem C15_loaded_dependency_skipped : forall (H : str -> str) f cfg s d0 ds b d dt,
  resolve s d0 = Some (d, dt) -> rt_loaded (get_rt b d) = true ->
  load_dep_outputs H (S f) cfg s (d0 :: ds) b = load_dep_outputs H f cfg s ds b.
Proof. exact ldo_loaded_skips. Qed.
Print Assumptions C15_loaded_dependency_skipped.

(* a lost blob + a dependant that must run: same commands in both modes, both succeed *)
Theorem C15_faults_blob_example :
  x_exec LAll x_ops_blob_taint = [[["a"]; ["b"]; ["c"]]; [["a"]; ["c"]]]%char /\
  x_exec LMinimal x_ops_blob_taint = [[["a"]; ["b"]; ["c"]]; [["a"]; ["c"]]]%char /\
  nth 1 (x_stat LAll x_ops_blob_taint) [] = [TExecuted; THit; TExecuted] /\
  nth 1 (x_stat LMinimal x_ops_blob_taint) [] = [THit; THit; TExecuted].
Proof. exact blob_fault_dependency_rerun. Qed.
Print Assumptions C15_faults_blob_example.

(* losing every result between two builds does not reach the early return *)
Theorem C15_faults_results_between_builds :
  br_ok (x_log (x_ops_results LAll) 1) = true /\ br_ok (x_log (x_ops_results LMinimal) 1) = true /\
  br_exec (x_log (x_ops_results LAll) 1) = [x_lb "a"; x_lb "b"; x_lb "c"] /\
  br_exec (x_log (x_ops_results LMinimal) 1) = [x_lb "a"; x_lb "b"; x_lb "c"].
Proof. exact results_lost_between_builds_agree. Qed.
Print Assumptions C15_faults_results_between_builds.

(* ---------------------------------------------------------------- lock-step over histories *)
(* guards (decidable, [hist_guardb], evaluated on the mode-all run): every build has the cache
   enabled; its snapshot has no overlapping outputs, only cacheable targets with a command, and no
   dependency list longer than the node count; no key collision is met (each node's key is fresh in
   its build and a result found under it lists the same outputs); no blob is dropped (OpDropResults is
   allowed).  Perturbations of output paths are unrestricted: also a directory where a file is declared
   (the restore replaces it since the repair of C06-F3; the guard used to exclude it) *)
Theorem C15_lockstep_partial : forall (H : str -> str),
  (forall a b, H a = H b -> a = b) ->
  forall ops, hist_guardb H sys0 ops = true ->
  hsim H (run_from H LAll sys0 ops) (run_from H LMinimal sys0 ops).
Proof. exact history_lockstep_b. Qed.
Print Assumptions C15_lockstep_partial.

(* every output that a build of the minimal run materialises has the bytes it has in the all run *)
Theorem C15_materialised_partial : forall (H : str -> str),
  (forall a b, H a = H b -> a = b) ->
  forall pre cfg roots post,
  hist_guard H sys0 (pre ++ OpBuild cfg roots :: post) ->
  let yA := run_from H LAll sys0 pre in
  let yM := run_from H LMinimal sys0 pre in
  let cfgM := mkCfg LMinimal (cfg_cache cfg) (cfg_failfast cfg) in
  let cfgA := mkCfg LAll (cfg_cache cfg) (cfg_failfast cfg) in
  let s := sy_src yM in
  let rA := build H cfgA (sy_src yA) roots (sy_world yA) (sy_cache yA) in
  let rM := build H cfgM s roots (sy_world yM) (sy_cache yM) in
  forall j tj o, node_at s j = Some (NTarget tj) ->
    rt_loaded (get_rt (build_prefix H cfgM s roots (sy_world yM) (sy_cache yM) (length (s_nodes s))) j) = true ->
    In o (td_outs tj) ->
    exists c, ws_get (out_path tj o) (w_ws (br_world rM)) = PFile c /\
              ws_get (out_path tj o) (w_ws (br_world rA)) = PFile c.
Proof. exact history_materialised. Qed.
Print Assumptions C15_materialised_partial.

(* single build from related (world, cache) pairs, the relation is re-established *)
Theorem C15_lockstep_build_partial : forall (H : str -> str),
  (forall a b, H a = H b -> a = b) ->
  forall cfgA cfgM s,
  cfg_mode cfgA = LAll -> cfg_mode cfgM = LMinimal -> cfg_cache cfgA = true -> cfg_cache cfgM = true ->
  cfg_failfast cfgA = cfg_failfast cfgM -> no_overwrite s -> plain_cacheable s ->
  forall c0 roots wA wM,
  deps_short s -> cinv H c0 -> w_ext wA = w_ext wM ->
  build_guard H cfgA s c0 roots wA ->
  let rA := build H cfgA s roots wA c0 in
  let rM := build H cfgM s roots wM c0 in
  br_ok rA = br_ok rM /\ br_status rA = br_status rM /\ br_exec rA = br_exec rM /\
  br_cache rA = br_cache rM /\ w_ext (br_world rA) = w_ext (br_world rM) /\
  cinv H (br_cache rA) /\
  (forall j tj o, node_at s j = Some (NTarget tj) ->
     rt_loaded (get_rt (build_prefix H cfgM s roots wM c0 (length (s_nodes s))) j) = true ->
     In o (td_outs tj) ->
     exists c, ws_get (out_path tj o) (w_ws (br_world rM)) = PFile c /\
               ws_get (out_path tj o) (w_ws (br_world rA)) = PFile c).
Proof. exact build_lockstep. Qed.
Print Assumptions C15_lockstep_build_partial.

(* the blob guard is needed: a lost blob *)
Theorem C15_lockstep_refuted :
  exists (ops : lmode -> list op) s roots p,
    (forall m, ops m = [OpSources s; OpBuild (mkCfg m true false) roots; OpDropBlob p;
                        OpPerturb p PAbsent; OpBuild (mkCfg m true false) roots]) /\
    wf_src s /\ no_overwrite s /\
    br_ok (nth 1 (sy_log (run_history hI (ops LAll))) br0) = true /\
    br_ok (nth 1 (sy_log (run_history hI (ops LMinimal))) br0) = true /\
    length (br_exec (nth 1 (sy_log (run_history hI (ops LAll))) br0)) = 1 /\
    br_exec (nth 1 (sy_log (run_history hI (ops LMinimal))) br0) = [].
Proof. exact lockstep_refuted_dropblob. Qed.
Print Assumptions C15_lockstep_refuted.

(* the histories that used to refute the lock-step for a cache-disabled build (a cache-disabled first build,
   then a cached one: mode all re-ran everything over the output-less results, mode minimal nothing;
   formerly C15_lockstep_cache_off_refuted) are in lock-step since a disabled cache is not written
   (C02-F2 / C13-F1 repaired): same commands, same statuses, same final cache in both modes, and a
   cache-disabled build between two cached ones leaves the third with nothing to run.  The guard "every
   build has the cache enabled" stays in [hist_guardb] because the lock-step PROOF covers cached builds only;
   no refutation of the lock-step by a cache-disabled build is known any more *)
Theorem C15_lockstep_cache_off_in_lockstep :
  x_exec LAll x_ops_cache_off = [[["a"]; ["b"]; ["c"]]; [["a"]; ["b"]; ["c"]]]%char /\
  x_exec LMinimal x_ops_cache_off = [[["a"]; ["b"]; ["c"]]; [["a"]; ["b"]; ["c"]]]%char /\
  x_stat LAll x_ops_cache_off = x_stat LMinimal x_ops_cache_off /\
  x_exec LAll x_ops_cache_toggle = [[["a"]; ["b"]; ["c"]]; [["a"]; ["b"]; ["c"]]; []]%char /\
  x_exec LMinimal x_ops_cache_toggle = [[["a"]; ["b"]; ["c"]]; [["a"]; ["b"]; ["c"]]; []]%char /\
  x_stat LAll x_ops_cache_toggle = x_stat LMinimal x_ops_cache_toggle /\
  sy_cache (run_history hI (x_ops_cache_toggle LAll)) = sy_cache (run_history hI (x_ops_cache_toggle LMinimal)).
Proof. exact lockstep_cache_off_in_lockstep. Qed.
Print Assumptions C15_lockstep_cache_off_in_lockstep.

(* the history that used to refute the lock-step for "a directory at a file output's path" (build, put a
   directory where a's output belongs, build; formerly C15_lockstep_wrongkind_refuted: mode all re-ran a)
   now meets the guard and is in lock-step: neither mode runs anything in the second build, same statuses;
   mode all has replaced the directory by the cached file, mode minimal has not touched the path *)
Theorem C15_lockstep_wrongkind_in_lockstep :
  hist_guardb hI sys0 (x_ops_wrongkind LAll) = true /\
  nth 1 (x_exec LAll x_ops_wrongkind) [["?"]]%char = [] /\
  nth 1 (x_exec LMinimal x_ops_wrongkind) [["?"]]%char = [] /\
  nth 1 (x_stat LAll x_ops_wrongkind) [] = [THit; THit; THit] /\
  nth 1 (x_stat LMinimal x_ops_wrongkind) [] = [THit; THit; THit] /\
  (exists c, ws_get x_pa (w_ws (sy_world (run_history hI (x_ops_wrongkind LAll)))) = PFile c) /\
  ws_get x_pa (w_ws (sy_world (run_history hI (x_ops_wrongkind LMinimal)))) = PWrongKind.
Proof. exact wrongkind_in_lockstep. Qed.
Print Assumptions C15_lockstep_wrongkind_in_lockstep.

(* ---------------------------------------------------------------- non-vacuity *)
(* a <- alias <- b, a <- c: build, edit, build, lose an output + edit, build, lose all results, build *)
Theorem C15_nonvacuous :
  hist_guardb hI sys0 y_ops = true /\
  map (fun r => map lname (br_exec r)) (sy_log (run_from hI LMinimal sys0 y_ops)) =
    [[["a"]; ["b"]; ["c"]]; [["a"]; ["b"]; ["c"]]; [["c"]]; [["a"]; ["b"]; ["c"]]]%char /\
  map br_status (sy_log (run_from hI LMinimal sys0 y_ops)) =
    [[TExecuted; THit; TExecuted; TExecuted]; [TExecuted; THit; TExecuted; TExecuted];
     [THit; THit; THit; TExecuted]; [TExecuted; THit; TExecuted; TExecuted]].
Proof. exact lockstep_nonvacuous. Qed.
Print Assumptions C15_nonvacuous.

Theorem C15_nonvacuous_loads_on_demand :
  let y := run_from hI LMinimal sys0 (firstn 6 y_ops) in
  let b := build_prefix hI x_cM (sy_src y) [2; 3] (sy_world y) (sy_cache y) 4 in
  ws_get x_pa (w_ws (sy_world y)) = PAbsent /\
  map rt_loaded (b_rt b) = [true; false; false; true] /\
  exists c, ws_get x_pa (w_ws (b_world b)) = PFile c.
Proof. exact minimal_loads_on_demand. Qed.
Print Assumptions C15_nonvacuous_loads_on_demand.

Theorem C15_nonvacuous_guards :
  wf_src (y_src ["2"%char] ["y"%char]) /\ no_overwrite (y_src ["2"%char] ["y"%char]).
Proof. exact deps_present_nonvacuous. Qed.
Print Assumptions C15_nonvacuous_guards.

Theorem C15_nonvacuous_deps_present :
  wf_src x_s3 /\ no_overwrite x_s3 /\ rt_len x_pre = length (s_nodes x_s3) /\ loaded_ok x_s3 x_pre /\
  readable x_s3 x_pre [0; 1] /\
  fst (load_dep_outputs hI 4 x_cM x_s3 [0; 1] x_pre) = true /\
  map rt_loaded (b_rt (snd (load_dep_outputs hI 4 x_cM x_s3 [0; 1] x_pre))) = [true; true; false].
Proof. exact deps_present_partial_nonvacuous. Qed.
Print Assumptions C15_nonvacuous_deps_present.
