(* C02 -- Only invalidated targets re-execute; a no-op rebuild runs nothing.  Statements only.
   Model: theories/Build.v; proofs: theories/Build_c02_proofs.v.  H is the digest function. *)
From Coq Require Import List Arith.
From Grog Require Import Str Label HashKey HashKey_proofs Build Build_proofs Build_c02_proofs.
Import ListNotations.

(* ------------------------------------------------------------------ one task *)
(* any load_outputs mode: a task that ends Executed had a reason -- no result under the target's
   current key, caching disabled, taint, no-cache, a failing output check, or (mode all) a failed
   restore; a restore fails only for what the CACHE holds (restore_failed: the recorded output
   definitions differ from the declared ones / a recorded blob is missing from the CAS) -- nothing that
   sits in the workspace can make it fail (a directory at a file output's path is replaced since the
   repair of C06-F3) *)
Theorem C02_exec_only_if : forall (H : str -> str) cfg s i t b,
  i < rt_len b ->
  rt_status (get_rt (process_target H cfg s i t b) i) = TExecuted ->
  exists dh, dep_hashes s b (td_deps t) = Some dh /\
    (rlookup (pt_key H s t dh) (c_results (b_cache b)) = None \/
     cfg_cache cfg = false \/ pt_tainted t b = true \/ td_nocache t = true \/
     check_ok (b_world b) t = false \/
     (cfg_mode cfg = LAll /\ exists r, rlookup (pt_key H s t dh) (c_results (b_cache b)) = Some r /\
        restore_failed (b_cache b) t r)).
Proof. exact exec_only_if. Qed.
Print Assumptions C02_exec_only_if.

(* mode all: the same reasons for every command start recorded by the task (also a failing one) *)
Theorem C02_exec_label_only_if : forall (H : str -> str) cfg s i t b,
  cfg_mode cfg = LAll -> i < rt_len b ->
  b_exec (process_target H cfg s i t b) <> b_exec b ->
  exists dh, dep_hashes s b (td_deps t) = Some dh /\
    (rlookup (pt_key H s t dh) (c_results (b_cache b)) = None \/
     cfg_cache cfg = false \/ pt_tainted t b = true \/ td_nocache t = true \/
     check_ok (b_world b) t = false \/
     (exists r, rlookup (pt_key H s t dh) (c_results (b_cache b)) = Some r /\
        restore_failed (b_cache b) t r)).
Proof. exact exec_label_only_if. Qed.
Print Assumptions C02_exec_label_only_if.

(* the converse: a present result whose blobs are in the CAS is a hit and starts no command, whatever
   sits at the output paths (absent, parent missing, any file content, a directory at a file output's
   path) *)
Theorem C02_hit_if : forall (H : str -> str) cfg s i t b dh r,
  cfg_mode cfg = LAll -> i < rt_len b -> rt_loaded (get_rt b i) = false ->
  dep_hashes s b (td_deps t) = Some dh ->
  rlookup (pt_key H s t dh) (c_results (b_cache b)) = Some r ->
  pt_tainted t b = false -> td_nocache t = false -> cfg_cache cfg = true ->
  check_ok (b_world b) t = true -> outputs_match t r = true ->
  (forall def dg, In (def, dg) (r_outs r) -> alookup dg (c_cas (b_cache b)) <> None) ->
  rt_status (get_rt (process_target H cfg s i t b) i) = THit /\
  rt_ohash (get_rt (process_target H cfg s i t b) i) = Some (r_outhash r) /\
  b_exec (process_target H cfg s i t b) = b_exec b /\
  b_cache (process_target H cfg s i t b) = b_cache b.
Proof. exact hit_if. Qed.
Print Assumptions C02_hit_if.

(* ------------------------------------------------------------------ cache completeness *)
(* "every stored result's blobs are in the CAS": true of the empty cache, preserved by builds
   (every mode) and by every history without a lost-blob fault *)
Theorem C02_cache_complete_empty : cache_complete empty_cache.
Proof. exact empty_cache_complete. Qed.
Print Assumptions C02_cache_complete_empty.

Theorem C02_build_cache_complete : forall (H : str -> str) cfg s roots w c,
  cache_complete c -> cache_complete (br_cache (build H cfg s roots w c)).
Proof. exact build_cache_complete. Qed.
Print Assumptions C02_build_cache_complete.

Theorem C02_run_history_cache_complete : forall (H : str -> str) ops,
  no_blob_faults ops = true -> cache_complete (sy_cache (run_history H ops)).
Proof. exact run_history_cache_complete. Qed.
Print Assumptions C02_run_history_cache_complete.

(* ------------------------------------------------------------------ the headline *)
(* a successful build (mode all, cache on) followed by ANY perturbation of output paths (deleting,
   removing parents, other content, a directory where a file belongs), followed by the same build:
   nothing runs and the build succeeds.
   Guards: the initial cache is complete; the change keys of the first build are pairwise distinct;
   no selected target is tagged no-cache. *)
Theorem C02_noop_rebuild : forall (H : str -> str) cfg s roots w c (ps : list (str * pstate)),
  cfg_mode cfg = LAll -> cfg_cache cfg = true -> cache_complete c ->
  br_ok (build H cfg s roots w c) = true ->
  distinct_keys (build_state H cfg s roots w c) = true ->
  no_nocache_sel s (selection s roots) = true ->
  let r1 := build H cfg s roots w c in
  let w' := mkWorld (apply_perturbs ps (w_ws (br_world r1))) (w_ext (br_world r1)) in
  let r2 := build H cfg s roots w' (br_cache r1) in
  br_exec r2 = [] /\ br_ok r2 = true.
Proof. exact noop_rebuild. Qed.
Print Assumptions C02_noop_rebuild.

(* the key guard follows from a decidable guard on the snapshot: with the framed key encoding (C09) and
   an injective, '_'-free digest, pairwise distinct target labels give pairwise distinct change keys *)
Theorem C02_distinct_labels_distinct_keys : forall (H : str -> str) cfg s roots w c,
  (forall x y, H x = H y -> x = y) -> (forall x, ~ In ch_us (H x)) ->
  cfg_mode cfg = LAll -> distinct_labels s = true ->
  distinct_keys (build_state H cfg s roots w c) = true.
Proof. exact distinct_labels_distinct_keys. Qed.
Print Assumptions C02_distinct_labels_distinct_keys.

(* ... so the headline holds for every snapshot whose target labels are pairwise distinct *)
Theorem C02_noop_rebuild_labels : forall (H : str -> str) cfg s roots w c (ps : list (str * pstate)),
  (forall x y, H x = H y -> x = y) -> (forall x, ~ In ch_us (H x)) ->
  cfg_mode cfg = LAll -> cfg_cache cfg = true -> cache_complete c ->
  br_ok (build H cfg s roots w c) = true ->
  distinct_labels s = true ->
  no_nocache_sel s (selection s roots) = true ->
  let r1 := build H cfg s roots w c in
  let w' := mkWorld (apply_perturbs ps (w_ws (br_world r1))) (w_ext (br_world r1)) in
  let r2 := build H cfg s roots w' (br_cache r1) in
  br_exec r2 = [] /\ br_ok r2 = true.
Proof. exact noop_rebuild_labels. Qed.
Print Assumptions C02_noop_rebuild_labels.

(* the second build may start from ANY world in which the external conditions that held after the first
   build still hold, and from ANY cache that holds the first build's results and blobs and no further taint
   ([serves]) -- in particular the cache a build with the cache DISABLED leaves (C13_cache_off_leaves_cache) *)
Theorem C02_noop_rebuild_any_cache : forall (H : str -> str) cfg s roots w c w' c',
  cfg_mode cfg = LAll -> cfg_cache cfg = true -> cache_complete c ->
  br_ok (build H cfg s roots w c) = true ->
  distinct_keys (build_state H cfg s roots w c) = true ->
  no_nocache_sel s (selection s roots) = true ->
  let r1 := build H cfg s roots w c in
  serves (br_cache r1) c' ->
  (forall l, label_in l (w_ext (br_world r1)) = true -> label_in l (w_ext w') = true) ->
  let r2 := build H cfg s roots w' c' in
  br_exec r2 = [] /\ br_ok r2 = true.
Proof. exact noop_rebuild_gen. Qed.
Print Assumptions C02_noop_rebuild_any_cache.

(* a build with the cache disabled between two cached builds invalidates nothing (the finding C02-F2 was the
   opposite: it overwrote every stored result with an output-less record): build, perturb the output paths,
   build ANY snapshot with the cache disabled (successfully), build again -- nothing runs *)
Theorem C02_noop_rebuild_after_cache_off :
  forall (H : str -> str) cfg cfg' s s' roots roots' w c (ps : list (str * pstate)),
  cfg_mode cfg = LAll -> cfg_cache cfg = true -> cache_complete c ->
  br_ok (build H cfg s roots w c) = true ->
  distinct_keys (build_state H cfg s roots w c) = true ->
  no_nocache_sel s (selection s roots) = true ->
  cfg_mode cfg' = LAll -> cfg_cache cfg' = false ->
  let r1 := build H cfg s roots w c in
  let w1 := mkWorld (apply_perturbs ps (w_ws (br_world r1))) (w_ext (br_world r1)) in
  let roff := build H cfg' s' roots' w1 (br_cache r1) in
  br_ok roff = true ->
  let r3 := build H cfg s roots (br_world roff) (br_cache roff) in
  c_results (br_cache roff) = c_results (br_cache r1) /\ c_cas (br_cache roff) = c_cas (br_cache r1) /\
  br_exec r3 = [] /\ br_ok r3 = true.
Proof. exact rebuild_after_cache_off. Qed.
Print Assumptions C02_noop_rebuild_after_cache_off.

Theorem C02_noop_rebuild_after_cache_off_nonvacuous :
  br_ok C02_examples.r1 = true /\
  distinct_keys (build_state hex_enc C02_examples.cfgA C02_examples.sx [3] C02_examples.w0 empty_cache) = true /\
  no_nocache_sel C02_examples.sx (selection C02_examples.sx [3]) = true /\
  br_ok C02_examples.roff = true /\ length (br_exec C02_examples.roff) = 3 /\
  br_status C02_examples.roff = [TExecuted; TExecuted; THit; TExecuted] /\
  c_results (br_cache C02_examples.roff) = c_results (br_cache C02_examples.r1) /\
  c_cas (br_cache C02_examples.roff) = c_cas (br_cache C02_examples.r1) /\
  br_exec C02_examples.r3 = [] /\ br_ok C02_examples.r3 = true /\
  br_status C02_examples.r3 = [THit; THit; THit; THit].
Proof. exact C02_examples.rebuild_after_cache_off_nonvacuous. Qed.
Print Assumptions C02_noop_rebuild_after_cache_off_nonvacuous.

(* without the distinct-keys guard the statement is false in general, and distinct labels alone do not
   give it when the digest is not injective: under a constant digest two targets of one snapshot share
   their key, overwrite each other's result and the first re-executes on an immediate rebuild *)
Theorem C02_noop_rebuild_refuted :
  exists (H : str -> str) cfg s roots w c,
    cfg_mode cfg = LAll /\ cfg_cache cfg = true /\ cache_complete c /\
    br_ok (build H cfg s roots w c) = true /\
    no_nocache_sel s (selection s roots) = true /\
    distinct_labels s = true /\
    distinct_keys (build_state H cfg s roots w c) = false /\
    let r1 := build H cfg s roots w c in
    br_exec (build H cfg s roots (br_world r1) (br_cache r1)) <> [].
Proof. exact C02_examples.noop_rebuild_refuted. Qed.
Print Assumptions C02_noop_rebuild_refuted.

(* with no-cache targets: whatever an immediate rebuild runs is a no-cache target or a transitive
   dependant of one (partial: the sharper "only the no-cache targets themselves" is not proved) *)
Theorem C02_noop_rebuild_nocache_partial : forall (H : str -> str) cfg s roots w c,
  cfg_mode cfg = LAll -> cfg_cache cfg = true -> cache_complete c -> wf_src s = true ->
  let K := cone_of s (is_nocache s) in
  let r1 := build H cfg s roots w c in
  br_ok r1 = true ->
  distinct_keys (build_state H cfg s roots w c) = true ->
  distinct_labels_fromb K s = true ->
  let r2 := build H cfg s roots (br_world r1) (br_cache r1) in
  cross_distinctb K (build_state H cfg s roots w c)
                    (build_state H cfg s roots (br_world r1) (br_cache r1)) = true ->
  forall lb, In lb (br_exec r2) ->
  exists j t, in_cone s (is_nocache s) j /\ In j (selection s roots) /\ node_at s j = Some (NTarget t) /\
              lb = td_label t.
Proof. exact noop_rebuild_nocache_cone. Qed.
Print Assumptions C02_noop_rebuild_nocache_partial.

(* ------------------------------------------------------------------ edits *)
(* s1 -> s2 changes only the definitions (and input files) of the targets in E; node numbering and
   dependency structure are the same.  Build s1, then build s2 from the resulting world and cache:
   every command that runs belongs to a target in the cone of E (E or a transitive dependant). *)
Theorem C02_edit_cone : forall (H : str -> str) cfg s1 s2 roots w c (E : nat -> bool),
  cfg_mode cfg = LAll -> cfg_cache cfg = true -> cache_complete c ->
  wf_src s1 = true ->
  length (s_nodes s1) = length (s_nodes s2) ->
  (forall i, deps_at s1 i = deps_at s2 i) ->
  (forall i, E i = false -> node_at s1 i = node_at s2 i) ->
  (forall i t p, E i = false -> node_at s1 i = Some (NTarget t) -> In p (td_ins t) ->
                 pkg_fs s1 t p = pkg_fs s2 t p) ->
  let K := cone_of s1 E in
  let r1 := build H cfg s1 roots w c in
  br_ok r1 = true ->
  distinct_keys (build_state H cfg s1 roots w c) = true ->
  no_nocache_outside K s1 (selection s1 roots) = true ->
  distinct_labels_fromb K s2 = true ->
  let r2 := build H cfg s2 roots (br_world r1) (br_cache r1) in
  cross_distinctb K (build_state H cfg s1 roots w c)
                    (build_state H cfg s2 roots (br_world r1) (br_cache r1)) = true ->
  forall lb, In lb (br_exec r2) ->
  exists j t, in_cone s1 E j /\ In j (selection s2 roots) /\ node_at s2 j = Some (NTarget t) /\ lb = td_label t.
Proof. exact edit_cone_least. Qed.
Print Assumptions C02_edit_cone.

(* the same for any decidable superset K of E closed under dependants (no numbering assumption) *)
Theorem C02_edit_cone_any : forall (H : str -> str) cfg s1 s2 roots w c (E K : nat -> bool),
  cfg_mode cfg = LAll -> cfg_cache cfg = true -> cache_complete c ->
  length (s_nodes s1) = length (s_nodes s2) ->
  (forall i, deps_at s1 i = deps_at s2 i) ->
  (forall i, E i = false -> node_at s1 i = node_at s2 i) ->
  (forall i t p, E i = false -> node_at s1 i = Some (NTarget t) -> In p (td_ins t) ->
                 pkg_fs s1 t p = pkg_fs s2 t p) ->
  (forall i, E i = true -> K i = true) ->
  (forall i d, In d (deps_at s1 i) -> K d = true -> K i = true) ->
  let r1 := build H cfg s1 roots w c in
  br_ok r1 = true ->
  distinct_keys (build_state H cfg s1 roots w c) = true ->
  no_nocache_outside K s1 (selection s1 roots) = true ->
  distinct_labels_fromb K s2 = true ->
  let r2 := build H cfg s2 roots (br_world r1) (br_cache r1) in
  cross_distinctb K (build_state H cfg s1 roots w c)
                    (build_state H cfg s2 roots (br_world r1) (br_cache r1)) = true ->
  forall lb, In lb (br_exec r2) ->
  exists j t, K j = true /\ In j (selection s2 roots) /\ node_at s2 j = Some (NTarget t) /\ lb = td_label t.
Proof. exact edit_cone_build. Qed.
Print Assumptions C02_edit_cone_any.

(* early cut-off: an unedited cacheable target d that succeeded in the first build is a cache HIT
   in the second one when each of its dependencies is outside the cone or is a target that
   succeeded again with the same output hash (a re-executed dependency reproducing its outputs) *)
Theorem C02_early_cutoff : forall (H : str -> str) cfg s1 s2 roots w c (E K : nat -> bool) d td,
  cfg_mode cfg = LAll -> cfg_cache cfg = true -> cache_complete c ->
  length (s_nodes s1) = length (s_nodes s2) ->
  (forall i, deps_at s1 i = deps_at s2 i) ->
  (forall i, E i = false -> node_at s1 i = node_at s2 i) ->
  (forall i t p, E i = false -> node_at s1 i = Some (NTarget t) -> In p (td_ins t) ->
                 pkg_fs s1 t p = pkg_fs s2 t p) ->
  (forall i, E i = true -> K i = true) ->
  (forall i d, In d (deps_at s1 i) -> K d = true -> K i = true) ->
  let r1 := build H cfg s1 roots w c in
  br_ok r1 = true ->
  distinct_keys (build_state H cfg s1 roots w c) = true ->
  no_nocache_outside K s1 (selection s1 roots) = true ->
  distinct_labels_fromb K s2 = true ->
  let r2 := build H cfg s2 roots (br_world r1) (br_cache r1) in
  let F1 := build_state H cfg s1 roots w c in
  let F2 := build_state H cfg s2 roots (br_world r1) (br_cache r1) in
  cross_distinctb K F1 F2 = true ->
  node_at s1 d = Some (NTarget td) -> E d = false -> td_nocache td = false ->
  (rt_status (get_rt F1 d) = THit \/ rt_status (get_rt F1 d) = TExecuted) ->
  (forall x, In x (td_deps td) -> K x = false \/
      (exists t1 t2, node_at s1 x = Some (NTarget t1) /\ node_at s2 x = Some (NTarget t2) /\
         td_label t1 = td_label t2 /\
         (rt_status (get_rt F2 x) = THit \/ rt_status (get_rt F2 x) = TExecuted) /\
         rt_ohash (get_rt F2 x) = rt_ohash (get_rt F1 x))) ->
  (cfg_failfast cfg = false \/ br_ok r2 = true) ->
  rt_status (get_rt F2 d) = THit.
Proof. exact early_cutoff_build. Qed.
Print Assumptions C02_early_cutoff.

(* [build_state] is the runtime state whose projection [build] returns *)
Theorem C02_build_state_is_build : forall (H : str -> str) cfg s roots w c,
  br_world (build H cfg s roots w c) = b_world (build_state H cfg s roots w c) /\
  br_cache (build H cfg s roots w c) = b_cache (build_state H cfg s roots w c) /\
  br_exec (build H cfg s roots w c) = b_exec (build_state H cfg s roots w c) /\
  br_status (build H cfg s roots w c) = map rt_status (b_rt (build_state H cfg s roots w c)) /\
  br_ok (build H cfg s roots w c) =
    negb (existsb is_failed (map rt_status (b_rt (build_state H cfg s roots w c)))).
Proof. exact build_fields. Qed.
Print Assumptions C02_build_state_is_build.

(* ------------------------------------------------------------------ non-vacuity (H := hex_enc, injective) *)
(* a <- b <- alias x <- c; build, put a directory where a's (file) output belongs, remove the parent of
   b's, corrupt c's; rebuild *)
Theorem C02_noop_rebuild_nonvacuous :
  br_ok C02_examples.r1 = true /\ length (br_exec C02_examples.r1) = 3 /\
  distinct_keys (build_state hex_enc C02_examples.cfgA C02_examples.sx [3] C02_examples.w0 empty_cache) = true /\
  no_nocache_sel C02_examples.sx (selection C02_examples.sx [3]) = true /\
  existsb (fun p => C02_examples.is_wk (snd p)) C02_examples.ps = true /\
  br_exec C02_examples.r2 = [] /\ br_ok C02_examples.r2 = true /\
  br_status C02_examples.r2 = [THit; THit; THit; THit].
Proof. exact C02_examples.noop_rebuild_nonvacuous. Qed.
Print Assumptions C02_noop_rebuild_nonvacuous.

Theorem C02_noop_rebuild_labels_nonvacuous :
  distinct_labels C02_examples.sx = true /\ br_exec C02_examples.r2 = [] /\ br_ok C02_examples.r2 = true.
Proof. exact C02_examples.noop_rebuild_labels_instance. Qed.
Print Assumptions C02_noop_rebuild_labels_nonvacuous.

Theorem C02_exec_only_if_nonvacuous :
  rt_status (get_rt (process_target hex_enc C02_examples.cfgA C02_examples.sx 0 C02_examples.ta
                                    C02_examples.b_first) 0) = TExecuted /\
  b_exec (process_target hex_enc C02_examples.cfgA C02_examples.sx 0 C02_examples.ta C02_examples.b_first)
    <> b_exec C02_examples.b_first /\
  dep_hashes C02_examples.sx C02_examples.b_first (td_deps C02_examples.ta) = Some [] /\
  rlookup (pt_key hex_enc C02_examples.sx C02_examples.ta []) (c_results (b_cache C02_examples.b_first)) = None.
Proof. exact C02_examples.exec_only_if_nonvacuous. Qed.
Print Assumptions C02_exec_only_if_nonvacuous.

Theorem C02_hit_if_nonvacuous :
  ws_get ["p";"/";"a";".";"o"]%char (w_ws (b_world C02_examples.b_second)) = PWrongKind /\
  rt_status (get_rt (process_target hex_enc C02_examples.cfgA C02_examples.sx 0 C02_examples.ta
                                    C02_examples.b_second) 0) = THit /\
  b_exec (process_target hex_enc C02_examples.cfgA C02_examples.sx 0 C02_examples.ta C02_examples.b_second)
    = b_exec C02_examples.b_second.
Proof. exact C02_examples.hit_if_nonvacuous. Qed.
Print Assumptions C02_hit_if_nonvacuous.

(* an edit of a's input file: a, b, c re-execute, all inside the least cone of {a} *)
Theorem C02_edit_cone_nonvacuous :
  wf_src C02_examples.sx = true /\
  forall lb, In lb (br_exec (build hex_enc C02_examples.cfgA C02_examples.sz [3]
                                   (br_world C02_examples.r1) (br_cache C02_examples.r1))) ->
  exists j t, in_cone C02_examples.sx C02_examples.Ex j /\ In j (selection C02_examples.sz [3]) /\
              node_at C02_examples.sz j = Some (NTarget t) /\ lb = td_label t.
Proof. exact C02_examples.edit_cone_least_nonvacuous. Qed.
Print Assumptions C02_edit_cone_nonvacuous.

Theorem C02_edit_exec_concrete :
  br_exec (build hex_enc C02_examples.cfgA C02_examples.sy [3]
                 (br_world C02_examples.r1) (br_cache C02_examples.r1)) = [C02_examples.Lb ["a"%char]] /\
  br_exec (build hex_enc C02_examples.cfgA C02_examples.sz [3]
                 (br_world C02_examples.r1) (br_cache C02_examples.r1))
    = [C02_examples.Lb ["a"%char]; C02_examples.Lb ["b"%char]; C02_examples.Lb ["c"%char]].
Proof. exact C02_examples.edit_exec_concrete. Qed.
Print Assumptions C02_edit_exec_concrete.

(* a's command text changes but not its outputs: a re-executes, its dependant b is a hit *)
Theorem C02_early_cutoff_nonvacuous :
  rt_status (get_rt (build_state hex_enc C02_examples.cfgA C02_examples.sy [3]
                                 (br_world C02_examples.r1) (br_cache C02_examples.r1)) 1) = THit.
Proof. exact C02_examples.early_cutoff_nonvacuous. Qed.
Print Assumptions C02_early_cutoff_nonvacuous.

Theorem C02_noop_rebuild_nocache_nonvacuous :
  br_exec (build hex_enc C02_examples.cfgA C02_examples.sn [3]
                 (br_world C02_examples.rn1) (br_cache C02_examples.rn1)) = [C02_examples.Lb ["b"%char]] /\
  forall lb, In lb (br_exec (build hex_enc C02_examples.cfgA C02_examples.sn [3]
                                   (br_world C02_examples.rn1) (br_cache C02_examples.rn1))) ->
  exists j t, in_cone C02_examples.sn (is_nocache C02_examples.sn) j /\ In j (selection C02_examples.sn [3]) /\
              node_at C02_examples.sn j = Some (NTarget t) /\ lb = td_label t.
Proof. exact C02_examples.noop_rebuild_nocache_cone_nonvacuous. Qed.
Print Assumptions C02_noop_rebuild_nocache_nonvacuous.

Theorem C02_run_history_cache_complete_nonvacuous :
  no_blob_faults [OpSources C02_examples.sx; OpBuild C02_examples.cfgA [3];
                  OpPerturb ["p";"/";"a";".";"o"]%char PAbsent; OpDropResults;
                  OpBuild C02_examples.cfgA [3]] = true.
Proof. exact C02_examples.run_history_cache_complete_nonvacuous. Qed.
Print Assumptions C02_run_history_cache_complete_nonvacuous.
