(* C09 -- Cache keys are canonical.  Statements only. *)
From Grog Require Import Str Label HashKey HashKey_proofs.

(* equal states (up to declaration / glob / map order) receive equal keys, for every digest
   function; nothing but the state record and the contents of its inputs enters the key
   (no workspace root, time, host, BUILD format or schedule: change_key has no such argument) *)
Theorem C09_order_independent : forall (H : str -> str) fa a fb b,
  state_equiv fa a fb b -> change_key H fa a = change_key H fb b.
Proof. exact key_order_independent. Qed.
Print Assumptions C09_order_independent.

(* equal keys mean the hasher was fed equal byte streams (digest idealised as injective, hex) *)
Theorem C09_equal_keys_equal_streams : forall (H : str -> str),
  (forall x y, H x = H y -> x = y) -> (forall x, ~ In ch_us (H x)) ->
  forall fa a fb b, change_key H fa a = change_key H fb b ->
    encode_def a = encode_def b /\ no_inputs a = no_inputs b /\
    (no_inputs a = false -> encode_files fa a = encode_files fb b).
Proof. exact key_streams. Qed.
Print Assumptions C09_equal_keys_equal_streams.

(* injectivity, guarded: states with decodable elements that differ in at most one of the seven
   definition components and in the content of at most one (existing) input file never share a key *)
Theorem C09_injective_partial : forall (H : str -> str),
  (forall x y, H x = H y -> x = y) -> (forall x, ~ In ch_us (H x)) ->
  forall fa a fb b,
    wf_state a = true -> wf_state b = true ->
    change_key H fa a = change_key H fb b ->
    differ_at_most_one (comps a) (comps b) ->
    NoDup (ts_ins a) ->
    (Permutation (ts_ins a) (ts_ins b) -> files_differ_at_most_one fa fb (ts_ins a)) ->
    state_equiv fa a fb b.
Proof. exact key_single_change_sensitive. Qed.
Print Assumptions C09_injective_partial.

(* the hypotheses on H are satisfiable *)
Theorem C09_digest_hypotheses_nonvacuous :
  (forall x y, hex_enc x = hex_enc y -> x = y) /\ (forall x, ~ In ch_us (hex_enc x)).
Proof. exact (conj hex_enc_inj hex_enc_no_us). Qed.
Print Assumptions C09_digest_hypotheses_nonvacuous.

(* without the guards injectivity is false, whatever the digest function: one witness per class *)
Theorem C09_injective_refuted_label_command :
  collides nofs (mkT (mkLabel (s1 "p") (s1 "a")) ["b"; "c"]%char [] [] [] [] linux)
           nofs (mkT (mkLabel (s1 "p") ["a"; "b"]%char) (s1 "c") [] [] [] [] linux).
Proof. exact collision_label_command. Qed.
Print Assumptions C09_injective_refuted_label_command.

Theorem C09_injective_refuted_separator :
  collides nofs (mkT La [] [] [["a"; ","; "b"]%char] [] [] linux)
           nofs (mkT La [] [] [s1 "a"; s1 "b"] [] [] linux).
Proof. exact collision_separator_in_element. Qed.
Print Assumptions C09_injective_refuted_separator.

Theorem C09_injective_refuted_fingerprint :
  collides nofs (mkT La [] [] [] [] [(s1 "a", ["b"; "="; "c"]%char)] linux)
           nofs (mkT La [] [] [] [] [(["a"; "="; "b"]%char, s1 "c")] linux).
Proof. exact collision_fingerprint_shift. Qed.
Print Assumptions C09_injective_refuted_fingerprint.

Theorem C09_injective_refuted_outputs_deps :
  collides nofs (mkT La [] [] [s1 "x"] [] [] linux) nofs (mkT La [] [] [] [s1 "x"] [] linux).
Proof. exact collision_outputs_deps. Qed.
Print Assumptions C09_injective_refuted_outputs_deps.

Theorem C09_injective_refuted_file_boundary :
  collides fs_xy_z (mkT La [] [s1 "a"; s1 "b"] [] [] [] linux)
           fs_x_yz (mkT La [] [s1 "a"; s1 "b"] [] [] [] linux).
Proof. exact collision_file_boundary. Qed.
Print Assumptions C09_injective_refuted_file_boundary.

Theorem C09_injective_refuted_absent_vs_empty :
  collides nofs (mkT La [] [s1 "a"] [] [] [] linux) fs_a_empty (mkT La [] [s1 "a"] [] [] [] linux).
Proof. exact collision_absent_vs_empty. Qed.
Print Assumptions C09_injective_refuted_absent_vs_empty.

Theorem C09_injective_refuted_alias_dep :
  collides nofs (mkT La [] [] [] [[]] [] linux) nofs (mkT La [] [] [] [] [] linux).
Proof. exact collision_alias_dep_empty. Qed.
Print Assumptions C09_injective_refuted_alias_dep.
