(* C09 -- Cache keys are canonical.  Statements only. *)
From Grog Require Import Str Label HashKey HashKey_proofs.

(* equal states (up to declaration / glob / map order) receive equal keys, for every digest
   function; nothing but the state record and the contents of its inputs enters the key
   (no workspace root, time, host, BUILD format or schedule: change_key has no such argument) *)
Theorem C09_order_independent : forall (H : str -> str) fa a fb b,
  state_equiv fa a fb b -> change_key H fa a = change_key H fb b.
Proof. exact key_order_independent. Qed.
Print Assumptions C09_order_independent.

(* equal keys mean the hasher was fed equal byte streams (digest idealised as injective, hex) *)
Theorem C09_equal_keys_equal_streams : forall (H : str -> str),
  (forall x y, H x = H y -> x = y) -> (forall x, ~ In ch_us (H x)) ->
  forall fa a fb b, change_key H fa a = change_key H fb b ->
    encode_def a = encode_def b /\ no_inputs a = no_inputs b /\
    (no_inputs a = false -> encode_files H fa a = encode_files H fb b).
Proof. exact key_streams. Qed.
Print Assumptions C09_equal_keys_equal_streams.

(* the framed encoding decodes: equal definition streams come from equal definitions *)
Theorem C09_definition_stream_decodes : forall a b, encode_def a = encode_def b ->
  ts_label a = ts_label b /\ ts_cmd a = ts_cmd b /\
  Permutation (ts_ins a) (ts_ins b) /\ Permutation (ts_outs a) (ts_outs b) /\
  Permutation (ts_deps a) (ts_deps b) /\ Permutation (ts_fp a) (ts_fp b) /\
  ts_plat a = ts_plat b.
Proof. exact encode_def_inj. Qed.
Print Assumptions C09_definition_stream_decodes.

(* injectivity at full strength: states that share a key are the same build state (same label,
   command, platform, the same inputs / outputs / dependency contributions / fingerprint entries up
   to order, and the same content -- or absence -- of every input); the only idealisation left is
   the digest *)
Theorem C09_injective : forall (H : str -> str),
  (forall x y, H x = H y -> x = y) -> (forall x, ~ In ch_us (H x)) ->
  forall fa a fb b, change_key H fa a = change_key H fb b -> state_equiv fa a fb b.
Proof. exact key_injective. Qed.
Print Assumptions C09_injective.

(* the hypotheses on H are satisfiable *)
Theorem C09_digest_hypotheses_nonvacuous :
  (forall x y, hex_enc x = hex_enc y -> x = y) /\ (forall x, ~ In ch_us (hex_enc x)).
Proof. exact (conj hex_enc_inj hex_enc_no_us). Qed.
Print Assumptions C09_digest_hypotheses_nonvacuous.

(* ... and the conclusion is not trivial: two different records that are the same build state share
   their key *)
Theorem C09_injective_nonvacuous :
  let a := mkT La (s1 "c") [s1 "i"; s1 "j"] [s1 "o"; s1 "q"] [s1 "d"; s1 "e"] [(s1 "k", s1 "v"); (s1 "l", s1 "w")] linux in
  let b := mkT La (s1 "c") [s1 "j"; s1 "i"] [s1 "q"; s1 "o"] [s1 "e"; s1 "d"] [(s1 "l", s1 "w"); (s1 "k", s1 "v")] linux in
  a <> b /\ change_key hex_enc fs_xy_z a = change_key hex_enc fs_xy_z b /\ state_equiv fs_xy_z a fs_xy_z b.
Proof. exact injective_nonvacuous. Qed.
Print Assumptions C09_injective_nonvacuous.

(* one witness per collision class of the former unframed encoding (C09-F1..F4): the two states now
   receive different keys (digest hex_enc, checked by the kernel) *)
Theorem C09_former_collisions_now_differ :
  keys_differ nofs (mkT (mkLabel (s1 "p") (s1 "a")) ["b"; "c"]%char [] [] [] [] linux)
              nofs (mkT (mkLabel (s1 "p") ["a"; "b"]%char) (s1 "c") [] [] [] [] linux) /\
  keys_differ nofs (mkT (mkLabel ["a"; ":"; "b"]%char (s1 "c")) [] [] [] [] [] linux)
              nofs (mkT (mkLabel (s1 "a") ["b"; ":"; "c"]%char) [] [] [] [] [] linux) /\
  keys_differ nofs (mkT La [] [] [["a"; ","; "b"]%char] [] [] linux)
              nofs (mkT La [] [] [s1 "a"; s1 "b"] [] [] linux) /\
  keys_differ nofs (mkT La [] [] [] [] [(s1 "a", ["b"; "="; "c"]%char)] linux)
              nofs (mkT La [] [] [] [] [(["a"; "="; "b"]%char, s1 "c")] linux) /\
  keys_differ nofs (mkT La [] [] [s1 "x"] [] [] linux) nofs (mkT La [] [] [] [s1 "x"] [] linux) /\
  keys_differ fs_xy_z (mkT La [] [s1 "a"; s1 "b"] [] [] [] linux)
              fs_x_yz (mkT La [] [s1 "a"; s1 "b"] [] [] [] linux) /\
  keys_differ nofs (mkT La [] [s1 "a"] [] [] [] linux) fs_a_empty (mkT La [] [s1 "a"] [] [] [] linux) /\
  keys_differ nofs (mkT La [] [] [] [[]] [] linux) nofs (mkT La [] [] [] [] [] linux) /\
  keys_differ nofs (mkT La [] [] [] [] [(s1 "k", s1 "v")] linux)
              nofs (mkT La [] [] [] [] [(s1 "k", ["v"; "l"; "x"]%char)] None).
Proof. exact former_collisions_now_differ. Qed.
Print Assumptions C09_former_collisions_now_differ.
