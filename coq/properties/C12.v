(* C12 -- Selection is the pattern matches plus their dependency closure, nothing else.
   Only statements, each closed by [exact] of a lemma from Select_proofs.v.
   [select_for_build] mirrors selection.SelectTargetsForBuild (ancestor marking with one visited map,
   platform error); [spec_roots] is the property's reading of a root: a node matched by the pattern
   whose TARGET (an alias stands for the target it resolves to, dag.ResolveTarget) passes the tag /
   exclude-tag / type / platform filters.  Since the repair of C12-F1 this is the code's own rule
   ([roots], C12_roots_are_spec_roots); before it a matched alias was a root without any filter and the
   two full statements below were REFUTED (C12_selection_is_closure_refuted, C12_platform_error_refuted). *)
From Grog Require Import Str Label Graph Select Select_proofs.
From Grog Require Build Build_lift_proofs.

(* the roots the code's selection loop starts from are exactly the roots of the property's reading *)
Theorem C12_roots_are_spec_roots : forall cfg ns g, roots cfg ns g = spec_roots cfg ns g.
Proof. exact roots_eq_spec_roots. Qed.
Print Assumptions C12_roots_are_spec_roots.

Theorem C12_selection_equals_spec_selection : forall cfg ns g,
  select_for_build cfg ns g = select_for_build_spec cfg ns g.
Proof. exact select_for_build_is_spec. Qed.
Print Assumptions C12_selection_equals_spec_selection.

(* full statement: the selection is exactly the reflexive-transitive dependency closure (followed
   through aliases, which are nodes) of the pattern matches whose target passes the filters *)
Theorem C12_selection_is_closure : forall cfg ns g S,
  topo g -> select_for_build cfg ns g = Selected S ->
  forall n, In n S <-> exists r, In r (spec_roots cfg ns g) /\ reach_refl g n r.
Proof. exact selection_is_closure. Qed.
Print Assumptions C12_selection_is_closure.

(* the platform error is raised exactly when a root has a platform-incompatible transitive dependency *)
Theorem C12_platform_error : forall cfg ns g,
  topo g ->
  (select_for_build cfg ns g = PlatformError <->
   exists r n, In r (spec_roots cfg ns g) /\ reach g n r /\ node_matches_platform cfg (attr ns n) = false).
Proof. exact platform_error_iff. Qed.
Print Assumptions C12_platform_error.

(* what a root is, by kind: a target passes its own filters; an alias passes iff its `actual` does *)
Theorem C12_root_target : forall cfg ns g i,
  nkind (attr ns i) = KTarget ->
  spec_rootb cfg ns g i =
  matches_patterns (cpats cfg) (nlabel (attr ns i)) && target_filters cfg (attr ns i)
  && node_matches_platform cfg (attr ns i).
Proof. exact spec_root_target. Qed.
Print Assumptions C12_root_target.

Theorem C12_alias_passes_iff_actual : forall cfg ns g i d, topo g ->
  nkind (attr ns i) = KAlias -> deps g i = [d] -> passes_filters cfg ns g i = passes_filters cfg ns g d.
Proof. exact passes_filters_alias. Qed.
Print Assumptions C12_alias_passes_iff_actual.

(* no target is selected unless it passes the filters itself or a root depends on it: a matched alias
   never brings in a target that fails the filters *)
Theorem C12_selected_target_justified : forall cfg ns g S,
  topo g -> select_for_build cfg ns g = Selected S ->
  forall n, In n S -> nkind (attr ns n) = KTarget ->
  (matches_patterns (cpats cfg) (nlabel (attr ns n)) && target_filters cfg (attr ns n)
   && node_matches_platform cfg (attr ns n) = true) \/
  exists r, In r (spec_roots cfg ns g) /\ reach g n r.
Proof. exact selected_target_justified. Qed.
Print Assumptions C12_selected_target_justified.

(* concrete instances (non-vacuity; the first and the third were the refutation witnesses): --tag=x //... with an
   alias of an untagged target selects the tagged target only; the alias is still selected when a root depends on
   it; an alias of a windows-only target is skipped on linux instead of failing the build *)
Theorem C12_alias_root_filtered :
  topo wit_graph /\ spec_roots wit_cfg wit_nodes wit_graph = [2] /\
  select_for_build wit_cfg wit_nodes wit_graph = Selected [2].
Proof. exact alias_root_filtered. Qed.
Print Assumptions C12_alias_root_filtered.

Theorem C12_alias_followed_as_dependency :
  spec_roots wit_cfg wit_nodes [[]; [0]; [1]] = [2] /\
  select_for_build wit_cfg wit_nodes [[]; [0]; [1]] = Selected [0; 1; 2].
Proof. exact alias_followed_as_dependency. Qed.
Print Assumptions C12_alias_followed_as_dependency.

Theorem C12_alias_platform_skipped :
  spec_roots wit2_cfg wit2_nodes wit_graph = [2] /\
  select_for_build wit2_cfg wit2_nodes wit_graph = Selected [2] /\
  platform_skipped wit2_cfg wit2_nodes wit_graph = 1.
Proof. exact alias_platform_skipped. Qed.
Print Assumptions C12_alias_platform_skipped.

(* a successful selection is closed under dependencies (the precondition C04 uses) *)
Theorem C12_closed : forall cfg ns g S,
  topo g -> select_for_build cfg ns g = Selected S ->
  forall n a, In n S -> reach g a n -> In a S.
Proof. exact selection_closed. Qed.
Print Assumptions C12_closed.

(* never a partial build: everything below a root of a successful selection matches the platform *)
Theorem C12_no_partial_build : forall cfg ns g S,
  topo g -> select_for_build cfg ns g = Selected S ->
  forall r n, In r (spec_roots cfg ns g) -> reach g n r -> node_matches_platform cfg (attr ns n) = true.
Proof. exact selection_platform_ok. Qed.
Print Assumptions C12_no_partial_build.

(* ------------------------------------------------------------------ no other target's command runs (Build.v) *)
(* Every command a build starts belongs to a selected target, and every selected node is a root or
   reachable from a root through dependency edges (aliases are nodes): nothing outside the
   dependency closure of the roots ever runs.  For every digest, snapshot, roots, workspace, cache;
   mode load_outputs=all (in mode minimal the commands re-run for dependency loading belong to
   dependencies of selected targets, which are selected: C12_closed). *)
Theorem C12_only_selected_commands_run : forall (H : Str.str -> Str.str) cfg s roots w c,
  Build.cfg_mode cfg = Build.LAll ->
  forall l, In l (Build.br_exec (Build.build H cfg s roots w c)) ->
  exists i t, i < length (Build.s_nodes s) /\
              existsb (Nat.eqb i) (Build.selection s roots) = true /\
              Build.node_at s i = Some (Build.NTarget t) /\ Build.td_label t = l.
Proof. exact Build_lift_proofs.exec_only_selected. Qed.
Print Assumptions C12_only_selected_commands_run.

Theorem C12_selected_within_closure : forall s roots x,
  In x (Build.selection s roots) -> exists r, In r roots /\ Build_lift_proofs.breach s r x.
Proof. exact Build_lift_proofs.selection_sound. Qed.
Print Assumptions C12_selected_within_closure.
