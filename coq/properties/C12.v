(* C12 -- Selection is the pattern matches plus their dependency closure, nothing else.
   Only statements, each closed by [exact] of a lemma from Select_proofs.v.
   [select_for_build] mirrors selection.SelectTargetsForBuild (recursive ancestor marking
   without a visited set, platform error); [roots] is the code's rule (a matched alias is a
   root without any filter), [spec_roots] the property's reading (the tag / exclude-tag / type /
   platform filters are those of the target a matched node stands for). *)
From Grog Require Import Str Label Graph Select Select_proofs.

(* full statement, property's reading of a root: REFUTED -- a target is selected (and built)
   although no pattern/filter match depends on it (known finding C12-F1: an alias matching the
   pattern is a root whatever the filters say about its target) *)
Theorem C12_selection_is_closure_refuted :
  exists cfg ns g S n,
    topo g /\ wf_graph g /\ select_for_build cfg ns g = Selected S /\
    is_target (attr ns n) = true /\
    ~ (In n S <-> exists r, In r (spec_roots cfg ns g) /\ reach_refl g n r).
Proof. exact closure_full_refuted. Qed.
Print Assumptions C12_selection_is_closure_refuted.

(* strongest true statement 1: with the code's roots (matched aliases included) the selection
   is exactly the reflexive-transitive dependency closure of the roots, for every node *)
Theorem C12_selection_is_closure_partial : forall cfg ns g S,
  topo g -> select_for_build cfg ns g = Selected S ->
  forall n, In n S <-> exists r, In r (roots cfg ns g) /\ reach_refl g n r.
Proof. exact selection_is_closure_code_roots. Qed.
Print Assumptions C12_selection_is_closure_partial.

(* strongest true statement 2: the full statement under the guard "every alias matched by the
   pattern stands for a target that passes the filters" (in particular: no alias is matched) *)
Theorem C12_selection_is_closure_guarded_partial : forall cfg ns g S,
  topo g -> aliases_respect_filters cfg ns g -> select_for_build cfg ns g = Selected S ->
  forall n, In n S <-> exists r, In r (spec_roots cfg ns g) /\ reach_refl g n r.
Proof. exact selection_is_closure_guarded. Qed.
Print Assumptions C12_selection_is_closure_guarded_partial.

(* the full statement holds for the same traversal started from the property's roots
   ([select_for_build_spec]: what a repaired selector computes; the check accepts either variant) *)
Theorem C12_repaired_selection_is_closure : forall cfg ns g S,
  topo g -> select_for_build_spec cfg ns g = Selected S ->
  forall n, In n S <-> exists r, In r (spec_roots cfg ns g) /\ reach_refl g n r.
Proof. exact selection_spec_is_closure. Qed.
Print Assumptions C12_repaired_selection_is_closure.

Theorem C12_repaired_platform_error : forall cfg ns g,
  topo g ->
  (select_for_build_spec cfg ns g = PlatformError <->
   exists r n, In r (spec_roots cfg ns g) /\ reach g n r /\ node_matches_platform cfg (attr ns n) = false).
Proof. exact platform_error_spec_iff. Qed.
Print Assumptions C12_repaired_platform_error.

(* the platform error: full statement REFUTED (an alias of a platform-incompatible target turns
   the platform skip into the error), true for the code's roots and under the guard *)
Theorem C12_platform_error_refuted :
  exists cfg ns g,
    topo g /\ select_for_build cfg ns g = PlatformError /\
    ~ exists r n, In r (spec_roots cfg ns g) /\ reach g n r /\ node_matches_platform cfg (attr ns n) = false.
Proof. exact platform_error_full_refuted. Qed.
Print Assumptions C12_platform_error_refuted.

Theorem C12_platform_error_partial : forall cfg ns g,
  topo g ->
  (select_for_build cfg ns g = PlatformError <->
   exists r n, In r (roots cfg ns g) /\ reach g n r /\ node_matches_platform cfg (attr ns n) = false).
Proof. exact platform_error_iff. Qed.
Print Assumptions C12_platform_error_partial.

Theorem C12_platform_error_guarded_partial : forall cfg ns g,
  topo g -> aliases_respect_filters cfg ns g ->
  (select_for_build cfg ns g = PlatformError <->
   exists r n, In r (spec_roots cfg ns g) /\ reach g n r /\ node_matches_platform cfg (attr ns n) = false).
Proof. exact platform_error_guarded. Qed.
Print Assumptions C12_platform_error_guarded_partial.

(* a successful selection is closed under dependencies (the precondition C04 uses) *)
Theorem C12_closed : forall cfg ns g S,
  topo g -> select_for_build cfg ns g = Selected S ->
  forall n a, In n S -> reach g a n -> In a S.
Proof. exact selection_closed. Qed.
Print Assumptions C12_closed.

(* never a partial build: everything below a root of a successful selection matches the platform *)
Theorem C12_no_partial_build : forall cfg ns g S,
  topo g -> select_for_build cfg ns g = Selected S ->
  forall r n, In r (roots cfg ns g) -> reach g n r -> node_matches_platform cfg (attr ns n) = true.
Proof. exact selection_platform_ok. Qed.
Print Assumptions C12_no_partial_build.
