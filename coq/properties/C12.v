(* C12 -- Selection is the pattern matches plus their dependency closure, nothing else.
   Only statements, each closed by [exact] of a lemma from Select_proofs.v.
   [select_for_build] mirrors selection.SelectTargetsForBuild (recursive ancestor marking
   without a visited set, platform error); [roots] is the code's rule (a matched alias is a
   root without any filter), [spec_roots] the property's reading (the tag / exclude-tag / type /
   platform filters are those of the target a matched node stands for). *)
From Grog Require Import Str Label Graph Select Select_proofs.
From Grog Require Build Build_lift_proofs.

(* full statement, property's reading of a root: REFUTED -- a target is selected (and built)
   although no pattern/filter match depends on it (known finding C12-F1: an alias matching the
   pattern is a root whatever the filters say about its target) *)
Theorem C12_selection_is_closure_refuted :
  exists cfg ns g S n,
    topo g /\ wf_graph g /\ select_for_build cfg ns g = Selected S /\
    is_target (attr ns n) = true /\
    ~ (In n S <-> exists r, In r (spec_roots cfg ns g) /\ reach_refl g n r).
Proof. exact closure_full_refuted. Qed.
Print Assumptions C12_selection_is_closure_refuted.

(* strongest true statement 1: with the code's roots (matched aliases included) the selection
   is exactly the reflexive-transitive dependency closure of the roots, for every node *)
Theorem C12_selection_is_closure_partial : forall cfg ns g S,
  topo g -> select_for_build cfg ns g = Selected S ->
  forall n, In n S <-> exists r, In r (roots cfg ns g) /\ reach_refl g n r.
Proof. exact selection_is_closure_code_roots. Qed.
Print Assumptions C12_selection_is_closure_partial.

(* strongest true statement 2: the full statement under the guard "every alias matched by the
   pattern stands for a target that passes the filters" (in particular: no alias is matched) *)
Theorem C12_selection_is_closure_guarded_partial : forall cfg ns g S,
  topo g -> aliases_respect_filters cfg ns g -> select_for_build cfg ns g = Selected S ->
  forall n, In n S <-> exists r, In r (spec_roots cfg ns g) /\ reach_refl g n r.
Proof. exact selection_is_closure_guarded. Qed.
Print Assumptions C12_selection_is_closure_guarded_partial.

(* the full statement holds for the same traversal started from the property's roots
   ([select_for_build_spec]: what a repaired selector computes; the check accepts either variant) *)
Theorem C12_repaired_selection_is_closure : forall cfg ns g S,
  topo g -> select_for_build_spec cfg ns g = Selected S ->
  forall n, In n S <-> exists r, In r (spec_roots cfg ns g) /\ reach_refl g n r.
Proof. exact selection_spec_is_closure. Qed.
Print Assumptions C12_repaired_selection_is_closure.

Theorem C12_repaired_platform_error : forall cfg ns g,
  topo g ->
  (select_for_build_spec cfg ns g = PlatformError <->
   exists r n, In r (spec_roots cfg ns g) /\ reach g n r /\ node_matches_platform cfg (attr ns n) = false).
Proof. exact platform_error_spec_iff. Qed.
Print Assumptions C12_repaired_platform_error.

(* the platform error: full statement REFUTED (an alias of a platform-incompatible target turns
   the platform skip into the error), true for the code's roots and under the guard *)
Theorem C12_platform_error_refuted :
  exists cfg ns g,
    topo g /\ select_for_build cfg ns g = PlatformError /\
    ~ exists r n, In r (spec_roots cfg ns g) /\ reach g n r /\ node_matches_platform cfg (attr ns n) = false.
Proof. exact platform_error_full_refuted. Qed.
Print Assumptions C12_platform_error_refuted.

Theorem C12_platform_error_partial : forall cfg ns g,
  topo g ->
  (select_for_build cfg ns g = PlatformError <->
   exists r n, In r (roots cfg ns g) /\ reach g n r /\ node_matches_platform cfg (attr ns n) = false).
Proof. exact platform_error_iff. Qed.
Print Assumptions C12_platform_error_partial.

Theorem C12_platform_error_guarded_partial : forall cfg ns g,
  topo g -> aliases_respect_filters cfg ns g ->
  (select_for_build cfg ns g = PlatformError <->
   exists r n, In r (spec_roots cfg ns g) /\ reach g n r /\ node_matches_platform cfg (attr ns n) = false).
Proof. exact platform_error_guarded. Qed.
Print Assumptions C12_platform_error_guarded_partial.

(* a successful selection is closed under dependencies (the precondition C04 uses) *)
Theorem C12_closed : forall cfg ns g S,
  topo g -> select_for_build cfg ns g = Selected S ->
  forall n a, In n S -> reach g a n -> In a S.
Proof. exact selection_closed. Qed.
Print Assumptions C12_closed.

(* never a partial build: everything below a root of a successful selection matches the platform *)
Theorem C12_no_partial_build : forall cfg ns g S,
  topo g -> select_for_build cfg ns g = Selected S ->
  forall r n, In r (roots cfg ns g) -> reach g n r -> node_matches_platform cfg (attr ns n) = true.
Proof. exact selection_platform_ok. Qed.
Print Assumptions C12_no_partial_build.

(* ------------------------------------------------------------------ no other target's command runs (Build.v) *)
(* Every command a build starts belongs to a selected target, and every selected node is a root or
   reachable from a root through dependency edges (aliases are nodes): nothing outside the
   dependency closure of the roots ever runs.  For every digest, snapshot, roots, workspace, cache;
   mode load_outputs=all (in mode minimal the commands re-run for dependency loading belong to
   dependencies of selected targets, which are selected: C12_closed). *)
Theorem C12_only_selected_commands_run : forall (H : Str.str -> Str.str) cfg s roots w c,
  Build.cfg_mode cfg = Build.LAll ->
  forall l, In l (Build.br_exec (Build.build H cfg s roots w c)) ->
  exists i t, i < length (Build.s_nodes s) /\
              existsb (Nat.eqb i) (Build.selection s roots) = true /\
              Build.node_at s i = Some (Build.NTarget t) /\ Build.td_label t = l.
Proof. exact Build_lift_proofs.exec_only_selected. Qed.
Print Assumptions C12_only_selected_commands_run.

Theorem C12_selected_within_closure : forall s roots x,
  In x (Build.selection s roots) -> exists r, In r roots /\ Build_lift_proofs.breach s r x.
Proof. exact Build_lift_proofs.selection_sound. Qed.
Print Assumptions C12_selected_within_closure.
