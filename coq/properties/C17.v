(* C17 -- Labels and patterns follow the documented algebra.
   Only statements, each closed by [exact] of a lemma from Label_proofs.v. *)
From Grog Require Import Str Label Label_proofs.

(* Parsing a printed label returns the same label (absolute labels: no guard) *)
Theorem C17_label_roundtrip_abs : forall cur s l,
  has_prefix dslash s = true -> parse_label cur s = Some l ->
  forall cur', parse_label cur' (print_label l) = Some l.
Proof. exact label_roundtrip_abs. Qed.
Print Assumptions C17_label_roundtrip_abs.

(* any label, relative ones included, as long as the current package path has no ':' *)
Theorem C17_label_roundtrip : forall cur s l,
  parse_label cur s = Some l -> ~ In ch_colon (lpkg l) ->
  forall cur', parse_label cur' (print_label l) = Some l.
Proof. exact label_roundtrip. Qed.
Print Assumptions C17_label_roundtrip.

(* //a/b means //a/b:b *)
Theorem C17_shorthand : forall cur p,
  ~ In ch_colon p ->
  parse_label cur (dslash ++ p) = parse_label cur (dslash ++ p ++ ch_colon :: after_last ch_slash p).
Proof. exact label_shorthand. Qed.
Print Assumptions C17_shorthand.

(* :x resolves against the current package *)
Theorem C17_relative : forall cur x,
  parse_label cur (ch_colon :: x) =
  if valid_name x then Some (mkLabel (if str_eqb cur [ch_dot] then [] else cur) x) else None.
Proof. exact label_relative. Qed.
Print Assumptions C17_relative.

(* a recursive pattern matches at path-component boundaries only *)
Theorem C17_recursive_boundary : forall cur pre l,
  plain_pkg pre -> pre <> [] ->
  exists p, parse_pattern cur (dslash ++ pre ++ ch_slash :: ellipsis) = Some p /\
    (matches p l = true <-> lpkg l = pre \/ exists r, lpkg l = pre ++ ch_slash :: r).
Proof. exact recursive_pattern_boundary. Qed.
Print Assumptions C17_recursive_boundary.

Theorem C17_never_sibling : forall p l c r,
  prec p = true -> pprefix p <> [] -> lpkg l = pprefix p ++ c :: r -> c <> ch_slash ->
  matches p l = false.
Proof. exact matches_never_sibling. Qed.
Print Assumptions C17_never_sibling.

Theorem C17_matches_recursive : forall p l,
  prec p = true ->
  (matches p l = true <->
   (pprefix p = [] \/ lpkg l = pprefix p \/ exists r, lpkg l = pprefix p ++ ch_slash :: r)
   /\ name_ok p l).
Proof. exact matches_recursive. Qed.
Print Assumptions C17_matches_recursive.

(* //p:all matches exactly package p *)
Theorem C17_all_exact_package : forall cur pre l,
  plain_pkg pre ->
  exists p, parse_pattern cur (dslash ++ pre ++ ch_colon :: all_lit) = Some p /\
    (matches p l = true <-> lpkg l = pre).
Proof. exact all_pattern_exact_package. Qed.
Print Assumptions C17_all_exact_package.

(* a name suffix restricts by exact target name *)
Theorem C17_name_exact : forall cur pre n l,
  plain_pkg pre -> n <> [] -> n <> all_lit -> n <> ellipsis ->
  exists p, parse_pattern cur (dslash ++ pre ++ ch_colon :: n) = Some p /\
    (matches p l = true <-> lpkg l = pre /\ lname l = n).
Proof. exact name_pattern_exact. Qed.
Print Assumptions C17_name_exact.

Theorem C17_recursive_name_exact : forall cur pre n l,
  plain_pkg pre -> pre <> [] -> n <> [] -> n <> all_lit -> n <> ellipsis ->
  exists p, parse_pattern cur (dslash ++ pre ++ ch_slash :: ellipsis ++ ch_colon :: n) = Some p /\
    (matches p l = true <->
     (lpkg l = pre \/ exists r, lpkg l = pre ++ ch_slash :: r) /\ lname l = n).
Proof. exact recursive_name_pattern. Qed.
Print Assumptions C17_recursive_name_exact.

(* printing then re-parsing a pattern preserves the set of labels it matches: every absolute
   pattern, and every relative one read in a current package that is a package path
   (no ':', no "...", no trailing slash -- what filepath.Rel produces) *)
Theorem C17_pattern_reparse : forall cur s p,
  parse_pattern cur s = Some p -> has_prefix dslash s = true \/ pkg_ok cur = true ->
  forall cur', exists p', parse_pattern cur' (print_pattern p) = Some p' /\
    forall l, matches p' l = matches p l.
Proof. exact pattern_reparse_matches. Qed.
Print Assumptions C17_pattern_reparse.

(* absolute patterns (the parser strips every trailing slash of the package part): no guard,
   and the re-parsed pattern is the same pattern *)
Theorem C17_pattern_reparse_abs : forall cur s p,
  has_prefix dslash s = true -> parse_pattern cur s = Some p ->
  forall cur', parse_pattern cur' (print_pattern p) = Some p.
Proof. exact pattern_reparse_abs. Qed.
Print Assumptions C17_pattern_reparse_abs.

(* ---- pattern lists (ParsePatternsOrMatchAll, GetMatchAllTargetPattern, TargetPatternFromLabel) *)

(* what a command line selects: a label is selected iff one of the arguments, parsed on its own
   in the current package, matches it; an empty argument list selects every label; one bad
   argument rejects the whole list *)
Theorem C17_pattern_list_selects : forall cur ss ps l,
  parse_patterns_or_all cur ss = Some ps ->
  (matches_any ps l = true <->
   ss = [] \/ exists s p, In s ss /\ parse_pattern cur s = Some p /\ matches p l = true).
Proof. exact patterns_or_all_selects. Qed.
Print Assumptions C17_pattern_list_selects.

Theorem C17_pattern_list_rejects : forall cur ss,
  ss <> [] ->
  (parse_patterns_or_all cur ss = None <-> exists s, In s ss /\ parse_pattern cur s = None).
Proof.
  intros cur ss Hne. rewrite (patterns_or_all_nonempty cur ss Hne). apply parse_patterns_rejects.
Qed.
Print Assumptions C17_pattern_list_rejects.

Theorem C17_pattern_list_pointwise : forall cur ss ps,
  ss <> [] ->
  (parse_patterns_or_all cur ss = Some ps <->
   Forall2 (fun s p => parse_pattern cur s = Some p) ss ps).
Proof.
  intros cur ss ps Hne. rewrite (patterns_or_all_nonempty cur ss Hne). apply parse_patterns_pointwise.
Qed.
Print Assumptions C17_pattern_list_pointwise.

(* the pattern made from a label selects exactly that label -- for every valid name but the
   reserved word "all", where it is the package wildcard (kernel-checked witness) *)
Theorem C17_pattern_of_label_exact : forall l l',
  valid_name (lname l) = true -> lname l <> all_lit ->
  (matches (pattern_of_label l) l' = true <-> l' = l).
Proof. exact pattern_of_label_exact. Qed.
Print Assumptions C17_pattern_of_label_exact.

Theorem C17_pattern_of_label_all_refuted :
  exists l l', l' <> l /\ matches (pattern_of_label l) l' = true.
Proof. exact pattern_of_label_all_refuted. Qed.
Print Assumptions C17_pattern_of_label_all_refuted.

Example C17_pattern_list_nonvacuous :
  exists ps, parse_patterns_or_all ["a"%char]
               [[ch_slash; ch_slash; "p"%char; ch_slash; ch_dot; ch_dot; ch_dot];
                [ch_colon; "t"%char]] = Some ps /\
             matches_any ps (mkLabel ["p"%char; ch_slash; "q"%char] ["x"%char]) = true /\
             matches_any ps (mkLabel ["a"%char] ["t"%char]) = true /\
             matches_any ps (mkLabel ["a"%char] ["u"%char]) = false.
Proof. eexists; split; [vm_compute; reflexivity | vm_compute; repeat split]. Qed.
Print Assumptions C17_pattern_list_nonvacuous.

Theorem C17_parsed_label_pattern_exact : forall cur s l l',
  parse_label cur s = Some l -> lname l <> all_lit ->
  (matches (pattern_of_label l) l' = true <-> l' = l).
Proof. exact parsed_label_pattern_exact. Qed.
Print Assumptions C17_parsed_label_pattern_exact.
