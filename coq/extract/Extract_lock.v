(* Extraction of the lock model (engine `lock`, property C10).  ExtrOcamlBasic only. *)
From Coq Require Import ExtrOcamlBasic.
From Coq Require Import Ascii.
From Grog Require Import Lock.
Extraction Language OCaml.
Extraction "model.ml" Lock.step Lock.run Lock.mk_init Lock.next_event Lock.holds_b
  Lock.remove_of_unexamined_inode Lock.actor
  Lock.w1_sched Lock.w2_sched
  Ascii.eqb (* only so that model.ml defines [ascii], which the shared ocaml/wire.ml mentions *).
