(* Extraction of the loader model (C16).  ExtrOcamlBasic only.  Run with coqc from the
   directory that receives the files. *)
From Coq Require Import ExtrOcamlBasic.
From Grog Require Import Str Label Loader.
Extraction Language OCaml.
Extraction "model.ml" Loader.scan_makefile_file Loader.scan_script_file Loader.mk_guard
  Loader.split_lines Loader.trim_space Loader.enrich Loader.merge_all Loader.load_all
  Loader.empty_annot Loader.parse_output.
