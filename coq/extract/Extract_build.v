(* Extraction of the build-history model (Build.v).  ExtrOcamlBasic only. *)
From Coq Require Import ExtrOcamlBasic.
From Grog Require Import Str Label HashKey Build Build_ideal Build_keyfaith.
Extraction Language OCaml.
Extraction "model.ml" Build.run_history Build.clean_build Build.build Build.selection Build.sys0
  Build_ideal.snaps Build_keyfaith.snaps_okb.
