(* Extraction of the executable models.  ExtrOcamlBasic only: nat, N, positive, ascii stay
   the extracted inductives.  Run with coqc from the directory that receives the files. *)
From Coq Require Import ExtrOcamlBasic.
From Grog Require Import Str Label HashKey.
Extraction Language OCaml.
Extraction "model.ml" Label.parse_label Label.print_label Label.parse_pattern
  Label.print_pattern Label.matches Label.parse_patterns_or_all Label.matches_any
  HashKey.encode_def HashKey.encode_files HashKey.no_inputs
  HashKey.output_hash HashKey.nocache_output_hash.
