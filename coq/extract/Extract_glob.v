(* Extraction of the input-pattern model (engine `glob`: glob stage of C01/C02).  ExtrOcamlBasic only. *)
From Coq Require Import ExtrOcamlBasic.
From Grog Require Import Str Glob.
Extraction Language OCaml.
Extraction "model.ml" Glob.parse Glob.matches Glob.smatch Glob.is_glob Glob.covered Glob.resolve_inputs
  Glob.resolve_ok Glob.has_meta.
