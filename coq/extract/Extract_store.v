(* Extraction of the executable store model (engine `store`, properties C07 and C08).
   ExtrOcamlBasic only.  Run with coqc from the directory that receives the files. *)
From Coq Require Import ExtrOcamlBasic.
From Grog Require Import Str Store.
Extraction Language OCaml.
Extraction "model.ml" Store.lookup Store.boot Store.visible Store.run_store Store.exec
  Store.per_target_lists Store.merge_by Store.set_steps Store.refs_csv
  Store.empty_world Store.do_op Store.run_ops Store.run_trace Store.publish Store.local_sub_remote.
