(* Extraction of the executable models of engine `select` (C12, C19, C20).  ExtrOcamlBasic only:
   nat, ascii stay the extracted inductives.  Run with coqc from the directory that receives
   the files. *)
From Coq Require Import ExtrOcamlBasic.
From Grog Require Import Str Label Graph Select.
Extraction Language OCaml.
Extraction "model.ml" Label.parse_label Label.print_label Label.parse_patterns_or_all Label.parse_patterns
  Graph.chain Graph.ladder Graph.topob Graph.wf_graphb Graph.deps Graph.dependants
  Select.select_for_build Select.select_for_build_spec Select.selected_count Select.platform_skipped Select.select_targets
  Select.spec_roots Select.roots
  Select.ancestors_paths Select.descendants_paths Select.ancestors_set Select.descendants_set
  Select.ancestors_paths_c Select.descendants_paths_c Select.select_marks_c
  Select.select_paths_cost Select.ancestors_paths_cost Select.descendants_paths_cost
  Select.select_visited Select.ancestors_visited Select.descendants_visited
  Select.select_visited_cost Select.ancestors_visited_cost Select.descendants_visited_cost
  Select.edges
  Select.deps_query Select.rdeps_query Select.deps_query_dedup Select.rdeps_query_dedup
  Select.owners Select.owners_verbatim Select.list_query.
