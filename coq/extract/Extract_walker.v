(* Extraction of the scheduler model (engine `walker`, properties C03/C04/C05/C18).
   ExtrOcamlBasic only: nat stays unary.  Run with coqc from the directory that receives the files. *)
From Coq Require Import ExtrOcamlBasic.
From Coq Require Import Ascii.
From Grog Require Import Graph Walker.
Extraction Language OCaml.
Extraction "model.ml" Walker.step Walker.init Walker.run Walker.enabled Walker.enabledb
  Walker.terminalb Walker.settledb Walker.running Walker.closed Walker.inner_cancelled
  Walker.all_final Walker.mu Walker.desc Graph.topob Graph.wf_graphb
  Ascii.eqb (* only so that model.ml defines [ascii], which the shared ocaml/wire.ml mentions *).
