(* Extraction of the `analysis` engine (C11): Path.v + Analysis.v.  ExtrOcamlBasic only. *)
From Coq Require Import ExtrOcamlBasic.
From Grog Require Import Str Label Path Analysis.
Extraction Language OCaml.
Extraction "model.ml" Path.clean Path.join_path Path.is_abs Path.tries_to_escape Path.path_within
  Path.paths_overlap Path.clean_output_path Path.is_within_workspace Path.split_slash
  Path.resolve Path.location
  Analysis.validate Analysis.classes Analysis.graph_classes Analysis.constraint_classes
  Analysis.find_cycle Analysis.ordered Analysis.records.
