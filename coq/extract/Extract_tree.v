(* Extraction of the executable output-handler model (engine `tree`: C06, restore part of C04).
   ExtrOcamlBasic only.  H / ser_dir / ser_tree are instantiated in Tree.v by the injective
   stand-ins Hid / enc_dir / enc_tree (x_* definitions): the tie compares structure, not digests. *)
From Coq Require Import ExtrOcamlBasic.
From Grog Require Import Str Tree.
Extraction Language OCaml.
Extraction "model.ml" Tree.x_write_tree Tree.x_load_tree Tree.x_fetch_tree Tree.x_file_write
  Tree.x_file_load Tree.x_tree_msg_of Tree.x_load_failures Tree.x_file_key Tree.cas_del Tree.cas_get
  Tree.wf_treeb Tree.names_ok Tree.normalise Tree.depth Tree.file_restore_exec
  Tree.utf8_valid.
