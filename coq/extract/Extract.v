(* Extraction of the executable models.  ExtrOcamlBasic only: nat, N, positive, ascii stay
   the extracted inductives.  Run with coqc from the directory that receives the files. *)
From Coq Require Import ExtrOcamlBasic.
From Grog Require Import Str Label.
Extraction Language OCaml.
Extraction "model.ml" Label.parse_label Label.print_label Label.parse_pattern
  Label.print_pattern Label.matches Label.parse_patterns_or_all Label.matches_any.
