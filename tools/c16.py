"""C16 -- BUILD loaders agree across formats, are deterministic, and never crash.

Oracles (all evaluated on what the real code did):
  (1) cross-format: a generated package rendered to JSON, YAML, Starlark and -- for the
      expressible projection -- Makefile annotations loads (LoadIfMatched + getEnrichedPackage,
      the worker body of load.go) to the same canonical dump, and to Loader.enrich of the
      generator's DTO (model);
  (2) determinism: one workspace, num_workers in {1,2,16}, directories re-created in shuffled
      order -> identical dump; Loader.merge_all / load_all for permuted fragment orders;
  (3) robustness: corrupted renderings and hand-written nasties -> ok/error, never panic/hang;
      the Makefile/script scanners are also compared with the model's ok/error/panic prediction;
  (4) CLI: `grog graph -o json` agrees across formats; corrupt files give a non-zero exit and no
      Go panic trace.
Partial by nature: encoding/json, yaml.v3 and starlark are third-party decoders; they are
covered by (1) and (3) only, not by any theorem.

Loader.v mirrors the loaders WITH the repairs of C16-F1 (an empty '# @grog' block is skipped), C16-F2
(Makefile annotations deliver fingerprint / platforms / timeout / environment_variables) and C16-F4 (a
null entry in a targets / aliases list is an error): the model never predicts a panic, and a tree
without one of these repairs fails the corresponding comparison.
Known-finding classes (only those still listed in known_findings.txt and not named in the environment
variable C16_IGNORE_FINDINGS=F1,F2,...), each evaluated on the failing input: makefile-bare-annotation-panic
(Loader.mk_guard = false on the file's lines), makefile-drops-fields (the Makefile result equals the
BUILD.json result of the package without the four fields), starlark-unbounded-execution (confirmed
hang of a BUILD.star containing an iteration construct), null-list-element-panic (the real decoder
delivers a nil entry in Targets / Aliases).
The extracted model is quadratic in the line length (List.rev), so the bufio token-too-long
boundary is compared with a token limit of 300 on both sides (bufio.Scanner.Buffer in the harness,
[maxlen] in Loader.split_lines); real-size long lines go through the robustness part only."""
import hashlib, json, os, re, shutil, subprocess, time
from concurrent.futures import ThreadPoolExecutor
import vlib
from vlib import hx, unhx

LEVEL = "proof"
TRUSTED = ("third-party decoders (encoding/json, yaml.v3, go.starlark.net, doublestar, time.ParseDuration) enter the model "
           "as oracle parameters; their agreement across formats is established by differential testing only",)
INJECT = {os.path.join(vlib.REPO, "internal", "loading", "zz_verif_export.go"):
          os.path.join(vlib.HARNESS, "loader", "inject", "zz_verif_export.go")}

def load_findings():
    """known findings of C16 by class; C16_IGNORE_FINDINGS=F1,F4 (or C16-F1,...) drops entries, so that a
    tree that still has the defect is reported as a VIOLATION (used to test the check itself)"""
    ign = {x.strip().upper().replace("C16-", "") for x in os.environ.get("C16_IGNORE_FINDINGS", "").split(",") if x.strip()}
    return {f["class"]: f for f in vlib.known_findings("C16") if f["id"].upper().replace("C16-", "") not in ign}


# ------------------------------------------------------------------ generator
FILES = ["src/a.txt", "src/b.txt", "src/sub/c.txt", "src/sub/d.md", "e.txt", "f.md", "src/sub/deep/g.txt"]
IN_LIT = ["e.txt", "src/a.txt", "missing.txt", "f.md", "src/sub/c.txt"]
IN_GLOB = ["*.txt", "src/*.txt", "src/**/*.txt", "**/*.md", "src/**", "*.nomatch", "{e,f}.*", "src/?.txt", "[ef].*", "src/sub/**/*"]
EXCL = ["src/b.txt", "**/*.md", "src/sub/*", "e.txt", "*.nomatch", "src/**/g.txt", "missing.txt"]
BAD_GLOB = "[***"
OUT_OK = ["out.txt", "dist/bundle.js", "dir::dist", "docker::img:tag", "file::x.bin", "dir::a::b", "file::", "o ut.txt"]
OUT_BAD = ["weird::x", "::x", "a::b::c", "File::x"]
BIN_OK = ["bin/tool", "file::bin/t2"]
BIN_BAD = ["dir::bin", "docker::x", "bad::x"]
NAMES = ["a", "b", "build", "test_x", "x-1", "lib.so", "T", "gen"]
ODD_NAMES = ["", "a b", "x:y", "...", "é"]
TAGS = ["no-cache", "testonly", "t1", "multiplatform-cache", "a b", "x,y"]
PLATS = [None, None, None, [], ["linux/amd64"], ["linux/amd64", "darwin/arm64"]]
TIMEOUTS_OK = [("1s", 10**9), ("250ms", 25 * 10**7), ("1h2m", 3720 * 10**9), ("1.5s", 15 * 10**8), ("0", 0), ("2m30s", 150 * 10**9)]
TIMEOUTS_BAD = ["abc", "10", "1 s", "s"]
STRS = ["echo hi", 'echo "q" && ls', "multi\nline", "tab\there", "uni é 雪", "back\\slash", "hash # not comment",
        "colon: value", "'single'", "{brace}", "", "  lead and trail  ", "- dash", "true", "123", "null", "a\n", "%s $X `y`",
        "[x]", "k=v", "@at", "!bang", "|pipe", ">gt", "*star", "&amp", "?q", "~"]
PKG_PATHS = ["pkg", "a/b/c", ".", "x_y/z-1"]


def gen_str(rng):
    return rng.choice(STRS)


def gen_dep(rng, names):
    k = rng.below(10)
    own = rng.choice(names) if names else "a"
    if own == "" or not re.match(r"^[A-Za-z0-9_.-]+$", own) or own == "...":
        own = "a"
    if k < 4:
        return ":" + own
    if k < 6:
        return "//other/pkg:" + rng.choice(NAMES)
    if k < 8:
        return "//other/" + rng.choice(NAMES)
    return "//:" + own


def gen_target(rng, name, names, wild):
    """wild: allow values that make enrichment fail"""
    t = {"name": name, "command": gen_str(rng)}
    if rng.chance(1, 2):
        t["dependencies"] = [gen_dep(rng, names) for _ in range(1 + rng.below(3))]
        if wild and rng.chance(1, 12):
            t["dependencies"].append(rng.choice([":", "bad", "//a:b:c", "//", "//x:", ":a b"]))
    if rng.chance(2, 3):
        ins = [rng.choice(IN_LIT + IN_GLOB + IN_GLOB) for _ in range(1 + rng.below(4))]
        if wild and rng.chance(1, 15):
            ins.append(BAD_GLOB)
        t["inputs"] = ins
        if rng.chance(1, 2):
            t["exclude_inputs"] = [rng.choice(EXCL) for _ in range(1 + rng.below(2))]
            if wild and rng.chance(1, 15):
                t["exclude_inputs"].append(BAD_GLOB)
    if rng.chance(2, 3):
        t["outputs"] = [rng.choice(OUT_OK) for _ in range(1 + rng.below(3))]
        if wild and rng.chance(1, 10):
            t["outputs"].append(rng.choice(OUT_BAD))
    if rng.chance(1, 3):
        t["bin_output"] = rng.choice(BIN_BAD) if wild and rng.chance(1, 6) else rng.choice(BIN_OK)
    if rng.chance(1, 2):
        t["tags"] = rng.sample(TAGS, 1 + rng.below(3))
    if rng.chance(1, 2):
        t["fingerprint"] = {k: gen_str(rng) for k in rng.sample(["k1", "k 2", "K:3", "z", "a"], 1 + rng.below(3))}
    p = rng.choice(PLATS)
    if p is not None:
        t["platforms"] = list(p)
    if rng.chance(1, 2):
        t["environment_variables"] = {k: gen_str(rng) for k in rng.sample(["A", "B_C", "PATH", "x"], 1 + rng.below(2))}
    if rng.chance(1, 2):
        t["timeout"] = rng.choice(TIMEOUTS_BAD) if wild and rng.chance(1, 8) else rng.choice(TIMEOUTS_OK)[0]
    if rng.chance(1, 5):
        t["output_checks"] = [{"command": gen_str(rng), "expected_output": gen_str(rng)} for _ in range(1 + rng.below(2))]
    return t


def gen_package(rng, wild=True, big=False):
    n = 1 + rng.below(5)
    names = rng.sample(NAMES, n)
    if big:
        # a package file larger than any scanner / reader buffer (4 KiB, 64 KiB): every loader must still deliver every target
        n = 40 + rng.below(90)
        names = ["t%03d" % k for k in range(n)]
    if wild and rng.chance(1, 10):
        names[rng.below(n)] = rng.choice(ODD_NAMES)
    if wild and n > 1 and rng.chance(1, 12):
        names[0] = names[1]            # duplicate target name
    d = {"targets": [gen_target(rng, nm, names, wild) for nm in names]}
    if wild and rng.chance(1, 14):
        d["targets"].insert(rng.below(n + 1), None)        # a null list element (nil *TargetDTO)
    if rng.chance(1, 2):
        free = [x for x in NAMES + ["default", "al"] if x not in names]
        als = []
        for _ in range(1 + rng.below(2)):
            nm = rng.choice(free)
            if wild and rng.chance(1, 10):
                nm = rng.choice(names)  # alias colliding with a target
            als.append({"name": nm, "actual": gen_dep(rng, names)})
        if wild and rng.chance(1, 15):
            als.append({"name": "dup", "actual": ":a"})
            als.append({"name": "dup", "actual": ":b"})
        if wild and rng.chance(1, 15):
            als[0]["actual"] = "nolabel"
        if wild and rng.chance(1, 14):
            als.insert(rng.below(len(als) + 1), None)      # a null list element (nil *AliasDTO)
        d["aliases"] = als
    if rng.chance(1, 6):
        d["default_platforms"] = rng.choice([[], ["linux/arm64"], ["darwin/amd64", "linux/amd64"]])
    return d


def mk_projection(d):
    """The part of a package that Makefile annotations can express: command = make <goal>;
    no exclude_inputs, bin_output, output_checks, aliases, default_platforms (not in the
    annotation schema).  fingerprint/platforms/timeout/environment_variables ARE in the schema."""
    ts = []
    for i, t in enumerate(d["targets"]):
        if t is None:
            return None               # annotations cannot say "null entry"
        goal = "goal%d" % i if not re.match(r"^[A-Za-z][A-Za-z0-9_.-]*$", t["name"]) else t["name"]
        if t["name"] == "":
            return None               # an empty annotation name means "use the goal": not the same package
        nt = {k: v for k, v in t.items() if k in ("name", "dependencies", "inputs", "outputs", "tags", "fingerprint",
                                                   "platforms", "environment_variables", "timeout")}
        nt["command"] = "make " + goal
        nt["_goal"] = goal
        ts.append(nt)
    return {"targets": ts}


def strip_private(d):
    return {"targets": [None if t is None else {k: v for k, v in t.items() if not k.startswith("_")} for t in d["targets"]],
            **{k: v for k, v in d.items() if k != "targets"}}


def has_null(d):
    return any(t is None for t in d.get("targets", [])) or any(a is None for a in d.get("aliases", []))


# ------------------------------------------------------------------ renderers
def shuffled_items(rng, m):
    return rng.shuffle(list(m.items()))


def render_json(rng, d):
    def obj(m):
        return "{" + ", ".join(json.dumps(k) + ": " + val(v) for k, v in shuffled_items(rng, m)) + "}"

    def val(v):
        if v is None:
            return "null"
        if isinstance(v, dict):
            return obj(v)
        if isinstance(v, list):
            return "[" + ", ".join(val(x) for x in v) + "]"
        return json.dumps(v, ensure_ascii=rng.chance(1, 2))
    return obj(strip_private(d)) + "\n"


YAML_PLAIN = re.compile(r"^[A-Za-z_/][A-Za-z0-9_/.-]*$")
YAML_RESERVED = {"y", "n", "yes", "no", "true", "false", "null", "on", "off"}


def yaml_scalar(rng, s):
    if YAML_PLAIN.fullmatch(s) and s.lower() not in YAML_RESERVED and rng.chance(1, 2):
        return s
    if rng.chance(1, 3) and all(32 <= ord(c) < 127 for c in s):
        return "'" + s.replace("'", "''") + "'"
    out = []
    for c in s:
        o = ord(c)
        if c == "\\":
            out.append("\\\\")
        elif c == '"':
            out.append('\\"')
        elif c == "\n":
            out.append("\\n")
        elif c == "\t":
            out.append("\\t")
        elif o < 32 or o == 127:
            out.append("\\x%02x" % o)
        elif o > 126 and rng.chance(1, 2):
            out.append("\\u%04x" % o if o < 0x10000 else "\\U%08x" % o)
        else:
            out.append(c)
    return '"' + "".join(out) + '"'


def render_yaml_value(rng, v, ind):
    """returns the text that follows 'key:' (starting with ' ' or '\n')"""
    pad = " " * ind
    if isinstance(v, dict):
        if not v:
            return " {}\n"
        return "\n" + "".join(pad + yaml_scalar(rng, k) + ":" + render_yaml_value(rng, x, ind + 2) for k, x in shuffled_items(rng, v))
    if isinstance(v, list):
        if not v:
            return " []\n"
        if all(isinstance(x, str) for x in v) and rng.chance(1, 3):
            return " [" + ", ".join(yaml_scalar(rng, x) if not YAML_PLAIN.fullmatch(x) else '"' + x + '"' for x in v) + "]\n"
        out = "\n"
        for x in v:
            if x is None:
                out += pad + "- " + rng.choice(["~", "null", "Null", ""]) + "\n"
            elif isinstance(x, dict):
                items = shuffled_items(rng, x)
                first = True
                for k, y in items:
                    out += pad + ("- " if first else "  ") + yaml_scalar(rng, k) + ":" + render_yaml_value(rng, y, ind + 4)
                    first = False
            else:
                out += pad + "- " + yaml_scalar(rng, x) + "\n"
        return out
    return " " + yaml_scalar(rng, v) + "\n"


def render_yaml(rng, d):
    d = strip_private(d)
    return "".join(k + ":" + render_yaml_value(rng, v, 2) for k, v in shuffled_items(rng, d))


def star_str(rng, s):
    quote = "'" if rng.chance(1, 4) else '"'
    out = []
    for c in s:
        o = ord(c)
        if c == "\\":
            out.append("\\\\")
        elif c == quote:
            out.append("\\" + quote)
        elif c == "\n":
            out.append("\\n")
        elif c == "\t":
            out.append("\\t")
        elif o < 32 or o == 127:
            out.append("\\x%02x" % o)
        else:
            out.append(c)
    return quote + "".join(out) + quote


def star_val(rng, v):
    if isinstance(v, dict):
        return "{" + ", ".join(star_str(rng, k) + ": " + star_val(rng, x) for k, x in shuffled_items(rng, v)) + "}"
    if isinstance(v, list):
        return "[" + ", ".join(star_val(rng, x) for x in v) + "]"
    return star_str(rng, v)


def render_star(rng, d):
    """None when the package uses something BUILD.star cannot say (default_platforms, a null list entry)."""
    if "default_platforms" in d or has_null(d):
        return None
    out = []
    for t in strip_private(d)["targets"]:
        out.append("target(\n" + "".join("    %s = %s,\n" % (k, star_val(rng, v)) for k, v in shuffled_items(rng, t)) + ")\n")
    for a in d.get("aliases", []):
        out.append("alias(name = %s, actual = %s)\n" % (star_str(rng, a["name"]), star_str(rng, a["actual"])))
    return "\n".join(out)   # target()/alias() call order is the DTO order (error precedence depends on it)


def render_makefile(rng, dm):
    """A target without any setting has an empty annotation body.  Written as a lone '#' line it is a
    target with defaults; written as nothing at all ('# @grog' directly followed by the goal) the block is
    SKIPPED by the loader (what the script loader does with the same block; before the repair of C16-F1
    it was the panic): such a target is marked "_bare" and mk_loaded() leaves it out of the expectation."""
    out = ["# generated\n"]
    for t in dm["targets"]:
        ann = {k: v for k, v in t.items() if k not in ("command", "_goal", "_bare")}
        if ann["name"] == t["_goal"] and rng.chance(1, 2):
            del ann["name"]
        body = "".join(k + ":" + render_yaml_value(rng, v, 2) for k, v in shuffled_items(rng, ann))
        if not body:
            if rng.chance(1, 2):
                body = rng.choice(["\n", "\n\n"])      # '#' lines only: an empty annotation, the target exists
            else:
                t["_bare"] = True
        out.append("# @grog\n" + "".join(("# " + l if l else "#") + "\n" for l in body.split("\n")[:-1]))
        if rng.chance(1, 4):
            out.append("\n")
        out.append("%s:%s\n\techo %s\n\n" % (t["_goal"], rng.choice(["", " dep1", " a b"]), t["_goal"]))
    return "".join(out)


def mk_loaded(dm):
    """the projection a Makefile rendered by render_makefile loads to: without the skipped blocks"""
    return {"targets": [t for t in dm["targets"] if not t.get("_bare")]}


RENDER = {"json": ("BUILD.json", render_json), "yaml": ("BUILD.yaml", render_yaml), "star": ("BUILD.star", render_star)}


# ------------------------------------------------------------------ model encoding (S-expressions over hex atoms)
def b(s):
    return s.encode("utf-8", "surrogateescape") if isinstance(s, str) else s


def sx_list(xs):
    return "( " + " ".join(xs) + " )" if xs else "( )"


def sx_strs(xs):
    return sx_list([hx(b(x)) for x in xs or []])


def sx_pairs(m):
    return sx_list(["( %s %s )" % (hx(b(k)), hx(b(v))) for k, v in (m or {}).items()])


def sx_opt(xs):
    return "N" if xs is None else sx_strs(xs)


def sx_target(t):
    checks = sx_list(["( %s %s )" % (hx(b(c.get("command", ""))), hx(b(c.get("expected_output", "")))) for c in t.get("output_checks", [])])
    return sx_list([hx(b(t.get("name", ""))), hx(b(t.get("command", ""))), sx_strs(t.get("dependencies")), sx_strs(t.get("inputs")),
                    sx_strs(t.get("exclude_inputs")), sx_strs(t.get("outputs")), hx(b(t.get("bin_output", ""))), checks,
                    sx_strs(t.get("tags")), sx_pairs(t.get("fingerprint")), sx_opt(t.get("platforms")),
                    sx_pairs(t.get("environment_variables")), hx(b(t.get("timeout", "")))])


def sx_package(d):
    return sx_list(["-", sx_list(["N" if t is None else sx_target(t) for t in d.get("targets", [])]),
                    sx_list(["N" if a is None else "( %s %s )" % (hx(b(a["name"])), hx(b(a["actual"]))) for a in d.get("aliases", [])]),
                    sx_opt(d.get("default_platforms"))])


DUR = {"": None}
DUR.update({k: str(v) for k, v in TIMEOUTS_OK})
DUR.update({k: None for k in TIMEOUTS_BAD})


def dur_table(d):
    rows = []
    for t in d.get("targets", []):
        if t is None:
            continue
        raw = t.get("timeout", "")
        if raw:
            rows.append("( %s %s )" % (hx(b(raw)), "E" if DUR.get(raw) is None else hx(DUR[raw])))
    return sx_list(sorted(set(rows)))


def patterns_of(d):
    ps = set()
    for t in d.get("targets", []):
        if t is None:
            continue
        ps.update(t.get("inputs") or [])
        ps.update(t.get("exclude_inputs") or [])
    return ps


def glob_table(d, globs):
    return sx_list(["( %s %s )" % (hx(b(p)), "E" if globs[p] is None else sx_strs(globs[p])) for p in sorted(patterns_of(d))])


# ------------------------------------------------------------------ observations
def canon_pkg(p, keep_path=True):
    """Canonical comparison form of a package dump (hex strings stay hex; order normalised)."""
    def tcanon(t):
        t = dict(t)
        t["inputs"] = sorted(t["inputs"], key=unhx)
        t["fingerprint"] = sorted(map(tuple, t["fingerprint"]), key=lambda kv: unhx(kv[0]))
        t["env"] = sorted(map(tuple, t["env"]), key=lambda kv: unhx(kv[0]))
        t["outputs"] = [tuple(o) for o in t["outputs"]]
        t["deps"] = [tuple(x) for x in t["deps"]]
        t["checks"] = [tuple(x) for x in t["checks"]]
        t["bin"] = tuple(t["bin"]) if t["bin"] else None
        t["platforms"] = t["platforms"] or []
        return t
    path = p["path"] if keep_path else ("-" if p["path"] == hx(".") else p["path"])
    return {"path": path,
            "targets": sorted((tcanon(t) for t in p["targets"]), key=lambda t: unhx(t["name"])),
            "aliases": sorted(({"name": a["name"], "pkg": a["pkg"], "actual": tuple(a["actual"])} for a in p["aliases"]),
                              key=lambda a: unhx(a["name"]))}


def err_class(msg):
    if "duplicate target label" in msg or "duplicate alias label" in msg:
        return "duplicate"
    for pat, c in (("contains a null target entry", "nulltarget"), ("contains a null alias entry", "nullalias"),
                   ("failed to resolve inputs", "glob"), ("failed to parse outputs", "output"),
                   ("failed to parse bin output", "binoutput"), ("must be of type file", "binnotfile"),
                   ("failed to parse timeout", "timeout"), ("failed to decode JSON", "decode"),
                   ("failed to evaluate Starlark", "decode"), ("failed to parse annotation block", "yaml"),
                   ("expected a make target definition", "nocolon"), ("token too long", "toolong"),
                   ("failed to scan", "toolong")):
        if pat in msg:
            return c
    if "label" in msg or "target name" in msg or "invalid character" in msg:
        return "label"
    return "other"


def parse_obs(line):
    """harness / driver answer -> (status, payload)"""
    f = line.split("\t")
    if f[0] == "ok":
        return "ok", f[1:]
    if f[0] == "error":
        return "error", (err_class(unhx(f[1]).decode("utf-8", "replace")) if len(f) > 1 and re.fullmatch(r"[0-9a-f]*|-", f[1]) and len(f[1]) > 12 else (f[1] if len(f) > 1 else ""))
    if f[0] in ("panic", "crash"):
        return "panic", unhx(f[1]).decode("utf-8", "replace")[-600:] if len(f) > 1 else ""
    return f[0], f[1:]


def run_harness(h, lines):
    """vlib.run_lines, surviving a harness killed by a panic in a goroutine of the code under
    test: the case without an answer gets 'crash <stderr>' and the harness is restarted."""
    res, i = [], 0
    while i < len(lines):
        rc, out, err = vlib.run_lines(h, lines[i:])
        out = out[:len(lines) - i]
        res += out
        i += len(out)
        if i < len(lines):
            res.append("crash\t" + hx(b(err[-1200:] or "harness died rc=%s" % rc)))
            i += 1
    return res


def write_file(path, content):
    os.makedirs(os.path.dirname(path), exist_ok=True)
    with open(path, "wb") as f:
        f.write(b(content))


def make_pkg_dir(root, pkg):
    d = os.path.normpath(os.path.join(root, pkg))
    for fn in FILES:
        write_file(os.path.join(d, fn), fn)
    return d


def obs_impl(line):
    """Go harness answer -> (status, payload); error payload = class derived from the message"""
    f = line.split("\t")
    if f[0] == "error":
        msg = unhx(f[1]).decode("utf-8", "replace") if len(f) > 1 else ""
        return "error", err_class(msg), msg
    if f[0] in ("panic", "crash"):
        return "panic", "", (unhx(f[1]).decode("utf-8", "replace")[-700:] if len(f) > 1 else "")
    if f[0] == "ok":
        return "ok", f[1:], ""
    return f[0], f[1:], ""


def obs_model(line):
    f = line.split("\t")
    if f[0] == "error":
        return "error", f[1], ""
    if f[0] == "ok":
        return "ok", f[1:], ""
    if f[0].startswith("driver-error") or f[0].startswith("unknown-command"):
        raise RuntimeError("model driver: " + line[:300])
    return f[0], f[1:], ""


def pkg_obs(o, keep_path=True):
    """comparable projection of a package-level observation"""
    st, pay, _ = o
    if st == "ok":
        return ("ok", json.dumps(canon_pkg(json.loads(pay[-1]), keep_path), sort_keys=True))
    return (st, pay if isinstance(pay, str) else "")


DROPPED = ("fingerprint", "env", "platforms", "timeout")


def split_dropped(obs):
    """(dump without the four fields, {target name: the four fields})"""
    if obs[0] != "ok":
        return obs, {}
    p = json.loads(obs[1])
    extra = {}
    for t in p["targets"]:
        extra[t["name"]] = {k: t.pop(k) for k in DROPPED}
    return ("ok", json.dumps(p, sort_keys=True)), extra


def is_empty_field(k, v):
    return v in ([], None, "0", "")


# ------------------------------------------------------------------ (1) cross-format agreement
def build_xcase(rng, base, i, wild, big=False):
    d = gen_package(rng, wild, big)
    pkg = rng.choice(PKG_PATHS)
    case = {"kind": "xformat", "id": i, "pkg": pkg, "dto": d, "files": {}}
    for fmt, (fn, rend) in RENDER.items():
        txt = rend(rng, d)
        if txt is not None:
            case["files"][fmt] = [fn, txt]
    dm = mk_projection(d)
    if dm is not None:
        case["files"]["mk"] = ["Makefile", render_makefile(rng, dm)]
        case["mk_skipped"] = sum(1 for t in dm["targets"] if t.get("_bare"))
        dm = mk_loaded(dm)
        case["dto_mk"] = strip_private(dm)
        case["files"]["mkjson"] = ["BUILD.json", render_json(rng, dm)]
        case["files"]["mkjson0"] = ["BUILD.json", render_json(rng, drop_fields(strip_private(dm)))]
    return case


def drop_fields(dm):
    """the projection minus the four annotation fields (what a Makefile loader with C16-F2 delivers)"""
    return {"targets": [{k: v for k, v in t.items() if k not in ("fingerprint", "platforms", "environment_variables", "timeout")}
                        for t in dm["targets"]]}


def materialise(base, case):
    """write every rendering into its own workspace root; returns {fmt: (root, file path, file name)}"""
    loc = {}
    for fmt, (fn, txt) in case["files"].items():
        root = os.path.join(base, "x%s" % case["id"], fmt)
        d = make_pkg_dir(root, case["pkg"])
        write_file(os.path.join(d, fn), txt)
        loc[fmt] = (root, os.path.join(d, fn), fn)
    return loc


def eval_xformat(out, h, drv, base, cases, findings, stats):
    ref = make_pkg_dir(os.path.join(base, "globref"), ".")
    pats = sorted(set().union(*[patterns_of(c["dto"]) for c in cases]) if cases else [])
    globs = {}
    if h:
        ans = run_harness(h, ["glob\t%s\t%s" % (hx(b(ref)), hx(b(p))) for p in pats])
        for p, a in zip(pats, ans):
            f = a.split("\t")
            globs[p] = None if f[0] != "ok" else [unhx(x).decode("utf-8", "surrogateescape") for x in (f[1].split(",") if len(f) > 1 and f[1] else [])]
    impl_lines, idx, locs = [], [], {}
    for c in cases:
        loc = locs[c["id"]] = materialise(base, c)
        for fmt, (root, path, fn) in loc.items():
            impl_lines.append("loadfile\t%s\t%s\t%s" % (hx(b(root)), hx(b(path)), hx(b(fn))))
            idx.append((c["id"], fmt))
    impl = dict(zip(idx, run_harness(h, impl_lines))) if h else {}
    model = {}
    if h and drv:
        mlines, midx = [], []
        for c in cases:
            mlines.append("enrich\t%s\t%s\t%s\t%s" % (hx(b(c["pkg"])), sx_package(c["dto"]), glob_table(c["dto"], globs), dur_table(c["dto"])))
            midx.append((c["id"], "full"))
            if "dto_mk" in c:
                proj = drop_fields(c["dto_mk"])
                mlines.append("enrich\t%s\t%s\t%s\t%s" % (hx(b(c["pkg"])), sx_package(proj), glob_table(proj, globs), dur_table(proj)))
                midx.append((c["id"], "mk"))
                full_ = c["dto_mk"]
                mlines.append("enrich\t%s\t%s\t%s\t%s" % (hx(b(c["pkg"])), sx_package(full_), glob_table(full_, globs), dur_table(full_)))
                midx.append((c["id"], "mkfull"))
        rc, mo, me = vlib.run_lines(drv, mlines)
        if rc != 0 or len(mo) != len(mlines):
            raise RuntimeError("model driver failed rc=%s %d/%d %s" % (rc, len(mo), len(mlines), me[-400:]))
        model = dict(zip(midx, mo))
    # panics of the Makefile loader: class decided by the model's guard on the failing bytes
    mk_panics = [c for c in cases if (c["id"], "mk") in impl and obs_impl(impl[(c["id"], "mk")])[0] == "panic"]
    guards = model_guards(drv, [c["files"]["mk"][1] for c in mk_panics]) if drv else []
    bare = {c["id"] for c, g in zip(mk_panics, guards) if g is False}
    for c in cases:
        cid = c["id"]
        obs = {fmt: obs_impl(impl[(cid, fmt)]) for fmt in c["files"] if (cid, fmt) in impl}
        if not obs:
            continue
        stats["xformat_cases"] += 1
        if cid in bare and "makefile-bare-annotation-panic" in findings:
            out.known(findings["makefile-bare-annotation-panic"]["id"],
                      "a generated Makefile whose '# @grog' line is directly followed by the goal (a target with no settings) "
                      "panics the loader: " + obs["mk"][2][:80])
            stats["makefile_bare_panics"] += 1
            for k in ("mk", "mkjson", "mkjson0"):
                obs.pop(k, None)
        bad = [(fmt, o) for fmt, o in obs.items() if o[0] in ("panic", "hang")]
        nil_known = False
        for fmt, o in bad:
            if o[0] == "panic" and fmt in ("json", "yaml") and has_null(c["dto"]) and "null-list-element-panic" in findings \
                    and nil_elements(h, locs[cid][fmt][1], c["files"][fmt][0], b(c["files"][fmt][1])):
                out.known(findings["null-list-element-panic"]["id"], NIL_TEXT % (c["files"][fmt][1][:50], o[2][:70]))
                stats["robust_known"] += 1
                nil_known = True
                continue
            out.violation("loader %s %s on a generated %s" % (fmt, o[0], c["files"][fmt][0]),
                          dict(c, failing_format=fmt, observed=o[0], detail=o[2]))
        if nil_known:
            continue
        full = {fmt: pkg_obs(obs[fmt]) for fmt in ("json", "yaml", "star") if fmt in obs}
        stats["xformat_loads"] += len(obs)
        vals = set(full.values())
        sig = (tuple(sorted(full)), next(iter(vals))[0] if len(vals) == 1 else "diff", next(iter(vals))[1] if len(vals) == 1 and next(iter(vals))[0] == "error" else "")
        stats["outcomes"][sig[1] + (":" + sig[2] if sig[2] else "")] = stats["outcomes"].get(sig[1] + (":" + sig[2] if sig[2] else ""), 0) + 1
        if len(vals) > 1:
            out.violation("formats disagree on the same package: " + "; ".join("%s -> %s" % (f, diff_hint(v)) for f, v in sorted(full.items())),
                          dict(c, observed={f: list(v) for f, v in full.items()}))
            continue
        stats["nontrivial"].add(json.dumps(c["dto"], sort_keys=True))
        m = pkg_obs(obs_model(model[(cid, "full")])) if (cid, "full") in model else None
        if m is not None and vals and m not in vals:
            out.violation("correspondence Loader.enrich ~ getEnrichedPackage broke: model %s, implementation %s; the formats agree with each other" % (
                diff_hint(m), diff_hint(next(iter(vals)))),
                {"correspondence": "Loader.enrich vs loading.getEnrichedPackage", "case": c, "model": list(m), "impl": list(next(iter(vals)))}, no_input=True)
        elif m is not None:
            stats["traces"] += len(full)
        # Makefile annotations against the same projection written as JSON
        if "mk" in obs and "mkjson" in obs:
            stats["makefile_cases"] += 1
            mk, mj = pkg_obs(obs["mk"]), pkg_obs(obs["mkjson"])
            mj0 = pkg_obs(obs["mkjson0"]) if "mkjson0" in obs else None
            mm = pkg_obs(obs_model(model[(cid, "mk")])) if (cid, "mk") in model else None
            if mk == mj:
                stats["makefile_skipped_blocks"] += c.get("mk_skipped", 0)
                # all declared fields reach the target: the model is enrichment of the full projection
                # (Loader.mk_target = full_dto, C16_makefile_fields)
                if (cid, "mkfull") in model:
                    mm = pkg_obs(obs_model(model[(cid, "mkfull")]))
            elif mk == mj0 and "makefile-drops-fields" in findings:
                # class evaluated on the observations: the Makefile result differs from the JSON
                # result and equals the JSON result of the package with exactly these fields removed
                if mk[0] == "ok" and mj[0] == "ok":
                    _, mkx = split_dropped(mk)
                    _, mjx = split_dropped(mj)
                    lost = sorted({k for n, fs in mjx.items() for k, v in fs.items() if mkx.get(n, {}).get(k) != v})
                else:
                    lost = ["(%s vs %s)" % (diff_hint(mk), diff_hint(mj))]
                out.known(findings["makefile-drops-fields"]["id"],
                          "Makefile annotation fields {fingerprint, platforms, timeout, environment_variables} are declared by the annotation "
                          "schema, decoded, and never copied to the target: the loaded package equals the one without them and differs "
                          "from the same package written as BUILD.json (first seen on: %s)" % ", ".join(lost))
                stats["makefile_dropped"] += 1
            else:
                out.violation("Makefile annotations and BUILD.json disagree on the expressible projection: Makefile -> %s, JSON -> %s" % (
                    diff_hint(mk), diff_hint(mj)), dict(c, observed={"mk": list(mk), "mkjson": list(mj)}))
                continue
            if mm is not None and mm != mk:
                out.violation("correspondence (Makefile path) broke: model %s, implementation %s" % (diff_hint(mm), diff_hint(mk)),
                              {"correspondence": "Loader.mk_target + enrich vs MakefileLoader + getEnrichedPackage", "case": c,
                               "model": list(mm), "impl": list(mk)}, no_input=True)


def model_guards(drv, contents):
    """Loader.mk_guard on each Makefile content: False = the panicking shape"""
    if not contents:
        return []
    # the extracted model is quadratic in the line length (List.rev): no verdict (None) on very long lines
    small = [max((len(l) for l in b(c).split(b"\n")), default=0) < 8000 for c in contents]
    rc, mo, me = vlib.run_lines(drv, ["guardmk\t" + hx(b(c)) for c, ok in zip(contents, small) if ok])
    if rc != 0 or len(mo) != sum(small):
        raise RuntimeError("model driver failed on guardmk: " + me[-300:])
    it = iter(mo)
    return [(next(it).strip() == "guard=1") if ok else None for ok in small]


def diff_hint(o):
    return o[0] + (":" + o[1] if o[0] != "ok" else " #" + hashlib.sha1(o[1].encode("utf-8", "surrogateescape")).hexdigest()[:4])


def _quick_probe(n=40, seed=1):
    """developer entry: python3 -c 'import c16; c16._quick_probe()'"""
    out = vlib.Outcome("C16", "quick")
    h = vlib.build_harness("loader", extra_overlay=INJECT)
    drv = vlib.build_driver("loader")
    rng = vlib.Rng(seed)
    base = os.path.join(vlib.scratch(), "xf")
    cases = [build_xcase(rng, base, i, i % 3 != 0) for i in range(n)]
    st = new_stats()
    findings = load_findings()
    findings.setdefault("makefile-drops-fields", {"id": "C16-F2"})
    findings.setdefault("makefile-bare-annotation-panic", {"id": "C16-F1"})
    eval_xformat(out, h, drv, base, cases, findings, st)
    st["nontrivial"] = len(st["nontrivial"])
    print(st)
    print(out.known_hit)
    for v in out.violations[:6]:
        print("VIOL", v["what"][:400])
    return out


# ------------------------------------------------------------------ (3) robustness + scanner correspondence
STRUCT = [b"{", b"}", b"[", b"]", b":", b",", b'"', b"#", b"@", b"\n", b"\t", b"\x00", b"\xff", b"\xc3\x28", b"\xe2\x80",
          b" ", b"'", b"\\", b"(", b")", b"=", b"-", b"\r\n", b"&a", b"*a", b"!!", b"|", b">", b"%", b"# @grog\n", b"::", b"\xc2\xa0"]


def mutate(rng, data):
    data = bytearray(data)
    for _ in range(1 + rng.below(3)):
        k = rng.below(7)
        n = len(data)
        pos = rng.below(n + 1)
        if k == 0 and n:
            data[rng.below(n)] ^= 1 << rng.below(8)
        elif k == 1 and n:
            del data[pos:]
        elif k == 2:
            data[pos:pos] = rng.choice(STRUCT)
        elif k == 3 and n:
            del data[pos:pos + 1 + rng.below(8)]
        elif k == 4 and n:
            data[pos:pos] = data[pos:pos + 1 + rng.below(12)]
        elif k == 5 and n:
            data[rng.below(n)] = rng.below(256)
        else:
            a = rng.below(n + 1)
            data[pos:pos] = data[a:a + rng.below(40)]
    return bytes(data)


LONG = 300      # token limit used for the scanner boundary cases (bufio.MaxScanTokenSize scaled down on both sides)
REAL_LONG = 65536
SCAN_NASTIES = [
    b"", b"# @grog", b"# @grog\n", b"# @grog\nfoo:", b"# @grog\nfoo:\n\techo hi\n", b"# @grog\n\n\nfoo:\n", b"  # @grog  \nfoo:",
    b"# @grog\r\nfoo:\r\n", b"# @grog\r\n# name: x\r\nfoo:\r\n\techo\r\n", b"# @grog\n# name: x", b"# @grog\n# name: x\n",
    b"# @grog\n# name: x\nfoo", b"# @grog\n# name: x\nfoo\n", b"# @grog\n# name: x\n# @grog\nfoo:", b"# @grog\n#\nfoo:", b"# @grog\n#\n#\nfoo:",
    b"# @grog\n# name: [\nfoo:", b"# @grogfoo\n# name: y\nbar:", b"#@grog\nfoo:", b"# @grog\n# name: a\nx: y: z", b"# @grog\n# name: a\n:",
    b"# @grog\n# name: a\n\t:\n", b"# @grog\n# name: a\nfoo\n# @grog\nbar:", b"# @grog\n# name: a\nfoo:\n# @grog\nbar:",
    b"# @grog\n# name: a: b\nfoo:\n# @grog\nbar:", b"# @grog\n# name: a\nfoo:\n\n# @grog\n\n\nbar: x\n", b"x:\n# @grog\n# tags: [a]\n",
    b"# @grog\n# name: " + b"a" * (LONG + 37) + b"\nfoo:", b"x" * (LONG - 1) + b"\n# @grog\nfoo:", b"x" * LONG + b"\n# @grog\nfoo:",
    b"# @grog\n# name: a\n" + b"f" * LONG + b":", b"# @grog\n# name: a\n" + b"f" * (LONG - 2) + b":", b"# @grog\n# name: a\nfoo:\n" + b"y" * LONG,
    b"x" * (LONG - 1) + b"\r\n# @grog\n# name: q\nfoo:", b"\xc2\xa0# @grog\nfoo:", b"\xe2\x80\x83# @grog\n\xe3\x80\x80\nfoo:", b"# @grog\n\x85\nfoo:",
    b"\xc2\x85# @grog\n# name: a\nfoo:", b"# @grog\n# name: a\n\xe2\x80\xa8\nfoo:", b"# @grog\n\xe2\x80\nfoo:", b"# @grog\n# name: a\n\xa0foo:",
    b"# @grog\n# tags: &a [x, *a]\nfoo:", b"# @grog\n# name: \"\\x00\"\nfoo:", b"# @grog\n# name: a\x00b\nfoo:", b"# @grog\n# inputs: 3\nfoo:",
    b"# @grog\n# fingerprint: [a]\nfoo:", b"# @grog\n# name: ~\nfoo:", b"# @grog\n# unknown: 1\nfoo:", b"# @grog\n# name: a\n# name: b\nfoo:",
    b"# @grog\n# - a\n# - b\nfoo:", b"# @grog\n# platforms: []\n# timeout: zzz\nfoo:", b"# @grog\n#\tname: a\nfoo:", b"# @grog\n##name: a\nfoo:",
    b"# @grog\n# name: a\n# outputs:\n#   - o\n#   - dir::d\nfoo bar: baz\n", b"# @grog\n# name: a\nfoo := 1\n", b"# @grog\n# name: a\n\xef\xbb\xbffoo:",
    b"\xef\xbb\xbf# @grog\n# name: a\nfoo:", b"# @grog\n# &x name: a\nfoo:", b"# @grog\n# a: &a [1]\n# b: [*a, *a]\nfoo:",
]
STAR_MODULE_LOOP = b"def spin():\n    n = 0\n    for i in range(1 << 40):\n        n += 1\n    return n\n\nCOUNT = spin()\n"
STAR_LOOP = b"def f():\n    for i in range(1 << 40):\n        pass\nf()\ntarget(name = \"a\", command = \"true\")\n"


def sx_annot(j):
    pl = "N" if not j["has_platforms"] else sx_list(j["platforms"])
    return sx_list([j["name"], sx_list(j["deps"]), sx_list(j["inputs"]), sx_list(j["tags"]),
                    sx_list(["( %s %s )" % (k, v) for k, v in j["fingerprint"]]), sx_list(["( %s %s )" % (k, v) for k, v in j["env"]]),
                    j["timeout"], pl, sx_list(j["outputs"])])


def scan_obs(status, pay):
    if status == "ok":
        return ("ok", pay[0], json.dumps(json.loads(pay[1]), sort_keys=True))
    return (status, pay if isinstance(pay, str) else "")


def strip_dropped_dto(dump):
    return json.dumps([{k: v for k, v in t.items() if k not in ("fingerprint", "env", "platforms", "has_platforms", "timeout")}
                       for t in json.loads(dump)], sort_keys=True)


def four_fields_empty(dump):
    return all(not t["fingerprint"] and not t["env"] and not t["has_platforms"] and t["timeout"] in ("", "-") for t in json.loads(dump))


def eval_scanners(out, h, drv, cases, findings, stats):
    """cases: [(kind 'mk'|'sh', content bytes[, token limit])] -- real scanner vs Loader.scan_*_file with the
    real YAML decoder as oracle; the model never panics; the class of a panic of the real Makefile scanner
    (C16-F1, while listed) is decided by Loader.mk_guard."""
    fname = "x.grog.sh"
    cases = [(c[0], c[1], c[2] if len(c) > 2 else None) for c in cases]
    sfx = lambda n: ("\t%d" % n) if n else ""
    impl = run_harness(h, [("scanmk\t%s" % hx(c) if k == "mk" else "scansh\t%s\t%s" % (hx(fname), hx(c))) + sfx(n) for k, c, n in cases])
    rc, bl, me = vlib.run_lines(drv, [("blocksmk\t%s" if k == "mk" else "blockssh\t%s") % hx(c) + sfx(n) for k, c, n in cases])
    if rc != 0 or len(bl) != len(cases):
        raise RuntimeError("model driver failed on blocks: " + me[-300:])
    queries = sorted({(k, blk) for (k, _, _), l in zip(cases, bl) for blk in l.split("\t")[1:]})
    ya = run_harness(h, ["yamlann\t%s\t%s" % (k, blk) for k, blk in queries])
    table = {}
    for (k, blk), a in zip(queries, ya):
        f = a.split("\t")
        table[(k, blk)] = sx_annot(json.loads(f[1])) if f[0] == "ok" else "E"
    mlines = []
    for (k, c, n), l in zip(cases, bl):
        t = sx_list(["( %s %s )" % (blk, table[(k, blk)]) for blk in sorted(set(l.split("\t")[1:]))])
        mlines.append(("scanmk\t%s\t%s" % (hx(c), t) if k == "mk" else "scansh\t%s\t%s\t%s" % (hx(fname), hx(c), t)) + sfx(n))
    rc, mo, me = vlib.run_lines(drv, mlines)
    if rc != 0 or len(mo) != len(cases):
        raise RuntimeError("model driver failed on scan: " + me[-300:])
    for (k, c, n), a, m in zip(cases, impl, mo):
        stats["scanner_cases"] += 1
        mf = m.split("\t")
        guard = None
        if mf and mf[-1].startswith("guard="):
            guard = mf[-1] == "guard=1"
            m = "\t".join(mf[:-1])
        ist, ipay, imsg = obs_impl(a)
        mst, mpay, _ = obs_model(m)
        io, mo_ = scan_obs(ist, ipay), scan_obs(mst, mpay)
        stats["scanner_outcomes"][k + ":" + io[0] + (":" + io[1] if io[0] == "error" else "")] = \
            stats["scanner_outcomes"].get(k + ":" + io[0] + (":" + io[1] if io[0] == "error" else ""), 0) + 1
        rep = {"kind": "scanner", "scanner": k, "content_hex": c.hex(), "token_limit": n or REAL_LONG, "impl": a[:2000], "model": m[:2000]}
        if ist in ("panic", "hang"):
            if ist == "panic" and k == "mk" and guard is False and "makefile-bare-annotation-panic" in findings:
                out.known(findings["makefile-bare-annotation-panic"]["id"],
                          "Makefile %r: '# @grog' with no annotation line before the goal -> %s (makefile_loader.go:110)" % (
                              c[:40].decode("latin-1"), imsg[:60]))
                stats["scanner_known_panics"] += 1
            else:
                out.violation("%s annotation scanner: %s on %r" % ("Makefile" if k == "mk" else "script", ist, c[:80]), rep)
            continue
        if mst == "panic":
            raise RuntimeError("Loader.scan_*_file answered panic (contradicts C16_scan_no_panic / C16_script_scan_no_panic): " + m[:200])
        if k == "mk" and io != mo_ and io[0] == mo_[0] == "ok" and io[1] == mo_[1] and "makefile-drops-fields" in findings \
                and strip_dropped_dto(io[2]) == strip_dropped_dto(mo_[2]) and four_fields_empty(io[2]):
            # class of C16-F2 evaluated on the observation: the same DTOs as the model's, except that the four
            # declared fields the model's mk_target copies are all empty in what the implementation delivers
            out.known(findings["makefile-drops-fields"]["id"],
                      "Makefile %r: the annotation sets fingerprint/platforms/timeout/environment_variables and the TargetDTO "
                      "delivered by makefileParser has none of them" % c[:60].decode("latin-1"))
            stats["makefile_dropped"] += 1
            continue
        if io != mo_:
            out.violation("correspondence Loader.scan_%s ~ real scanner broke on %r: impl %s, model %s" % (
                "makefile" if k == "mk" else "script", c[:60], io[:2], mo_[:2]),
                dict(rep, correspondence="Loader.scan_makefile_file/scan_script_file vs makefileParser.parse/scriptParser.parse"), no_input=True)
        else:
            stats["traces"] += 1
            stats["nontrivial"].add(("scan", k, c))


def eval_robustness(out, h, drv, base, cases, findings, stats):
    """cases: [(file name, content bytes, origin)] -> loadfile; outcome must be ok/error/nomatch"""
    return eval_robustness_confirmed(out, h, drv, base, cases, findings, stats)


# ------------------------------------------------------------------ harness plumbing with a per-run case timeout
def run_lines_env(binary, lines, env_extra, timeout=1800):
    """vlib.run_lines with extra environment (the per-case timeout of the Go harness)"""
    d = vlib.scratch()
    inp = os.path.join(d, "in-%d-%d.txt" % (os.getpid(), time.time_ns()))
    with open(inp, "w") as f:
        f.write("\n".join(lines) + "\n")
    with open(inp) as f:
        p = subprocess.run([binary], stdin=f, stdout=subprocess.PIPE, stderr=subprocess.PIPE, timeout=timeout, text=True,
                           env=dict(os.environ, **env_extra))
    os.unlink(inp)
    o = p.stdout.split("\n")
    if o and o[-1] == "":
        o.pop()
    return p.returncode, o, p.stderr


def confirm_hang(h, line, ms):
    """re-run one case alone, in a fresh harness process, with a longer per-case timeout: 'hang' must
    not be an artefact of a loaded machine"""
    rc, o, err = run_lines_env(h, [line], {"VERIF_CASE_TIMEOUT_MS": str(ms)}, timeout=ms / 1000.0 + 60)
    return o[0] if o else "crash\t" + hx(b(err[-1200:] or "harness died rc=%s" % rc))


def loadfile_line(root, fn):
    return "loadfile\t%s\t%s\t%s" % (hx(root), hx(os.path.join(root, "pkg", fn)), hx(fn))


def eval_robustness_confirmed(out, h, drv, base, cases, findings, stats, first_ms=None, confirm_ms=15000):
    """eval_robustness, but an answer 'hang' only counts after it has been confirmed alone with
    [confirm_ms]; a case that answers in the confirmation run is judged on that answer."""
    lines = []
    for i, (fn, content, origin) in enumerate(cases):
        root = os.path.join(base, "r%d" % i)
        write_file(os.path.join(root, "pkg", fn), content)
        lines.append(loadfile_line(root, fn))
    env = {"VERIF_CASE_TIMEOUT_MS": str(first_ms)} if first_ms else {}
    ans, i = [], 0
    while i < len(lines):                     # run_harness with env
        rc, o, err = run_lines_env(h, lines[i:], env)
        o = o[:len(lines) - i]
        ans += o
        i += len(o)
        if i < len(lines):
            ans.append("crash\t" + hx(b(err[-1200:] or "harness died rc=%s" % rc)))
            i += 1
    for k, a in enumerate(ans):
        if a.split("\t")[0] == "hang":
            stats["hangs_reexamined"] += 1
            ans[k] = confirm_hang(h, lines[k], confirm_ms)
    return judge_robustness(out, h, drv, cases, lines, ans, findings, stats)


NULLABLE = ("BUILD.json", "BUILD.yaml", "BUILD.yml")


def nil_elements(h, path, fn, content):
    """class guard of C16-F4, evaluated on the failing file: the DTO the real decoder delivers has a nil
    entry in Targets or Aliases (a null list element).  Without the harness: the same question asked of
    Python's JSON / YAML parser."""
    if fn not in NULLABLE:
        return False
    if h:
        a = run_harness(h, ["nilcheck\t%s\t%s" % (hx(path), hx(fn))])[0].split("\t")
        return a[0] == "ok" and (int(a[1]) > 0 or int(a[2]) > 0)
    try:
        if fn == "BUILD.json":
            doc = json.loads(content.decode("utf-8"))
        else:
            import yaml
            doc = yaml.safe_load(content.decode("utf-8"))
        return isinstance(doc, dict) and any(isinstance(doc.get(k), list) and any(x is None for x in doc[k]) for k in ("targets", "aliases"))
    except Exception:
        return False


NIL_TEXT = "a null element in the targets / aliases list (%r) is decoded to a nil *TargetDTO / *AliasDTO that getEnrichedPackage dereferences: %s"


def judge_robustness(out, h, drv, cases, lines, ans, findings, stats):
    """the judging half of eval_robustness on given answers; returns [(case, status)]"""
    bad, res = [], []
    paths = {}
    for (fn, content, origin), l in zip(cases, lines):
        paths[(fn, content)] = unhx(l.split("\t")[2]).decode("utf-8", "surrogateescape")
    for (fn, content, origin), a in zip(cases, ans):
        st, pay, msg = obs_impl(a)
        res.append(((fn, content, origin), st))
        stats["robust_cases"] += 1
        key = fn + ":" + st
        stats["robust_outcomes"][key] = stats["robust_outcomes"].get(key, 0) + 1
        if st in ("ok", "error"):
            stats["nontrivial"].add(("rb", fn, content))
        if st not in ("ok", "error", "nomatch"):
            bad.append((fn, content, origin, st, msg))
    guards = model_guards(drv, [c for fn, c, o, st, msg in bad if fn == "Makefile"])
    gi = iter(guards)
    for fn, content, origin, st, msg in bad:
        rep = {"kind": "robust", "file": fn, "content_hex": content.hex(), "origin": origin, "observed": st, "detail": msg}
        if fn == "Makefile":
            g = next(gi)
            if st == "panic" and g is False and "makefile-bare-annotation-panic" in findings:
                out.known(findings["makefile-bare-annotation-panic"]["id"],
                          "Makefile %r panics the loader: %s" % (content[:40].decode("latin-1"), msg[:60]))
                stats["robust_known"] += 1
                continue
        if st == "hang" and fn in ("BUILD.star", "BUILD.bzl") and star_has_loop(content) and "starlark-unbounded-execution" in findings:
            out.known(findings["starlark-unbounded-execution"]["id"],
                      "a BUILD.star with a long-running loop never finishes loading (no step limit, no cancellation): %r" % content[:70].decode("latin-1"))
            stats["robust_known"] += 1
            continue
        if st == "panic" and "null-list-element-panic" in findings and nil_elements(h, paths[(fn, content)], fn, content):
            out.known(findings["null-list-element-panic"]["id"], NIL_TEXT % (content[:50].decode("latin-1"), msg[:70]))
            stats["robust_known"] += 1
            continue
        out.violation("loader %s on %s (%s): %s" % (st, fn, origin, msg[:160]), rep)
    return res


def star_has_loop(content):
    """class guard of C16-F3, evaluated on the failing bytes: the program contains an iteration
    construct (for statement / comprehension) -- the only way a Starlark program without recursion
    can run long"""
    return re.search(rb"\bfor\b[^\n]*\bin\b", content) is not None


# ------------------------------------------------------------------ generators for (3)
ROBUST_NASTIES = [
    ("BUILD.json", b""), ("BUILD.json", b"null"), ("BUILD.json", b"[]"), ("BUILD.json", b"{"), ("BUILD.json", b'{"targets": null}'),
    ("BUILD.json", b'{"targets": [null]}'), ("BUILD.json", b'{"targets": [{"name": 3}]}'), ("BUILD.json", b'{"targets": {"a": 1}}'),
    ("BUILD.json", b'{"targets": [{"name": "a", "command": "x", "inputs": null, "outputs": [null]}]}'),
    ("BUILD.json", b'{"targets": [{"name": "a", "command": "x", "timeout": 5}]}'), ("BUILD.json", b"[" * 20000),
    ("BUILD.json", b'{"targets": [{"name": "a", "command": "x", "fingerprint": {"k": 1}}]}'), ("BUILD.json", b"\xff\xfe{}"),
    ("BUILD.json", b'{"targets": [{"name": "\\ud800", "command": "x"}]}'), ("BUILD.json", b'{"aliases": [{"name": "a"}]}'),
    ("BUILD.json", b'{"targets": [{"name": "a", "command": "x", "platforms": null}], "default_platforms": null}'),
    ("BUILD.json", b'{"targets": [{"name": "a", "command": "x", "output_checks": [{}]}]}'),
    ("BUILD.json", b'{"targets": [{"name": "a", "command": "x", "inputs": ["' + b"*/" * 40 + b'*"]}]}'),
    ("BUILD.json", b'{"targets": [{"name": "a", "command": "x", "inputs": ["{a,b}{c,d}{e,f}{g,h}{i,j}{k,l}{m,n}{o,p}"]}]}'),
    ("BUILD.json", b'{"targets": [{"name": "a", "command": "x", "inputs": ["[a-"]}]}'),
    ("BUILD.json", b'{"targets": [{"name": "a", "command": "x", "inputs": ["../../../etc/*"]}]}'),
    ("BUILD.json", b'{"targets": [{"name": "a", "command": "x", "inputs": ["/abs/*"]}]}'),
    ("BUILD.json", b'{"targets": [{"name": "a", "command": "x", "outputs": ["docker::"]}]}'),
    ("BUILD.json", b'{"targets": [{"name": "a", "command": "x", "bin_output": "::"}]}'),
    ("BUILD.json", b'{"targets": [{"name": "a", "command": "x", "timeout": "-1s"}]}'),
    ("BUILD.json", b'{"targets": [{"name": "a", "command": "x", "timeout": "9999999999999h"}]}'),
    ("BUILD.json", b'{"aliases": [null]}'), ("BUILD.json", b'{"environments": [null], "targets": []}'),
    ("BUILD.yaml", b"targets:\n  - ~\n"), ("BUILD.yaml", b"aliases: [null]\n"), ("BUILD.yml", b"targets:\n  -\n  - name: a\n    command: x\n"),
    ("BUILD.yaml", b""), ("BUILD.yaml", b"~"), ("BUILD.yaml", b"- a\n- b\n"), ("BUILD.yaml", b"targets: 3\n"), ("BUILD.yaml", b"targets:\n  - 3\n"),
    ("BUILD.yaml", b"targets:\n  - name: [a]\n"), ("BUILD.yaml", b"targets: &a\n  - name: x\n    command: y\naliases: *a\n"),
    ("BUILD.yaml", b"a: &a [x, x]\nb: &b [*a, *a]\nc: &c [*b, *b]\nd: &d [*c, *c]\ne: &e [*d, *d]\nf: &f [*e, *e]\ntargets: *f\n"),
    ("BUILD.yaml", b"targets:\n\t- name: a\n"), ("BUILD.yaml", b"targets: !!binary xx\n"), ("BUILD.yaml", b"? [a]\n: b\n"),
    ("BUILD.yaml", b"targets:\n  - <<: {name: a, command: b}\n"), ("BUILD.yaml", b"targets:\n  - name: a\n    name: b\n    command: c\n"),
    ("BUILD.yaml", b"%YAML 9.9\n---\ntargets: []\n"), ("BUILD.yaml", b"--- a\n--- b\n"), ("BUILD.yaml", b"targets: [" * 3000),
    ("BUILD.yaml", b"\xef\xbb\xbftargets: []\n"), ("BUILD.yaml", b"targets:\n  - name: a\n    command: x\n    timeout: 1e3\n"),
    ("BUILD.yml", b"targets:\n  - name: a\n    command: x\n    platforms: ~\n"),
    ("BUILD.star", b""), ("BUILD.star", b"target("), ("BUILD.star", b"target()"), ("BUILD.star", b"target(name = 3)"),
    ("BUILD.star", b"def f():\n    f()\nf()\n"), ("BUILD.star", b"load('//x.star', 'y')\n"), ("BUILD.star", b"load('BUILD.star', 'y')\n"),
    ("BUILD.star", b"load('../../../../etc/passwd', 'y')\n"), ("BUILD.star", b"target(name = 'a', command = 'x', inputs = 'abc')\n"),
    ("BUILD.star", b"target(name = 'a', command = 'x', fingerprint = {1: 2})\n"), ("BUILD.star", b"target(name = 'a', command = 'x', bogus = 1)\n"),
    ("BUILD.star", b"target(name = 'a' * 100000, command = 'x')\n"), ("BUILD.star", b"x = [1] * 1000\ntarget(name = 'a', command = 'x', inputs = x)\n"),
    ("BUILD.star", b"alias(name = 'a')\n"), ("BUILD.star", b"alias('a', 'b', 'c')\n"), ("BUILD.star", b"fail('boom')\n"), ("BUILD.star", b"1 // 0\n"),
    ("BUILD.star", b"target(name = 'a', command = 'x', platforms = None)\n"), ("BUILD.star", b"target = 3\ntarget(name = 'a')\n"),
    ("BUILD.star", b"[target(name = 'n%d' % i, command = 'x') for i in range(3)]\n"), ("BUILD.star", b"\x00"),
    ("BUILD.bzl", b"target(name = 'a', command = 'x', timeout = 5)\n"), ("BUILD.star", b"(" * 5000),
    ("Makefile", b"# @grog\n# name: a\n# timeout: 1s\n# platforms: [linux/amd64]\nall:\n\ttrue\n"),
    ("Makefile", b"# @grog\n"), ("Makefile", b"# @grog\nall:\n"), ("Makefile", b"all:\n\ttrue\n"), ("Makefile", b"# @grog\n# name: a\nall\n"),
    ("x.grog.sh", b"#!/bin/sh\n# @grog\n# name: a\necho\n"), ("x.grog.sh", b"# @grog\necho\n"), ("x.grog.sh", b"# @grog\n# name: [\necho\n"),
    ("x.grog.py", b"# @grog\n# inputs: 3\nprint()\n"), ("x.grog.sh", b""), ("x.grog.sh", b"# @grog\n# name: a\n" + b"y" * REAL_LONG),
    ("Makefile", b"# @grog\n# name: a\n" + b"f" * REAL_LONG + b":"), ("Makefile", b"x" * (REAL_LONG - 1) + b"\n# @grog\n# name: a\nfoo:\n"),
]
STAR_HANGS = [
    STAR_LOOP,
    b"def g():\n    for i in range(1 << 40):\n        for j in range(1 << 40):\n            pass\ng()\n",
]


def render_script(rng, t):
    ann = {k: v for k, v in t.items() if k in ("name", "dependencies", "inputs", "tags", "fingerprint", "platforms",
                                               "environment_variables", "timeout")}
    body = "".join(k + ":" + render_yaml_value(rng, v, 2) for k, v in shuffled_items(rng, ann))
    return rng.choice(["#!/bin/sh\n", "", "#!/usr/bin/env python3\n\n"]) + "# @grog\n" + \
        "".join(("# " + l if l else "#") + "\n" for l in body.split("\n")[:-1]) + rng.choice(["", "\n"]) + "echo run\n"


def scanner_cases(rng, xcases, n_mut):
    cases = [("mk", c, LONG) for c in SCAN_NASTIES] + [("sh", c, LONG) for c in SCAN_NASTIES]
    seeds = [("mk", b(c["files"]["mk"][1])) for c in xcases if "mk" in c["files"]]
    for c in xcases:
        for t in [t for t in c["dto"]["targets"] if t is not None][:1]:
            seeds.append(("sh", b(render_script(rng, t))))
    cases += seeds[:max(40, n_mut // 4)]
    for _ in range(n_mut):
        k, c = rng.choice(seeds)
        m = mutate(rng, c)
        cases.append((k if rng.chance(5, 6) else ("sh" if k == "mk" else "mk"), m))
    return cases


def robustness_cases(rng, xcases, n_mut):
    cases = [(fn, c, "hand-written") for fn, c in ROBUST_NASTIES]
    pool = []
    for c in xcases:
        for fmt, (fn, txt) in c["files"].items():
            if fmt in ("json", "yaml", "star", "mk"):
                pool.append((fn, b(txt), "case %d %s" % (c["id"], fmt)))
        for t in [t for t in c["dto"]["targets"] if t is not None][:1]:
            pool.append(("x.grog.sh", b(render_script(rng, t)), "case %d script" % c["id"]))
    for _ in range(n_mut):
        fn, c, origin = rng.choice(pool)
        if fn == "BUILD.yaml" and rng.chance(1, 8):
            fn = "BUILD.yml"
        if fn == "BUILD.star" and rng.chance(1, 8):
            fn = "BUILD.bzl"
        if rng.chance(1, 40):
            fn = rng.choice(["BUILD.json", "BUILD.yaml", "BUILD.star", "Makefile", "x.grog.py"])   # bytes of one format under another name
        cases.append((fn, mutate(rng, c), "mutation of " + origin))
    return cases


# ------------------------------------------------------------------ (2) determinism
DET_DIRS = ["pa", "pb/x", "pc", ".", "pd/y/z", "pe"]     # no directory inside another one, apart from the root


def restrict_package(rng, d, used, root):
    """make a generated package fit next to the other files of its directory: names not used yet,
    root package without glob patterns (the reference glob table is per directory content, and the
    root contains every other package)"""
    ts = []
    for t in d["targets"]:
        if t["name"] in used:
            continue
        if root:
            t = {k: v for k, v in t.items() if k != "exclude_inputs"}
            if "inputs" in t:
                t["inputs"] = [i for i in t["inputs"] if not any(ch in i for ch in "*?[{")]
        used.add(t["name"])
        ts.append(t)
    d = dict(d, targets=ts)
    if "aliases" in d:
        als = []
        for a in d["aliases"]:
            if a["name"] in used:
                continue
            used.add(a["name"])
            als.append(a)
        d["aliases"] = als
    return d


def build_dcase(rng, drv, i, findings=None):
    """a workspace of 2-4 directories with 1-3 BUILD files each, all names distinct; one workspace in
    three gets exactly ONE label declared twice by two files of one directory (target/target,
    target/alias, alias/target or alias/alias, in file order) and nothing else that is rejected"""
    dirs = rng.sample(DET_DIRS, 2 + rng.below(3))
    plan = []
    for pkg in dirs:
        used = set()
        for fmt in rng.sample(["json", "yaml", "star", "mk"], 1 + rng.below(3)):
            d = restrict_package(rng, gen_package(rng, wild=False), used, pkg == ".")
            if fmt == "star":
                d.pop("default_platforms", None)
            if fmt == "mk":
                d = {"targets": d["targets"]}
            plan.append([pkg, fmt, d])
    collide = None
    if rng.chance(1, 3):
        cands = [(x, y) for x in range(len(plan)) for y in range(len(plan)) if x != y and plan[x][0] == plan[y][0]]
        if cands:
            x, y = rng.choice(cands)
            first = plan[x][2]
            kinds = (["T"] if first["targets"] else []) + (["A"] if first.get("aliases") else [])
            if kinds:
                k1 = rng.choice(kinds)
                name = rng.choice(first["targets"] if k1 == "T" else first["aliases"])["name"]
                k2 = "T" if plan[y][1] == "mk" else rng.choice(["T", "A"])
                if k2 == "T":
                    plan[y][2]["targets"] = plan[y][2]["targets"] + [{"name": name, "command": "echo dup"}]
                else:
                    plan[y][2]["aliases"] = plan[y][2].get("aliases", []) + [{"name": name, "actual": ":" + name}]
                collide = k1 + k2
    files, frags, alt = [], [], []
    for pkg, fmt, d in plan:
        if fmt == "mk":
            dm = mk_projection(d)
            if dm is None or not dm["targets"]:
                continue
            txt = render_makefile(rng, dm)
            if "makefile-bare-annotation-panic" in (findings or {}) and not model_guards(drv, [txt])[0]:
                continue        # while C16-F1 is a known finding (judged elsewhere): the shape would kill the whole LoadPackages
            dm = mk_loaded(dm)
            files.append([pkg, "Makefile", txt])
            frags.append([pkg, drop_fields(strip_private(dm))])
            alt.append([pkg, strip_private(dm)])
        else:
            fn, rend = RENDER[fmt]
            files.append([pkg, fn, rend(rng, d)])
            frags.append([pkg, d])
            alt.append([pkg, d])
    # frags_repaired: what the loaders deliver (= Loader.v); frags: the same with the Makefile annotations
    # stripped of the four fields (what a Makefile loader with C16-F2 delivers: class check only)
    return {"kind": "determinism", "id": i, "files": files, "frags": frags, "frags_repaired": alt, "collide": collide}


def materialise_ws(root, files, order_rng=None):
    """create the workspace; with order_rng the directories and files are created in shuffled order"""
    pkgs = sorted({p for p, _, _ in files})
    items = [("dir", p) for p in pkgs]
    if order_rng:
        items = order_rng.shuffle(items)
    for _, p in items:
        d = os.path.normpath(os.path.join(root, p))
        fl = list(FILES)
        own = [(fn, txt) for q, fn, txt in files if q == p]
        if order_rng:
            fl = order_rng.shuffle(fl)
            own = order_rng.shuffle(own)
            both = order_rng.shuffle([("f", x) for x in fl] + [("b", x) for x in own])
        else:
            both = [("f", x) for x in fl] + [("b", x) for x in own]
        for kind, x in both:
            if kind == "f":
                write_file(os.path.join(d, x), x)
            else:
                write_file(os.path.join(d, x[0]), x[1])
    write_file(os.path.join(root, "grog.toml"), "")


def load_projection(line, model=False):
    """accept -> ('ok', canonical packages) ; reject (LoadPackages error or duplicate node) -> ('reject', '') ; else status"""
    st, pay, msg = (obs_model if model else obs_impl)(line)
    if st == "ok":
        if pay[0] != "nodes-ok":
            return ("reject", "")
        pk = [canon_pkg(p, keep_path=False) for p in json.loads(pay[1])]
        return ("ok", json.dumps(sorted(pk, key=lambda p: unhx(p["path"])), sort_keys=True))
    if st == "error":
        return ("reject", "")
    return (st, msg[-300:])


def merge_line(frags, globs):
    pats = sorted(set().union(*[patterns_of(d) for _, d in frags]) if frags else [])
    gt = sx_list(["( %s %s )" % (hx(b(p)), "E" if globs.get(p) is None else sx_strs(globs[p])) for p in pats])
    durs = sorted({r for _, d in frags for r in dur_rows(d)})
    return "merge\t%s\t%s\t%s" % (sx_list(["( %s %s )" % (hx(b(p)), sx_package(d)) for p, d in frags]), gt, sx_list(durs))


def dur_rows(d):
    rows = []
    for t in d.get("targets", []):
        if t is None:
            continue
        raw = t.get("timeout", "")
        if raw:
            rows.append("( %s %s )" % (hx(b(raw)), "E" if DUR.get(raw) is None else hx(DUR[raw])))
    return rows


def reference_globs(h, base, pats):
    ref = make_pkg_dir(os.path.join(base, "globref"), ".")
    ans = run_harness(h, ["glob\t%s\t%s" % (hx(b(ref)), hx(b(p))) for p in pats])
    globs = {}
    for p, a in zip(pats, ans):
        f = a.split("\t")
        globs[p] = None if f[0] != "ok" else [unhx(x).decode("utf-8", "surrogateescape") for x in (f[1].split(",") if len(f) > 1 and f[1] else [])]
    return globs


WORKERS = (1, 2, 16)


def eval_determinism(out, h, drv, base, rng, dcases, stats, findings=None):
    findings = findings or {}
    pats = sorted(set().union(*[patterns_of(d) for c in dcases for _, d in c["frags"] + c.get("frags_repaired", [])]) if dcases else [])
    globs = reference_globs(h, base, pats)
    lines, idx = [], []
    for c in dcases:
        ra = os.path.join(base, "d%s" % c["id"], "a")
        rb = os.path.join(base, "d%s" % c["id"], "b")
        materialise_ws(ra, c["files"])
        materialise_ws(rb, c["files"], vlib.Rng(rng.next()))
        for tag, root in (("sorted", ra), ("shuffled", rb)):
            for w_ in WORKERS:
                lines.append("load\t%s\t%d" % (hx(root), w_))
                idx.append((c["id"], tag, w_))
    impl = dict(zip(idx, run_harness(h, lines)))
    mlines = []
    for c in dcases:
        full = c.get("frags_repaired", c["frags"])
        mlines.append(merge_line(full, globs))
        mlines.append(merge_line(vlib.Rng(rng.next()).shuffle(full), globs))
        mlines.append(merge_line(c["frags"], globs))
    rc, mo, me = vlib.run_lines(drv, mlines)
    if rc != 0 or len(mo) != len(mlines):
        raise RuntimeError("model driver failed on merge rc=%s %d/%d %s" % (rc, len(mo), len(mlines), me[-400:]))
    for k, c in enumerate(dcases):
        stats["det_cases"] += 1
        obs = {(tag, w_): load_projection(impl[(c["id"], tag, w_)]) for tag in ("sorted", "shuffled") for w_ in WORKERS}
        stats["det_loads"] += len(obs)
        crashed = [(kk, v) for kk, v in obs.items() if v[0] not in ("ok", "reject")]
        for (tag, w_), v in crashed[:1]:
            out.violation("LoadPackages %s on a generated workspace (%s creation order, num_workers=%d): %s" % (v[0], tag, w_, v[1][:160]),
                          dict(c, observed=v[0], detail=v[1], workers=w_, order=tag))
        if crashed:
            continue
        vals = set(obs.values())
        key = next(iter(vals))[0] if len(vals) == 1 else "diff"
        stats["det_outcomes"][key] = stats["det_outcomes"].get(key, 0) + 1
        if len(vals) > 1:
            out.violation("the loaded graph depends on the worker count / directory creation order: " +
                          "; ".join("%s/%d -> %s" % (t_, w_, diff_hint(v)) for (t_, w_), v in sorted(obs.items())),
                          dict(c, observed={"%s/%d" % kk: list(v) for kk, v in obs.items()}))
            continue
        stats["nontrivial"].add(("det", json.dumps(c["files"], sort_keys=True)))
        m1, m2 = load_projection(mo[3 * k], model=True), load_projection(mo[3 * k + 1], model=True)
        m3 = load_projection(mo[3 * k + 2], model=True)
        if m1 != m2:
            out.violation("Loader.load_all gives different results for two arrival orders of the same fragments (contradicts "
                          "C16_merge_order_independent): %s vs %s" % (diff_hint(m1), diff_hint(m2)),
                          {"theorem": "C16_merge_order_independent", "case": c, "model": [list(m1), list(m2)]}, no_input=True)
        elif m1 not in vals and m3 in vals and "makefile-drops-fields" in findings:
            # m3 = the model on the fragments without the four Makefile annotation fields: the class of C16-F2
            out.known(findings["makefile-drops-fields"]["id"],
                      "LoadPackages on a workspace with an annotated Makefile delivers the graph of the workspace whose Makefile "
                      "annotations lack fingerprint/platforms/timeout/environment_variables")
            stats["makefile_dropped"] += 1
        elif m1 not in vals:
            out.violation("correspondence Loader.load_all ~ LoadPackages + BuildNodeMapFromPackages broke: model %s, implementation %s "
                          "(all six loads of the workspace agree with each other)" % (diff_hint(m1), diff_hint(next(iter(vals)))),
                          {"correspondence": "Loader.enrich/merge_all/load_all vs loading.LoadPackages + model.BuildNodeMapFromPackages",
                           "case": c, "model": list(m1), "impl": list(next(iter(vals)))}, no_input=True)
        else:
            stats["traces"] += len(obs)


# ------------------------------------------------------------------ (2b) many package files in ONE directory, race detector
def eval_wide(out, base, rng, stats, n_ws, reps):
    """Directories with 6-10 package files (BUILD.json, BUILD.yaml, Makefile, several *.grog.sh): every file but the first
    MERGES into the package the first registered, so several workers are in the merge of one package at the same time.
    Loaded `reps` times with 16 workers by a harness built with the Go race detector, and once with 1 worker: every load must
    give the 1-worker answer (a label declared by two of the files: always rejected), no crash, and the race detector silent."""
    try:
        hr = vlib.build_harness("loader", extra_overlay=INJECT, race=True)
        raced = True
    except vlib.HarnessUnavailable as e:
        out.notes.append("wide-directory stage: race-detector build unavailable (%s); run without it" % str(e)[-200:])
        hr = vlib.build_harness("loader", extra_overlay=INJECT)
        raced = False
    for k in range(n_ws):
        root = os.path.join(base, "wide%d" % k)
        files = []
        mk_t = lambda nm: {"name": nm, "command": "echo %s" % nm}
        files.append(("w", "BUILD.json", json.dumps({"targets": [mk_t("j0"), mk_t("j1")]})))
        files.append(("w", "BUILD.yaml", "targets:\n  - name: y0\n    command: echo y0\n"))
        files.append(("w", "Makefile", "# @grog\n# name: m0\nm0:\n\techo m0\n"))
        nscripts = 4 + rng.below(5)
        names = ["s%d" % i for i in range(nscripts)]
        dup = rng.chance(1, 3)
        if dup:
            names[-1] = names[0]      # the same label declared by two scripts
        for i, nm in enumerate(names):
            files.append(("w", "f%d.grog.sh" % i, "#!/bin/sh\n# @grog\n# name: %s\necho %s\n" % (nm, nm)))
        if rng.chance(1, 2):
            files.append((".", "BUILD.json", json.dumps({"targets": [mk_t("r0")]})))
            files.append((".", "r1.grog.sh", "# @grog\n# name: r1\necho r1\n"))
            files.append((".", "r2.grog.sh", "# @grog\n# name: r2\necho r2\n"))
        for pth, fn, txt in files:
            write_file(os.path.join(root, pth, fn), txt)
        write_file(os.path.join(root, "grog.toml"), "")
        lines = ["load\t%s\t1" % hx(root)] + ["load\t%s\t16" % hx(root)] * reps
        rc, outl, err = vlib.run_lines(hr, lines)
        stats["wide_loads"] = stats.get("wide_loads", 0) + len(outl)
        case = {"files": [[a, f, t] for a, f, t in files], "duplicate_label": dup, "loads": "1 worker once, 16 workers x %d" % reps}
        if "DATA RACE" in err:
            i0 = err.index("DATA RACE")
            out.violation("data race in LoadPackages on a directory with %d package files (16 workers): the loaded graph depends on the "
                          "interleaving of two merges into one package: %s" % (len([f for f in files if f[0] == "w"]),
                                                                              " ".join(err[i0:i0 + 600].split())[:400]),
                          dict(case, race_report=err[max(0, i0 - 40):i0 + 3000]))
            continue
        if len(outl) < len(lines):
            out.violation("LoadPackages crashed on a directory with many package files (load %d of %d): %s" % (
                len(outl), len(lines), " ".join(err[-400:].split())), dict(case, stderr=err[-3000:]))
            continue
        ref = load_projection(outl[0])
        want = "reject" if dup else "ok"
        if ref[0] != want:
            out.violation("a directory whose files declare %s is %s by LoadPackages with 1 worker" % (
                "one label twice" if dup else "distinct labels", ref[0]), dict(case, observed=list(ref)))
            continue
        bad = [i for i, l in enumerate(outl[1:]) if load_projection(l) != ref]
        if bad:
            out.violation("the loaded graph depends on the worker count: load %d with 16 workers gives %s, 1 worker gives %s" % (
                bad[0], diff_hint(load_projection(outl[1 + bad[0]])), diff_hint(ref)),
                dict(case, observed_1=list(ref), observed_16=list(load_projection(outl[1 + bad[0]]))))
            continue
        stats["wide_ok"] = stats.get("wide_ok", 0) + 1
        shutil.rmtree(root, ignore_errors=True)
    stats["wide_race_detector"] = raced


# ------------------------------------------------------------------ (4) CLI
PANIC_RE = re.compile(r"panic:|goroutine \d+ \[|runtime error|fatal error:")


def cli_package(rng):
    """a package whose graph builds: dependencies on later targets of the same package only, aliases
    of own targets, no testonly tag"""
    d = gen_package(rng, wild=False)
    names = [t["name"] for t in d["targets"]]
    for i, t in enumerate(d["targets"]):
        later = names[i + 1:]
        if later and rng.chance(2, 3):
            t["dependencies"] = [":" + n for n in rng.sample(later, 1 + rng.below(min(2, len(later))))]
        else:
            t.pop("dependencies", None)
        if "tags" in t:
            t["tags"] = [x for x in t["tags"] if x != "testonly"] or ["t1"]
        # no two outputs at overlapping places (output conflicts are C11's subject)
        outs = []
        for k, o in enumerate(t.get("outputs", [])):
            if o.startswith("dir::"):
                outs.append("dir::d%d_%d" % (i, k))
            elif o.startswith("docker::"):
                outs.append("docker::img%d:%d" % (i, k))
            elif o.startswith("file::"):
                outs.append("file::f%d_%d.bin" % (i, k))
            else:
                outs.append("gen/out%d_%d.txt" % (i, k))
        if outs:
            t["outputs"] = outs
        if "bin_output" in t:
            t["bin_output"] = ("file::bin/t%d" if t["bin_output"].startswith("file::") else "bin/t%d") % i
    seen = set(names)
    als = []
    for a in d.get("aliases", []):
        if a["name"] not in seen:
            seen.add(a["name"])
            als.append(dict(a, actual=":" + rng.choice(names)))
    if "aliases" in d:
        d["aliases"] = als
    return d


def run_grog(grog, ws, top, args, timeout=40):
    env = dict(os.environ, GROG_ROOT=os.path.join(top, "groot"), HOME=top)
    try:
        p = subprocess.run([grog] + args, cwd=ws, env=env, stdout=subprocess.PIPE, stderr=subprocess.PIPE, timeout=timeout)
        return p.returncode, p.stdout.decode("utf-8", "replace"), p.stderr.decode("utf-8", "replace")
    except subprocess.TimeoutExpired:
        return None, "", "timeout"


def canon_graph(stdout):
    g = json.loads(stdout)
    nodes = []
    for n in g.get("nodes") or []:
        n = dict(n)
        n["inputs"] = sorted(n.get("inputs") or [])
        n.pop("is_selected", None)
        nodes.append(n)
    nodes.sort(key=lambda n: (n["label"]["package"], n["label"]["name"]))
    edges = {k: sorted(v or []) for k, v in (g.get("edges") or {}).items() if v}
    return json.dumps({"nodes": nodes, "edges": edges}, sort_keys=True)


def cli_obs(r):
    rc, so, se = r
    txt = so + se
    if rc is None:
        return ("hang", "")
    if PANIC_RE.search(txt):
        return ("panic", txt[-500:])
    if rc == 0:
        try:
            return ("ok", canon_graph(so))
        except Exception:
            return ("ok-unparsable", so[-300:])
    return ("error", err_class(txt))


def eval_cli(out, grog, drv, h, base, rng, n_pkgs, corrupt, findings, stats):
    """corrupt: [(file name, content bytes, in-process status)]"""
    jobs, cases = [], []
    for i in range(n_pkgs):
        d = cli_package(rng)
        pkg = rng.choice(PKG_PATHS)
        c = {"kind": "cli", "id": i, "pkg": pkg, "dto": d, "files": {}}
        for fmt, (fn, rend) in RENDER.items():
            txt = rend(rng, d)
            if txt is not None:
                c["files"][fmt] = [fn, txt]
        dm = mk_projection(d)
        if dm is not None:
            c["files"]["mk"] = ["Makefile", render_makefile(rng, dm)]
            dm = mk_loaded(dm)
            c["files"]["mkjson"] = ["BUILD.json", render_json(rng, dm)]
            c["files"]["mkjson0"] = ["BUILD.json", render_json(rng, drop_fields(strip_private(dm)))]
        cases.append(c)
        for fmt, (fn, txt) in c["files"].items():
            top = os.path.join(base, "cli%d" % i, fmt)
            ws = os.path.join(top, "ws")
            write_file(os.path.join(make_pkg_dir(ws, pkg), fn), txt)
            write_file(os.path.join(ws, "grog.toml"), "")
            jobs.append((("pkg", i, fmt), ws, top))
    for j, (fn, content, st) in enumerate(corrupt):
        top = os.path.join(base, "clic%d" % j)
        ws = os.path.join(top, "ws")
        write_file(os.path.join(ws, "pkg", fn), content)
        write_file(os.path.join(ws, "grog.toml"), "")
        jobs.append((("corrupt", j, fn), ws, top))
    with ThreadPoolExecutor(16) as ex:
        res = list(ex.map(lambda jb: run_grog(grog, jb[1], jb[2], ["graph", "-o", "json"]), jobs))
    obs = {jb[0]: cli_obs(r) for jb, r in zip(jobs, res)}
    raw = {jb[0]: r for jb, r in zip(jobs, res)}
    for c in cases:
        o = {fmt: obs[("pkg", c["id"], fmt)] for fmt in c["files"]}
        stats["cli_runs"] += len(o)
        if "mk" in o and o["mk"][0] == "panic":
            if model_guards(drv, [c["files"]["mk"][1]])[0] is False and "makefile-bare-annotation-panic" in findings:
                out.known(findings["makefile-bare-annotation-panic"]["id"],
                          "grog graph on a workspace whose Makefile has a bare '# @grog' block dies with a Go panic trace")
                stats["cli_known"] += 1
                for k in ("mk", "mkjson", "mkjson0"):
                    o.pop(k, None)
        bad = [(fmt, v) for fmt, v in o.items() if v[0] in ("panic", "hang", "ok-unparsable")]
        for fmt, v in bad[:1]:
            out.violation("grog graph -o json: %s on a generated %s" % (v[0], c["files"][fmt][0]),
                          dict(c, failing_format=fmt, observed=v[0], detail=v[1][-400:]))
        if bad:
            continue
        full = {fmt: o[fmt] for fmt in ("json", "yaml", "star") if fmt in o}
        vals = set(full.values())
        stats["cli_outcomes"][next(iter(vals))[0] if len(vals) == 1 else "diff"] = \
            stats["cli_outcomes"].get(next(iter(vals))[0] if len(vals) == 1 else "diff", 0) + 1
        if len(vals) > 1:
            out.violation("grog graph -o json differs across formats for the same package: " +
                          "; ".join("%s -> %s" % (f, diff_hint(v)) for f, v in sorted(full.items())),
                          dict(c, observed={f: list(v) for f, v in full.items()}))
            continue
        if next(iter(vals))[0] == "ok":
            stats["nontrivial"].add(("cli", json.dumps(c["dto"], sort_keys=True)))
        if "mk" in o and "mkjson" in o:
            if o["mk"] == o["mkjson"]:
                pass
            elif o["mk"] == o.get("mkjson0") and "makefile-drops-fields" in findings:
                out.known(findings["makefile-drops-fields"]["id"],
                          "grog graph -o json of a Makefile-annotated package equals the graph of the package without "
                          "fingerprint/platforms/timeout/environment_variables and differs from the same package written as BUILD.json")
                stats["cli_known"] += 1
            else:
                out.violation("grog graph -o json: Makefile annotations and BUILD.json disagree on the expressible projection: %s vs %s" % (
                    diff_hint(o["mk"]), diff_hint(o["mkjson"])), dict(c, observed={"mk": list(o["mk"]), "mkjson": list(o["mkjson"])}))
    for j, (fn, content, st) in enumerate(corrupt):
        v = obs[("corrupt", j, fn)]
        stats["cli_runs"] += 1
        stats["cli_corrupt"][st + "->" + v[0]] = stats["cli_corrupt"].get(st + "->" + v[0], 0) + 1
        rep = {"kind": "cli-corrupt", "file": fn, "content_hex": content.hex(), "inprocess": st, "observed": v[0],
               "exit": raw[("corrupt", j, fn)][0], "output": (raw[("corrupt", j, fn)][1] + raw[("corrupt", j, fn)][2])[-1500:]}
        if v[0] == "panic":
            if fn == "Makefile" and model_guards(drv, [content])[0] is False and "makefile-bare-annotation-panic" in findings:
                out.known(findings["makefile-bare-annotation-panic"]["id"],
                          "grog graph with Makefile %r: exit %s and a Go panic trace instead of an error message" % (
                              content[:30].decode("latin-1"), rep["exit"]))
                stats["cli_known"] += 1
            elif "null-list-element-panic" in findings and nil_elements(h, os.path.join(base, "clic%d" % j, "ws", "pkg", fn), fn, content):
                out.known(findings["null-list-element-panic"]["id"],
                          "grog graph with %s %r: exit %s and a Go panic trace (nil pointer dereference in getEnrichedPackage)" % (
                              fn, content[:40].decode("latin-1"), rep["exit"]))
                stats["cli_known"] += 1
            else:
                out.violation("grog graph: Go panic trace on a corrupt %s" % fn, rep)
        elif v[0] == "hang":
            out.violation("grog graph: no exit within the timeout on a corrupt %s" % fn, rep)
        elif st == "error" and v[0] != "error":
            out.violation("grog graph exits 0 on a %s that the loader rejects in-process" % fn, rep)
        elif st == "error":
            stats["nontrivial"].add(("clic", fn, content))


def hang_probe(out_box, h, grog_future, drv, base, findings):
    """the two programs that cannot finish, in-process (own harness process, short first timeout,
    confirmed) and once through the CLI; results are judged by the caller's thread"""
    box = {"inproc": [], "cli": None}
    try:
        if h:
            lines = []
            for i, content in enumerate(STAR_HANGS):
                root = os.path.join(base, "hang%d" % i)
                write_file(os.path.join(root, "pkg", "BUILD.star"), content)
                lines.append(loadfile_line(root, "BUILD.star"))
            rc, o, err = run_lines_env(h, lines, {"VERIF_CASE_TIMEOUT_MS": "2500"}, timeout=120)
            o = (o + ["crash\t" + hx(b(err[-800:] or "died"))] * len(lines))[:len(lines)]
            for k, a in enumerate(o):
                if a.split("\t")[0] == "hang" and k == 0:
                    o[k] = confirm_hang(h, lines[k], 7000)
            box["inproc"] = o
        grog = grog_future.result() if grog_future else None
        if grog:
            top = os.path.join(base, "hangcli")
            ws = os.path.join(top, "ws")
            write_file(os.path.join(ws, "pkg", "BUILD.star"), STAR_LOOP)
            write_file(os.path.join(ws, "grog.toml"), "")
            box["cli"] = run_grog(grog, ws, top, ["graph", "-o", "json"], timeout=6)
            # ... and the same loop at the top level of a module the BUILD file load()s: the step limit binds every thread
            top2 = os.path.join(base, "hangcli2")
            ws2 = os.path.join(top2, "ws")
            write_file(os.path.join(ws2, "pkg", "defs.star"), STAR_MODULE_LOOP)
            write_file(os.path.join(ws2, "pkg", "BUILD.star"), b'load("defs.star", "COUNT")\ntarget(name = "a", command = "true")\n')
            write_file(os.path.join(ws2, "grog.toml"), "")
            box["cli_loaded_module"] = run_grog(grog, ws2, top2, ["graph", "-o", "json"], timeout=10)
    except Exception as e:                      # judged by the caller
        box["error"] = "%s: %s" % (type(e).__name__, e)
    out_box.update(box)


def new_stats():
    return {"xformat_cases": 0, "xformat_loads": 0, "makefile_cases": 0, "makefile_dropped": 0, "makefile_bare_panics": 0, "makefile_skipped_blocks": 0, "traces": 0,
            "outcomes": {}, "nontrivial": set(),
            "scanner_cases": 0, "scanner_outcomes": {}, "scanner_known_panics": 0,
            "robust_cases": 0, "robust_outcomes": {}, "robust_known": 0, "hangs_reexamined": 0,
            "det_cases": 0, "det_loads": 0, "det_outcomes": {},
            "cli_runs": 0, "cli_known": 0, "cli_outcomes": {}, "cli_corrupt": {}}


def load_corpus():
    """corpus/C16/*.jsonl: {"kind": "scanner", "scanner": "mk"|"sh", "content_hex": ...} |
    {"kind": "robust", "file": ..., "content_hex": ...}"""
    sc, rb = [], []
    d = os.path.join(vlib.VERIF, "corpus", "C16")
    if os.path.isdir(d):
        for fn in sorted(os.listdir(d)):
            if fn.endswith(".jsonl"):
                for l in open(os.path.join(d, fn)):
                    if l.strip() and not l.startswith("#"):
                        j = json.loads(l)
                        if j.get("kind") == "scanner":
                            sc.append((j["scanner"], bytes.fromhex(j["content_hex"])))
                        elif j.get("kind") in ("robust", "cli-corrupt"):
                            rb.append((j["file"], bytes.fromhex(j["content_hex"]), "corpus"))
    return sc, rb


# ------------------------------------------------------------------ run
def run(out, tier):
    quick = tier != "thorough"
    vol = 1 if quick else 10
    rng = vlib.Rng(vlib.seed())
    findings = load_findings()
    st = new_stats()
    base = os.path.join(vlib.scratch(), "c16")
    os.makedirs(base, exist_ok=True)
    pool = ThreadPoolExecutor(3)
    grog_f = pool.submit(build_grog_or_none, out)
    drv = vlib.build_driver("loader")
    h = None
    try:
        h = vlib.build_harness("loader", extra_overlay=INJECT)
    except vlib.HarnessUnavailable as e:
        out.notes.append("inprocess_tie: unavailable (%s)" % str(e)[-500:])
    hang_box = {}
    hang_f = pool.submit(hang_probe, hang_box, h, grog_f, drv, base, findings)

    corpus_sc, corpus_rb = load_corpus()
    xcases_all, samples = [], []
    corrupt_for_cli = []
    if h:
        # (1) cross-format, in batches (each case is up to six small workspaces on disk)
        n_x, batch = 300 * vol, 300
        for b0 in range(0, n_x, batch):
            bdir = os.path.join(base, "xf%d" % b0)
            cases = [build_xcase(rng, bdir, i, i % 3 != 0, big=(i % 50 == 7)) for i in range(b0, min(n_x, b0 + batch))]
            eval_xformat(out, h, drv, bdir, cases, findings, st)
            xcases_all += cases[:300] if b0 == 0 else []
            shutil.rmtree(bdir, ignore_errors=True)
        c0 = xcases_all[1]
        samples.append({"part": "cross-format", "package_path": c0["pkg"], "dto": c0["dto"],
                        "renderings": {k: v[1][:400] for k, v in c0["files"].items()}})
        # (3) scanners against the model, then arbitrary bytes through LoadIfMatched
        sc = corpus_sc + scanner_cases(rng, xcases_all, 500 * vol)
        eval_scanners(out, h, drv, sc, findings, st)
        samples.append({"part": "scanner", "scanner": sc[len(sc) // 2][0], "content": sc[len(sc) // 2][1][:300].decode("latin-1")})
        rb = corpus_rb + robustness_cases(rng, xcases_all, 2000 * vol)
        res = []
        for b0 in range(0, len(rb), 4000):
            bdir = os.path.join(base, "rb%d" % b0)
            res += eval_robustness_confirmed(out, h, drv, bdir, rb[b0:b0 + 4000], findings, st)
            shutil.rmtree(bdir, ignore_errors=True)
        samples.append({"part": "robustness", "file": rb[-1][0], "origin": rb[-1][2], "content": rb[-1][1][:300].decode("latin-1"),
                        "observed": res[-1][1]})
        # corrupt files for the CLI: rejected in-process, a spread of file names; plus a few accepted ones
        seen_fn = {}
        for (fn, content, origin), s in res:
            if s == "error" and seen_fn.get(fn, 0) < 5 * vol and len(content) < 20000:
                seen_fn[fn] = seen_fn.get(fn, 0) + 1
                corrupt_for_cli.append((fn, content, s))
        corrupt_for_cli += [(fn, c, s) for (fn, c, o), s in res if s == "ok" and o.startswith("mutation")][:6 * vol]
        # (2) determinism
        dcases = [build_dcase(rng, drv, i, findings) for i in range(40 * vol)]
        eval_determinism(out, h, drv, base, rng, dcases, st, findings)
        samples.append({"part": "determinism", "files": [[p, fn, txt[:200]] for p, fn, txt in dcases[0]["files"]],
                        "loads": ["%s creation order, num_workers=%d" % (t_, w_) for t_ in ("sorted", "shuffled") for w_ in WORKERS]})
        eval_wide(out, base, rng, st, 6 * vol, 40 if tier == "quick" else 120)
    corrupt_for_cli += [("Makefile", b"# @grog\nfoo:\n\techo hi\n", "F1-input"), ("BUILD.json", b'{"targets": [null]}', "F4-input"),
                        ("BUILD.yaml", b"aliases:\n  - ~\n", "F4-input"), ("BUILD.json", b"{", "error"),
                        ("BUILD.yaml", b"targets: [", "error"), ("BUILD.star", b"target(", "error")]
    # (4) CLI
    grog = grog_f.result()
    if grog:
        eval_cli(out, grog, drv, h, base, rng, 10 * vol, corrupt_for_cli, findings, st)
    hang_f.result()
    pool.shutdown()
    judge_hang_probe(out, hang_box, findings, st)

    evaluations = st["xformat_loads"] + st["scanner_cases"] + st["robust_cases"] + st["det_loads"] + st["cli_runs"] + st.get("wide_loads", 0)
    out.cov.update({
        "evaluations": evaluations,
        "distinct_nontrivial": len(st["nontrivial"]),
        "rule": "an evaluation = one load of one file / workspace by the real code (in-process LoadIfMatched+getEnrichedPackage, "
                "LoadPackages, the annotation scanners, or `grog graph -o json`). non-trivial = cross-format: a generated package on which all "
                "renderings were loaded and compared (distinct DTOs); scanner: a byte string on which scanner and Loader.scan_*_file agree "
                "(distinct contents); robustness: a corrupted file that reaches a decoder (ok/error, distinct contents); determinism: a "
                "workspace whose six loads were compared (distinct file sets); CLI: a package whose graph was printed for every format",
        "samples": samples,
        "traces_validated_against_impl": st["traces"],
        "input_distribution": {
            "cross_format": {"cases": st["xformat_cases"], "loads": st["xformat_loads"], "outcomes": st["outcomes"],
                             "makefile_projection_cases": st["makefile_cases"], "makefile_fields_dropped": st["makefile_dropped"],
                             "makefile_bare_panics": st["makefile_bare_panics"],
                             "makefile_empty_blocks_skipped_as_expected": st["makefile_skipped_blocks"]},
            "scanners": {"cases": st["scanner_cases"], "outcomes": st["scanner_outcomes"], "known_panics": st["scanner_known_panics"]},
            "robustness": {"cases": st["robust_cases"], "outcomes": st["robust_outcomes"], "known": st["robust_known"],
                           "hangs_reexamined": st["hangs_reexamined"]},
            "determinism": {"workspaces": st["det_cases"], "loads": st["det_loads"], "outcomes": st["det_outcomes"], "workers": list(WORKERS)},
            "wide_directories": {"loads": st.get("wide_loads", 0), "workspaces_all_equal": st.get("wide_ok", 0),
                                 "race_detector": st.get("wide_race_detector"), "shape": "6-10 package files in one directory, 16 workers"},
            "cli": {"runs": st["cli_runs"], "format_agreement": st["cli_outcomes"], "corrupt_inprocess_to_cli": st["cli_corrupt"],
                    "known": st["cli_known"]},
            "hang_probe": {k: (v if not isinstance(v, tuple) else list(v)) for k, v in hang_box.items()},
        },
        "inprocess_tie": h is not None,
        "cli_tie": grog is not None,
        "partial_by_nature": "that encoding/json, yaml.v3 and go.starlark.net deliver the same DTO for the same package and neither panic "
                             "nor hang on arbitrary bytes is third-party behaviour outside Loader.v: established by the runs above only",
    })
    out.assumptions += [
        "Pkl (needs an external evaluator binary) is out of scope; PackageDTO.Environments is decoded and read by nothing",
        "the expressible projection for Makefile annotations: command = make <goal>, no exclude_inputs / bin_output / output_checks / aliases / default_platforms",
        "glob and duration oracles of the model are filled from the real doublestar.Glob on a reference directory and a fixed table of time.ParseDuration values",
        "when a workspace is rejected, only accept/reject is compared across orders and worker counts (which error is reported first depends on arrival order)",
        "a per-case timeout (5 s in-process, confirmed alone with 15 s; 40 s for the CLI) stands for 'hang'",
    ]


def build_grog_or_none(out):
    try:
        return vlib.build_grog()
    except vlib.HarnessUnavailable as e:
        out.notes.append("cli_tie: unavailable (%s)" % str(e)[-300:])
        return None


def judge_hang_probe(out, box, findings, stats):
    if box.get("error"):
        raise RuntimeError("hang probe failed: " + box["error"])
    f3 = findings.get("starlark-unbounded-execution")
    for content, a in zip(STAR_HANGS, box.get("inproc", [])):
        st, pay, msg = obs_impl(a)
        stats["robust_cases"] += 1
        stats["robust_outcomes"]["BUILD.star(probe):" + st] = stats["robust_outcomes"].get("BUILD.star(probe):" + st, 0) + 1
        if st in ("ok", "error"):
            continue
        rep = {"kind": "robust", "file": "BUILD.star", "content_hex": content.hex(), "origin": "hang probe", "observed": st, "detail": msg}
        if st == "hang" and star_has_loop(content) and f3:
            out.known(f3["id"], "a BUILD.star with a long-running loop never finishes loading (no step limit, no cancellation): %r" %
                      content[:70].decode("latin-1"))
            stats["robust_known"] += 1
        else:
            out.violation("loader %s on BUILD.star (hang probe): %s" % (st, msg[:160]), rep)
    if box.get("cli") is not None:
        v = cli_obs(box["cli"])
        stats["cli_runs"] += 1
        stats["cli_corrupt"]["probe->" + v[0]] = stats["cli_corrupt"].get("probe->" + v[0], 0) + 1
        rep = {"kind": "cli-corrupt", "file": "BUILD.star", "content_hex": STAR_LOOP.hex(), "observed": v[0], "timeout_s": 6}
        if v[0] == "hang" and star_has_loop(STAR_LOOP) and f3:
            out.known(f3["id"], "grog graph on a workspace whose BUILD.star loops does not exit")
            stats["cli_known"] += 1
        elif v[0] in ("hang", "panic"):
            out.violation("grog graph: %s on BUILD.star %r" % (v[0], STAR_LOOP[:50]), rep)


    if box.get("cli_loaded_module") is not None:
        v = cli_obs(box["cli_loaded_module"])
        stats["cli_runs"] += 1
        stats["cli_corrupt"]["loaded-module-probe->" + v[0]] = stats["cli_corrupt"].get("loaded-module-probe->" + v[0], 0) + 1
        if v[0] in ("hang", "panic"):
            out.violation("grog graph: %s on a BUILD.star that load()s a module whose top level loops without end (the execution step limit must "
                          "bind load()ed modules too)" % v[0],
                          {"kind": "cli-corrupt", "file": "BUILD.star + defs.star", "content_hex": STAR_MODULE_LOOP.hex(), "observed": v[0], "timeout_s": 10,
                           "build_file": 'load("defs.star", "COUNT")\ntarget(name = "a", command = "true")\n'})


# ------------------------------------------------------------------ replay
def replay(out, path):
    rp = json.load(open(path))["replay"]
    findings = load_findings()
    st = new_stats()
    base = os.path.join(vlib.scratch(), "c16replay")
    drv = vlib.build_driver("loader")
    kind = rp.get("kind")
    case = rp
    if kind is None and isinstance(rp.get("case"), dict):
        case = rp["case"]
        kind = case.get("kind")
    if kind in ("cli", "cli-corrupt"):
        grog = vlib.build_grog()
        rng = vlib.Rng(vlib.seed())
        if kind == "cli-corrupt":
            try:
                hh = vlib.build_harness("loader", extra_overlay=INJECT)
            except vlib.HarnessUnavailable:
                hh = None
            eval_cli(out, grog, drv, hh, base, rng, 0, [(case["file"], bytes.fromhex(case["content_hex"]), case.get("inprocess", "error"))], findings, st)
        else:
            replay_cli_case(out, grog, drv, base, case, findings, st)
        print("cli:", st["cli_outcomes"], st["cli_corrupt"])
        return
    h = vlib.build_harness("loader", extra_overlay=INJECT)
    if kind == "xformat":
        case = dict(case, files={k: list(v) for k, v in case["files"].items()})
        eval_xformat(out, h, drv, base, [case], findings, st)
        print("cross-format outcomes:", st["outcomes"], "makefile dropped:", st["makefile_dropped"], "bare panics:", st["makefile_bare_panics"])
    elif kind == "scanner":
        lim = case.get("token_limit")
        eval_scanners(out, h, drv, [(case["scanner"], bytes.fromhex(case["content_hex"]), None if lim in (None, REAL_LONG) else lim)], findings, st)
        print("scanner outcomes:", st["scanner_outcomes"])
    elif kind == "robust":
        res = eval_robustness_confirmed(out, h, drv, base, [(case["file"], bytes.fromhex(case["content_hex"]), case.get("origin", "replay"))],
                                        findings, st)
        print("robustness outcome:", res[0][1])
    elif kind == "determinism":
        eval_determinism(out, h, drv, base, vlib.Rng(vlib.seed()), [case], st, findings)
        print("determinism outcomes:", st["det_outcomes"])
    else:
        raise RuntimeError("replay: unknown replay kind %r" % kind)
    for v in out.violations:
        v["what"] = "replay: " + v["what"]


def replay_cli_case(out, grog, drv, base, c, findings, stats):
    """re-run one recorded CLI agreement case from its recorded renderings"""
    obs = {}
    for fmt, (fn, txt) in c["files"].items():
        top = os.path.join(base, "cli", fmt)
        ws = os.path.join(top, "ws")
        write_file(os.path.join(make_pkg_dir(ws, c["pkg"]), fn), txt)
        write_file(os.path.join(ws, "grog.toml"), "")
        obs[fmt] = cli_obs(run_grog(grog, ws, top, ["graph", "-o", "json"]))
        print("%-8s -> %s" % (fmt, diff_hint(obs[fmt])))
    bad = [(f, v) for f, v in obs.items() if v[0] in ("panic", "hang", "ok-unparsable")]
    for f, v in bad:
        if f == "mk" and v[0] == "panic" and model_guards(drv, [c["files"]["mk"][1]])[0] is False and "makefile-bare-annotation-panic" in findings:
            out.known(findings["makefile-bare-annotation-panic"]["id"], "grog graph dies with a Go panic trace on a bare '# @grog' block")
            continue
        out.violation("replay: grog graph -o json: %s on %s" % (v[0], c["files"][f][0]), c)
    full = {f: obs[f] for f in ("json", "yaml", "star") if f in obs}
    if len(set(full.values())) > 1:
        out.violation("replay: grog graph -o json differs across formats: " + "; ".join("%s -> %s" % (f, diff_hint(v)) for f, v in sorted(full.items())), c)
    if "mk" in obs and "mkjson" in obs and obs["mk"] != obs["mkjson"] and obs["mk"][0] != "panic":
        if obs["mk"] == obs.get("mkjson0") and "makefile-drops-fields" in findings:
            out.known(findings["makefile-drops-fields"]["id"], "grog graph of the Makefile-annotated package lacks the four dropped fields")
        else:
            out.violation("replay: Makefile annotations and BUILD.json disagree on the expressible projection", c)
