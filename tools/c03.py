"""C03 -- dependencies first, each target once, at most num_workers at a time (scheduler slice).
Tie: gated replay of seeded schedules on the real dag.Walker + worker.TaskWorkerPool inside a synctest bubble,
walked step by step through the extracted Walker.v (both directions), model-free oracles on the same traces,
plus ungated zero-latency walks on all cores.  See walkerlib.py."""
import vlib, walkerlib

TRUSTED = ("testing/synctest quiescence (synctest.Wait) of the Go runtime",
           "ocaml/walker/driver.ml: observation relation between a quiescent state of the real code and Walker.state")


def run(out, tier):
    info, scheds, extra = walkerlib.gated_campaign(out, "C03", tier, "order")
    sinfo = walkerlib.stress_campaign(out, "C03", tier, "order", race=(tier == "thorough"))
    samples = []
    for s in scheds[:400:150]:
        tr = extra.get("traces", {}).get(s["id"])
        if tr:
            samples.append({"schedule": {k: s[k] for k in ("id", "w", "ff", "deps", "fail", "cancel_at")},
                            "trace_head": [[a, o] for a, o in tr["steps"][:4]], "end": tr["end"]})
    out.cov.update(info)
    out.cov.update(sinfo)
    out.cov.update({
        "evaluations": info.get("steps", 0) + sinfo.get("ungated_walks", 0) + sinfo.get("ungated_walker_only_walks", 0),
        "rule": "gated: one evaluation per quiescent step (observation compared with the model in both directions + deps-first / at-most-once / "
                "<= num_workers oracles); ungated: one per walk; distinct_nontrivial = distinct (graph, W, mode, failing set, action sequence) with more than 3 actions",
        "samples": samples,
        "traces_validated_against_impl": info.get("traces", 0),
        "input_distribution": info.get("distribution", {}),
        "graph_families": "tiny graphs exhaustively (<= 1 failing node) + chains, diamonds, ladders, stars, fans, random DAGs up to %d nodes; W in %s" % (
            60 if tier == "quick" else 200, walkerlib.WS),
    })
    out.assumptions += walkerlib.ASSUMPTIONS
    out.notes.append("the 'once per build' clause for commands under load_outputs=minimal (no-cache dependency re-run per dependant) belongs to the Build.v slice (C15)")


def replay(out, path):
    walkerlib.replay(out, "C03", path)
