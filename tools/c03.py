"""C03 -- dependencies first, each target once, at most num_workers at a time (scheduler slice).
Tie: gated replay of seeded schedules on the real dag.Walker + worker.TaskWorkerPool inside a synctest bubble,
walked step by step through the extracted Walker.v (both directions), model-free oracles on the same traces,
plus ungated zero-latency walks on all cores.  See walkerlib.py."""
import json, os
from collections import Counter
import vlib, walkerlib, buildlib as bl, histcheck as hc

TRUSTED = ("testing/synctest quiescence (synctest.Wait) of the Go runtime",
           "ocaml/walker/driver.ml: observation relation between a quiescent state of the real code and Walker.state")


def trans_deps(nodes, i):
    """target indices the target i transitively depends on (aliases followed)"""
    seen, todo, res = set(), list(nodes[i]["deps"]), set()
    while todo:
        d = todo.pop()
        if d in seen:
            continue
        seen.add(d)
        if nodes[d]["k"] == "a":
            todo.append(nodes[d]["actual"])
        else:
            res.add(d)
            todo += nodes[d]["deps"]
    return res


def e2e_plan(mode, witness=False):
    def plan(h, r):
        W = r.choice([1, 2, 3, 4])
        open(os.path.join(h.ws, "grog.toml"), "w").write("num_workers = %d\n" % W)
        if witness:
            # a no-cache dependency with an output, two cache-missing dependants of it and a dependant of those
            mk = lambda name, deps, nc: {"k": "t", "pkg": "p", "name": name, "salt": "v0", "ins": [], "glob": None, "excl": [],
                                         "outs": [("file", "o_%s.txt" % name)], "deps": deps, "fp": {}, "nocache": nc, "multi": False,
                                         "beh": "n", "check": False, "comment": "", "sleep": "0.05"}
            snap = {"nodes": [mk("a", [], True), mk("b", [0], False), mk("c", [0], False), mk("d", [1, 2], False)], "files": {}}
        else:
            feats = dict(hc.FULL); feats["nocache"] = True
            snap = bl.gen_snapshot(r, ntargets=3 + r.below(5), features=feats)
            for n in snap["nodes"]:
                if n["k"] == "t" and r.chance(1, 2):
                    n["sleep"] = r.choice(["0.02", "0.05", "0.1"])
        cfg = {"mode": mode, "cache": True, "workers": W}     # run_build exports GROG_NUM_WORKERS, which overrides grog.toml
        h.set_sources(snap); h.build(cfg)
        s2, why = bl.edit_snapshot(r, h.snap)
        h.set_sources(s2, why); h.build(cfg)
        h.build(cfg)
        return [("workers", W)]
    return plan


def e2e_fault_plan(W):
    """minimal mode, a cache fault and a COMMAND-LESS dependant: grp (no command, input f) depends on lib; lib's blob is lost and
    its output wiped; f and slow's input are edited.  grp's task has to re-make lib while the pool is busy with slow: the
    command of lib must still count against num_workers."""
    def plan(h, r):
        open(os.path.join(h.ws, "grog.toml"), "w").write("num_workers = %d\n" % W)
        T = lambda name, deps, ins, sleep, nocmd=False: {
            "k": "t", "pkg": "p", "name": name, "salt": "v0", "ins": ins, "glob": None, "excl": [],
            "outs": [] if nocmd else [("file", "o_%s.txt" % name)], "deps": deps, "fp": {}, "nocache": False, "multi": False,
            "beh": "n", "check": False, "comment": "", "sleep": sleep, "nocmd": nocmd}
        mk = lambda v: {"nodes": [T("lib", [], [], "0.4"), T("grp", [0], ["f.txt"], None, True), T("slow", [], ["s.txt"], "0.8"),
                                  T("slow2", [], ["s.txt"], "0.8")],
                        "files": {"p/f.txt": v, "p/s.txt": v}}
        cfg = {"mode": "min", "cache": True, "workers": W}
        h.set_sources(mk("v1")); h.build(cfg)
        h.drop_blob(0, 0)
        h.perturb(0, 0, "delete")
        h.set_sources(mk("v2"), "inputs of //p:grp, //p:slow, //p:slow2")
        h.build(cfg)
        return [("workers", W), ("faulted", 1)]
    return plan


def e2e_two_lost_deps_plan(W):
    """minimal mode, a dependant with THREE direct dependencies whose blobs are all lost and whose outputs are wiped; the dependant's
    input is edited.  Its task has to re-make all three (0.5 s each): one after the other or side by side, their commands still
    count against num_workers."""
    def plan(h, r):
        open(os.path.join(h.ws, "grog.toml"), "w").write("num_workers = %d\n" % W)
        T = lambda name, deps, ins, sleep: {
            "k": "t", "pkg": "p", "name": name, "salt": "v0", "ins": ins, "glob": None, "excl": [],
            "outs": [("file", "o_%s.txt" % name)], "deps": deps, "fp": {}, "nocache": False, "multi": False,
            "beh": "n", "check": False, "comment": "", "sleep": sleep}
        mk = lambda v: {"nodes": [T("a1", [], [], "0.5"), T("a2", [], [], "0.5"), T("a3", [], [], "0.5"), T("top", [0, 1, 2], ["f.txt"], None)],
                        "files": {"p/f.txt": v}}
        cfg = {"mode": "min", "cache": True, "workers": W}
        h.set_sources(mk("v1")); h.build(cfg)
        for i in range(3):
            h.drop_blob(i, 0)
            h.perturb(i, 0, "delete")
        h.set_sources(mk("v2"), "input of //p:top")
        h.build(cfg)
        return [("workers", W), ("faulted", 1)]
    return plan


def e2e_backlog_plan(W, ntargets, sleep):
    """many more READY targets than workers, each command running longer than any enqueue back-stop (1 s): the commands must
    still run at most num_workers at a time"""
    def plan(h, r):
        open(os.path.join(h.ws, "grog.toml"), "w").write("num_workers = %d\n" % W)
        T = lambda k: {"k": "t", "pkg": "p", "name": "w%d" % k, "salt": "v0", "ins": [], "glob": None, "excl": [],
                       "outs": [("file", "o_w%d.txt" % k)], "deps": [], "fp": {}, "nocache": False, "multi": False,
                       "beh": "n", "check": False, "comment": "", "sleep": sleep}
        h.set_sources({"nodes": [T(k) for k in range(ntargets)], "files": {}})
        h.build({"mode": "all", "cache": True, "workers": W})
        return [("workers", W)]
    return plan


def e2e_campaign(out, tier):
    """the real binary on generated workspaces, both load_outputs modes, num_workers 1..4 (grog.toml): the O_APPEND trace
    shared by all generated commands must show every command at most once per build, started only after the commands of
    its transitive dependencies that ran in this build have ended, and never more than num_workers commands open."""
    n = 12 if tier == "quick" else 300
    plans = [("e2e-witness-min", e2e_plan("min", True)), ("e2e-witness-all", e2e_plan("all", True))]
    plans += [("e2e-fault-nocmd-w%d" % W, e2e_fault_plan(W)) for W in (1, 2, 1, 2)]
    plans += [("e2e-fault-three-deps-w%d" % W, e2e_two_lost_deps_plan(W)) for W in (1, 2)]
    plans += [("e2e-backlog-w1", e2e_backlog_plan(1, 4, "1.4")), ("e2e-backlog-w2", e2e_backlog_plan(2, 7, "1.2"))]
    plans += [("e2e-min", e2e_plan("min"))] * n + [("e2e-all", e2e_plan("all"))] * n
    batch = hc.run_batch(plans, vlib.seed())
    hc.check_plan_errors(batch)
    evals = 0; maxopen = Counter(); builds = 0
    for name, h, notes, m in batch:
        W = dict((x[0], x[1]) for x in notes if len(x) == 2).get("workers")
        snaps = [o[1] for o in h.ops if o[0] == "S"]
        k = -1; cur = None; bi = -1
        for o in h.ops:
            if o[0] == "S":
                cur = o[1]
            if o[0] != "B":
                continue
            bi += 1
            b = h.builds[bi]; builds += 1
            nodes = cur["nodes"]
            lab2idx = {bl.label(nd): i for i, nd in enumerate(nodes) if nd["k"] == "t"}
            order = [l.split(" ", 1) for l in b["order"] if l[:2] in ("S ", "E ")]
            evals += 1
            problems = []
            cnt = Counter(l for kd, l in order if kd == "S")
            twice = sorted(l for l, c in cnt.items() if c > 1)
            faulted_from = dict((x[0], x[1]) for x in notes if len(x) == 2).get("faulted")
            if twice and not (faulted_from is not None and bi >= faulted_from):     # "absent cache faults"
                problems.append("command of %s ran %s times in one build (no cache fault)" % (twice, [cnt[l] for l in twice]))
            ended = set(); started = set(); open_now = 0; peak = 0
            for kd, l in order:
                if kd == "S":
                    open_now += 1; peak = max(peak, open_now)
                    i = lab2idx.get(l)
                    if i is not None:
                        for d in trans_deps(nodes, i):
                            dl = bl.label(nodes[d])
                            if dl in cnt and dl not in ended:
                                problems.append("command of %s started before the command of its dependency %s had ended" % (l, dl))
                    started.add(l)
                else:
                    open_now -= 1; ended.add(l)
            maxopen[peak] += 1
            if W and peak > W:
                problems.append("%d commands were running at once with num_workers = %d" % (peak, W))
            # a dependant must not start when a dependency that ran did not finish (keep-going build, no failing commands here)
            for pr in problems[:1]:
                rp = h.replay_dict(); rp["oracle"] = pr; rp["build"] = bi; rp["trace"] = b["order"][:60]; rp["num_workers"] = W
                out.violation("%s [build %d, %s, num_workers %s; %s]" % (pr, bi, json.dumps(b["cfg"]), W, "; ".join(h.desc)[:200]), rp)
    st, _ = hc.stats(batch)
    hc.cleanup(batch)
    return {"e2e_histories": len(batch), "e2e_builds": builds, "e2e_oracle_evaluations": evals,
            "e2e_peak_open_commands_histogram": {str(k): v for k, v in sorted(maxopen.items())},
            "e2e_input_distribution": st}


def panic_stage(out, tier):
    """A task that PANICS inside the worker pool (chain 0 <- 1 <- 2 and a free node 3): however the code deals with the crash, the
    dependants of the crashed node never start and the node is never reported successful.  Model-free oracle on the harness output
    (Walker.v: a dependant starts only after its dependency's completion with success, and a crashed task has no such completion)."""
    import subprocess
    h = vlib.build_harness("walker", deps=())
    if not h:
        return 0
    n = 0
    for W in (1, 2, 4):
        for ff in (0, 1):
            for rep in range(2 if tier == "quick" else 20):
                try:
                    p = subprocess.run([h, "panic", str(W), str(ff)], stdout=subprocess.PIPE, stderr=subprocess.PIPE, text=True, timeout=60)
                    lines, rc = p.stdout.split("\n"), p.returncode
                except subprocess.TimeoutExpired:
                    lines, rc = ["hang"], -1
                n += 1
                started = [int(l.split()[1]) for l in lines if l.startswith("started ")]
                comp = dict((int(l.split()[1]), l.split()[2] == "success=true") for l in lines if l.startswith("completion "))
                desc = {"graph": "0 <- 1 <- 2, 3 free; node 0's task panics", "num_workers": W, "fail_fast": bool(ff), "exit": rc, "harness_output": lines[:20]}
                if 1 in started or 2 in started:
                    out.violation("a dependant started although the task of its dependency crashed (panic inside the pool): started %s, "
                                  "num_workers=%d fail_fast=%d" % (started, W, ff), desc)
                    return n
                if comp.get(0):
                    out.violation("a crashed task (panic inside the pool) is reported as a successful completion, num_workers=%d fail_fast=%d" % (W, ff), desc)
                    return n
                if "hang" in lines:
                    out.violation("the walk never returns after a task crashed inside the pool, num_workers=%d fail_fast=%d" % (W, ff), desc)
                    return n
    return n


def run(out, tier):
    einfo = e2e_campaign(out, tier)
    info, scheds, extra = walkerlib.gated_campaign(out, "C03", tier, "order")
    sinfo = walkerlib.stress_campaign(out, "C03", tier, "order", race=(tier == "thorough"))
    out.cov["crashing_task_runs"] = panic_stage(out, tier)
    samples = []
    for s in scheds[:400:150]:
        tr = extra.get("traces", {}).get(s["id"])
        if tr:
            samples.append({"schedule": {k: s[k] for k in ("id", "w", "ff", "deps", "fail", "cancel_at")},
                            "trace_head": [[a, o] for a, o in tr["steps"][:4]], "end": tr["end"]})
    out.cov.update(info)
    out.cov.update(sinfo)
    out.cov.update(einfo)
    out.cov.update({
        "evaluations": info.get("steps", 0) + sinfo.get("ungated_walks", 0) + sinfo.get("ungated_walker_only_walks", 0) + einfo["e2e_oracle_evaluations"],
        "rule": "gated: one evaluation per quiescent step (observation compared with the model in both directions + deps-first / at-most-once / "
                "<= num_workers oracles); ungated: one per walk; distinct_nontrivial = distinct (graph, W, mode, failing set, action sequence) with more than 3 actions",
        "samples": samples,
        "traces_validated_against_impl": info.get("traces", 0),
        "input_distribution": info.get("distribution", {}),
        "graph_families": "tiny graphs exhaustively (<= 1 failing node) + chains, diamonds, ladders, stars, fans, random DAGs up to %d nodes; W in %s" % (
            60 if tier == "quick" else 200, walkerlib.WS),
    })
    out.assumptions += walkerlib.ASSUMPTIONS
    out.notes.append("e2e stage: the command-level clauses (once per build, dependencies' commands ended first, <= num_workers open) are "
                     "checked model-free on the real binary's command trace in both load_outputs modes; the Build.v side of 'once per build' "
                     "under load_outputs=minimal is C15's lock-step theorem")


def replay(out, path):
    rp = json.load(open(path))["replay"]
    if "oracle" in rp and "ops" in rp:
        print(json.dumps({k: rp.get(k) for k in ("oracle", "build", "num_workers", "description", "trace")}, indent=1)[:4000])
        return
    if "harness_output" in rp:
        print(json.dumps(rp, indent=1)[:3000])
        n0 = len(out.violations) if hasattr(out, "violations") else 0
        panic_stage(out, "quick")
        return
    walkerlib.replay(out, "C03", path)
