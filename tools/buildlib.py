"""End-to-end build histories: generator, workspace renderer, runner of the real grog binary and
encoder for the Build.v model driver.  Shared by C01, C02, C05, C13, C14, C15 (and C18/C20)."""
import copy, fnmatch, json, os, shutil, subprocess, time
from concurrent.futures import ThreadPoolExecutor
import vlib
from vlib import hx

PLATFORM_ENV = {"GROG_OS": "lx", "GROG_ARCH": "a64"}


# ------------------------------------------------------------------ snapshots
def label(n):
    return "//%s:%s" % (n["pkg"], n["name"])


def full(pkg, rel):
    return rel if pkg == "" else pkg + "/" + rel


def resolve(nodes, i):
    seen = 0
    while nodes[i]["k"] == "a" and seen <= len(nodes):
        i = nodes[i]["actual"]; seen += 1
    return i


def resolved_inputs(snap, t):
    """Literal inputs as declared; the glob "<dir>/*.txt" is resolved over the snapshot's files,
    minus the exclude "<dir>/f0*"."""
    res = list(t["ins"])
    if t.get("glob"):
        d, pat = t["glob"].split("/", 1)
        pre = full(t["pkg"], d) + "/"
        for p in sorted(snap["files"], key=lambda x: x.encode()):
            if p.startswith(pre) and "/" not in p[len(pre):] and glob_match(pat, p[len(pre):]):
                base = p[len(pre):]
                if t.get("excl") and base.startswith("f0"):
                    continue
                res.append(d + "/" + base)
    return res


def brace_expand(pat):
    """{a,b}c -> [ac, bc] (one level, as the generator produces)"""
    i = pat.find("{")
    if i < 0:
        return [pat]
    j = pat.index("}", i)
    return [pat[:i] + alt + pat[j + 1:] for alt in pat[i + 1:j].split(",")]


def glob_match(pat, base):
    import fnmatch
    return any(fnmatch.fnmatchcase(base, alt) for alt in brace_expand(pat))


def q(s):
    return "'" + s.replace("'", "'\\''") + "'"


def command_text(snap, t):
    nodes = snap["nodes"]
    lab = label(t)
    L = ['echo %s >> "$VTRACE"' % q("S " + lab)]
    if t.get("prelude"):
        L.append(t["prelude"])
    if t["beh"] == "f":
        L.append(fail_line(t))
    depouts = []
    for d in t["deps"]:
        dt = nodes[resolve(nodes, d)]
        for kind, path in dt["outs"]:
            fp = full(dt["pkg"], path)
            depouts.append((fp, fp + "/data" if kind == "dir" else fp))
    for fp, real in depouts:
        L.append('[ -f "$GROG_WORKSPACE_ROOT"/%s ] || exit 4' % q(real))
    L.append("gen() {")
    L.append("printf 'T %%s %%s %%s\\n' %s \"$1\" %s" % (q(lab), q(t["salt"])))
    for p in sorted(t["ins"], key=lambda s: s.encode()):
        L.append("if [ -f %s ]; then printf 'I %%s\\n' %s; cat %s; printf '\\n'; else printf 'I %%s -\\n' %s; fi" % (q(p), q(p), q(p), q(p)))
    if t.get("glob"):
        excl = ""
        if t.get("excl"):
            excl = ' case "$f" in %s) continue;; esac;' % "|".join(t["excl"])
        gd, gpat = t["glob"].split("/", 1)
        shglob = " ".join(gd + "/" + alt for alt in brace_expand(gpat))     # sh has no brace expansion
        L.append('for f in %s; do [ -f "$f" ] || continue;%s printf \'I %%s\\n\' "$f"; cat "$f"; printf \'\\n\'; done' % (shglob, excl))
    for fp, real in depouts:
        L.append("printf 'D %%s\\n' %s; cat \"$GROG_WORKSPACE_ROOT\"/%s; printf '\\n'" % (q(fp), q(real)))
    L.append("}")
    if t.get("comment"):
        L.append(": " + t["comment"])
    if t.get("sleep"):
        L.append("sleep %s" % t["sleep"])
    for k, (kind, path) in enumerate(t["outs"]):
        skip = isinstance(t["beh"], (list, tuple)) and t["beh"][0] == "s" and t["beh"][1] == k
        if kind == "file":
            L.append("rm -rf %s" % q(path))
            if not skip:
                if "/" in path:
                    L.append("mkdir -p %s" % q(path.rsplit("/", 1)[0]))
                L.append("gen %s > %s" % (q("file::" + path), q(path)))
        else:
            L.append("rm -rf %s" % q(path))
            if not skip:
                L.append("mkdir -p %s" % q(path))
                L.append("gen %s > %s" % (q("dir::" + path), q(path + "/data")))
    if t.get("check"):
        if t["beh"] == "x":   # destroys the condition its own output check inspects (post-execution check fails)
            L.append('rm -f "$GROG_WORKSPACE_ROOT/ext"/%s' % q(ext_name(t)))
        else:
            L.append('mkdir -p "$GROG_WORKSPACE_ROOT/ext"; touch "$GROG_WORKSPACE_ROOT/ext"/%s' % q(ext_name(t)))
    if t.get("sleep_after"):
        L.append(t["sleep_after"])          # after the outputs are in place (e.g. "sleep 3 & wait $!")
    if t["beh"] == "a":
        L.append(fail_line(t))
        return "\n".join(L)      # nothing after it: with the and-list form the script ENDS with the failing status
    L.append('echo %s >> "$VTRACE"' % q("E " + lab))
    return "\n".join(L)


FAIL_HOW = ["exit", "exit", "term", "kill", "int", "andlist", "subshell"]


def fail_line(t):
    """HOW a failing command fails (the model knows only THAT it fails): a plain exit status, death by a signal that did not come
    from grog, a failing and-list as the last command (set -e does not abort on it; the script's status is the list's), a subshell"""
    how = t.get("failhow") or FAIL_HOW[sum(t["name"].encode()) % len(FAIL_HOW)]
    if how == "andlist" and t["beh"] != "a":
        how = "exit"          # only as the LAST command does a failing and-list end the script (set -e does not abort on it)
    return {"exit": "exit 3", "term": "kill -TERM $$; sleep 5; exit 3", "kill": "kill -KILL $$; sleep 5; exit 3",
            "int": "kill -INT $$; sleep 5; exit 3", "andlist": "test -f /nonexistent-zz/x && grep -q ready /nonexistent-zz/x",
            "subshell": "(exit 3)"}[how]


def ext_name(t):
    return (t["pkg"].replace("/", "_") or "root") + "__" + t["name"]


def render(snap, ws):
    """Write BUILD.json files and input files of a snapshot into ws (outputs are left alone)."""
    nodes = snap["nodes"]
    pkgs = {}
    for n in nodes:
        pkgs.setdefault(n["pkg"], {"targets": [], "aliases": []})
    for n in nodes:
        if n["k"] == "a":
            pkgs[n["pkg"]]["aliases"].append({"name": n["name"], "actual": label(nodes[n["actual"]])})
            continue
        t = {"name": n["name"], "command": command_text(snap, n)}
        if n.get("nocmd"):
            del t["command"]          # a command-less target (file group): inputs and dependencies only
        if n["deps"]:
            t["dependencies"] = [label(nodes[d]) for d in n["deps"]]
        ins = list(n["ins"]) + ([n["glob"]] if n.get("glob") else [])
        if ins:
            t["inputs"] = ins
        if n.get("excl"):
            t["exclude_inputs"] = list(n["excl"])
        if n["outs"]:
            t["outputs"] = [(p if k == "file" else "dir::" + p) for k, p in n["outs"]]
        tags = (["no-cache"] if n.get("nocache") else []) + (["multiplatform-cache"] if n.get("multi") else []) + list(n.get("tags", []))
        if tags:
            t["tags"] = tags
        if n.get("fp"):
            t["fingerprint"] = dict(n["fp"])
        if n.get("check"):
            chk = 'test -f "$GROG_WORKSPACE_ROOT/ext"/%s' % q(ext_name(n))
            if sum(n["name"].encode()) % 2:
                chk += ' && test -r "$GROG_WORKSPACE_ROOT/ext"/%s' % q(ext_name(n))     # an and-list: its status is the check's verdict
            t["output_checks"] = [{"command": chk}]
        if n.get("timeout"):
            t["timeout"] = n["timeout"]
        pkgs[n["pkg"]]["targets"].append(t)
    os.makedirs(ws, exist_ok=True)
    if not os.path.exists(os.path.join(ws, "grog.toml")):
        open(os.path.join(ws, "grog.toml"), "w").write("")
    # remove BUILD files of packages that no longer exist, and input files that were removed
    keep = set()
    for pkg, body in pkgs.items():
        d = os.path.join(ws, pkg)
        os.makedirs(d, exist_ok=True)
        with open(os.path.join(d, "BUILD.json"), "w") as f:
            json.dump(body, f, indent=1)
        keep.add(os.path.join(d, "BUILD.json"))
    for root, dirs, files in os.walk(ws):
        for fn in files:
            p = os.path.join(root, fn)
            if fn == "BUILD.json" and p not in keep:
                os.unlink(p)
    man = os.path.join(ws, ".inputs.json")
    old = json.load(open(man)) if os.path.exists(man) else []
    for p in old:
        if p not in snap["files"] and os.path.isfile(os.path.join(ws, p)):
            os.unlink(os.path.join(ws, p))
    for p, c in snap["files"].items():
        fp = os.path.join(ws, p)
        os.makedirs(os.path.dirname(fp), exist_ok=True)
        with open(fp, "wb") as f:
            f.write(c.encode("latin-1"))
    json.dump(sorted(snap["files"]), open(man, "w"))


# ------------------------------------------------------------------ observing the workspace
def observe_output(ws, pkg, kind, path):
    p = os.path.join(ws, full(pkg, path))
    if kind == "file":
        if os.path.isfile(p):
            return "F" + open(p, "rb").read().hex()
        if os.path.isdir(p):
            return "W"
        return "A"
    if os.path.isdir(p):
        names = sorted(os.listdir(p))
        if names == ["data"] and os.path.isfile(os.path.join(p, "data")):
            return "F" + open(os.path.join(p, "data"), "rb").read().hex()
        return "X" + ",".join(names)          # a directory whose listing is not what the command writes
    if os.path.exists(p):
        return "W"
    return "A"


def outputs_of(snap):
    res = []
    for n in snap["nodes"]:
        if n["k"] == "t":
            for kind, path in n["outs"]:
                res.append((n["pkg"], kind, path))
    return res


def apply_perturb(ws, pkg, kind, path, what):
    """Bring an output path into a prior state; returns the model pstate token list."""
    p = os.path.join(ws, full(pkg, path))

    def rm():
        if os.path.isdir(p) and not os.path.islink(p):
            shutil.rmtree(p)
        elif os.path.lexists(p):
            os.unlink(p)
    if what == "delete":
        rm(); return ["A"]
    if what == "delete_parent":
        rm()
        par = os.path.dirname(p)
        if "/" in path and os.path.isdir(par):
            shutil.rmtree(par); return ["N"]
        return ["A"]
    if what == "modify":
        tgt = p if kind == "file" else os.path.join(p, "data")
        if os.path.isfile(tgt):
            with open(tgt, "ab") as f:
                f.write(b"MOD")
            return ["F", hx(open(tgt, "rb").read())]
        return None
    if what == "truncate":
        tgt = p if kind == "file" else os.path.join(p, "data")
        if os.path.isfile(tgt):
            open(tgt, "wb").close()
            return ["F", "-"]
        return None
    if what == "wrong_kind":
        rm()
        if kind == "file":
            # a directory (holding a file and a sub-directory) where the file output belongs
            if "/" in path:
                os.makedirs(os.path.dirname(p), exist_ok=True)
            os.makedirs(os.path.join(p, "sub"))
            open(os.path.join(p, "sub", "stale"), "w").write("stale\n")
            open(os.path.join(p, "stale"), "w").write("stale\n")
        else:
            open(p, "w").write("not a dir")
        return ["W"]
    return None


# ------------------------------------------------------------------ running grog
def grog_env(root, trace, extra=None):
    env = dict(os.environ)
    env.update(PLATFORM_ENV)
    env.update({"GROG_ROOT": root, "HOME": os.path.dirname(root), "VTRACE": trace, "LC_ALL": "C",
                "GROG_DISABLE_TEA": "true", "NO_COLOR": "1"})
    for k in ("CI",):
        env.pop(k, None)
    if extra:
        env.update(extra)
    return env


def run_build(grog, ws, root, cfg, roots_labels, trace, timeout=120, extra_env=None, cmd="build"):
    if os.path.exists(trace):
        os.unlink(trace)
    args = [grog, cmd, "--load-outputs=" + ("minimal" if cfg["mode"] == "min" else "all"),
            "--enable-cache=" + ("true" if cfg["cache"] else "false")]
    if cfg.get("ff"):
        args.append("--fail-fast")
    args += roots_labels
    env = grog_env(root, trace, extra_env)
    env["GROG_NUM_WORKERS"] = str(cfg.get("workers", 4))
    t0 = time.time()
    try:
        p = subprocess.run(args, cwd=ws, env=env, stdout=subprocess.PIPE, stderr=subprocess.PIPE, timeout=timeout, text=True)
        rc, so, se = p.returncode, p.stdout, p.stderr
    except subprocess.TimeoutExpired as e:
        rc, so, se = "hang", (e.stdout or b"").decode("latin-1") if isinstance(e.stdout, bytes) else (e.stdout or ""), ""
    starts, ends = [], []
    if os.path.exists(trace):
        for line in open(trace):
            line = line.rstrip("\n")
            if line.startswith("S "):
                starts.append(line[2:])
            elif line.startswith("E "):
                ends.append(line[2:])
    return {"rc": rc, "stdout": so[-3000:], "stderr": se[-3000:], "starts": starts, "ends": ends, "wall": time.time() - t0,
            "order": [l.rstrip("\n") for l in open(trace)] if os.path.exists(trace) else []}


# ------------------------------------------------------------------ encoding for the model driver
def enc_label(n):
    return [hx(n["pkg"]), hx(n["name"])]


def enc_beh(b):
    if isinstance(b, (list, tuple)):
        return ["s", str(b[1])]
    return [b]


def enc_sources(snap):
    t = [str(len(snap["nodes"]))]
    for n in snap["nodes"]:
        if n["k"] == "a":
            t += ["a"] + enc_label(n) + [str(n["actual"])]
            continue
        ins = resolved_inputs(snap, n)
        t += ["t"] + enc_label(n) + [hx(b"" if n.get("nocmd") else command_text(snap, n).encode("latin-1")), hx(n["salt"])]
        t += [str(len(ins))] + [hx(p) for p in ins]
        t += [str(len(n["outs"]))]
        for k, p in n["outs"]:
            t += [k, hx(p)]
        t += [str(len(n["deps"]))] + [str(d) for d in n["deps"]]
        fp = sorted(n.get("fp", {}).items())
        t += [str(len(fp))]
        for k, v in fp:
            t += [hx(k), hx(v)]
        t += ["1" if n.get("nocache") else "0", "1" if n.get("multi") else "0"] + enc_beh(n["beh"]) + ["1" if n.get("check") else "0"]
    files = sorted(snap["files"].items())
    t += [str(len(files))]
    for p, c in files:
        t += [hx(p), hx(c.encode("latin-1"))]
    return t


def enc_cfg(cfg):
    return [cfg["mode"], "1" if cfg["cache"] else "0", "1" if cfg.get("ff") else "0"]


def enc_history(ops):
    """ops: list of ('S', snap) | ('T', [nodes]) | ('P', fullpath, pstate tokens) | ('X', node) | ('B', cfg, roots)"""
    t = [str(len(ops))]
    for o in ops:
        if o[0] == "S":
            t += ["S"] + enc_sources(o[1])
        elif o[0] == "T":
            t += ["T", str(len(o[1]))]
            for n in o[1]:
                t += enc_label(n)
        elif o[0] == "P":
            t += ["P", hx(o[1])] + list(o[2])
        elif o[0] == "X":
            t += ["X"] + enc_label(o[1])
        elif o[0] == "D":
            t += ["D", hx(o[1])]
        elif o[0] == "R":
            t += ["R"]
        elif o[0] == "B":
            t += ["B"] + enc_cfg(o[1]) + [str(len(o[2]))] + [str(r) for r in o[2]]
    return " ".join(t)


class ModelBuilds(list):
    """the model's builds of one history + the decidable guards the driver evaluated on it"""
    guards = None


def parse_model(line):
    builds = ModelBuilds()
    if line.startswith("model-error"):
        raise RuntimeError(line)
    builds.guards = {}
    if "#" in line:
        line, g = line.split("#", 1)
        builds.guards = {kv.split("=")[0]: kv.split("=")[1] == "1" for kv in g.split("#") if "=" in kv}
    for b in line.split(";") if line else []:
        ok, ex, st, ws = b.split("|")
        wsd = {}
        for e in ws.split(",") if ws else []:
            p, s = e.split(":", 1)
            wsd[vlib.unhx(p).decode("latin-1")] = s
        builds.append({"ok": ok == "1", "exec": sorted(vlib.unhx(x).decode("latin-1") for x in ex.split(",")) if ex else [],
                       "status": st, "ws": wsd})
    return builds


def norm_state(s):
    """Comparable projection of a path state: absent (A/N) | wrong kind | content."""
    if s in ("A", "N"):
        return "absent"
    if s == "F-":
        return "F"
    return s


# ------------------------------------------------------------------ generator
PKGS = ["p", "q", "p/r"]


def gen_snapshot(r, ntargets=None, features=None):
    f = {"alias": True, "dirs": True, "glob": True, "subdir": True, "nocache": False, "fail": False, "check": False,
         "multiout": True, "fp": True}
    f.update(features or {})
    n = ntargets or (2 + r.below(4))
    nodes, files = [], {}
    tcount = 0
    for i in range(n):
        pkg = r.choice(PKGS[:2]) if r.chance(4, 5) else "p/r"
        name = "t%d" % tcount
        tcount += 1
        t = {"k": "t", "pkg": pkg, "name": name, "salt": "v0", "ins": [], "glob": None, "excl": [], "outs": [], "deps": [],
             "fp": {}, "nocache": False, "multi": False, "beh": "n", "check": False, "comment": ""}
        # inputs
        if f["glob"] and r.chance(1, 4):
            gd = "g_%s" % name
            t["glob"] = gd + "/" + r.choice(["*.txt", "*.txt", "{f0,f1,f2}.txt", "f?.txt", "[fn]*.txt", "{f0,n1}.*"])
            for k in range(1 + r.below(3)):
                files[full(pkg, "%s/f%d.txt" % (gd, k))] = r.choice(["x", "xy", "z", "yz", "", "data%d" % k])
            if r.chance(1, 3):
                t["excl"] = [gd + "/f0*"]
        else:
            for k in range(r.below(3)):
                p = "s_%s_%d.txt" % (name, k)
                t["ins"].append(p)
                if not r.chance(1, 12):
                    files[full(pkg, p)] = r.choice(["x", "xy", "z", "yz", "", "c%d" % k])
        # outputs
        nouts = r.choice([1, 1, 1, 2, 0]) if f["multiout"] else 1
        for k in range(nouts):
            if f["dirs"] and r.chance(1, 4):
                t["outs"].append(("dir", "d_%s_%d" % (name, k)))
            elif f["subdir"] and r.chance(1, 4):
                t["outs"].append(("file", "sub_%s_%d/o.txt" % (name, k)))
            else:
                t["outs"].append(("file", "o_%s_%d.txt" % (name, k)))
        # dependencies on earlier nodes (targets or aliases)
        cands = list(range(len(nodes)))
        for d in r.sample(cands, min(len(cands), r.below(3))):
            t["deps"].append(d)
        if f["fp"] and r.chance(1, 6):
            t["fp"] = {"k": r.choice(["v", "w"])}
        if f["nocache"] and r.chance(1, 4):
            t["nocache"] = True
        if f["check"] and r.chance(1, 3):
            t["check"] = True
        if f["fail"] and r.chance(1, 4):
            t["beh"] = r.choice(["f", "a"] + ([["s", 0]] if t["outs"] else []))
        if f.get("timeouts", True) and r.chance(1, 3):
            t["timeout"] = r.choice(["60s", "5m", "1h"])      # never strikes: the outcome must be that of the same target without it
        nodes.append(t)
        if f["alias"] and r.chance(1, 4):
            tgt = r.below(len(nodes))
            nodes.append({"k": "a", "pkg": r.choice(PKGS[:2]), "name": "al%d" % len(nodes), "actual": tgt})
    return {"nodes": nodes, "files": files}


def edit_snapshot(r, snap, features=None):
    """One source edit; returns (new snapshot, description).  The description names the target whose
    own key state changed as '... of //pkg:name' / '... to //pkg:name' / '... from //pkg:name' where known."""
    f = {"fail": False}
    f.update(features or {})
    s = copy.deepcopy(snap)
    ts = [i for i, n in enumerate(s["nodes"]) if n["k"] == "t"]
    kinds = ["content", "content", "salt", "comment", "addfile", "rmfile", "fp", "shift", "dep", "outs", "alias_retarget", "rename"]
    if f["fail"]:
        kinds += ["beh", "beh"]
    k = r.choice(kinds)
    i = r.choice(ts)
    t = s["nodes"][i]
    if k == "content" and s["files"]:
        p = r.choice(sorted(s["files"]))
        s["files"][p] = s["files"][p] + r.choice(["a", "b", "\n", "x"])
        return s, "content of %s" % p
    if k == "salt":
        t["salt"] = "v%d" % r.below(1000)
        return s, "command (output-relevant) of %s" % label(t)
    if k == "comment":
        t["comment"] = "c%d" % r.below(1000)
        return s, "command (comment only) of %s" % label(t)
    if k == "addfile" and t.get("glob"):
        s["files"][full(t["pkg"], t["glob"].split("/")[0] + "/n%d.txt" % r.below(50))] = "new"
        return s, "file added under glob of %s" % label(t)
    if k == "rmfile" and s["files"]:
        p = r.choice(sorted(s["files"]))
        del s["files"][p]
        return s, "file %s removed" % p
    if k == "rename" and t.get("glob"):
        mine = [p for p in sorted(s["files"]) if p.startswith(full(t["pkg"], t["glob"].split("/")[0]) + "/")]
        if mine:
            p = r.choice(mine)
            s["files"][p.rsplit("/", 1)[0] + "/r%d.txt" % r.below(50)] = s["files"].pop(p)
            return s, "file %s renamed" % p
    if k == "fp":
        t["fp"] = dict(t["fp"]); t["fp"]["k"] = r.choice(["v", "w", "u%d" % r.below(9)])
        return s, "fingerprint of %s" % label(t)
    if k == "shift":
        # adversarial: bytes move from the end of one input file to the start of the next
        ins = sorted(resolved_inputs(s, t), key=lambda x: x.encode())
        pres = [p for p in ins if full(t["pkg"], p) in s["files"]]
        if len(pres) >= 2 and s["files"][full(t["pkg"], pres[0])]:
            a, b = full(t["pkg"], pres[0]), full(t["pkg"], pres[1])
            s["files"][b] = s["files"][a][-1] + s["files"][b]
            s["files"][a] = s["files"][a][:-1]
            return s, "byte moved from end of %s to start of %s" % (a, b)
    if k == "dep":
        cands = [d for d in range(i) if d not in t["deps"]]
        if cands and r.chance(1, 2):
            t["deps"].append(r.choice(cands)); return s, "dependency added to %s" % label(t)
        if t["deps"]:
            t["deps"].pop(r.below(len(t["deps"]))); return s, "dependency removed from %s" % label(t)
    if k == "outs":
        if r.chance(1, 2) and len(t["outs"]) < 3:
            t["outs"].append(("file", "o_%s_n%d.txt" % (t["name"], r.below(50)))); return s, "output added to %s" % label(t)
        if len(t["outs"]) > 1:
            t["outs"].pop(); return s, "output removed from %s" % label(t)
    if k == "alias_retarget":
        al = [j for j, n in enumerate(s["nodes"]) if n["k"] == "a"]
        if al:
            j = r.choice(al)
            cands = [d for d in range(j) if s["nodes"][d]["k"] == "t" and d != s["nodes"][j]["actual"]]
            # keep the snapshot topological: every user of the alias comes later anyway
            if cands:
                s["nodes"][j]["actual"] = r.choice(cands); return s, "alias %s retargeted" % label(s["nodes"][j])
    if k == "beh":
        t["beh"] = r.choice(["n", "n", "f", "a"] + ([["s", 0]] if t["outs"] else []))
        t["salt"] = t["salt"] + "b"
        return s, "behaviour of %s" % label(t)
    # fallback: content edit of the target's salt
    t["salt"] = "v%d" % r.below(1000)
    return s, "command (output-relevant) of %s" % label(t)


def nl_paths(snap):
    """Output paths that live in their own sub-directory (parent absent until first built)."""
    res = []
    for n in snap["nodes"]:
        if n["k"] == "t":
            for k, p in n["outs"]:
                if "/" in p:
                    res.append(full(n["pkg"], p))
    return res


class History:
    """A history is executed step by step on the real binary; the same ops are recorded for the model."""

    def __init__(self, base, name, grog):
        self.dir = os.path.join(base, name)
        self.ws = os.path.join(self.dir, "ws")
        self.root = os.path.join(self.dir, "root")
        os.makedirs(self.ws, exist_ok=True)
        os.makedirs(self.root, exist_ok=True)
        self.grog = grog
        self.ops = []
        self.snap = None
        self.known_noparent = set()
        self.builds = []          # observed: dict(rc, starts, ws)
        self.nb = 0
        self.desc = []

    def set_sources(self, snap, why="initial"):
        self.snap = copy.deepcopy(snap)
        render(self.snap, self.ws)
        self.ops.append(("S", copy.deepcopy(snap)))
        # outputs in their own sub-directory start with an absent parent
        for p in nl_paths(snap):
            if p not in self.known_noparent and not os.path.isdir(os.path.dirname(os.path.join(self.ws, p))):
                self.known_noparent.add(p)
                self.ops.append(("P", p, ["N"]))
        self.desc.append("edit: " + why)

    def taint(self, idxs):
        ns = [self.snap["nodes"][i] for i in idxs]
        env = grog_env(self.root, os.path.join(self.dir, "trace"))
        p = subprocess.run([self.grog, "taint"] + [label(n) for n in ns], cwd=self.ws, env=env,
                           stdout=subprocess.PIPE, stderr=subprocess.PIPE, text=True, timeout=60)
        self.ops.append(("T", ns))
        self.desc.append("taint " + " ".join(label(n) for n in ns))
        return p.returncode

    def perturb(self, node_idx, out_idx, what):
        n = self.snap["nodes"][node_idx]
        kind, path = n["outs"][out_idx]
        st = apply_perturb(self.ws, n["pkg"], kind, path, what)
        if st is not None:
            self.ops.append(("P", full(n["pkg"], path), st))
            self.desc.append("perturb %s: %s" % (full(n["pkg"], path), what))
        return st

    def destroy_ext(self, node_idx):
        n = self.snap["nodes"][node_idx]
        p = os.path.join(self.ws, "ext", ext_name(n))
        if os.path.exists(p):
            os.unlink(p)
        self.ops.append(("X", n))
        self.desc.append("destroy external condition of " + label(n))

    def cache_dirs(self, sec):
        res = []
        for dp, dn, fn in os.walk(self.root):
            if os.path.basename(dp) == sec:
                res.append(dp)
        return res

    def drop_blob(self, node_idx, out_idx):
        """cache fault: the CAS blob holding the bytes of an output as they sit in the workspace now is lost -- of a FILE output,
        or of the file INSIDE a directory output (the tree blob stays: the restore finds the tree and fails on a nested file; for the
        model a directory output is one blob, lost either way)"""
        n = self.snap["nodes"][node_idx]
        kind, path = n["outs"][out_idx]
        fp = full(n["pkg"], path)
        try:
            data = open(os.path.join(self.ws, fp, "data") if kind == "dir" else os.path.join(self.ws, fp), "rb").read()
        except OSError:
            return False
        for d in self.cache_dirs("cas"):
            for f in os.listdir(d):
                q = os.path.join(d, f)
                try:
                    if os.path.isfile(q) and os.path.getsize(q) == len(data) and open(q, "rb").read() == data:
                        os.unlink(q)
                except OSError:
                    pass
        self.ops.append(("D", fp))
        self.desc.append("cache fault: blob of %s (output of %s) lost" % (fp, label(n)))
        return True

    def drop_results(self):
        """cache fault: every stored target result is lost (the CAS stays)"""
        for d in self.cache_dirs("target"):
            for f in os.listdir(d):
                try:
                    os.unlink(os.path.join(d, f))
                except OSError:
                    pass
        self.ops.append(("R",))
        self.desc.append("cache fault: all target results lost")

    def build(self, cfg, roots=None, timeout=120):
        nodes = self.snap["nodes"]
        if roots is None:
            roots = [i for i, n in enumerate(nodes)]
            labels = ["//..."]
        else:
            labels = [label(nodes[i]) for i in roots]
        self.nb += 1
        res = run_build(self.grog, self.ws, self.root, cfg, labels, os.path.join(self.dir, "trace"), timeout=timeout)
        obs = {}
        for pkg, kind, path in outputs_of(self.snap):
            obs[full(pkg, path)] = observe_output(self.ws, pkg, kind, path)
        res["ws"] = obs
        extd = os.path.join(self.ws, "ext")
        res["ext"] = sorted(os.listdir(extd)) if os.path.isdir(extd) else []
        res["cfg"] = cfg
        res["roots"] = roots
        self.builds.append(res)
        self.ops.append(("B", cfg, roots))
        self.desc.append("build %s %s" % (json.dumps(cfg), " ".join(labels)))
        return res

    def clean_reference(self, cfg, roots=None, tag="clean"):
        """From-scratch build of the current sources: fresh workspace, fresh cache root."""
        d = os.path.join(self.dir, "%s%d" % (tag, self.nb))
        ws, root = os.path.join(d, "ws"), os.path.join(d, "root")
        os.makedirs(root, exist_ok=True)
        render(self.snap, ws)
        ext = os.path.join(self.ws, "ext")
        nodes = self.snap["nodes"]
        labels = ["//..."] if roots is None else [label(nodes[i]) for i in roots]
        res = run_build(self.grog, ws, root, cfg, labels, os.path.join(d, "trace"))
        obs = {}
        for pkg, kind, path in outputs_of(self.snap):
            obs[full(pkg, path)] = observe_output(ws, pkg, kind, path)
        res["ws"] = obs
        shutil.rmtree(d, ignore_errors=True)
        return res

    def replay_dict(self):
        return {"ops": json.loads(json.dumps(self.ops, default=list)), "description": self.desc,
                "observed": [{"rc": b["rc"], "executed": sorted(b["starts"]), "ws": b["ws"], "stderr": b["stderr"][-600:]} for b in self.builds]}


def run_model(histories):
    drv = vlib.build_driver("build")
    rc, out, err = vlib.run_lines(drv, [enc_history(h.ops) for h in histories])
    if rc != 0 or len(out) != len(histories):
        raise RuntimeError("build model driver failed: rc=%s %s" % (rc, err[-400:]))
    return [parse_model(l) for l in out]


def selected_outputs(snap, roots):
    """Declared output paths of the selected targets (roots + transitive dependencies)."""
    nodes = snap["nodes"]
    sel, todo = set(), list(range(len(nodes)) if roots is None else roots)
    while todo:
        i = todo.pop()
        if i in sel:
            continue
        sel.add(i)
        n = nodes[i]
        todo += ([n["actual"]] if n["k"] == "a" else list(n["deps"]))
    res = []
    for i in sorted(sel):
        n = nodes[i]
        if n["k"] == "t":
            for k, p in n["outs"]:
                res.append(full(n["pkg"], p))
    return res, sel


def parallel(fn, items, workers=32):
    with ThreadPoolExecutor(max_workers=workers) as ex:
        return list(ex.map(fn, items))
