"""C10 -- at most one grog build per workspace; stale locks are recovered.

Tie: N real OS processes run the REAL WorkspaceLocker.Lock/Unlock (an instrumented copy of the
current /repo/internal/locking/workspace_locker.go, produced at check time by harness/rewrite and
substituted through the build overlay only).  Every file-system call of the locker blocks on a
token from this controller, so a schedule of the model (Lock.v) is replayed step by step; after
every step the lock file's content class, every process's pc (the call it is blocked at) and
the set of processes past Lock() are compared with the extracted model.  Besides "next call" and
SIGKILL a schedule can cancel the context of a process that waits for its timer (token a<p>, the
model's Cancel p, enabled at Waiting only): Lock must then return (GAVEUP) without another call.

Only calls on the lock path are gated (harness/rewrite): the private temporary file that createLockFile
writes the PID into before it hard-links it to the lock path is not a model event (Lock.v header).

State letters of a real process: I R P X (blocked before os.Link / os.ReadFile / processRunning /
os.Remove of the lock path), W waiting for the timer, G gave up (Lock returned after a cancel),
H past Lock(), D unlocked, Z killed, E error exit, ? unknown call.  C = blocked before file.Write on the
lock file: code from before the repair of C10-F1 (create, then write the PID with a second call), or a
change that brings that back; Lock.v has no such pc, so every such run leaves the model at its first create.

Oracles on the implementation (model-free):
  mutex     at every step at most one process is between Lock() returning nil and Unlock()
  liveness  after the holder unlocked / everybody else died, a contender run alone reaches HELD
            (covers: a waiter proceeds, a stale or garbage lock file never blocks)
  cancel    a process that gave up never removed / changed the lock file: content class, inode
            number and mtime of the lock file are the same before and after the cancel step
  unlock    while the run agrees with the model and the model says the lock file is there, the
            holder's Unlock() succeeds
A mutex failure is a KNOWN finding only if (a) the real run agreed with the model on every step
up to the failure and (b) the boolean guard of Lock.v (remove_of_unexamined_inode, evaluated by the
model driver) fired on that prefix and its class is listed in known_findings.txt.  Anything else is a
VIOLATION with the schedule as replay.

Regression schedules (corpus entries with "verbatim": true) are executed token by token on the real
processes even after the run has left the model (no skipping, no probing): W1-regression is the
schedule of the repaired finding C10-F1; on code that creates the lock file empty and writes the PID
afterwards it ends with two processes past Lock() -- a model-free mutex violation."""
import atexit, hashlib, json, os, re, select, shutil, signal, subprocess, threading, time
from concurrent.futures import ThreadPoolExecutor
import vlib

LEVEL = "proof"
TRUSTED = ("harness/rewrite inserts hook calls into a copy of workspace_locker.go; each run checks that "
           "removing the inserted lines gives back the file byte for byte",
           "Linux process semantics: SIGKILL + waitpid makes kill(pid,0) fail with ESRCH; PIDs are not reused within one schedule (milliseconds)")
LOCKER_REL = "internal/locking/workspace_locker.go"
HOOK_IMPORT = "grog/internal/zz_verif_hook"
RECV_TIMEOUT = 15.0
GUARD_CLASS = {"u": "remove-of-unexamined-inode"}
# os.Link is the exclusive create of the repaired locker; os.OpenFile / os.Rename / file.Write only occur in older or changed code
CALLEE_PC = {"os.Link": "I", "os.OpenFile": "I", "os.Rename": "I", "file.Write": "C", "os.ReadFile": "R", "processRunning": "P",
             "os.Remove": "X"}

# Lock.w1_sched (the analogue of the former witness W1: ends with 0 holding and 1 waiting) and Lock.w2_sched (finding C10-F2)
W1 = {"n": 2, "dead": [], "lock": "absent", "tokens": "s0,s1,s1,s1".split(","), "name": "W1"}
W2 = {"n": 3, "dead": [2], "lock": "pid2", "tokens": "s0,s1,s0,s1,s0,s1,s0,s0,s1,s1".split(","), "name": "W2"}

_live = set()
_live_lock = threading.Lock()


def _kill_all():
    with _live_lock:
        cs = list(_live)
    for c in cs:
        c.kill()


atexit.register(_kill_all)


# ------------------------------------------------------------------ building
def build_rewriter():
    d = os.path.join(vlib.scratch(), "rewrite-mod")
    os.makedirs(d, exist_ok=True)
    shutil.copy(os.path.join(vlib.VERIF, "harness", "rewrite", "main.go"), os.path.join(d, "main.go"))
    with open(os.path.join(d, "go.mod"), "w") as f:
        f.write("module rewrite\n\ngo 1.21\n")
    out = os.path.join(d, "rewrite")
    p = vlib.run(["go", "build", "-o", out, "."], cwd=d, env=vlib.GOENV, timeout=600)
    if p.returncode != 0:
        raise RuntimeError("rewriter does not build: " + p.stderr[-2000:])
    return out


def instrument():
    """Instrumented copy of the CURRENT locker source + the proof that nothing else changed."""
    src_path = os.path.join(vlib.REPO, LOCKER_REL)
    rw = build_rewriter()
    dst = os.path.join(vlib.scratch(), "workspace_locker_instrumented.go")
    p = vlib.run([rw, src_path, dst, HOOK_IMPORT], timeout=120)
    if p.returncode != 0:
        raise vlib.HarnessUnavailable("rewriter refused %s: %s" % (LOCKER_REL, p.stderr[-1500:]))
    edits = [l.split(" ") for l in p.stdout.strip().split("\n") if l]
    orig = open(src_path, "rb").read()
    inst = open(dst, "rb").read()
    kept = []
    for line in inst.split(b"\n"):
        st = line.strip()
        if re.fullmatch(rb'zzhook\.Point\("[^"]*"\)', st) or st == b'zzhook "%s"' % HOOK_IMPORT.encode():
            continue
        kept.append(line.replace(b"zzhook.After(", b"time.After("))
    reverted = b"\n".join(kept)
    if reverted != orig:
        raise RuntimeError("rewriter changed more than the hook lines: reverting its edits does not give back " + LOCKER_REL)
    if b"zzhook" in orig:
        raise RuntimeError("the original source already mentions zzhook")
    points = [e for e in edits if e[0] == "point"]
    info = {"source": LOCKER_REL, "source_sha256": hashlib.sha256(orig).hexdigest(),
            "points": ["%s:%s in %s" % (e[1], e[2], e[3]) for e in points],
            "after_substitutions": len([e for e in edits if e[0] == "after"]),
            "revert_equals_input": True, "compared": "byte for byte (stronger than modulo gofmt)"}
    return dst, info


def build_contender():
    dst, info = instrument()
    h = vlib.build_harness("lock", extra_overlay={
        os.path.join(vlib.REPO, LOCKER_REL): dst,
        os.path.join(vlib.REPO, "internal", "zz_verif_hook", "hook.go"): os.path.join(vlib.HARNESS, "hook", "hook.go")})
    return h, info


# ------------------------------------------------------------------ one contender process
class ContenderError(Exception):
    pass


class Contender:
    def __init__(self, binary, root, errf):
        c2p_r, c2p_w = os.pipe()
        p2c_r, p2c_w = os.pipe()
        env = dict(os.environ, ZZHOOK_FDS="%d,%d" % (p2c_r, c2p_w), NO_COLOR="1")
        try:
            self.proc = subprocess.Popen([binary, "lock-contender", root], pass_fds=(p2c_r, c2p_w), env=env,
                                         stdin=subprocess.DEVNULL, stdout=subprocess.DEVNULL, stderr=errf)
        finally:
            os.close(p2c_r)
            os.close(c2p_w)
        self.r, self.w, self.buf = c2p_r, p2c_w, b""
        self.pid = self.proc.pid
        self.state = "?"      # I C R P X W G H D Z E
        self.label = ""
        self.dead = False
        self.ever_held = False
        self.cancel_calls = []    # calls announced after a cancel instead of GAVEUP
        with _live_lock:
            _live.add(self)

    def send(self, tok):
        try:
            os.write(self.w, tok.encode() + b"\n")
        except OSError as e:
            raise ContenderError("cannot send %r: %s" % (tok, e))

    def recv(self):
        end = time.time() + RECV_TIMEOUT
        while b"\n" not in self.buf:
            left = end - time.time()
            if left <= 0:
                raise ContenderError("no message from contender within %.0fs (last: %s)" % (RECV_TIMEOUT, self.label))
            r, _, _ = select.select([self.r], [], [], left)
            if not r:
                continue
            chunk = os.read(self.r, 4096)
            if not chunk:
                raise ContenderError("contender closed its control pipe (exit %s, last: %s)" % (self.proc.poll(), self.label))
            self.buf += chunk
        line, self.buf = self.buf.split(b"\n", 1)
        return line.decode("utf-8", "replace")

    def take(self):
        """Read the next message and derive the pc class from it."""
        msg = self.recv()
        self.label = msg
        f = msg.split("\t")
        if f[0] == "P":
            callee = f[1].split(":", 1)[1] if ":" in f[1] else f[1]
            self.state = CALLEE_PC.get(callee, "?")
        elif f[0] == "A":
            self.state = "W"
        elif f[0] == "HELD":
            self.state = "H"
            self.ever_held = True
        elif f[0] == "DONE":
            self.state = "D"
        elif f[0] == "GAVEUP":
            self.state = "G"
        else:
            self.state = "E"
        return msg

    def kill(self):
        """Crash: SIGKILL and reap at once (a zombie would still answer kill(pid, 0))."""
        if not self.dead:
            self.dead = True
            try:
                self.proc.kill()
            except OSError:
                pass
            try:
                self.proc.wait(timeout=10)
            except Exception:
                pass
            for fd in (self.r, self.w):
                try:
                    os.close(fd)
                except OSError:
                    pass
            self.state = "Z"
            with _live_lock:
                _live.discard(self)


def reaped_pid():
    p = subprocess.Popen(["/bin/true"], stdin=subprocess.DEVNULL, stdout=subprocess.DEVNULL, stderr=subprocess.DEVNULL)
    p.wait()
    return p.pid


# ------------------------------------------------------------------ model side
def model_lock(sc):
    return "blank" if sc["lock"] in ("empty", "garbage") else sc["lock"]


def model_line(sc, tokens=None):
    toks = sc["tokens"] if tokens is None else tokens
    return "run\t%d\t%s\t%s\t%s" % (sc["n"], ",".join(map(str, sc["dead"])) or "-", model_lock(sc), ",".join(toks) or "-")


def parse_obs(line):
    assert line.startswith("run\t"), line
    res = []
    for o in line[4:].split(";"):
        ev, en, lock, pcs, holders, guard = o.split("/")
        res.append({"ev": ev, "en": en == "1", "lock": lock, "pcs": pcs.split(","),
                    "holders": [] if holders == "-" else [int(x) for x in holders.split("+")], "guard": guard})
    return res


def model_runs(drv, scs):
    rc, out, err = vlib.run_lines(drv, [model_line(sc) for sc in scs])
    if rc != 0 or len(out) != len(scs):
        raise RuntimeError("lock model driver failed: rc=%s %d/%d %s" % (rc, len(out), len(scs), err[-400:]))
    return [parse_obs(l) for l in out]


def to_s(ev):
    return ev if ev[0] in "!a" else "s" + ev[1:]


def explore(drv, n, dead, lock, depth, maxcrash, maxcancel=0):
    rc, out, err = vlib.run_lines(drv, ["explore\t%d\t%s\t%s\t%d\t%d\t%d" % (
        n, ",".join(map(str, dead)) or "-", lock, depth, maxcrash, maxcancel)])
    if rc != 0 or not out or not out[-1].startswith("end\t"):
        raise RuntimeError("explorer failed: %s" % err[-400:])
    res = []
    for l in out[:-1]:
        f = l.split("\t")
        res.append({"events": f[1].split(","), "viol": f[2] == "1", "rui": f[3] == "1", "kind": f[4]})
    e = out[-1].split("\t")
    return res, int(e[2]), int(e[3])


# ------------------------------------------------------------------ replay of one schedule
def real_lock_class(path, pidmap):
    try:
        data = open(path, "rb").read()
    except FileNotFoundError:
        return "absent"
    if data == b"":
        return "empty"
    try:
        return "pid%s" % pidmap.get(int(data.strip()), "?")
    except ValueError:
        return "garbage"


def lock_identity(path, pidmap):
    """(content class, inode number, mtime) of the lock file; (absent, None, None) if there is none."""
    try:
        st = os.stat(path)
    except FileNotFoundError:
        return ("absent", None, None)
    return (real_lock_class(path, pidmap), st.st_ino, st.st_mtime_ns)


def want_lock_class(sc, mlock):
    if mlock == "absent":
        return "absent"
    what, ino = mlock.split(":")
    if what == "blank":
        return "garbage" if (ino == "0" and sc["lock"] == "garbage") else "empty"
    return what


def step_real(c, tok_kind):
    """Let contender c make one file-system step (or wake / unlock).  Returns False if it has nothing to do."""
    if tok_kind == "!":
        if c.dead:
            return False
        c.kill()
        return True
    if tok_kind == "a":
        # cancel the context of a waiting process: Lock must return ctx.Err() without another call.
        # If it announces calls instead, they are noted and let through (the oracles watch what they do).
        if c.dead or c.state != "W":
            return False
        c.send("cancel")
        c.take()
        while c.label.startswith("P\t") and len(c.cancel_calls) < 8:
            c.cancel_calls.append(c.label.split("\t")[1])
            c.send("go")
            c.take()
        return True
    if c.dead or c.state in ("D", "E", "?", "Z", "G"):
        return False
    if c.state == "W":
        c.send("wake")
        c.take()
    elif c.state == "H":
        c.send("unlock")
        msg = c.take()
        if c.state != "X":
            raise ContenderError("after 'unlock' the contender did not reach os.Remove: %s" % msg)
        c.send("go")
        c.take()
    else:
        c.send("go")
        c.take()
    return True


def replay_schedule(binary, sc, obs, errf, solo=None):
    """Replay sc["tokens"] on real processes next to the model's observations obs.
    solo = ordinal that must end up HELD (liveness clause) or None.
    Returns a dict: steps, agreed (steps compared equal), mismatch, mutex_fail, liveness_fail, cancel_fail,
    unlock_fail, cancels (cancel steps executed), trace."""
    n, dead = sc["n"], set(sc["dead"])
    root = os.path.join(vlib.scratch(), "ws-%d-%d" % (threading.get_ident(), time.time_ns()))
    os.makedirs(root)
    cs, pidmap, trace = {}, {}, []
    res = {"steps": 0, "agreed": 0, "mismatch": None, "mutex_fail": None, "liveness_fail": None, "trace": trace,
           "unlock_errors": 0, "cancel_fail": None, "unlock_fail": None, "cancels": 0}
    try:
        path = None
        for p in range(n):
            if p in dead:
                pidmap[reaped_pid()] = p
            else:
                c = Contender(binary, root, errf)
                cs[p] = c
                pidmap[c.pid] = p
                f = c.recv().split("\t")
                if f[0] != "READY" or int(f[2]) != c.pid:
                    raise ContenderError("bad READY: %r" % f)
                path = f[1]
        if sc["lock"] != "absent":
            with open(path, "wb") as f:
                if sc["lock"] == "garbage":
                    f.write(b"not-a-pid\n")
                elif sc["lock"].startswith("pid"):
                    q = int(sc["lock"][3:])
                    f.write(b"%d" % [k for k, v in pidmap.items() if v == q][0])
        for p in sorted(cs):
            cs[p].send("start")
            cs[p].take()

        def observe():
            return {"lock": real_lock_class(path, pidmap),
                    "pcs": [cs[p].state if p in cs else "Z" for p in range(n)],
                    "holders": [p for p in sorted(cs) if cs[p].state == "H"]}

        def compare(k, m):
            r = observe()
            trace.append({"step": k, "event": m["ev"] if m else None, "real": r,
                          "model": {"lock": m["lock"], "pcs": m["pcs"], "holders": m["holders"]} if m else None})
            if len(r["holders"]) > 1 and res["mutex_fail"] is None:
                res["mutex_fail"] = {"step": k, "holders": r["holders"], "agreed_until_here": res["mismatch"] is None}
            if m is None or res["mismatch"] is not None:
                return
            diffs = []
            if r["lock"] != want_lock_class(sc, m["lock"]):
                diffs.append("lock file is %s, model says %s" % (r["lock"], m["lock"]))
            mp = [x[0] for x in m["pcs"]]
            if r["pcs"] != mp:
                diffs.append("pcs are %s, model says %s" % (",".join(r["pcs"]), ",".join(m["pcs"])))
            if r["holders"] != m["holders"]:
                diffs.append("past Lock(): %s, model says %s" % (r["holders"], m["holders"]))
            if diffs:
                res["mismatch"] = {"step": k, "event": m["ev"], "diffs": diffs}
                if res["mutex_fail"] is not None and res["mutex_fail"]["step"] == k:
                    res["mutex_fail"]["agreed_until_here"] = False
            else:
                res["agreed"] += 1

        def probe(k):
            """The run has left the model: the rest of the explored schedule means nothing any more.  Push every
            contender that is not past Lock() forward, round robin, while the holders stay, and watch the oracle."""
            pushed = []
            for _ in range(12):
                moved_any = False
                for p in sorted(cs):
                    c = cs[p]
                    if c.dead or c.state in ("H", "D", "E", "Z", "?", "G"):
                        continue
                    step_real(c, "s")
                    moved_any = True
                    pushed.append("s%d" % p)
                    res["steps"] += 1
                    r = observe()
                    trace.append({"step": "probe after %d" % k, "event": "s%d" % p, "real": r, "model": None})
                    if len(r["holders"]) > 1:
                        res["mutex_fail"] = {"step": k, "holders": r["holders"], "agreed_until_here": False,
                                             "schedule": sc["tokens"][:k] + pushed}
                        return
                if not moved_any:
                    return

        base_len = sc.get("base_len", len(sc["tokens"]))
        verbatim = bool(sc.get("verbatim"))    # regression schedule: every token is executed, whatever the model says
        probed = verbatim
        compare(0, obs[0])
        for k, tok in enumerate(sc["tokens"], 1):
            m = obs[k] if k < len(obs) else None
            p = int(tok[1:])
            if p not in cs:
                continue
            if res["mismatch"] is not None and k <= base_len and not verbatim:
                continue    # diverged: skip the rest of the explored part, keep the release/solo part
            if res["mismatch"] is not None and p == solo and cs[p].state == "H":
                continue    # diverged run: the contender already holds, do not let the leftover tokens unlock it
            before = lock_identity(path, pidmap) if tok[0] == "a" else None
            moved = step_real(cs[p], tok[0])
            if tok[0] == "a" and moved:
                # model-free: whoever gives up leaves the lock file alone (nobody else moves during this step)
                res["cancels"] += 1
                after = lock_identity(path, pidmap)
                calls, cs[p].cancel_calls = cs[p].cancel_calls, []
                if after != before and res["cancel_fail"] is None:
                    res["cancel_fail"] = {"step": k, "process": p, "lock_file_before": before, "lock_file_after": after,
                                          "calls_after_cancel": calls, "state_after": cs[p].state, "last": cs[p].label}
                if (calls or cs[p].state != "G") and res["mismatch"] is None:
                    res["mismatch"] = {"step": k, "event": tok, "diffs": [
                        "after 'cancel' the waiting process %d %s; Lock.v: Cancel makes no file-system call and ends in GaveUp" % (
                            p, ("announced " + ", ".join(calls) + " before it returned") if calls else
                            "did not return from Lock (state %s, last message %r)" % (cs[p].state, cs[p].label))]}
            if cs[p].label.startswith("DONE\terr"):
                res["unlock_errors"] += 1
                mb = obs[k - 1] if k - 1 < len(obs) else None
                if res["mismatch"] is None and mb is not None and mb["lock"] != "absent" and res["unlock_fail"] is None:
                    res["unlock_fail"] = {"step": k, "process": p, "error": cs[p].label, "model_lock_file_before": mb["lock"]}
                cs[p].label = "DONE(err counted)"
            res["steps"] += 1
            if m is not None and m["en"] != moved and res["mismatch"] is None:
                res["mismatch"] = {"step": k, "event": m["ev"], "diffs": [
                    "model says the step is %senabled, the real process %s" % ("" if m["en"] else "not ", "moved" if moved else "had nothing to do")]}
            compare(k, m)
            if res["mutex_fail"] is None and res["mismatch"] is not None and not probed:
                probed = True
                probe(k)
            if res["mutex_fail"] is not None:
                break
        if solo is not None and res["mutex_fail"] is None:
            c = cs.get(solo)
            extra = 0
            # only reached by a diverged run: keep running the contender alone, model-free
            while c is not None and c.state not in ("H", "D", "E", "Z", "G") and res["mismatch"] is not None and extra < 16:
                step_real(c, "s")
                extra += 1
            # (a diverged run may have let the contender acquire AND release already: that is progress too)
            if c is None or (c.state != "H" and not (res["mismatch"] is not None and c.ever_held)):
                res["liveness_fail"] = {"process": solo, "state": c.state if c else "Z", "last": c.label if c else "",
                                        "lock_file": real_lock_class(path, pidmap), "extra_solo_steps": extra}
    except ContenderError as e:
        if res["mismatch"] is None:
            res["mismatch"] = {"step": res["steps"], "event": None, "diffs": ["contender protocol: %s" % e]}
        res["protocol_error"] = str(e)
    finally:
        for c in cs.values():
            c.kill()
        shutil.rmtree(root, ignore_errors=True)
    return res


# ------------------------------------------------------------------ schedule sets
def add_liveness_suffix(drv, scs):
    """After the explored part: everybody but one looping contender unlocks or dies; that contender
    then runs alone until the model says it holds."""
    obs = model_runs(drv, scs)
    ext = []
    for idx, (sc, ob) in enumerate(zip(scs, obs)):
        last = ob[-1]
        loop = [p for p, c in enumerate(last["pcs"]) if c[0] in "IRPXW"]
        sc = dict(sc)
        sc["base_len"] = len(sc["tokens"])
        sc["solo"] = None
        if loop and len(last["holders"]) <= 1:
            w = loop[idx % len(loop)]
            suffix = []
            for o, c in enumerate(last["pcs"]):
                if o == w or c[0] == "Z":
                    continue
                if c[0] == "H" and idx % 2 == 0:
                    suffix.append("s%d" % o)      # the holder releases
                else:
                    suffix.append("!%d" % o)      # the holder / the other contender dies (exit without unlock)
            sc["tokens"] = sc["tokens"] + suffix + ["s%d" % w] * 9
            sc["solo"] = w
        ext.append(sc)
    obs2 = model_runs(drv, ext)
    out = []
    for sc, ob in zip(ext, obs2):
        if sc["solo"] is not None:
            w = sc["solo"]
            cut = next((k for k in range(sc["base_len"], len(ob)) if w in ob[k]["holders"]), None)
            if cut is None:
                raise RuntimeError("model: contender %d run alone does not acquire (contradicts C10_solo_progress): %s" % (w, sc))
            sc["tokens"] = sc["tokens"][:cut]
            ob = ob[:cut + 1]
        out.append((sc, ob))
    return out


def sched_key(sc):
    return "%d|%s|%s|%s" % (sc["n"], sc["dead"], sc["lock"], ",".join(sc["tokens"]))


def gen_schedules(drv, tier, rng, stats):
    depth2 = 16    # the 2-contender graphs close at depth 12: this is the whole reachable graph
    configs = []   # (n, dead, model lock, real lock variants, maxcrash)
    # crash budget 2 contains the smaller ones as subgraphs; 0 and 1 only add alternative paths to the same transitions.
    # The budget-2 graphs also contain every Cancel of a waiting contender (two contenders: at most two cancels).
    for mc in ((0, 2) if tier == "quick" else (0, 1, 2)):
        configs.append((2, [], "absent", ["absent"], mc))
        configs.append((2, [], "blank", ["empty", "garbage"], mc))
        configs.append((3, [2], "pid2", ["pid2"], mc))
    pool, states, trans = [], 0, 0
    for n, dead, ml, variants, mc in configs:
        scheds, st, tr = explore(drv, n, dead, ml, depth2, mc, 2 if mc == 2 else 0)
        if mc == 2:     # the graphs with fewer crashes are subgraphs: count states once
            states += st
            trans += tr
        for i, s in enumerate(scheds):
            pool.append({"n": n, "dead": dead, "lock": variants[i % len(variants)], "tokens": [to_s(e) for e in s["events"]],
                         "model_viol": s["viol"], "origin": "explore n=%d lock=%s crashes<=%d" % (n - len(dead), ml, mc)})
    stats["explorer_states"] = states
    stats["explorer_transitions"] = trans
    stats["explorer_schedules_2proc"] = len(pool)
    seen, uniq = set(), []
    for sc in pool:
        k = sched_key(sc)
        if k not in seen:
            seen.add(k)
            uniq.append(sc)
    pool = uniq
    chosen = [dict(W1, origin="witness W1"), dict(W2, origin="witness W2")]
    corpus = os.path.join(vlib.VERIF, "corpus", "C10", "schedules.jsonl")
    if os.path.exists(corpus):
        for l in open(corpus):
            l = l.strip()
            if l and not l.startswith("#"):
                sc = json.loads(l)
                sc["origin"] = "corpus"
                chosen.append(sc)
    chosen += pool
    stats["exhaustive_2proc"] = True
    if tier != "quick":
        # three live contenders, at most one crash: the whole reachable graph again
        for ml, variants, dead, n in (("absent", ["absent"], [], 3), ("pid3", ["pid3"], [3], 4), ("blank", ["empty", "garbage"], [], 3)):
            scheds, st, tr = explore(drv, n, dead, ml, 24, 1, 1)    # closes at depth 15: whole graph (<= 1 crash, <= 1 cancel)
            stats["explorer_states"] += st
            stats["explorer_transitions"] += tr
            for i, s in enumerate(scheds):
                chosen.append({"n": n, "dead": dead, "lock": variants[i % len(variants)], "tokens": [to_s(e) for e in s["events"]],
                               "origin": "explore 3 contenders lock=%s" % ml})
    nrand = 150 if tier == "quick" else 3000
    rnd = []
    for _ in range(nrand):
        kind = rng.below(6)
        n, dead, lock = [(3, [], "absent"), (4, [3], "pid3"), (3, [], "empty"), (3, [], "garbage"),
                         (3, [], "absent"), (4, [], "absent")][kind]
        live = [p for p in range(n) if p not in dead]
        toks, crashes = [], 0
        # kinds 4, 5: process 0 acquires first and mostly keeps the lock while the others contend, wait and are cancelled
        held_first = kind >= 4
        if held_first:
            toks += ["s0"]      # one call: os.Link of the already written temporary file
        for _ in range(10 + rng.below(14)):
            p = rng.choice(live)
            if held_first and p == 0 and not rng.chance(1, 5):
                p = rng.choice(live[1:])
            if crashes < 2 and rng.chance(1, 14):
                toks.append("!%d" % p)
                crashes += 1
            else:
                toks.append("s%d" % p)
        rnd.append({"n": n, "dead": dead, "lock": lock, "tokens": toks,
                    "origin": "random %d contenders%s" % (len(live), ", first one holds" if held_first else "")})
    # drop the tokens the model cannot take (process finished or dead): the run is unchanged
    def drop_disabled():
        for sc, ob in zip(rnd, model_runs(drv, rnd)):
            sc["tokens"] = [t for t, o in zip(sc["tokens"], ob[1:]) if o["en"]]
    drop_disabled()
    # cancels, mirrored from the model (Cancel p is enabled exactly where next_event is Wake p): in two schedules out of three
    # cancel a process at one or two of the places where the model has it Waiting; what it can no longer do afterwards is dropped
    for sc, ob in zip(rnd, model_runs(drv, rnd)):
        spots = [(k, p) for k, o in enumerate(ob) for p, c in enumerate(o["pcs"]) if c == "W"]
        if not spots or rng.chance(1, 3):
            continue
        picks = {rng.choice(spots) for _ in range(1 + rng.below(2))}
        for k, p in sorted(picks, reverse=True):
            sc["tokens"].insert(k, "a%d" % p)
    drop_disabled()
    chosen += rnd
    return chosen


# ------------------------------------------------------------------ verdicts
def classify(sc, ob, r):
    """First guard of Lock.v that fired on the prefix up to the mutex failure (model run = real run there)."""
    k = r["mutex_fail"]["step"]
    for o in ob[1:k + 1]:
        if o["guard"] in GUARD_CLASS:
            return GUARD_CLASS[o["guard"]]
    return None


def replay_record(sc, ob, r):
    return {"schedule": {"n": sc["n"], "dead": sc["dead"], "lock": sc["lock"], "tokens": sc["tokens"], "solo": sc.get("solo"),
                         "verbatim": bool(sc.get("verbatim")), "base_len": sc.get("base_len", len(sc["tokens"]))},
            "model_events": [o["ev"] for o in ob[1:]], "origin": sc.get("origin"),
            "result": {k: r.get(k) for k in ("mismatch", "mutex_fail", "liveness_fail", "cancel_fail", "unlock_fail", "protocol_error")},
            "trace": r["trace"][-6:], "replay_cmd": "./check C10 --replay <this file>",
            "how": "tokens s<p> = let process p make its next file-system call (or wake / unlock), !<p> = SIGKILL p, a<p> = cancel the "
                   "context of p while it waits for its timer (SIGINT/SIGTERM of a build); processes are real OS processes "
                   "running the instrumented copy of internal/locking/workspace_locker.go"}


def judge(out, findings, sc, ob, r, counters):
    if r["mutex_fail"] is not None:
        counters["mutex_failures"] += 1
        cls = classify(sc, ob, r) if r["mutex_fail"]["agreed_until_here"] else None
        k = r["mutex_fail"]["step"]
        if r["mutex_fail"]["agreed_until_here"]:
            shown = ",".join(o["ev"] for o in ob[1:k + 1])
        else:
            shown = ",".join(r["mutex_fail"].get("schedule") or sc["tokens"][:k])
        text = "processes %s are past Lock() at the same time after schedule %s (lock file initially %s)" % (
            "+".join(map(str, r["mutex_fail"]["holders"])), shown, sc["lock"])
        if cls is not None and cls in findings:
            counters["known:" + cls] += 1
            out.known(findings[cls]["id"], "[%s] %s" % (cls, text))
        else:
            left = "the run had left the model before"
            if r["mismatch"] is not None:
                left += ", step %s (%s): %s" % (r["mismatch"]["step"], r["mismatch"]["event"], "; ".join(r["mismatch"]["diffs"])[:160])
            out.violation("mutual exclusion broken on real processes: %s (%s)" % (text,
                "guard class %s not a known finding" % cls if cls else
                "no guard of Lock.v fired on the prefix" if r["mutex_fail"]["agreed_until_here"] else left),
                replay_record(sc, ob, r))
        return
    if r.get("cancel_fail") is not None:
        counters["cancel_failures"] = counters.get("cancel_failures", 0) + 1
        cf = r["cancel_fail"]
        out.violation("a waiting process whose context was cancelled changed the lock file: %s -> %s (calls after the cancel: %s) "
                      "at step %d of schedule %s (lock file initially %s)" % (
                          cf["lock_file_before"][0], cf["lock_file_after"][0], ", ".join(cf["calls_after_cancel"]) or "none announced",
                          cf["step"], ",".join(sc["tokens"][:cf["step"]]), sc["lock"]), replay_record(sc, ob, r))
        return
    if r.get("unlock_fail") is not None:
        counters["unlock_failures"] = counters.get("unlock_failures", 0) + 1
        uf = r["unlock_fail"]
        out.violation("Unlock() of holder %d failed (%s) although the run agreed with Lock.v so far and the lock file was there (%s), "
                      "step %d of schedule %s" % (uf["process"], uf["error"].replace("\t", " "), uf["model_lock_file_before"],
                                                  uf["step"], ",".join(sc["tokens"][:uf["step"]])), replay_record(sc, ob, r))
        return
    if r["liveness_fail"] is not None:
        counters["liveness_failures"] += 1
        lf = r["liveness_fail"]
        out.violation("contender %d run alone after the others released/died does not acquire the lock (state %s, lock file %s) after %s" % (
            lf["process"], lf["state"], lf["lock_file"], ",".join(sc["tokens"])), replay_record(sc, ob, r))
        return
    if r["mismatch"] is not None:
        counters["mismatches"].append((sc, ob, r))


def run_all(out, binary, drv, todo, errf, workers):
    findings = {f["class"]: f for f in vlib.known_findings("C10")}
    counters = {"mutex_failures": 0, "liveness_failures": 0, "mismatches": [], "steps": 0, "agreed_steps": 0,
                "full_agreement": 0, "solo_checked": 0, "unlock_errors": 0, "cancel_failures": 0, "unlock_failures": 0,
                "cancel_schedules": 0, "cancels_executed": 0,
                "known:remove-of-unexamined-inode": 0}

    def one(item):
        sc, ob = item
        return replay_schedule(binary, sc, ob, errf, solo=sc.get("solo"))

    with ThreadPoolExecutor(max_workers=workers) as ex:
        results = list(ex.map(one, todo))
    for (sc, ob), r in zip(todo, results):
        counters["steps"] += r["steps"]
        counters["agreed_steps"] += r["agreed"]
        counters["unlock_errors"] += r["unlock_errors"]
        counters["cancels_executed"] += r["cancels"]
        if any(t[0] == "a" for t in sc["tokens"]):
            counters["cancel_schedules"] += 1
        if r["mismatch"] is None:
            counters["full_agreement"] += 1
        if sc.get("solo") is not None and r["mutex_fail"] is None:
            counters["solo_checked"] += 1
        judge(out, findings, sc, ob, r, counters)
    mm = counters["mismatches"]
    if mm and not any(not v["no_input"] for v in out.violations):
        sc, ob, r = mm[0]
        out.violation("correspondence Lock.v ~ internal/locking broke on %d schedules, e.g. step %d (%s) of %s: %s; no oracle of C10 fails on the implementation" % (
            len(mm), r["mismatch"]["step"], r["mismatch"]["event"], ",".join(sc["tokens"]), "; ".join(r["mismatch"]["diffs"])),
            dict(replay_record(sc, ob, r), correspondence="Lock.step vs WorkspaceLocker.Lock/Unlock, one model event per hooked call",
                 mismatching_schedules=len(mm)), no_input=True)
    counters["mismatches"] = len(mm)
    return counters, results


# ------------------------------------------------------------------ CLI fallback (weaker tie)
def cli_tie(out, tier):
    """Real `grog build` processes on one
    workspace, one slow uncached target that logs when it starts and ends: the logged intervals must
    not overlap; a lock file naming a reaped PID / garbage must not block; a build killed while it
    holds the lock must not block the next one.  Free-running processes: the narrow windows of W1/W2
    are not hit, so this can only show gross failures."""
    try:
        grog = vlib.build_grog()
    except vlib.HarnessUnavailable as e:
        out.notes.append("cli_tie: unavailable (%s)" % str(e)[-300:])
        return {"available": False}
    ws = os.path.join(vlib.scratch(), "c10ws")
    root = os.path.join(vlib.scratch(), "c10root")
    os.makedirs(ws, exist_ok=True)
    os.makedirs(root, exist_ok=True)
    logf = os.path.join(vlib.scratch(), "c10-intervals.log")
    open(os.path.join(ws, "grog.toml"), "w").write("")
    cmd = "echo start $$ $(date +%%s%%N) >> %s; sleep 0.4; echo end $$ $(date +%%s%%N) >> %s" % (logf, logf)
    with open(os.path.join(ws, "BUILD.json"), "w") as f:
        json.dump({"targets": [{"name": "slow", "command": cmd, "tags": ["no-cache"]}]}, f)
    env = dict(os.environ, GROG_ROOT=root, HOME=vlib.scratch(), NO_COLOR="1")
    procs = []

    def build():
        p = subprocess.Popen([grog, "build", "//:slow"], cwd=ws, env=env, stdin=subprocess.DEVNULL,
                             stdout=subprocess.PIPE, stderr=subprocess.STDOUT)
        procs.append(p)
        return p

    def intervals():
        iv, open_ = [], {}
        if os.path.exists(logf):
            for l in open(logf):
                k, pid, t = l.split()
                if k == "start":
                    open_[pid] = int(t)
                elif pid in open_:
                    iv.append((open_.pop(pid), int(t)))
        return sorted(iv)

    res = {"available": True, "rounds": 0, "builds": 0, "overlaps": 0, "stale_blocked": 0}
    try:
        rounds = 2 if tier == "quick" else 8
        for _ in range(rounds):
            ps = [build() for _ in range(3)]
            for p in ps:
                try:
                    p.wait(timeout=60)
                except subprocess.TimeoutExpired:
                    p.kill()
                    p.wait()
                    out.violation("grog build did not finish within 60 s while two other builds of the same workspace ran",
                                  {"cmd": "3 x grog build //:slow in one workspace", "target_command": cmd})
            res["rounds"] += 1
            res["builds"] += 3
        iv = intervals()
        for (a0, a1), (b0, b1) in zip(iv, iv[1:]):
            if b0 < a1:
                res["overlaps"] += 1
        if res["overlaps"]:
            out.violation("two grog builds of one workspace executed the same target at the same time (%d overlapping intervals of %d)" % (
                res["overlaps"], len(iv)), {"cmd": "3 x grog build //:slow in one workspace, %d rounds" % rounds, "intervals_ns": iv})
        res["intervals"] = len(iv)
        # stale files
        lockdirs = [os.path.join(root, d) for d in os.listdir(root) if os.path.isdir(os.path.join(root, d))]
        for content in (b"%d" % reaped_pid(), b"garbage", b""):
            for d in lockdirs:
                with open(os.path.join(d, "lockfile"), "wb") as f:
                    f.write(content)
            p = build()
            try:
                p.wait(timeout=30)
            except subprocess.TimeoutExpired:
                p.kill()
                p.wait()
                res["stale_blocked"] += 1
                out.violation("a lock file containing %r (no live process) blocks grog build for more than 30 s" % content,
                              {"lock_file_content": content.decode(), "cmd": "grog build //:slow"})
            res["builds"] += 1
        # a build killed while holding the lock
        p = build()
        deadline = time.time() + 20
        n0 = len(open(logf).read().split("\n"))
        while time.time() < deadline and len(open(logf).read().split("\n")) == n0:
            time.sleep(0.02)
        p.kill()
        p.wait()
        q = build()
        try:
            q.wait(timeout=30)
            res["after_kill_exit"] = q.returncode
        except subprocess.TimeoutExpired:
            q.kill()
            q.wait()
            res["stale_blocked"] += 1
            out.violation("grog build blocks for more than 30 s after the previous build was killed while holding the lock",
                          {"cmd": "grog build //:slow; kill -9; grog build //:slow"})
        res["builds"] += 2
    finally:
        for p in procs:
            if p.poll() is None:
                p.kill()
                p.wait()
    return res


def cli_parked_holder(out):
    """The lock as `grog build` USES it (cmds/build.go: Lock before the build, Unlock when RunBuild returns), on real processes:
    holder A has finished its targets but is still inside the command -- it is printing its summary into a 4 KiB pipe that is
    drained a few bytes at a time --, contender B is started at that moment, contender C as soon as B's target runs.  A process is
    past lock acquisition from its first target to its exit: the targets of B and C must not overlap, whenever A lets go."""
    import fcntl, threading
    try:
        grog = vlib.build_grog()
    except vlib.HarnessUnavailable as e:
        return {"available": False}
    base = os.path.join(vlib.scratch(), "c10parked")
    shutil.rmtree(base, ignore_errors=True)
    ws, root = os.path.join(base, "ws"), os.path.join(base, "root")
    os.makedirs(ws); os.makedirs(root)
    events = os.path.join(base, "events.log")
    open(events, "w").close()
    open(os.path.join(ws, "grog.toml"), "w").write("")
    n = 60
    name = lambda i: "link_with_a_deliberately_long_target_name_so_that_the_summary_of_the_build_is_several_kilobytes_%03d" % i
    targets = []
    for i in range(n):
        t = {"name": name(i), "command": "true" if i < n - 1 else "echo end a >> %s" % events}
        if i:
            t["dependencies"] = [":" + name(i - 1)]
        targets.append(t)
    for x, secs in (("b", "3"), ("c", "0.5")):
        targets.append({"name": "slow_" + x, "tags": ["no-cache"],
                        "command": "echo start %s >> %s; sleep %s; echo end %s >> %s" % (x, events, secs, x, events)})
    json.dump({"targets": targets}, open(os.path.join(ws, "BUILD.json"), "w"))
    env = dict(os.environ, GROG_ROOT=root, HOME=vlib.scratch(), NO_COLOR="1")
    env.pop("CI", None)
    procs = []

    def start(args, stdout):
        p = subprocess.Popen([grog, "build"] + args, cwd=ws, env=env, stdin=subprocess.DEVNULL, stdout=stdout, stderr=subprocess.STDOUT)
        procs.append(p)
        return p
    evs = lambda: [l.strip() for l in open(events) if l.strip()]

    def wait_ev(e, tmo):
        dl = time.time() + tmo
        while time.time() < dl:
            if e in evs():
                return True
            time.sleep(0.02)
        return False
    res = {"available": True, "overlap": False}
    try:
        r, w = os.pipe()
        try:
            fcntl.fcntl(w, 1031, 4096)      # F_SETPIPE_SZ
        except OSError:
            pass
        a = start(["--debug", "//:" + name(n - 1)], w)
        os.close(w)
        stop = threading.Event()
        drained = [0]

        def drain():
            # slowly until told otherwise: A spends seconds between the end of its last target and its exit
            while True:
                try:
                    chunk = os.read(r, 64 if not stop.is_set() else 65536)
                except OSError:
                    break
                if not chunk:
                    break
                drained[0] += len(chunk)
                if not stop.is_set() and "end a" in evs():
                    time.sleep(0.012)
        th = threading.Thread(target=drain, daemon=True)
        th.start()
        if not wait_ev("end a", 90):
            res["setup"] = "holder A never finished its targets"
            return res
        t_end_a = time.time()
        devnull = open(os.devnull, "w")
        b = start(["//:slow_b"], devnull)
        if wait_ev("start b", 60):
            c = start(["//:slow_c"], devnull)
        else:
            res["setup"] = "contender B never ran its target"
            return res
        res["holder_alive_when_b_started_its_target"] = a.poll() is None
        res["seconds_from_end_of_a_targets_to_b_target"] = round(time.time() - t_end_a, 2)
        for p in (a, b, c):
            try:
                p.wait(timeout=90)
            except subprocess.TimeoutExpired:
                stop.set()
                try:
                    p.wait(timeout=30)
                except subprocess.TimeoutExpired:
                    p.kill(); p.wait()
                    out.violation("grog build did not finish within 120 s next to two other builds of the workspace (holder printing into a slow pipe)",
                                  {"events": evs()})
        stop.set()
        log = evs()
        res["events"] = log
        res["summary_bytes_of_holder"] = drained[0]
        res["exit"] = [p.returncode for p in (a, b, c)]
        depth = 0
        for e in log:
            if e.startswith("start"):
                depth += 1
                if depth > 1:
                    res["overlap"] = True
            elif e.startswith("end") and e != "end a":
                depth -= 1
        if res["overlap"]:
            out.violation("two grog builds of one workspace were past lock acquisition at the same time: the targets of contenders B and C overlap "
                          "(events %s); holder A had finished its targets and was still printing its summary into a slowly drained pipe when B "
                          "was started, C was started when B's target ran" % log,
                          {"description": ["workspace: a chain of %d cheap targets (A, --debug, stdout = 4 KiB pipe drained 64 bytes at a time once "
                                           "its last target ended), //:slow_b (3 s), //:slow_c (0.5 s), one GROG_ROOT" % n,
                                           "A: grog build --debug //:<last link>; B: grog build //:slow_b when A's last target ended; "
                                           "C: grog build //:slow_c when B's target started"], "observed": res})
        elif [e for e in log if e != "end a"] not in (["start b", "end b", "start c", "end c"],):
            res["setup"] = "unexpected event order %s" % log
    finally:
        for p in procs:
            if p.poll() is None:
                p.kill(); p.wait()
        shutil.rmtree(base, ignore_errors=True)
    return res


def run(out, tier):
    rng = vlib.Rng(vlib.seed())
    drv = vlib.build_driver("lock")
    stats = {}
    chosen = gen_schedules(drv, tier, rng, stats)
    todo = add_liveness_suffix(drv, chosen)
    out.assumptions += [
        "os.ReadFile, os.Remove, os.Link (exclusive create of the lock path with its content) and kill(pid,0) are each atomic with respect to one another (one model event per call)",
        "the temporary file of createLockFile is private to its process (os.CreateTemp name): nobody else reads, links or removes it",
        "PIDs are not reused while a lock file naming them exists (the model never reuses a pid)",
        "processes are one-shot: a build locks once and unlocks at most once",
        "writing the temporary file does not fail and the lock directory exists (the error returns of createLockFile before os.Link are outside the model)",
        "the context is consulted only in the select of the wait loop: a cancellation is the event Cancel at Waiting, "
        "one that arrives anywhere else is observed at the next Waiting (a SIGKILL anywhere is Crash)",
    ]
    try:
        binary, info = build_contender()
    except vlib.HarnessUnavailable as e:
        out.notes.append("inprocess_tie: unavailable (%s)" % str(e)[-600:])
        cli = cli_tie(out, tier)
        out.cov.update({"evaluations": cli.get("builds", 0), "distinct_nontrivial": 0, "traces_validated_against_impl": 0,
                        "inprocess_tie": False, "cli_tie": cli,
                        "rule": "step-controlled harness unavailable; fallback: free-running grog build processes on one workspace "
                                "(execution intervals must not overlap, stale lock files must not block); nothing distinct is counted",
                        "samples": [{"fallback": cli}], "states": stats.get("explorer_states", 0),
                        "transitions": stats.get("explorer_transitions", 0)})
        return
    parked = cli_parked_holder(out)
    cli = cli_tie(out, tier)
    errp = os.path.join(vlib.scratch(), "contenders.err")
    with open(errp, "ab") as errf:
        counters, results = run_all(out, binary, drv, todo, errf, workers=8)
    nontrivial = set()
    kinds = {}
    for (sc, ob), r in zip(todo, results):
        evs = [o["ev"] for o in ob[1:]]
        actors = {e[1:] for e in evs}
        contended = any(o["ev"][0] == "c" and o["pcs"][int(o["ev"][1:])][0] == "R" for o in ob[1:])
        if len(actors) >= 2 and (contended or any(e[0] in "!a" for e in evs)):
            nontrivial.add(sched_key(sc))
        kinds[sc.get("origin", "?")] = kinds.get(sc.get("origin", "?"), 0) + 1
    samples = []
    for i in (0, 1, len(todo) // 2, len(todo) - 1):
        sc, ob = todo[i]
        samples.append({"n": sc["n"], "dead": sc["dead"], "lock_file_initially": sc["lock"], "events": [o["ev"] for o in ob[1:]],
                        "solo_contender": sc.get("solo"), "origin": sc.get("origin"),
                        "last_observation_real": results[i]["trace"][-1]["real"] if results[i]["trace"] else None,
                        "last_observation_model": results[i]["trace"][-1]["model"] if results[i]["trace"] else None})
    out.cov.update({
        "evaluations": len(todo),
        "distinct_nontrivial": len(nontrivial),
        "rule": "schedules = sequences of (process takes its next file-system call | process is SIGKILLed | the context of a process waiting for "
                "its timer is cancelled); fixed schedules first (W1 repaired, witness W2, the corpus incl. the verbatim W1 regression schedule and holder + cancelled waiter + third contender); "
                "2 contenders: every transition of the "
                "model's whole reachable graph (it closes at depth 12; states up to inode renaming) with lock file initially absent / empty / garbage / PID of a "
                "reaped process, at most two crashes and any cancels (%s); then all but one looping contender unlock or die and that contender runs alone until "
                "HELD; %s; plus random 3- and 4-contender schedules with up to two crashes and cancels of waiting processes; non-trivial = at least two "
                "processes act and a create hits an existing file or a process is killed or cancelled; distinct = distinct (configuration, schedule)" % (
                    "all of them", "3 contenders with at most one crash and one cancel: the whole graph likewise" if tier != "quick" else "3 contenders: random only in this tier"),
        "samples": samples,
        "states": stats["explorer_states"], "transitions": stats["explorer_transitions"],
        "traces_validated_against_impl": counters["full_agreement"],
        "steps_replayed": counters["steps"], "steps_compared_equal": counters["agreed_steps"],
        "correspondence_mismatches": counters["mismatches"],
        "mutex_failures_on_real_processes": counters["mutex_failures"],
        "mutex_failures_classified": {"remove-of-unexamined-inode": counters["known:remove-of-unexamined-inode"]},
        "liveness_checked_schedules": counters["solo_checked"], "liveness_failures": counters["liveness_failures"],
        "unlock_errors_observed": counters["unlock_errors"], "unlock_failures": counters["unlock_failures"],
        "schedules_with_cancel": counters["cancel_schedules"], "cancels_executed": counters["cancels_executed"],
        "cancel_oracle_failures": counters["cancel_failures"],
        "input_distribution": kinds, "inprocess_tie": True, "instrumentation": info,
        "cli_tie": cli, "cli_parked_holder": parked,
        "explorer_schedules_2proc": stats["explorer_schedules_2proc"], "exhaustive": bool(stats.get("exhaustive_2proc")),
    })


def replay(out, path):
    rp = json.load(open(path))["replay"]
    if "description" in rp and "observed" in rp:
        print(json.dumps(rp["description"], indent=1)); print(json.dumps(rp["observed"], indent=1)[:2000])
        print("re-run:", json.dumps(cli_parked_holder(out))[:1500])
        return
    sc = rp["schedule"]
    drv = vlib.build_driver("lock")
    binary, info = build_contender()
    ob = model_runs(drv, [sc])[0]
    with open(os.path.join(vlib.scratch(), "contenders.err"), "ab") as errf:
        r = replay_schedule(binary, sc, ob, errf, solo=sc.get("solo"))
    print("schedule: n=%d dead=%s lock file initially %s solo=%s" % (sc["n"], sc["dead"], sc["lock"], sc.get("solo")))
    print("tokens:   %s   (s<p> next call / wake / unlock of p, !<p> SIGKILL p, a<p> cancel the waiting p)" % ",".join(sc["tokens"]))
    print("model:    %s" % ",".join(o["ev"] + ("" if o["en"] else "(disabled)") for o in ob[1:]))
    for t in r["trace"]:
        print("step %-14s %-4s real %s | model %s" % (t["step"], t["event"], json.dumps(t["real"]), json.dumps(t["model"])))
    print("mismatch:", r["mismatch"])
    print("mutex_fail:", r["mutex_fail"])
    print("liveness_fail:", r["liveness_fail"])
    print("cancel_fail:", r["cancel_fail"])
    print("unlock_fail:", r["unlock_fail"])
    findings = {f["class"]: f for f in vlib.known_findings("C10")}
    counters = {"mutex_failures": 0, "liveness_failures": 0, "mismatches": [], "cancel_failures": 0, "unlock_failures": 0,
                "known:remove-of-unexamined-inode": 0}
    judge(out, findings, sc, ob, r, counters)
    if counters["mismatches"] and not out.violations:
        out.violation("replay: the real processes and Lock.v still differ: %s" % "; ".join(r["mismatch"]["diffs"]),
                      replay_record(sc, ob, r), no_input=True)
