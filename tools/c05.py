"""C05 -- failures are contained (keep-going / fail-fast).  Scheduler slice: containment only.
Every failing subset on tiny graphs, random subsets on larger ones, both modes, through the gated harness and
the ungated stress; oracles: independent targets still built, dependants of a failed target never started,
no command start after the first failure under fail-fast."""
import vlib, walkerlib

TRUSTED = ("testing/synctest quiescence (synctest.Wait) of the Go runtime",
           "ocaml/walker/driver.ml: observation relation between a quiescent state of the real code and Walker.state")


def cache_half(out, tier):
    """the 'never cached' half of C05 (a failed target leaves no cache entry, it and its dependants are
    attempted again by the next build): e2e histories on the real binary vs Build.v (c05_cache.py)."""
    import c05_cache, histcheck as hc
    batch, evals = c05_cache.cache_half(out, tier)
    builds = hc.report_correspondence(out, "C05", batch)
    st, nontriv = hc.stats(batch)
    res = {"e2e_builds": st["builds"], "e2e_oracle_evaluations": evals, "e2e_histories": st["histories"],
           "e2e_distinct_nontrivial": len(nontriv), "e2e_samples": hc.sample(batch, 2), "e2e_input_distribution": st}
    hc.cleanup(batch)
    return res


def run(out, tier):
    info, scheds, extra = walkerlib.gated_campaign(out, "C05", tier, "fail")
    sinfo = walkerlib.stress_campaign(out, "C05", tier, "fail", race=False)
    e2e = cache_half(out, tier)
    samples = []
    for s in scheds[:400:150]:
        tr = extra.get("traces", {}).get(s["id"])
        if tr:
            samples.append({"schedule": {k: s[k] for k in ("id", "w", "ff", "deps", "fail", "cancel_at")},
                            "final": tr["steps"][-1][1] if tr["steps"] else None, "end": tr["end"]})
    out.cov.update(info)
    out.cov.update(sinfo)
    out.cov.update({
        "evaluations": info.get("steps", 0) + sinfo.get("ungated_walks", 0) + sinfo.get("ungated_walker_only_walks", 0) + e2e["e2e_builds"] + e2e["e2e_oracle_evaluations"],
        "distinct_nontrivial": out.cov.get("distinct_nontrivial", 0) + e2e["e2e_distinct_nontrivial"],
        "rule": "gated: one evaluation per quiescent step + containment oracles per run; ungated: one per walk; e2e: one per grog build + one per oracle; "
                "distinct_nontrivial = distinct (graph, W, mode, failing set, action sequence) with more than 3 actions + distinct e2e histories with at least two operations and two builds",
        "samples": samples,
        "traces_validated_against_impl": info.get("traces", 0) + e2e["e2e_histories"],
        "input_distribution": info.get("distribution", {}),
        "e2e": e2e,
        "failing_subsets": "all subsets on %d tiny graphs x both modes; 1-3 random failing nodes on larger graphs" % len(walkerlib.TINY),
    })
    out.assumptions += walkerlib.ASSUMPTIONS
    out.notes.append("containment half: walker harness; never-cached half: e2e histories with failing commands on the real binary vs Build.v")


def replay(out, path):
    walkerlib.replay(out, "C05", path)
