"""C05 -- failures are contained (keep-going / fail-fast).  Scheduler slice: containment only.
Every failing subset on tiny graphs, random subsets on larger ones, both modes, through the gated harness and
the ungated stress; oracles: independent targets still built, dependants of a failed target never started,
no command start after the first failure under fail-fast."""
import vlib, walkerlib

TRUSTED = ("testing/synctest quiescence (synctest.Wait) of the Go runtime",
           "ocaml/walker/driver.ml: observation relation between a quiescent state of the real code and Walker.state")


def cache_half(out, tier):
    """the 'never cached' half of C05 (a failed target leaves no cache entry, it and its dependants are
    attempted again by the next build): e2e histories on the real binary vs Build.v (c05_cache.py)."""
    import c05_cache, histcheck as hc
    batch, evals = c05_cache.cache_half(out, tier)
    builds = hc.report_correspondence(out, "C05", batch)
    st, nontriv = hc.stats(batch)
    res = {"e2e_builds": st["builds"], "e2e_oracle_evaluations": evals, "e2e_histories": st["histories"],
           "e2e_distinct_nontrivial": len(nontriv), "e2e_samples": hc.sample(batch, 2), "e2e_input_distribution": st}
    hc.cleanup(batch)
    return res


def failfast_queue_witness(out, tier):
    """Fail-fast on the real binary with MORE ready targets than workers: eight independent targets, each logs START, sleeps 0.4 s,
    logs FAIL and exits 1; `grog build --fail-fast` with num_workers 1 and 2.  Jobs are queued in the pool when the first failure is
    observed: none of them may start its command afterwards (a queued task must look at the walk's context, not at an outer one).
    Oracle on the log: no START after the first FAIL (+ a slack of W-1 commands that were already running), exit status non-zero."""
    import os, json, shutil, subprocess
    grog = vlib.build_grog()
    base = os.path.join(vlib.scratch(), "c05ffqueue")
    shutil.rmtree(base, ignore_errors=True)
    res = []
    lates = {}
    for W in (1, 2):
        for rep in range(2 if tier == "quick" else 10):
            d = os.path.join(base, "w%d-%d" % (W, rep))
            ws, root = os.path.join(d, "ws"), os.path.join(d, "root")
            os.makedirs(ws); os.makedirs(root)
            log = os.path.join(d, "events.log")
            open(log, "w").close()
            json.dump({"targets": [{"name": "t%d" % k, "command": "echo START t%d >> %s; sleep 0.4; echo FAIL t%d >> %s; exit 1" % (k, log, k, log)}
                                   for k in range(8)]}, open(os.path.join(ws, "BUILD.json"), "w"))
            open(os.path.join(ws, "grog.toml"), "w").write("num_workers = %d\n" % W)
            env = {"PATH": os.environ["PATH"], "GROG_ROOT": root, "HOME": d, "NO_COLOR": "1"}
            try:
                p = subprocess.run([grog, "build", "--fail-fast"], cwd=ws, env=env, stdin=subprocess.DEVNULL, stdout=subprocess.PIPE,
                                   stderr=subprocess.PIPE, text=True, timeout=60)
                rc = p.returncode
            except subprocess.TimeoutExpired:
                rc = "hang"
            import time
            time.sleep(0.6)          # a command started late would still be logging
            evs = [l.strip() for l in open(log) if l.strip()]
            first_fail = next((i for i, e in enumerate(evs) if e.startswith("FAIL")), None)
            late = [e for e in evs[first_fail + 1:] if e.startswith("START")] if first_fail is not None else []
            desc = {"workspace": "8 independent targets: echo START; sleep 0.4; echo FAIL; exit 1", "num_workers": W, "flags": "--fail-fast",
                    "exit": rc, "events": evs}
            res.append({"num_workers": W, "exit": rc, "starts": sum(e.startswith("START") for e in evs), "starts_after_first_failure": len(late)})
            if rc == "hang":
                out.violation("`grog build --fail-fast` does not return within 60 s (8 failing targets, num_workers=%d)" % W, desc)
                return res
            if rc == 0:
                out.violation("`grog build --fail-fast` exits 0 although every target fails (num_workers=%d)" % W, desc)
                return res
            if late:
                lates.setdefault(W, []).append((late, desc))
        # (between the moment a command's shell logs FAIL and the moment grog has observed the failure a free worker may pick one more
        # job: a late start in ONE repetition is tolerated, late starts in every repetition of a worker count are not)
        if len(lates.get(W, [])) == (2 if tier == "quick" else 10):
            late, desc = lates[W][0]
            out.violation("fail-fast: %d command(s) STARTED after the first failure had been logged (num_workers=%d, 8 ready targets, in every "
                          "one of %d repetitions): %s" % (len(late), W, len(lates[W]), late), desc)
            return res
    shutil.rmtree(base, ignore_errors=True)
    return res


def run(out, tier):
    info, scheds, extra = walkerlib.gated_campaign(out, "C05", tier, "fail")
    sinfo = walkerlib.stress_campaign(out, "C05", tier, "fail", race=False)
    e2e = cache_half(out, tier)
    e2e["failfast_queue_witness"] = failfast_queue_witness(out, tier)
    samples = []
    for s in scheds[:400:150]:
        tr = extra.get("traces", {}).get(s["id"])
        if tr:
            samples.append({"schedule": {k: s[k] for k in ("id", "w", "ff", "deps", "fail", "cancel_at")},
                            "final": tr["steps"][-1][1] if tr["steps"] else None, "end": tr["end"]})
    out.cov.update(info)
    out.cov.update(sinfo)
    out.cov.update({
        "evaluations": info.get("steps", 0) + sinfo.get("ungated_walks", 0) + sinfo.get("ungated_walker_only_walks", 0) + e2e["e2e_builds"] + e2e["e2e_oracle_evaluations"],
        "distinct_nontrivial": out.cov.get("distinct_nontrivial", 0) + e2e["e2e_distinct_nontrivial"],
        "rule": "gated: one evaluation per quiescent step + containment oracles per run; ungated: one per walk; e2e: one per grog build + one per oracle; "
                "distinct_nontrivial = distinct (graph, W, mode, failing set, action sequence) with more than 3 actions + distinct e2e histories with at least two operations and two builds",
        "samples": samples,
        "traces_validated_against_impl": info.get("traces", 0) + e2e["e2e_histories"],
        "input_distribution": info.get("distribution", {}),
        "e2e": e2e,
        "failing_subsets": "all subsets on %d tiny graphs x both modes; 1-3 random failing nodes on larger graphs" % len(walkerlib.TINY),
    })
    out.assumptions += walkerlib.ASSUMPTIONS
    out.notes.append("containment half: walker harness; never-cached half: e2e histories with failing commands on the real binary vs Build.v")


def replay(out, path):
    import json
    rp = json.load(open(path))["replay"]
    if "events" in rp and "workspace" in rp:
        print(json.dumps(rp, indent=1)[:3000])
        print("re-run:", json.dumps(failfast_queue_witness(out, "quick")))
        return
    walkerlib.replay(out, "C05", path)
