"""C05 -- failures are contained (keep-going / fail-fast).  Scheduler slice: containment only.
Every failing subset on tiny graphs, random subsets on larger ones, both modes, through the gated harness and
the ungated stress; oracles: independent targets still built, dependants of a failed target never started,
no command start after the first failure under fail-fast."""
import vlib, walkerlib

TRUSTED = ("testing/synctest quiescence (synctest.Wait) of the Go runtime",
           "ocaml/walker/driver.ml: observation relation between a quiescent state of the real code and Walker.state")


def cache_half(out, tier):
    """HOOK: the 'never cached' half of C05 (a failed target leaves no cache entry, it and its dependants are
    attempted again by the next build) comes from the build-history slice (Build.v); it plugs in here."""
    pass


def run(out, tier):
    info, scheds, extra = walkerlib.gated_campaign(out, "C05", tier, "fail")
    sinfo = walkerlib.stress_campaign(out, "C05", tier, "fail", race=False)
    cache_half(out, tier)
    samples = []
    for s in scheds[:400:150]:
        tr = extra.get("traces", {}).get(s["id"])
        if tr:
            samples.append({"schedule": {k: s[k] for k in ("id", "w", "ff", "deps", "fail", "cancel_at")},
                            "final": tr["steps"][-1][1] if tr["steps"] else None, "end": tr["end"]})
    out.cov.update(info)
    out.cov.update(sinfo)
    out.cov.update({
        "evaluations": info.get("steps", 0) + sinfo.get("ungated_walks", 0) + sinfo.get("ungated_walker_only_walks", 0),
        "rule": "gated: one evaluation per quiescent step + containment oracles per run; ungated: one per walk; "
                "distinct_nontrivial = distinct (graph, W, mode, failing set, action sequence) with more than 3 actions",
        "samples": samples,
        "traces_validated_against_impl": info.get("traces", 0),
        "input_distribution": info.get("distribution", {}),
        "failing_subsets": "all subsets on %d tiny graphs x both modes; 1-3 random failing nodes on larger graphs" % len(walkerlib.TINY),
    })
    out.assumptions += walkerlib.ASSUMPTIONS
    out.notes.append("containment half of C05 only; the never-cached half is the hook cache_half (build-history slice)")


def replay(out, path):
    walkerlib.replay(out, "C05", path)
