#!/usr/bin/env python3
"""Regenerate MANIFEST.json from tools/claims.json (claimed properties) + properties.jsonl."""
import json, os
V = os.path.dirname(os.path.dirname(os.path.abspath(__file__)))
props = [json.loads(l) for l in open(os.path.join(V, "properties.jsonl"))]
claims = json.load(open(os.path.join(V, "tools", "claims.json")))
m = {
    "version": 1,
    "setup_cmd": "./setup.sh",
    "hooks": {"guard": "verif",
              "enable": "go build -tags verif -overlay <generated overlay.json mapping /verif/harness/go/* into /repo/internal/zz_verif_*> (no file is added to /repo)",
              "baseline_off_cmd": "cd /repo && GOFLAGS=-mod=mod GOPROXY=off go test -vet=off -count=1 ./...",
              "source_commits": [], "add_only": True},
    "engines": [
        {"name": "coq", "path": "coq", "serves_properties": sorted(claims),
         "kind_free_text": "Coq 8.16.1 development: hand-written Gallina models (theories/), property theorems (properties/), extraction to OCaml (ocaml/)"},
        {"name": "harness", "path": "harness/go", "serves_properties": sorted(claims),
         "kind_free_text": "Go harness packages injected into module grog with go build -overlay + the real grog binary; differential correspondence against /repo's working tree"}],
    "checks": [], "not_applicable": [],
    "notes": "All checks: ./check <id> [--tier quick|thorough] [--replay file]. See DESIGN.md.",
}
for p in props:
    pid = p["id"]
    if pid in claims:
        c = claims[pid]
        m["checks"].append({
            "property_id": pid, "quick_cmd": "./check %s --tier quick" % pid,
            "thorough_cmd": "./check %s --tier thorough" % pid,
            "evidence_file": "/verif/evidence/%s.json" % pid,
            "replay_cmd_template": "./check %s --replay {path}" % pid, "engine": "coq",
            "level_claimed": {"category": c.get("category", "proof"), "text": c["text"], "design_ref": "DESIGN.md section 5." + pid},
            "level_note": c["note"], "technique": c["technique"]})
    else:
        m["not_applicable"].append({"property_id": pid, "reason": "not yet claimed: model, theorems and correspondence for this property are under construction (see DESIGN.md section 9); no technique switch intended"})
json.dump(m, open(os.path.join(V, "MANIFEST.json"), "w"), indent=1)
print("claimed:", sorted(claims))
