"""C04 -- every build terminates with every selected target resolved (scheduler slice: walker + pool).
Gated replay with failures, both modes and external cancellation at a random step; synctest deadlock detection;
ungated walks bounded by a timeout with a scan for runtime aborts; exhaustive exploration of the extracted model
on tiny graphs.  The restore half (directory loader) is another slice's (c06.restore_fault_cases)."""
import subprocess
import vlib, walkerlib

TRUSTED = ("testing/synctest quiescence (synctest.Wait) of the Go runtime",
           "ocaml/walker/driver.ml: observation relation between a quiescent state of the real code and Walker.state")


def race_demo(out, tier, findings, race=False):
    """What cmds/build.go does with the map Walk returns after fail-fast / an interrupt, on the real code: GetErrors,
    TargetSuccessCount and a range over it, at once and without any lock, while node routines that Walk did not wait for are
    still completing.  Oracles: no runtime abort, the returned map never grows after the return, and (race=True: binary built
    with -race) no DATA RACE report."""
    try:
        h = vlib.build_harness("walker", deps=(), race=race)
    except vlib.HarnessUnavailable:
        return {"available": False}
    res = {"available": True, "race_detector": race}
    F1 = "completions-written-after-return"
    for mode in ("ff", "cancel"):
        runs = (300 if race else 3000) if tier == "quick" else (3000 if race else 30000)
        try:
            p = subprocess.run([h, "race", mode, str(runs)], stdout=subprocess.PIPE, stderr=subprocess.PIPE, text=True, timeout=600)
        except subprocess.TimeoutExpired:
            res[mode] = "timeout"
            out.violation("walker harness 'race %s %d' did not return within 600 s" % (mode, runs), {"cmd": "walker harness race %s %d" % (mode, runs)})
            continue
        fatal = [l for l in p.stderr.split("\n") if l.startswith("fatal error:")]
        res[mode] = fatal[0] if fatal else p.stdout.strip()
        cmd = {"cmd": "walker harness%s race %s %d" % (" (-race build)" if race else "", mode, runs), "stderr": p.stderr[:3000]}
        if not fatal and "DATA RACE" in p.stderr and all(k == "pool-close-vs-send" for k, _ in walkerlib.race_reports(p.stderr)):
            res[mode] = p.stdout.strip() + " (race detector: pool close-vs-send only, not judged)"
        elif not fatal and "DATA RACE" in p.stderr:
            # class guard: the two sides are onComplete's write of the completions map and the caller's read of the returned map
            in_class = "onComplete" in p.stderr and ("CompletionMap" in p.stderr or "raceRuns" in p.stderr)
            res[mode] = "DATA RACE"
            if in_class and F1 in findings:
                out.known(findings[F1]["id"], "race detector: onComplete writes the map Walk returned while the caller reads it as cmds/build.go does (%s mode)" % mode)
            else:
                out.violation("race detector report while the caller reads the map Walk returned (%s mode): %s" % (
                    mode, " ".join(x.strip() for x in p.stderr.split("\n") if "onComplete" in x or "CompletionMap" in x or "raceRuns" in x)[:200]), cmd)
        elif not fatal and p.returncode != 0:
            out.violation("walker harness race %s exited with status %d: %s" % (mode, p.returncode, p.stderr[-200:].replace("\n", " ")), cmd)
        elif not fatal:
            m = [x for x in p.stdout.split() if x.startswith("maps_written_after_return=")]
            grown = int(m[0].split("=")[1]) if m else -1
            if grown > 0 and F1 in findings:
                out.known(findings[F1]["id"], "the map Walk returned grew after the return in %d of %d walks (%s mode) while the caller was reading it" % (grown, runs, mode))
            elif grown > 0:
                out.violation("the map Walk returned grew after the return in %d of %d walks (%s mode): node routines write the map the caller reads without a lock" % (
                    grown, runs, mode), cmd)
            elif grown < 0:
                out.violation("walker harness race %s printed no result: %s" % (mode, p.stdout[:200]), cmd)
        if fatal:
            # class guard evaluated on this failure: a concurrent-map abort whose reader is the caller of Walk
            # (CompletionMap methods / the harness' range) in a walk that ended through ctx.Done
            in_class = "concurrent map" in fatal[0] and ("CompletionMap" in p.stderr or "raceRuns" in p.stderr)
            if in_class and "completions-written-after-return" in findings:
                out.known(findings["completions-written-after-return"]["id"],
                          "runtime abort '%s' while reading the map returned by Walk (%s mode) as cmds/build.go does" % (fatal[0], mode))
            else:
                out.violation("the process aborted: %s (mode %s)" % (fatal[0], mode), {"cmd": "walker harness race %s %d" % (mode, runs), "stderr": p.stderr[:3000]})
    return res


def e2e_termination(out, tier):
    """`grog build` itself returns, with a status, for cache states with missing entries: the cache-fault scripts of the C15 check
    (a blob or all results lost, outputs wiped, a dependant forced to run) in BOTH load_outputs modes on the real binary;
    every build runs under a timeout; `hang` is the failing input.  Model-free."""
    import c15, histcheck as hc
    r = vlib.Rng(vlib.seed() * 4241 + 4)
    T = lambda name, deps, salt="v0": {"k": "t", "pkg": "p", "name": name, "salt": salt, "ins": [], "glob": None, "excl": [],
                                       "outs": [("file", name + ".txt")], "deps": deps, "fp": {}, "nocache": False, "multi": False,
                                       "beh": "n", "check": False, "comment": ""}
    scripts = []
    # c <- [b, a], a <- b: the dependency that has to be re-made is needed by another dependency as well
    for order in ([0, 1], [1, 0]):
        for lost in (0, 1):
            s1 = {"nodes": [T("b", []), T("a", [0]), T("c", order)], "files": {}}
            s2 = {"nodes": [T("b", []), T("a", [0]), T("c", order, "v1")], "files": {}}
            scripts.append([("src", s1, "initial"), ("build",), ("dropblob-of", lost, 0), ("wipe-all",),
                            ("src", s2, "command (output-relevant) of //p:c"), ("build",), ("build",)])
    for _ in range(4 if tier == "quick" else 80):
        st = c15.script(dict(hc.CLEAN), r)
        if any(x[0] in ("dropblob", "dropresults") for x in st):
            scripts.append(st)
    plans = []
    for steps in scripts:
        for mode in ("all", "min"):
            plans.append(("term-%s" % mode, (lambda steps=steps, mode=mode: (lambda h, rr: (c15.apply(h, steps, mode), [])[1]))()))
    batch = hc.run_batch(plans, vlib.seed() + 44)
    hc.check_plan_errors(batch)
    nb = 0
    for name, h, notes, m in batch:
        for bi, b in enumerate(h.builds):
            nb += 1
            if b["rc"] == "hang":
                out.violation("grog build (load_outputs=%s) does not return on a cache with missing entries: build %d hangs [%s]" % (
                    "minimal" if name.endswith("min") else "all", bi, "; ".join(h.desc)[:600]), h.replay_dict())
                break
    hc.cleanup(batch)
    return {"e2e_fault_histories": len(batch), "e2e_builds": nb}


def e2e_wide_restore(out, tier):
    """Restores wider than any pool in the process: ONE target with 4 x NumCPU directory outputs (each with a few files) and as many
    file outputs; 24 independent targets with two directory outputs each.  Build, remove every output from the workspace, build
    again (all cache hits, everything restored at once): must return, within a limit that is 30 x what it takes.  A restore that
    waits for helper tasks queued behind itself on one bounded pool never returns."""
    import os, shutil, subprocess, json, time
    grog = vlib.build_grog()
    base = os.path.join(vlib.scratch(), "c04wide")
    shutil.rmtree(base, ignore_errors=True)
    ncpu = os.cpu_count() or 4
    res = []
    shapes = [("one-target", 1, 4 * ncpu), ("many-targets", 24, 2)] + ([("one-target-8x", 1, 8 * ncpu)] if tier != "quick" else [])
    for name, ntargets, ndirs in shapes:
        ws, root = os.path.join(base, name, "ws"), os.path.join(base, name, "root")
        os.makedirs(ws); os.makedirs(root)
        targets = []
        for t in range(ntargets):
            cmd = "; ".join("mkdir -p d%d_%d/s && echo %d-%d > d%d_%d/a && echo x > d%d_%d/s/b && echo %d > f%d_%d.txt" % (t, k, t, k, t, k, t, k, k, t, k)
                            for k in range(ndirs))
            targets.append({"name": "t%d" % t, "command": cmd,
                            "outputs": ["dir::d%d_%d" % (t, k) for k in range(ndirs)] + ["f%d_%d.txt" % (t, k) for k in range(ndirs)]})
        json.dump({"targets": targets}, open(os.path.join(ws, "BUILD.json"), "w"))
        open(os.path.join(ws, "grog.toml"), "w").write("")
        env = {"PATH": os.environ["PATH"], "GROG_ROOT": root, "HOME": os.path.join(base, name), "NO_COLOR": "1"}
        LIMIT = 60
        runs = []
        for step in ("build", "wipe+build (restore)", "build (no-op)"):
            if step.startswith("wipe"):
                for e in os.listdir(ws):
                    if e.startswith("d") or e.startswith("f"):
                        q = os.path.join(ws, e)
                        shutil.rmtree(q) if os.path.isdir(q) else os.unlink(q)
            t0 = time.time()
            try:
                p = subprocess.run([grog, "build"], cwd=ws, env=env, stdin=subprocess.DEVNULL, stdout=subprocess.PIPE, stderr=subprocess.PIPE,
                                   text=True, timeout=LIMIT)
                rc, tail = p.returncode, (p.stdout + p.stderr)[-300:]
            except subprocess.TimeoutExpired as e:
                rc, tail = "hang", ""
            runs.append({"step": step, "rc": rc, "seconds": round(time.time() - t0, 2)})
            rp = {"workspace": "%d target(s) with %d dir:: outputs (3 files each) and %d file outputs each" % (ntargets, ndirs, ndirs),
                  "history": runs, "limit_s": LIMIT, "cpus": ncpu}
            if rc == "hang":
                out.violation("`grog build` does not return within %d s while restoring %d x %d directory outputs from the cache (step: %s)" % (
                    LIMIT, ntargets, ndirs, step), rp)
                break
            if rc != 0:
                out.violation("wide-restore scenario: `grog build` failed (rc %s) at step %s: %s" % (rc, step, " ".join(tail.split())[-200:]), rp, no_input=True)
                break
        else:
            missing = [d for t in range(ntargets) for k in range(ndirs) for d in ("d%d_%d/s/b" % (t, k), "f%d_%d.txt" % (t, k))
                       if not os.path.exists(os.path.join(ws, d))]
            if missing:
                out.violation("after the restore of %d x %d directory outputs %d declared entries are missing, e.g. %s" % (ntargets, ndirs, len(missing), missing[:3]), rp)
        res.append({"shape": name, "targets": ntargets, "dir_outputs_per_target": ndirs, "runs": runs})
    shutil.rmtree(base, ignore_errors=True)
    return res


def e2e_repeated_io_errors(out, tier):
    """Error paths must give back what they took (a slot of a limiter, a lock, a descriptor): MANY targets whose input cannot be read
    (the declared input is a directory: it opens, reading fails) next to targets that are fine, `num_workers` 1 and 2, keep-going.
    Every unreadable target must fail, every other target must be built, and the build must RETURN -- however many errors came
    first.  Second history: outputs replaced by directories between two builds (the restore runs into them), then built again."""
    import os, shutil, subprocess, json, time
    grog = vlib.build_grog()
    base = os.path.join(vlib.scratch(), "c04ioerr")
    shutil.rmtree(base, ignore_errors=True)
    res = []
    nbad = 40 if tier == "quick" else 200
    for W in (1, 2):
        ws, root = os.path.join(base, "w%d" % W, "ws"), os.path.join(base, "w%d" % W, "root")
        os.makedirs(ws); os.makedirs(root)
        targets = []
        for k in range(nbad):
            os.makedirs(os.path.join(ws, "adir%d" % k))
            targets.append({"name": "bad%d" % k, "inputs": ["adir%d" % k], "outputs": ["bad%d.txt" % k], "command": "echo x > bad%d.txt" % k})
        open(os.path.join(ws, "in.txt"), "w").write("v1\n")
        targets.append({"name": "slow", "command": "sleep 1; echo s > slow.txt", "outputs": ["slow.txt"]})
        for k in range(6):
            targets.append({"name": "ok%d" % k, "inputs": ["in.txt"], "dependencies": [":slow"], "outputs": ["ok%d.txt" % k],
                            "command": "cat in.txt slow.txt > ok%d.txt" % k})
        json.dump({"targets": targets}, open(os.path.join(ws, "BUILD.json"), "w"))
        open(os.path.join(ws, "grog.toml"), "w").write("num_workers = %d\n" % W)
        env = {"PATH": os.environ["PATH"], "GROG_ROOT": root, "HOME": os.path.join(base, "w%d" % W), "NO_COLOR": "1"}
        LIMIT = 90
        runs = []

        def build(step):
            t0 = time.time()
            try:
                p = subprocess.run([grog, "build"], cwd=ws, env=env, stdin=subprocess.DEVNULL, stdout=subprocess.PIPE, stderr=subprocess.PIPE,
                                   text=True, timeout=LIMIT)
                rc, text = p.returncode, p.stdout + p.stderr
            except subprocess.TimeoutExpired:
                rc, text = "hang", ""
            runs.append({"step": step, "rc": rc, "seconds": round(time.time() - t0, 2),
                         "ok_outputs": sorted(f for f in os.listdir(ws) if f.startswith("ok") and os.path.isfile(os.path.join(ws, f)))})
            return rc, text
        rp = {"workspace": "%d targets whose declared input is a directory, //:slow (1 s), 6 targets that depend on it; num_workers=%d, keep-going" % (nbad, W),
              "history": runs, "limit_s": LIMIT}
        rc, text = build("build")
        if rc == "hang":
            out.violation("`grog build` does not return within %d s after %d targets failed with an unreadable input (num_workers=%d): "
                          "an error path keeps a resource" % (LIMIT, nbad, W), rp)
        elif rc == 0:
            out.violation("a build with %d targets whose input cannot be read exits 0" % nbad, rp)
        elif len(runs[-1]["ok_outputs"]) != 6:
            out.violation("keep-going build with %d unreadable targets (num_workers=%d) built only %s of the 6 unaffected targets" % (
                nbad, W, runs[-1]["ok_outputs"]), rp)
        else:
            # second history: the outputs of the good targets are replaced by directories, their input reverts: restore over a directory
            for k in range(nbad):
                shutil.rmtree(os.path.join(ws, "adir%d" % k))
                open(os.path.join(ws, "adir%d" % k), "w").write("now a file\n")
            rc, text = build("inputs readable again: build")
            if rc == "hang" or rc != 0:
                out.violation("after the unreadable inputs became files the build %s (num_workers=%d)" % ("does not return" if rc == "hang" else "fails: " + " ".join(text.split())[-200:], W), rp,
                              no_input=(rc != "hang"))
            else:
                for k in range(6):
                    os.unlink(os.path.join(ws, "ok%d.txt" % k)); os.makedirs(os.path.join(ws, "ok%d.txt" % k, "sub"))
                for k in range(nbad):
                    os.unlink(os.path.join(ws, "bad%d.txt" % k)); os.makedirs(os.path.join(ws, "bad%d.txt" % k))
                rc, text = build("every output replaced by a directory: build (restores)")
                if rc == "hang":
                    out.violation("`grog build` does not return within %d s while restoring %d outputs over directories (num_workers=%d)" % (LIMIT, nbad + 6, W), rp)
                elif rc == 0 and len(runs[-1]["ok_outputs"]) != 6:
                    out.violation("a successful build left directories where %d restored file outputs should be (num_workers=%d)" % (6 - len(runs[-1]["ok_outputs"]), W), rp)
        res.append({"num_workers": W, "unreadable_targets": nbad, "runs": runs})
    shutil.rmtree(base, ignore_errors=True)
    return res


def e2e_timeout_with_dependants(out, tier):
    """A target that overruns its own `timeout:` (1 s against `sleep 3`) with a chain of two dependants and an unrelated target, in
    keep-going and fail-fast mode, num_workers 1 and 4: the build must RETURN (non-zero) within the limit, the dependants never run,
    the unrelated target is built in keep-going mode.  (A timed-out target is a FAILED target: it resolves, and so do its dependants.)"""
    import os, shutil, subprocess, json, time
    grog = vlib.build_grog()
    base = os.path.join(vlib.scratch(), "c04timeoutdeps")
    shutil.rmtree(base, ignore_errors=True)
    res = []
    for W in (1, 4):
        for ff in (False, True):
            d = os.path.join(base, "w%d-%d" % (W, ff))
            ws, root = os.path.join(d, "ws"), os.path.join(d, "root")
            os.makedirs(ws); os.makedirs(root)
            log = os.path.join(d, "ran.log")
            open(log, "w").close()
            json.dump({"targets": [
                {"name": "slow", "timeout": "1s", "command": "sleep 3; echo slow >> %s" % log},
                {"name": "after", "dependencies": [":slow"], "command": "echo after >> %s" % log},
                {"name": "after2", "dependencies": [":after"], "command": "echo after2 >> %s" % log},
                {"name": "other", "command": "echo other >> %s" % log}]}, open(os.path.join(ws, "BUILD.json"), "w"))
            open(os.path.join(ws, "grog.toml"), "w").write("num_workers = %d\n" % W)
            env = {"PATH": os.environ["PATH"], "GROG_ROOT": root, "HOME": d, "NO_COLOR": "1"}
            t0 = time.time()
            try:
                p = subprocess.run([grog, "build"] + (["--fail-fast"] if ff else []), cwd=ws, env=env, stdin=subprocess.DEVNULL,
                                   stdout=subprocess.PIPE, stderr=subprocess.PIPE, text=True, timeout=40)
                rc = p.returncode
            except subprocess.TimeoutExpired:
                rc = "hang"
            ran = open(log).read().split()
            rp = {"workspace": "//:slow (timeout 1s, sleeps 3 s) <- //:after <- //:after2; //:other", "num_workers": W, "fail_fast": ff, "exit": rc,
                  "commands_that_completed": ran, "seconds": round(time.time() - t0, 2)}
            res.append(rp)
            if rc == "hang":
                out.violation("`grog build` does not return within 40 s after a target with dependants exceeded its timeout (num_workers=%d, fail_fast=%s)" % (W, ff), rp)
                return res
            if rc == 0:
                out.violation("a build in which a target exceeded its timeout exits 0 (num_workers=%d, fail_fast=%s)" % (W, ff), rp)
                return res
            if "after" in ran or "after2" in ran or "slow" in ran:
                out.violation("after a target exceeded its timeout %s ran (num_workers=%d, fail_fast=%s)" % ([x for x in ran if x != "other"], W, ff), rp)
                return res
            if not ff and "other" not in ran:
                out.violation("keep-going build: the target unrelated to the timed-out one was not built (num_workers=%d)" % W, rp)
                return res
    shutil.rmtree(base, ignore_errors=True)
    return res


def run(out, tier):
    findings = {f["class"]: f for f in vlib.known_findings("C04")}
    info, scheds, extra = walkerlib.gated_campaign(out, "C04", tier, "term", race=(tier == "thorough"))
    # the map Walk handed to its caller is written after the return
    for s, tr, k, ret_early in extra.get("late", [])[:3]:
        if ret_early and "completions-written-after-return" in findings:
            out.known(findings["completions-written-after-return"]["id"],
                      "schedule %s: the map Walk returned through ctx.Done is written at step %d, after the return (a node routine records its completion in it)" % (s["id"], k))
        else:
            out.violation("schedule %s: the map Walk returned is written at step %d, after the return%s: the caller reads it without a lock" % (
                s["id"], k, " through ctx.Done (a node routine that Walk did not wait for records its completion in it)" if ret_early
                else " although the walk was neither cancelled nor fail-fast-triggered"),
                {"schedule": s, "trace": [[a, o] for a, o in tr["steps"]], "replay_cmd": "./check C04 --replay <this file>"})
    sinfo = walkerlib.stress_campaign(out, "C04", tier, "term", race=(tier == "thorough"))
    ex = walkerlib.explore_tiny(out)
    rd = race_demo(out, tier, findings)
    if tier == "thorough":
        rd = {"plain": rd, "race_detector": race_demo(out, tier, findings, race=True)}
    try:
        import c06
        c06.restore_fault_cases(out, tier)
    except (ImportError, AttributeError):
        out.notes.append("restore fault cases not available yet")
    e2e = e2e_termination(out, tier)
    e2e["wide_restore"] = e2e_wide_restore(out, tier)
    e2e["repeated_io_errors"] = e2e_repeated_io_errors(out, tier)
    e2e["timeout_with_dependants"] = e2e_timeout_with_dependants(out, tier)
    samples = []
    for s in scheds[:400:150]:
        tr = extra.get("traces", {}).get(s["id"])
        if tr:
            samples.append({"schedule": {k: s[k] for k in ("id", "w", "ff", "deps", "fail", "cancel_at")},
                            "trace_tail": [[a, o] for a, o in tr["steps"][-3:]], "end": tr["end"]})
    out.cov.update(info)
    out.cov.update(sinfo)
    out.cov.update({
        "evaluations": info.get("steps", 0) + sinfo.get("ungated_walks", 0) + sinfo.get("ungated_walker_only_walks", 0) + ex["states"] + e2e["e2e_builds"],
        "rule": "gated: one evaluation per quiescent step (+ termination / accounting / nothing-starts-after-cancel oracles per run); ungated: one per walk "
                "(hang = timeout, abort = exit status); model: one per explored state; distinct_nontrivial = distinct (graph, W, mode, failing set, cancel step, action sequence) with more than 3 actions",
        "samples": samples,
        "traces_validated_against_impl": info.get("traces", 0),
        "input_distribution": info.get("distribution", {}),
        "model_exploration": ex,
        "e2e_termination": e2e,
        "completions_map_demo": rd,
    })
    out.assumptions += walkerlib.ASSUMPTIONS
    out.notes.append("scheduler half of C04 only; directory-restore termination comes from the restore slice")


def replay(out, path):
    walkerlib.replay(out, "C04", path)
