"""C13 -- taint, no-cache and enable_cache=false force execution precisely.
Tie: histories mixing edits, grog taint, builds with and without --enable-cache and no-cache targets
at random graph positions; real binary vs Build.v; model-free oracles on the executed multisets."""
import json
import vlib, buildlib as bl, histcheck as hc, c13w

# (the class cache-toggle-changes-output-hash, finding C13-F1, is gone: a disabled cache is neither read nor written,
# C13_cache_off_leaves_cache; a re-execution after a cache-disabled build is a violation)
GUARDS = [("alias-dep-not-in-key", hc.g_no_alias_deps)]


def cur_snap(h, bi):
    k = -1; cur = None
    for o in h.ops:
        if o[0] == "S":
            cur = o[1]
        if o[0] == "B":
            k += 1
            if k == bi:
                return cur
    return cur


def plan(features, with_disable, mode="all"):
    cfg = {"mode": mode, "cache": True}

    def p(h, r):
        notes = []
        h.set_sources(bl.gen_snapshot(r, features=features))
        h.build(cfg); notes.append(("nocache-always", len(h.builds) - 1))
        tis = [i for i, n in enumerate(h.snap["nodes"]) if n["k"] == "t"]
        tainted = r.sample(tis, 1 + r.below(2))
        h.taint(tainted)
        h.build(cfg); notes.append(("tainted", len(h.builds) - 1, tainted))
        h.build(cfg); notes.append(("consumed", len(h.builds) - 1, tainted))
        if with_disable:
            h.build({"mode": mode, "cache": False}); notes.append(("disabled", len(h.builds) - 1))
            h.build(cfg); notes.append(("after-disabled", len(h.builds) - 1))
        s2, why = bl.edit_snapshot(r, h.snap)
        h.set_sources(s2, why)
        sub = r.sample(tis, 1)
        h.taint(sub)
        h.build(cfg, roots=None); notes.append(("tainted", len(h.builds) - 1, sub))
        # the taint is consumed by that execution also when the target had to run anyway (it was edited as well, or its
        # dependencies changed): the next build must not run it again
        h.build(cfg, roots=None); notes.append(("consumed", len(h.builds) - 1, sub))
        return notes
    return p


def run(out, tier):
    n = 14 if tier == "quick" else 300
    feats = dict(hc.CLEAN); feats["nocache"] = True
    full = dict(hc.FULL); full["nocache"] = True
    def witness_taint_and_edit(h, r):
        """build; taint t; edit t's own command; build (t runs: tainted AND changed); build (must run nothing)"""
        mk = lambda salt: {"nodes": [{"k": "t", "pkg": "p", "name": "t", "salt": salt, "ins": [], "glob": None, "excl": [],
                                      "outs": [("file", "o.txt")], "deps": [], "fp": {}, "nocache": False, "multi": False, "beh": "n",
                                      "check": False, "comment": ""}], "files": {}}
        h.set_sources(mk("v0")); h.build(hc.ALL_CACHE)
        h.taint([0])
        h.set_sources(mk("v1"), "command (output-relevant) of //p:t")
        h.build(hc.ALL_CACHE); h.build(hc.ALL_CACHE)
        return [("tainted", 1, [0]), ("consumed", 2, [0])]
    plans = [("witness-taint-and-edit", witness_taint_and_edit)]
    plans += [("nocache-taint", plan(feats, False))] * n
    plans += [("toggle", plan(feats, True))] * n
    plans += [("full", plan(full, True))] * n
    # the same with load_outputs=minimal: with the cache disabled nothing is stored, so LoadDependencyOutputs must take the
    # dependencies it needs from the workspace (they were executed earlier in the same build) and re-run none of them
    plans += [("toggle-min", plan(full, True, "min"))] * n
    batch = hc.run_batch(plans, vlib.seed())
    hc.check_plan_errors(batch)
    findings = {f["class"]: f for f in vlib.known_findings("C13")}
    evals = c13w.witness_failed_check_keeps_taint(out)
    for name, h, notes, m in batch:
        for note in notes:
            bi = note[1]; b = h.builds[bi]
            if b["rc"] != 0:
                continue
            cur = cur_snap(h, bi)
            ncl = hc.nocache_labels(cur)
            starts = set(b["starts"])
            predicted = bi < len(m) and sorted(b["starts"]) == m[bi]["exec"]
            evals += 1
            missing_nc = [l for l in ncl if l not in starts]
            if missing_nc:
                hc.decide(out, "C13", findings, h, "no-cache target %s was not executed by build %d" % (missing_nc, bi), predicted, GUARDS)
            if note[0] == "tainted":
                labs = [bl.label(cur["nodes"][i]) for i in note[2]]
                notrun = [l for l in labs if l not in starts]
                if notrun:
                    hc.decide(out, "C13", findings, h, "tainted target %s was not executed by the next build" % notrun, predicted, GUARDS)
                # dependants are invalidated only if outputs changed: deterministic commands reproduce identical outputs,
                # so after a pure taint (no edit in between) nothing but tainted + no-cache targets may run
                prev_is_edit = False
                k = -1
                for idx, o in enumerate(h.ops):
                    if o[0] == "B":
                        k += 1
                        if k == bi:
                            prev_is_edit = any(x[0] == "S" for x in h.ops[max(0, idx - 3):idx])
                            break
                extra = [l for l in starts if l not in labs and l not in ncl]
                if extra and not prev_is_edit:
                    hc.decide(out, "C13", findings, h, "taint of %s also re-executed %s whose inputs did not change" % (labs, sorted(extra)), predicted, GUARDS)
            elif note[0] == "consumed":
                labs = [bl.label(cur["nodes"][i]) for i in note[2]]
                again = [l for l in labs if l in starts and l not in ncl]
                if again:
                    hc.decide(out, "C13", findings, h, "taint of %s was not consumed by the successful execution" % again, predicted, GUARDS)
            elif note[0] == "disabled":
                want = {bl.label(n) for n in cur["nodes"] if n["k"] == "t"}
                notrun = sorted(want - starts)
                if notrun:
                    hc.decide(out, "C13", findings, h, "with the cache disabled %s did not execute" % notrun, predicted, GUARDS)
                twice = sorted({l for l in b["starts"] if b["starts"].count(l) > 1})
                if twice:
                    hc.decide(out, "C13", findings, h, "with the cache disabled %s executed more than once in one build" % twice, predicted, GUARDS)
            elif note[0] == "after-disabled":
                extra = [l for l in starts if l not in ncl]
                if extra:
                    hc.decide(out, "C13", findings, h, "after a cache-disabled build with unchanged outputs the next cached build re-executes %s" % sorted(extra), predicted, GUARDS)
    hc.finish(out, "C13", batch,
              "histories: build; taint 1-2 targets; build; build; [build with --enable-cache=false; build]; edit; taint; build -- with "
              "no-cache targets at random graph positions, in mode all and (stream toggle-min) in mode minimal; a cached build after a "
              "cache-disabled one must run nothing but no-cache targets; non-trivial = at least two operations and two builds", oracle_evals=evals)


def replay(out, path):
    rp = json.load(open(path))["replay"]
    print(json.dumps(rp.get("description"), indent=1)); print(json.dumps(rp.get("observed"), indent=1)[:3000])
