"""C07 -- the cache stays consistent across crashes and storage faults.
Crash points and faults on the REAL binary without instrumentation: strace's syscall tampering kills
grog (or makes the call fail with EIO) at the N-th invocation of a file-system syscall; what is left on
disk is audited offline (harness `audit`), then an untraced follow-up build must succeed with outputs
identical to a from-scratch build (C01 oracle).  Single-target workspaces are also compared with the
prefix semantics of Store.v; in-process op sequences on the local backend tie Store.v to fs.go/cas.go."""
import json, os, re, shutil, signal, subprocess, time
from concurrent.futures import ThreadPoolExecutor
import vlib, store_ws, store_ops

LEVEL = "proof"
TRUSTED = ("strace 6.x syscall tampering (-e inject=<syscall>:signal=KILL|error=EIO:when=N, counted per thread and per syscall; "
           "-f -b execve so that only grog's own threads are traced, not the sh -c children)",)

SYSCALLS = ["openat", "mkdirat", "renameat", "unlinkat", "write", "close", "copy_file_range"]
TRACE_SET = "openat,mkdirat,renameat,renameat2,rename,unlinkat,write,close,linkat,copy_file_range,sendfile"
LINE = re.compile(r"^(\d+)\s+([a-z_0-9]+)\(")


def strace_ok():
    try:
        p = subprocess.run(["strace", "-f", "-b", "execve", "-o", "/dev/null", "-e", "trace=close", "-e",
                            "inject=close:error=EIO:when=60000", "true"], capture_output=True, timeout=20)
        return p.returncode == 0
    except Exception:
        return False


def prep(spec, base, grog, warm):
    """Template (workspace, cache root) for one generated workspace; warm = a previous build with other
    inputs already populated the cache and the workspace."""
    tws, troot = os.path.join(base, "tpl", "ws"), os.path.join(base, "tpl", "root")
    store_ws.write_ws(spec, tws)
    if warm:
        old = dict(spec["inputs"])
        first = sorted(old)[0]
        with open(os.path.join(tws, "p", first), "w") as f:
            f.write("previous-" + old[first])
        rc, _, out = store_ws.grog(grog, tws, troot)
        if rc != 0:
            raise RuntimeError("warm-up build failed: " + out[-300:])
        store_ws.write_ws(spec, tws)
        store_ws.clear_trace(tws)
    return tws, troot


def fresh_copy(tws, troot, dest):
    ws, root = os.path.join(dest, "ws"), os.path.join(dest, "root")
    shutil.copytree(tws, ws, symlinks=True)
    src = os.path.dirname(store_ws.cache_dir(troot, tws))
    if os.path.isdir(src):
        dst = os.path.dirname(store_ws.cache_dir(root, ws))
        shutil.copytree(src, dst, symlinks=True)
        try:
            os.remove(os.path.join(dst, "lockfile"))
        except FileNotFoundError:
            pass
    return ws, root


def enumerate_points(grog, tws, troot, base, gomax):
    """Dry run under strace -y: per (thread, syscall) invocation counts and the first invocation index that
    touches the cache root."""
    d = os.path.join(base, "dry-%s" % gomax)
    ws, root = fresh_copy(tws, troot, d)
    log = os.path.join(d, "trace.txt")
    env = {"GOMAXPROCS": "1"} if gomax else {}
    rc, _, out = store_ws.grog(grog, ws, root, env_extra=env, timeout=120,
                               prefix=["strace", "-f", "-b", "execve", "-y", "-o", log, "-e", "trace=" + TRACE_SET])
    if rc != 0:
        raise RuntimeError("dry run under strace failed rc=%s: %s" % (rc, out[-300:]))
    counts, first_cache, total, in_cache = {}, {}, 0, 0
    for line in open(log, errors="replace"):
        m = LINE.match(line)
        if not m:
            continue
        pid, sc = m.group(1), m.group(2)
        n = counts[(pid, sc)] = counts.get((pid, sc), 0) + 1
        total += 1
        if root in line and "/logs/" not in line:
            in_cache += 1
            first_cache[sc] = min(first_cache.get(sc, n), n)
    maxn = {}
    for (pid, sc), n in counts.items():
        maxn[sc] = max(maxn.get(sc, 0), n)
    shutil.rmtree(d, ignore_errors=True)
    return maxn, first_cache, total, in_cache


def injected_calls(slog, mode):
    """The calls strace tampered with (EIO modes: lines marked INJECTED; kill: the last call logged)."""
    hits, last = [], ""
    try:
        for line in open(slog, errors="replace"):
            if "(INJECTED)" in line:
                hits.append(line.strip())
            elif LINE.match(line):
                last = line.strip()
    except FileNotFoundError:
        pass
    if mode == "kill":
        return [last] if last else []
    return hits


def is_fs_call(line):
    m = re.search(r"\((\d+)<([^>]*)>", line)
    if m:   # fd-based call: the descriptor must be a regular path
        p = m.group(2)
        return p.startswith("/") and not p.startswith(("/dev/", "/proc/", "/sys/"))
    return "pipe:" not in line and "anon_inode:" not in line and "socket:" not in line


def crash_run(job):
    (idx, spec, tws, troot, base, grog, harness, ref, sc, n, mode, gomax, delay) = job
    d = os.path.join(base, "run%d" % idx)
    res = {"violations": [], "notes": [], "mode": mode, "point": [sc, n], "inside_set": False}
    replay = {"spec": spec, "syscall": sc, "n": n, "mode": mode, "gomaxprocs1": gomax, "warm": tws.endswith("w/tpl/ws"), "delay": delay}
    try:
        ws, root = fresh_copy(tws, troot, d)
        cdir = store_ws.cache_dir(root, ws)
        env = {"GOMAXPROCS": "1"} if gomax else {}
        if mode == "sigkill":
            # thorough tier: a real kill -9 after a seeded delay, no tracer at all
            p = subprocess.Popen([grog, "build"], cwd=ws, env=dict({"PATH": os.environ["PATH"], "GROG_ROOT": root, "HOME": d}, **env),
                                 stdin=subprocess.DEVNULL, stdout=subprocess.DEVNULL, stderr=subprocess.DEVNULL, start_new_session=True)
            time.sleep(delay)
            try:
                os.killpg(p.pid, signal.SIGKILL)
            except ProcessLookupError:
                pass
            p.wait()
            rc = p.returncode
        else:
            when = "%d+" % n if mode == "eio-repeat" else "%d" % n
            inj = "inject=%s:signal=KILL:when=%s" % (sc, when) if mode == "kill" else "inject=%s:error=EIO:when=%s" % (sc, when)
            slog = os.path.join(d, "strace.txt")
            rc, secs, out = store_ws.grog(grog, ws, root, env_extra=env, timeout=40,
                                          prefix=["strace", "-f", "-b", "execve", "-y", "-o", slog, "-e", "trace=" + sc, "-e", inj])
            hit = injected_calls(slog, mode)
            res["hit"] = hit[:1]
            res["hit_cache"] = any(cdir in h for h in hit)
            res["hit_tmp"] = any(cdir in h and "/tmp-" in h for h in hit)
            # an injected failure is only meaningful on a file-system object: failing a write to the runtime's
            # eventfd / a pipe says nothing about storage faults
            faithful = mode == "kill" or (hit and all(is_fs_call(h) for h in hit))
            res["faithful"] = bool(faithful)
            if rc == "timeout":
                if faithful:
                    res["violations"].append(("grog hangs when %s #%s %s (%s)" % (sc, when, "is the last call before a kill" if mode == "kill"
                                              else "fails with EIO", (hit or ["?"])[0][:160]), dict(replay, hit=hit[:3])))
                return res
            if not faithful:
                res["notes"].append("injection hit a non-file-system descriptor; run not judged")
                return res
            if mode != "kill" and rc == 0 and store_ws.outputs_of(spec, ws) != ref:
                res["violations"].append(("a build that hit an injected EIO on %s #%s exits 0 with outputs that differ from a from-scratch build" % (sc, when), dict(replay, hit=hit[:3])))
        res["rc"] = rc
        res["fired"] = (rc != 0)
        # (a) offline audit of what is left on disk
        au = store_ws.audit(harness, cdir)
        res["shape"] = (len(au["cas"]), len(au["targets"]), au["tmp"])
        res["inside_set"] = au["tmp"] > 0
        for pr in au["problems"]:
            res["violations"].append(("cache directory inconsistent after %s at %s #%s: %s" % (mode, sc, n, pr[:220]), dict(replay, problem=pr)))
        res["state"] = {"cas": au["cas"], "targets": au["targets"]}
        # (b) the follow-up build, untraced
        store_ws.clear_trace(ws)
        rc2, secs2, out2 = store_ws.grog(grog, ws, root, timeout=45)
        if rc2 == "timeout":
            lock = os.path.join(os.path.dirname(cdir), "lockfile")
            holder = open(lock).read() if os.path.exists(lock) else None
            res["violations"].append(("the follow-up build hangs after %s at %s #%s (lockfile: %r)" % (mode, sc, n, holder), dict(replay, out=out2[-300:])))
            return res
        if rc2 != 0:
            res["violations"].append(("the follow-up build fails (rc=%s) after %s at %s #%s: %s" % (rc2, mode, sc, n, out2[-200:].replace("\n", " ")), dict(replay, out=out2[-600:])))
            return res
        got = store_ws.outputs_of(spec, ws)
        if got != ref:
            diff = sorted(k for k in set(got) | set(ref) if got.get(k) != ref.get(k))
            res["violations"].append(("after %s at %s #%s the follow-up build's outputs differ from a from-scratch build: %s" % (mode, sc, n, diff[:4]), dict(replay, diff=diff)))
        au2 = store_ws.audit(harness, cdir)
        for pr in au2["problems"]:
            res["violations"].append(("cache directory inconsistent after the follow-up build (%s at %s #%s): %s" % (mode, sc, n, pr[:200]), dict(replay, problem=pr)))
        res["reexecuted"] = len(store_ws.trace(ws))
        return res
    finally:
        shutil.rmtree(d, ignore_errors=True)


def sample_points(r, maxn, first_cache, budget):
    allp = [(sc, n) for sc in SYSCALLS for n in range(1, maxn.get(sc, 0) + 1)]
    if budget is None or budget >= len(allp):
        return allp
    hot = [(sc, n) for (sc, n) in allp if sc in first_cache and n >= first_cache[sc]]
    cold = [p for p in allp if p not in set(hot)]
    k_hot = min(len(hot), budget * 5 // 6)
    return r.sample(hot, k_hot) + r.sample(cold, min(len(cold), budget - k_hot))


def shared_blob_crash(out, grog, harness, tier):
    """Two independent targets of one build produce a byte-identical large blob and complete concurrently (num_workers=2); grog is
    killed (SIGKILL, no tracer) the moment the first target result becomes visible in the cache directory; the offline audit then
    demands that every blob that result references is there (a result must become visible only after all outputs it references were
    stored -- also when ANOTHER target of the same build is still uploading the very same digest)."""
    import glob
    trials = 6 if tier == "quick" else 40
    base = os.path.join(vlib.scratch(), "c07shared")
    stats = {"trials": 0, "killed_with_result_visible": 0}
    for k in range(trials):
        d = os.path.join(base, "t%d" % k)
        ws, root = os.path.join(d, "ws"), os.path.join(d, "root")
        os.makedirs(os.path.join(ws, "p"), exist_ok=True); os.makedirs(root, exist_ok=True)
        size = 48000000 + 1000 * k
        targets = [{"name": "t%d" % i, "command": "head -c %d /dev/zero > big%d.out" % (size, i), "outputs": ["big%d.out" % i]} for i in (0, 1)]
        json.dump({"targets": targets}, open(os.path.join(ws, "p", "BUILD.json"), "w"))
        open(os.path.join(ws, "grog.toml"), "w").write("num_workers = 2\n")
        cdir = store_ws.cache_dir(root, ws)
        p = subprocess.Popen([grog, "build"], cwd=ws, env={"PATH": os.environ["PATH"], "GROG_ROOT": root, "HOME": d, "NO_COLOR": "1"},
                             stdin=subprocess.DEVNULL, stdout=subprocess.DEVNULL, stderr=subprocess.DEVNULL, start_new_session=True)
        t0 = time.time(); seen = False
        tdir = os.path.join(cdir, "target")
        while time.time() - t0 < 20 and p.poll() is None:
            try:
                if any(not f.startswith("tmp-") for f in os.listdir(tdir)):
                    seen = True
                    break
            except FileNotFoundError:
                pass
        try:
            os.killpg(p.pid, signal.SIGKILL)
        except ProcessLookupError:
            pass
        p.wait()
        stats["trials"] += 1
        if seen:
            stats["killed_with_result_visible"] += 1
            au = store_ws.audit(harness, cdir)
            for pr in au["problems"]:
                out.violation("two targets of one build share a blob; grog killed as soon as the first result was visible: %s" % pr[:260],
                              {"workspace": {"targets": targets, "num_workers": 2}, "kill": "SIGKILL when the first file appears under cache/target",
                               "problem": pr, "audit": {"cas": au["cas"], "targets": au["targets"], "tmp": au["tmp"]}})
                break
        shutil.rmtree(d, ignore_errors=True)
        if out.violations:
            break
    return stats


def shared_blob_fault(out, grog, harness, tier):
    """Two independent targets of one build produce a byte-identical 30 MB blob and complete concurrently (num_workers=2); ONE storage
    fault hits a rename inside the cache (the n-th renameat of the process fails with EIO, n = 1..4: the blob of whichever target
    got there first, the other's, a result).  Whatever the build then reports, the offline audit demands that every visible result
    references blobs that are there -- a writer that waited for somebody else's write of the same digest must not take its failure
    for a success."""
    if not strace_ok():
        return {"available": False}
    base = os.path.join(vlib.scratch(), "c07sharedfault")
    shutil.rmtree(base, ignore_errors=True)
    stats = {"available": True, "runs": 0, "faults_that_hit_the_cache": 0, "builds_failed": 0}
    for n in ((1, 2, 3, 4) if tier == "quick" else tuple(range(1, 9))):
        for size in ((30000000,) if tier == "quick" else (30000000, 3000)):
            d = os.path.join(base, "n%d-%d" % (n, size))
            ws, root = os.path.join(d, "ws"), os.path.join(d, "root")
            os.makedirs(os.path.join(ws, "p"), exist_ok=True); os.makedirs(root, exist_ok=True)
            targets = [{"name": "t%d" % i, "command": "head -c %d /dev/zero > big%d.out" % (size, i), "outputs": ["big%d.out" % i]} for i in (0, 1)]
            json.dump({"targets": targets}, open(os.path.join(ws, "p", "BUILD.json"), "w"))
            open(os.path.join(ws, "grog.toml"), "w").write("num_workers = 2\n")
            cdir = store_ws.cache_dir(root, ws)
            slog = os.path.join(d, "strace.txt")
            rc, secs, _ = store_ws.grog(grog, ws, root, timeout=60,
                                        prefix=["strace", "-f", "-b", "execve", "-y", "-o", slog, "-e", "trace=renameat,rename,renameat2",
                                                "-e", "inject=renameat,rename,renameat2:error=EIO:when=%d" % n])
            stats["runs"] += 1
            hit = injected_calls(slog, "eio")
            in_cache = any(cdir in h for h in hit)
            stats["faults_that_hit_the_cache"] += in_cache
            stats["builds_failed"] += (rc != 0)
            rp = {"workspace": {"targets": targets, "num_workers": 2}, "fault": "renameat #%d of the process fails with EIO" % n, "hit": hit[:2], "exit": rc}
            if rc == "timeout":
                out.violation("grog hangs when rename #%d inside the cache fails while two targets store the same blob" % n, rp)
                return stats
            if in_cache:
                au = store_ws.audit(harness, cdir)
                for pr in au["problems"]:
                    out.violation("two targets of one build share a blob and ONE rename in the cache fails (rename #%d): %s" % (n, pr[:260]),
                                  dict(rp, problem=pr, audit={"cas": au["cas"], "targets": au["targets"], "tmp": au["tmp"]}))
                    return stats
            shutil.rmtree(d, ignore_errors=True)
    return stats


def interrupted_blob_write(out, grog, harness, tier):
    """A build is INTERRUPTED (SIGINT / SIGTERM: the graceful path, contexts are cancelled, deferred code runs) while a large
    output is being copied into the cache (a cas/tmp-* file exists).  Afterwards the offline audit demands that no blob is
    visible under a digest its bytes do not have, and the follow-up build must reproduce the from-scratch bytes."""
    trials = 4 if tier == "quick" else 30
    base = os.path.join(vlib.scratch(), "c07intr")
    stats = {"trials": 0, "interrupted_during_blob_write": 0, "followups_compared": 0}
    for k in range(trials):
        d = os.path.join(base, "t%d" % k)
        ws, root = os.path.join(d, "ws"), os.path.join(d, "root")
        os.makedirs(os.path.join(ws, "p"), exist_ok=True); os.makedirs(root, exist_ok=True)
        size = 160000000 + 1000 * k
        targets = [{"name": "big", "command": "head -c %d /dev/zero | tr '\\0' b > big.out" % size, "outputs": ["big.out"]},
                   {"name": "use", "command": "cksum < big.out > sum.txt", "dependencies": [":big"], "outputs": ["sum.txt"]}]
        json.dump({"targets": targets}, open(os.path.join(ws, "p", "BUILD.json"), "w"))
        open(os.path.join(ws, "grog.toml"), "w").write("num_workers = 2\n")
        cdir = store_ws.cache_dir(root, ws)
        env = {"PATH": os.environ["PATH"], "GROG_ROOT": root, "HOME": d, "NO_COLOR": "1"}
        p = subprocess.Popen([grog, "build"], cwd=ws, env=env, stdin=subprocess.DEVNULL, stdout=subprocess.DEVNULL, stderr=subprocess.DEVNULL,
                             start_new_session=True)
        t0 = time.time(); seen = False
        casdir = os.path.join(cdir, "cas")
        while time.time() - t0 < 40 and p.poll() is None:
            try:
                if any(f.startswith("tmp-") for f in os.listdir(casdir)):
                    seen = True
                    break
            except FileNotFoundError:
                pass
        sig = signal.SIGINT if k % 2 == 0 else signal.SIGTERM
        try:
            os.kill(p.pid, sig)
        except ProcessLookupError:
            pass
        try:
            p.wait(timeout=30)
        except subprocess.TimeoutExpired:
            os.killpg(p.pid, signal.SIGKILL); p.wait()
        stats["trials"] += 1
        desc = {"workspace": {"targets": targets, "num_workers": 2}, "signal": "%s when a tmp- file appears under cache/cas" % sig.name}
        if seen:
            stats["interrupted_during_blob_write"] += 1
            au = store_ws.audit(harness, cdir)
            if au["problems"]:
                out.violation("a build interrupted (%s) while a blob was being copied into the cache leaves: %s" % (sig.name, au["problems"][0][:260]),
                              dict(desc, problem=au["problems"][0], audit={"cas": au["cas"], "targets": au["targets"], "tmp": au["tmp"]}))
            else:
                # follow-up build, then a history that has to RELOAD the blob: remove the outputs, build again; compare with the size the command writes
                f1 = subprocess.run([grog, "build"], cwd=ws, env=env, stdin=subprocess.DEVNULL, stdout=subprocess.PIPE, stderr=subprocess.PIPE, timeout=300)
                for f in ("big.out", "sum.txt"):
                    if os.path.exists(os.path.join(ws, "p", f)):
                        os.unlink(os.path.join(ws, "p", f))
                f2 = subprocess.run([grog, "build"], cwd=ws, env=env, stdin=subprocess.DEVNULL, stdout=subprocess.PIPE, stderr=subprocess.PIPE, timeout=300)
                stats["followups_compared"] += 1
                got = os.path.getsize(os.path.join(ws, "p", "big.out")) if os.path.exists(os.path.join(ws, "p", "big.out")) else None
                if f1.returncode != 0 or f2.returncode != 0 or got != size:
                    out.violation("after a build interrupted (%s) during a blob write the follow-up builds give big.out of %s bytes (rc %s, %s); a "
                                  "from-scratch build writes %d bytes" % (sig.name, got, f1.returncode, f2.returncode, size),
                                  dict(desc, followup_rc=[f1.returncode, f2.returncode], restored_size=got, expected_size=size))
        shutil.rmtree(d, ignore_errors=True)
        if out.violations:
            break
    return stats


def run(out, tier):
    findings = {f["class"]: f for f in vlib.known_findings("C07")}
    harness = None
    try:
        harness = vlib.build_harness("store")
    except vlib.HarnessUnavailable as e:
        out.notes.append("inprocess_tie: unavailable (%s)" % str(e)[-500:])
    inproc = {}
    if harness:
        inproc = store_ops.run_inprocess(out, "C07", 150 if tier == "quick" else 5000, harness, findings, local_only=True)
        # storage faults of the remote half (RemoteWrapper tees every Set into the local and the remote store): fixed cases with a
        # blob larger than one copy chunk and a fault on exactly one writer + random faulted sequences; the digest audit of
        # store_ops.oracles decides (every blob visible under a digest, in any store, has that content)
        inproc_remote = store_ops.run_inprocess(out, "C07", 60 if tier == "quick" else 2000, harness, findings, local_only=False)
        inproc["remote_wrapper_sequences"] = {k: inproc_remote.get(k) for k in ("sequences", "ops", "faulted_calls", "oracle_failures", "mismatching_sequences")}
    if not harness:
        out.violation("the audit harness does not build against the current sources; no crash run can be judged",
                      {"correspondence": "harness/go/store audit"}, no_input=True)
        return
    if not strace_ok():
        out.violation("strace syscall tampering is unavailable: crash points cannot be enumerated", {"correspondence": "strace -e inject"}, no_input=True)
        return
    grog = vlib.build_grog()
    inproc["shared_blob_crash"] = shared_blob_crash(out, grog, harness, tier)
    inproc["shared_blob_fault"] = shared_blob_fault(out, grog, harness, tier)
    inproc["interrupted_blob_write"] = interrupted_blob_write(out, grog, harness, tier)
    r = vlib.Rng(vlib.seed() * 104729 + 7)
    base = os.path.join(vlib.scratch(), "c07")
    os.makedirs(base, exist_ok=True)
    nws = 3 if tier == "quick" else 12
    budget_kill, budget_eio = (40, 22) if tier == "quick" else (None, None)
    jobs, wss, idx = [], [], 0
    points_enumerated = 0
    specs = []
    for w in range(nws):
        specs.append((w, w % 3 == 0, w % 3 == 2, store_ws.gen_spec(r, single=(w % 3 == 0))))

    def prepare(arg):
        w, single, warm, spec = arg
        wb = os.path.join(base, "ws%d%s" % (w, "w" if warm else "c"))
        tws, troot = prep(spec, wb, grog, warm)
        with ThreadPoolExecutor(max_workers=3) as ex2:
            f1 = ex2.submit(store_ws.reference_outputs, grog, spec, wb)
            f2 = ex2.submit(enumerate_points, grog, tws, troot, wb, True)
            f3 = ex2.submit(enumerate_points, grog, tws, troot, wb, False)
            return tws, troot, f1.result(), f2.result(), f3.result()
    with ThreadPoolExecutor(max_workers=8) as ex:
        prepared = list(ex.map(prepare, specs))
    for (w, single, warm, spec), (tws, troot, ref, e1, e0) in zip(specs, prepared):
        maxn, first_cache, total, in_cache = e1
        maxn0, first0, total0, _ = e0
        npoints = sum(maxn.get(sc, 0) for sc in SYSCALLS)
        points_enumerated += npoints
        wss.append({"spec": spec, "single": single, "warm": warm, "syscalls_total": total, "syscalls_on_cache_dir": in_cache,
                    "points": npoints, "per_syscall": {sc: maxn.get(sc, 0) for sc in SYSCALLS}, "runs": 0})
        kills = sample_points(r, maxn, first_cache, budget_kill)
        # close is excluded from the EIO modes: strace replaces the call, so the descriptor would stay open (the kernel
        # releases it even when close reports an error) and a pipe reader would wait for ever -- an artefact
        eios = [p for p in sample_points(r, {k: v for k, v in maxn.items() if k != "close"}, first_cache, budget_eio)]
        for (sc, n) in kills:
            jobs.append((idx, spec, tws, troot, base, grog, harness, ref, sc, n, "kill", True, 0)); idx += 1
        for j, (sc, n) in enumerate(eios):
            jobs.append((idx, spec, tws, troot, base, grog, harness, ref, sc, n, "eio-repeat" if j % 4 == 3 else "eio", True, 0)); idx += 1
        # default scheduler (several OS threads): a smaller sample, counts are per thread
        for (sc, n) in sample_points(r, maxn0, first0, 8 if tier == "quick" else 60):
            jobs.append((idx, spec, tws, troot, base, grog, harness, ref, sc, n, "kill", False, 0)); idx += 1
        if tier != "quick":
            for _ in range(40):
                jobs.append((idx, spec, tws, troot, base, grog, harness, ref, "-", 0, "sigkill", False, (5 + r.below(560)) / 1000.0)); idx += 1
        wss[-1]["runs"] = sum(1 for j in jobs if j[1] is spec)
    stats = {"runs": 0, "fired": 0, "inside_a_set": 0, "audits": 0, "followups": 0, "by_mode": {}, "shapes": set(), "reexecuted_followups": 0}
    single_states = []
    with ThreadPoolExecutor(max_workers=28) as ex:
        for job, res in zip(jobs, ex.map(crash_run, jobs)):
            stats["runs"] += 1
            stats["by_mode"][res["mode"]] = stats["by_mode"].get(res["mode"], 0) + 1
            stats["fired"] += 1 if res.get("fired") else 0
            stats["inside_a_set"] += 1 if (res.get("inside_set") or res.get("hit_tmp")) else 0
            stats["hit_cache_dir"] = stats.get("hit_cache_dir", 0) + (1 if res.get("hit_cache") else 0)
            stats["not_judged"] = stats.get("not_judged", 0) + (1 if res.get("faithful") is False else 0)
            if "shape" in res:
                stats["audits"] += 1
                stats["shapes"].add((job[1] is not None and json.dumps(job[1]["targets"]), res["shape"]))
            if "reexecuted" in res:
                stats["followups"] += 1
                stats["reexecuted_followups"] += 1 if res["reexecuted"] else 0
            for what, rp in res["violations"]:
                cls = classify(what, rp)
                if cls and cls in findings:
                    out.known(findings[cls]["id"], "class=%s %s" % (cls, what[:300]))
                else:
                    out.violation(what, rp)
            if len(job[1]["targets"]) == 1 and res["mode"] == "kill" and "state" in res:
                single_states.append((job, res))
    # single-target workspaces vs the prefix semantics of the model
    model_cmp = store_ops.compare_prefix_states(out, single_states) if single_states else {"compared": 0}
    distinct = len(stats["shapes"])
    stats["shapes"] = distinct
    out.cov.update({
        "evaluations": stats["runs"] + inproc.get("ops", 0),
        "distinct_nontrivial": distinct + inproc.get("distinct", 0),
        "rule": "crash/fault run = (generated workspace, syscall, N, kill | EIO | EIO-from-N-on) on the real binary under strace, "
                "then offline audit + untraced follow-up build compared with a from-scratch build; non-trivial = distinct "
                "(workspace, number of visible blobs, results, temp files left) states audited, plus distinct in-process op sequences",
        "samples": [{"workspace": w["spec"], "points": w["points"], "per_syscall": w["per_syscall"]} for w in wss[:2]],
        "traces_validated_against_impl": model_cmp.get("compared", 0) + inproc.get("ops", 0),
        "points_enumerated": points_enumerated, "workspaces": [{k: v for k, v in w.items() if k != "spec"} for w in wss],
        "crash_runs": stats, "points_inside_a_set": stats["inside_a_set"], "audits_run": stats["audits"],
        "followup_builds_run": stats["followups"], "model_prefix_comparison": model_cmp, "inprocess": inproc,
        "input_distribution": {"workspaces": nws, "single_target": sum(1 for w in wss if w["single"]), "warm_cache": sum(1 for w in wss if w["warm"])},
    })
    out.assumptions += ["a crash is a SIGKILL of the grog process (page cache survives): power loss / missing fsync is out of scope",
                        "crash points are syscall boundaries of grog's own threads; GOMAXPROCS=1 is set for most runs so that the N-th "
                        "call of a syscall is reproducible; a smaller sample runs with the default scheduler",
                        "EIO is injected into the call itself (the kernel does not execute it)"]


def classify(what, rp):
    return None


def replay(out, path):
    rp = json.load(open(path))["replay"]
    harness = vlib.build_harness("store")
    if "ops" in rp:
        store_ops.replay_case(out, "C07", rp, harness, {})
        return
    grog = vlib.build_grog()
    base = os.path.join(vlib.scratch(), "c07r")
    spec = rp["spec"]
    tws, troot = prep(spec, os.path.join(base, "w" if rp.get("warm") else "c"), grog, rp.get("warm"))
    ref = store_ws.reference_outputs(grog, spec, base)
    for rep in range(5):
        res = crash_run((rep, spec, tws, troot, base, grog, harness, ref, rp["syscall"], rp["n"], rp["mode"], rp.get("gomaxprocs1", True), rp.get("delay", 0)))
        print(rep, res.get("rc"), res.get("shape"), [v[0] for v in res["violations"]])
        for what, r2 in res["violations"]:
            out.violation(what, r2)
        if res["violations"]:
            break
