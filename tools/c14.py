"""C14 -- success implies postconditions: exit 0, outputs exist, checks pass, in time.
Tie: histories in which a target's output check inspects an external condition that the target's
command establishes, that gets cached and is later destroyed; targets that fail, skip a declared
output, fail after writing, or exceed their timeout; real binary vs Build.v."""
import json, os
import vlib, buildlib as bl, histcheck as hc
from c13 import cur_snap

GUARDS = [("failing-check-does-not-force-execution", hc.g_no_check_destroyed)]


def plan(features):
    cfg = hc.ALL_CACHE

    def p(h, r):
        notes = []
        h.set_sources(bl.gen_snapshot(r, features=features))
        h.build(cfg); notes.append(("post", len(h.builds) - 1))
        h.build(cfg); notes.append(("post", len(h.builds) - 1))
        chk = [i for i, n in enumerate(h.snap["nodes"]) if n["k"] == "t" and n.get("check")]
        if chk:
            i = r.choice(chk)
            h.destroy_ext(i)
            h.build(cfg); notes.append(("check-forces", len(h.builds) - 1, i))
        s2, why = bl.edit_snapshot(r, h.snap, {"fail": True})
        h.set_sources(s2, why)
        h.build(cfg); notes.append(("post", len(h.builds) - 1))
        return notes
    return p


def witness_check():
    def p(h, r):
        snap = {"nodes": [{"k": "t", "pkg": "p", "name": "t", "salt": "v0", "ins": [], "glob": None, "excl": [],
                           "outs": [("file", "o.txt")], "deps": [], "fp": {}, "nocache": False, "multi": False, "beh": "n",
                           "check": True, "comment": ""}], "files": {}}
        h.set_sources(snap); h.build(hc.ALL_CACHE)
        h.destroy_ext(0)
        h.build(hc.ALL_CACHE)
        return [("check-forces", len(h.builds) - 1, 0)]
    return p


def timeout_plan():
    """a command that outlives its timeout must fail the build and leave no cache entry"""
    def p(h, r):
        mk = lambda sleep, to: {"nodes": [{"k": "t", "pkg": "p", "name": "slow", "salt": "v0", "ins": [], "glob": None, "excl": [],
                                         "outs": [("file", "o.txt")], "deps": [], "fp": {}, "nocache": False, "multi": False, "beh": "n",
                                         "check": False, "comment": "", "sleep": sleep, "timeout": to}], "files": {}}
        h.set_sources(mk("3", "1s"))
        b = h.build(hc.ALL_CACHE)
        return [("timeout", len(h.builds) - 1)]
    return p


def run(out, tier):
    n = 24 if tier == "quick" else 500
    feats = dict(hc.CLEAN); feats.update({"check": True, "fail": True})
    plans = [("witness-check", witness_check()), ("timeout", timeout_plan())] + [("checks", plan(feats))] * n
    batch = hc.run_batch(plans, vlib.seed())
    hc.check_plan_errors(batch)
    findings = {f["class"]: f for f in vlib.known_findings("C14")}
    evals = 0
    for name, h, notes, m in batch:
        for note in notes:
            bi = note[1]; b = h.builds[bi]
            cur = cur_snap(h, bi)
            predicted = bi < len(m) and sorted(b["starts"]) == m[bi]["exec"] and (b["rc"] == 0) == m[bi]["ok"]
            evals += 1
            if note[0] == "timeout":
                # the model has no clock: decided on the implementation only
                root_t = os.path.join(h.root)
                cached = []
                for dp, dn, fn in os.walk(h.root):
                    if os.path.basename(dp) == "target":
                        cached += fn
                if b["rc"] == 0 or cached:
                    out.violation("a command exceeding its timeout was reported successful or cached (rc=%s, results=%s)" % (b["rc"], cached),
                                  h.replay_dict())
                continue
            if b["rc"] == 0:
                # success => every declared output of every (selected) target exists and every check passes now
                missing = [p for p, s in b["ws"].items() if not s.startswith("F")]
                chk_bad = [bl.label(n) for n in cur["nodes"] if n["k"] == "t" and n.get("check")
                           and not os.path.exists(os.path.join(h.ws, "ext", bl.ext_name(n)))] if bi == len(h.builds) - 1 else []
                if missing:
                    hc.decide(out, "C14", findings, h, "build %d succeeded but declared outputs %s do not exist" % (bi, missing), predicted, GUARDS)
                if chk_bad:
                    hc.decide(out, "C14", findings, h, "build %d succeeded although the output check of %s fails" % (bi, chk_bad), predicted, GUARDS)
            if note[0] == "check-forces" and b["rc"] == 0:
                # (a successful build resolved every selected target, so the target was either executed or served from cache)
                lab = bl.label(cur["nodes"][note[2]])
                if lab not in b["starts"]:
                    hc.decide(out, "C14", findings, h, "the output check of %s fails but its cached result is served without executing it" % lab,
                              predicted, GUARDS)
    # model: timeouts are not modelled; drop that history from the correspondence
    batch2 = [x for x in batch if x[0] != "timeout"]
    hc.finish(out, "C14", batch2,
              "histories: build; build; destroy the external condition an output check inspects; build; edit (incl. commands that exit 3 before or "
              "after writing, or do not create a declared output); build -- plus a command that outlives its timeout; "
              "non-trivial = at least two operations and two builds", oracle_evals=evals)
    hc.cleanup(batch)
    out.assumptions.append("wall-clock timeouts are decided on the implementation only (the model has outcomes, not durations)")


def replay(out, path):
    rp = json.load(open(path))["replay"]
    print(json.dumps(rp.get("description"), indent=1)); print(json.dumps(rp.get("observed"), indent=1)[:3000])
