"""C14 -- success implies postconditions: exit 0, outputs exist, checks pass, in time.
Tie: histories in which a target's output check inspects an external condition that the target's
command establishes, that gets cached and is later destroyed; targets that fail, skip a declared
output, fail after writing, or exceed their timeout; real binary vs Build.v."""
import json, os
import vlib, buildlib as bl, histcheck as hc
from c13 import cur_snap

GUARDS = [("failing-check-does-not-force-execution", hc.g_no_check_destroyed)]


def plan(features, cfg=None):
    cfg = cfg or hc.ALL_CACHE

    def p(h, r):
        notes = []
        h.set_sources(bl.gen_snapshot(r, features=features))
        h.build(cfg); notes.append(("post", len(h.builds) - 1))
        h.build(cfg); notes.append(("post", len(h.builds) - 1))
        chk = [i for i, n in enumerate(h.snap["nodes"]) if n["k"] == "t" and n.get("check")]
        if chk:
            i = r.choice(chk)
            h.destroy_ext(i)
            h.build(cfg); notes.append(("check-forces", len(h.builds) - 1, i))
        s2, why = bl.edit_snapshot(r, h.snap, {"fail": True})
        h.set_sources(s2, why)
        h.build(cfg); notes.append(("post", len(h.builds) - 1))
        # a command that DESTROYS the condition its own output check inspects: the pre-execution check passes (the
        # condition was established by an earlier build), the command runs (its text changed), the post-execution
        # check must fail the target; nothing is cached, dependants do not run, the next build tries again
        chk = [i for i, n in enumerate(h.snap["nodes"]) if n["k"] == "t" and n.get("check") and n["beh"] == "n"]
        if chk:
            i = r.choice(chk)
            s3 = json.loads(json.dumps(h.snap))
            for n in s3["nodes"]:
                if n["k"] == "t":
                    n["outs"] = [tuple(o) for o in n["outs"]]
            s3["nodes"][i]["beh"] = "x"; s3["nodes"][i]["salt"] = s3["nodes"][i]["salt"] + "x"
            h.set_sources(s3, "command of %s now destroys its checked condition" % bl.label(s3["nodes"][i]))
            h.build(cfg); notes.append(("breaks-check", len(h.builds) - 1, i))
            h.build(cfg); notes.append(("breaks-check", len(h.builds) - 1, i))
        return notes
    return p


def witness_break():
    """a <- b; a has an output check; build; a's command changes and now destroys the checked condition; build; build"""
    def p(h, r):
        mk = lambda beh, salt: {"nodes": [
            {"k": "t", "pkg": "p", "name": "a", "salt": salt, "ins": [], "glob": None, "excl": [], "outs": [("file", "a.txt")], "deps": [],
             "fp": {}, "nocache": False, "multi": False, "beh": beh, "check": True, "comment": ""},
            {"k": "t", "pkg": "p", "name": "b", "salt": "v0", "ins": [], "glob": None, "excl": [], "outs": [("file", "b.txt")], "deps": [0],
             "fp": {}, "nocache": False, "multi": False, "beh": "n", "check": False, "comment": ""}], "files": {}}
        h.set_sources(mk("n", "v0")); h.build(hc.ALL_CACHE)
        h.set_sources(mk("x", "v1"), "command of //p:a now destroys its checked condition")
        h.build(hc.ALL_CACHE); h.build(hc.ALL_CACHE)
        return [("post", 0), ("breaks-check", 1, 0), ("breaks-check", 2, 0)]
    return p


MIN_CACHE = {"mode": "min", "cache": True}


def witness_check(cfg=None):
    cfg = cfg or hc.ALL_CACHE

    def p(h, r):
        snap = {"nodes": [{"k": "t", "pkg": "p", "name": "t", "salt": "v0", "ins": [], "glob": None, "excl": [],
                           "outs": [("file", "o.txt")], "deps": [], "fp": {}, "nocache": False, "multi": False, "beh": "n",
                           "check": True, "comment": ""}], "files": {}}
        h.set_sources(snap); h.build(cfg)
        h.destroy_ext(0)
        h.build(cfg)
        return [("check-forces", len(h.builds) - 1, 0)]
    return p


TIMEOUT_VARIANTS = {
    # how the command behaves when its timeout strikes
    "plain": {"sleep": "3"},                                                            # sleeps before writing anything
    "outputs-then-sleep": {"sleep_after": "sleep 3"},                                   # outputs complete, then overruns
    "graceful-exit-0": {"prelude": "trap 'exit 0' TERM INT HUP", "sleep_after": "sleep 3 & wait $!"},   # handles the signal, exits 0
    "graceful-exit-0-early": {"prelude": "trap 'exit 0' TERM INT HUP", "sleep": "3 & wait $!"},
    "ignores-term": {"prelude": "trap '' TERM INT HUP", "sleep_after": "sleep 3"},
    "child-keeps-pipe": {"sleep_after": "sleep 3 & sleep 3"},
}


def timeout_plan(variant="plain"):
    """a command that outlives its timeout must fail the build and leave no cache entry -- however it reacts to the signal;
    the next build must run it again"""
    def p(h, r):
        node = {"k": "t", "pkg": "p", "name": "slow", "salt": "v0", "ins": [], "glob": None, "excl": [],
                "outs": [("file", "o.txt")], "deps": [], "fp": {}, "nocache": False, "multi": False, "beh": "n",
                "check": False, "comment": "", "timeout": "1s"}
        node.update(TIMEOUT_VARIANTS[variant])
        h.set_sources({"nodes": [node], "files": {}})
        h.build(hc.ALL_CACHE)
        h.build(hc.ALL_CACHE)
        return [("timeout", 0, variant), ("timeout", 1, variant)]
    return p


def witness_each_output_required(out):
    """Model-free: for targets with 2, 3 and 5 declared file outputs, without a bin_output and with one that sorts before / after
    them, and for EACH declared output (and the bin output) in turn: a command that creates everything but that one must fail the
    build, twice in a row (nothing was cached); the complete command succeeds, and after the outputs are wiped the next build
    restores every one of them."""
    import os, shutil, subprocess
    from concurrent.futures import ThreadPoolExecutor
    grog = vlib.build_grog()
    base = os.path.join(vlib.scratch(), "eachoutput")
    shutil.rmtree(base, ignore_errors=True)
    cases = []
    for n in (2, 3, 5):
        outs = ["dist/%s.txt" % c for c in "cbdae"[:n]]          # declared unsorted
        for binname in (None, "a_tool", "z_tool"):
            allo = outs + ([binname] if binname else [])
            for missing in [None] + allo:
                cases.append((n, binname, outs, missing))

    def one(k):
        n, binname, outs, missing = cases[k]
        d = os.path.join(base, "c%d" % k)
        ws, root = os.path.join(d, "ws"), os.path.join(d, "root")
        os.makedirs(ws); os.makedirs(root)
        allo = outs + ([binname] if binname else [])
        cmd = "mkdir -p dist; " + "; ".join(("echo %s > %s" % (o, o)) + ("; chmod +x %s" % o if o == binname else "") for o in allo if o != missing)
        t = {"name": "tool", "command": cmd, "outputs": outs}
        if binname:
            t["bin_output"] = binname
        json.dump({"targets": [t]}, open(os.path.join(ws, "BUILD.json"), "w"))
        open(os.path.join(ws, "grog.toml"), "w").write("")
        env = bl.grog_env(root, os.path.join(d, "trace"))
        g = lambda: subprocess.run([grog, "build"], cwd=ws, env=env, stdout=subprocess.PIPE, stderr=subprocess.PIPE, text=True, timeout=120)
        rcs = [g().returncode, g().returncode]
        present = None
        if missing is None:
            shutil.rmtree(os.path.join(ws, "dist"), ignore_errors=True)
            if binname and os.path.exists(os.path.join(ws, binname)):
                os.unlink(os.path.join(ws, binname))
            rcs.append(g().returncode)
            present = [o for o in allo if os.path.isfile(os.path.join(ws, o))]
        return rcs, present
    with ThreadPoolExecutor(8) as ex:
        results = list(ex.map(one, range(len(cases))))
    for (n, binname, outs, missing), (rcs, present) in zip(cases, results):
        desc = {"target": {"outputs": outs, "bin_output": binname}, "command": "creates every declared output" + (" except %s" % missing if missing else ""),
                "exit_codes": rcs, "outputs_present_after_restore": present}
        if missing is not None and 0 in rcs:
            out.violation("a build succeeds (exit codes %s) although the command never creates the declared output %s (%d outputs%s)" % (
                rcs, missing, n, ", bin_output %s" % binname if binname else ""), desc)
            break
        if missing is None and (rcs != [0, 0, 0] or sorted(present) != sorted(outs + ([binname] if binname else []))):
            out.violation("control: a target that creates all of its %d outputs%s: exit codes %s, after wiping them the next build left %s" % (
                n, " and bin_output %s" % binname if binname else "", rcs, present), desc, no_input=(rcs != [0, 0, 0]))
            break
    shutil.rmtree(base, ignore_errors=True)
    return len(cases)


def witness_several_checks(out):
    """Model-free: a target with TWO output checks on external probe files its command does not touch (one check slow, one fast; in
    both declaration orders) and a dependant.  build (ok, cached); build (hit); the probe of ONE check is removed; build: the cached
    result may not be served, the command runs, the check still fails: the build must FAIL (non-zero, within the limit, the dependant
    does not run) -- whichever check fails and however the checks are scheduled; probe restored; build: succeeds again."""
    import os, shutil, subprocess
    grog = vlib.build_grog()
    base = os.path.join(vlib.scratch(), "severalchecks")
    shutil.rmtree(base, ignore_errors=True)
    from concurrent.futures import ThreadPoolExecutor

    def one(arg):
        order, broken = arg
        d = os.path.join(base, "%s-%s" % (order, broken))
        ws, root = os.path.join(d, "ws"), os.path.join(d, "root")
        os.makedirs(ws); os.makedirs(root)
        pa, pb, runs = os.path.join(d, "probe_slow"), os.path.join(d, "probe_fast"), os.path.join(d, "runs.log")
        slow = {"command": 'sleep 1; test -f "%s"' % pa}
        fast = {"command": 'test -f "%s"' % pb}
        json.dump({"targets": [
            {"name": "t", "inputs": ["in.txt"], "outputs": ["out.txt"], "command": 'echo t >> "%s"; cp in.txt out.txt' % runs,
             "output_checks": [slow, fast] if order == "slow-first" else [fast, slow]},
            {"name": "u", "dependencies": [":t"], "outputs": ["u.txt"], "command": 'echo u >> "%s"; cp out.txt u.txt' % runs}]},
            open(os.path.join(ws, "BUILD.json"), "w"))
        open(os.path.join(ws, "in.txt"), "w").write("v1\n")
        open(os.path.join(ws, "grog.toml"), "w").write("")
        for q in (pa, pb):
            open(q, "w").close()
        env = bl.grog_env(root, os.path.join(d, "trace"))
        steps = []

        def build(name):
            before = open(runs).read().split() if os.path.exists(runs) else []
            try:
                p = subprocess.run([grog, "build"], cwd=ws, env=env, stdout=subprocess.PIPE, stderr=subprocess.PIPE, text=True, timeout=60)
                rc = p.returncode
            except subprocess.TimeoutExpired:
                rc = "hang"
            after = open(runs).read().split() if os.path.exists(runs) else []
            steps.append({"step": name, "rc": rc, "commands": after[len(before):]})
        build("build"); build("build (no change)")
        os.unlink(pb if broken == "fast" else pa)
        build("build with the probe of the %s check removed" % broken)
        open(pb if broken == "fast" else pa, "w").close()
        build("build with the probe back")
        desc = {"workspace": "//:t (cp in.txt out.txt) with two output checks on external probes (%s; the %s one is made to fail), //:u depends on it" % (order, broken),
                "history": steps}
        return order, broken, steps, desc
    args = [(o, b) for o in ("slow-first", "fast-first") for b in ("fast", "slow")]
    with ThreadPoolExecutor(4) as ex:
        results = list(ex.map(one, args))
    n = len(results)
    for order, broken, steps, desc in results:
        if [x["rc"] for x in steps[:2]] != [0, 0] or steps[1]["commands"]:
            out.violation("several-checks witness: set-up did not behave as expected: %s" % steps[:2], desc, no_input=True)
        elif steps[2]["rc"] == "hang":
            out.violation("`grog build` hangs when one of two output checks fails (%s, the %s check fails)" % (order, broken), desc)
        elif steps[2]["rc"] == 0:
            out.violation("a build succeeds although one of the target's two output checks fails after execution (%s, the %s check fails)" % (order, broken), desc)
        elif "u" in steps[2]["commands"]:
            out.violation("the dependant ran although an output check of its dependency fails (%s, the %s check fails)" % (order, broken), desc)
        elif steps[3]["rc"] != 0:
            out.violation("after the probe is back the build still fails (%s, %s): %s" % (order, broken, steps[3]), desc, no_input=True)
        if out.violations:
            break
    shutil.rmtree(base, ignore_errors=True)
    return n


def run(out, tier):
    n = 24 if tier == "quick" else 500
    feats = dict(hc.CLEAN); feats.update({"check": True, "fail": True})
    plans = [("witness-check", witness_check()), ("witness-check-minimal", witness_check(MIN_CACHE)), ("witness-break", witness_break()),
             ] + [("timeout", timeout_plan(v)) for v in sorted(TIMEOUT_VARIANTS)] + [("checks", plan(feats))] * n + [("checks-minimal", plan(feats, MIN_CACHE))] * (n // 3)
    batch = hc.run_batch(plans, vlib.seed())
    hc.check_plan_errors(batch)
    findings = {f["class"]: f for f in vlib.known_findings("C14")}
    evals = 0
    for name, h, notes, m in batch:
        for note in notes:
            bi = note[1]; b = h.builds[bi]
            cur = cur_snap(h, bi)
            predicted = bi < len(m) and sorted(b["starts"]) == m[bi]["exec"] and (b["rc"] == 0) == m[bi]["ok"]
            evals += 1
            if note[0] == "timeout":
                # the model has no clock: decided on the implementation only
                root_t = os.path.join(h.root)
                cached = []
                for dp, dn, fn in os.walk(h.root):
                    if os.path.basename(dp) == "target":
                        cached += fn
                if b["rc"] == 0 or cached:
                    out.violation("a command exceeding its timeout (1s; variant %s) was reported successful or cached (build %d: rc=%s, results=%s)" % (
                        note[2], bi, b["rc"], cached), h.replay_dict())
                elif "//p:slow" not in b["starts"]:
                    out.violation("after a build in which the command exceeded its timeout (variant %s) build %d did not run it again" % (note[2], bi),
                                  h.replay_dict())
                continue
            if b["rc"] == 0:
                # success => every declared output of every (selected) target exists and every check passes now
                missing = [p for p, s in b["ws"].items() if not s.startswith("F")]
                chk_bad = [bl.label(n) for n in cur["nodes"] if n["k"] == "t" and n.get("check") and bl.ext_name(n) not in b.get("ext", [])]
                if missing:
                    hc.decide(out, "C14", findings, h, "build %d succeeded but declared outputs %s do not exist" % (bi, missing), predicted, GUARDS)
                if chk_bad:
                    hc.decide(out, "C14", findings, h, "build %d succeeded although the output check of %s fails" % (bi, chk_bad), predicted, GUARDS)
            if note[0] == "breaks-check":
                n0 = cur["nodes"][note[2]]
                lab = bl.label(n0)
                # does anything this target transitively depends on fail by design?  then it may never run
                up = set(); todo = list(n0["deps"])
                while todo:
                    d = bl.resolve(cur["nodes"], todo.pop())
                    if d not in up:
                        up.add(d); todo += cur["nodes"][d]["deps"]
                blocked = any(cur["nodes"][d]["beh"] != "n" for d in up)
                if not blocked:
                    if b["rc"] == 0:
                        hc.decide(out, "C14", findings, h, "build %d succeeded although the command of %s leaves its output check failing" % (bi, lab),
                                  predicted, GUARDS)
                    if lab not in b["starts"]:
                        hc.decide(out, "C14", findings, h, "build %d did not (re-)execute %s whose output check fails after execution "
                                  "(a failed target must not be cached)" % (bi, lab), predicted, GUARDS)
                    deps_ran = [bl.label(cur["nodes"][j]) for j in hc.dependants_closure(cur, [note[2]]) - {note[2]}
                                if cur["nodes"][j]["k"] == "t" and bl.label(cur["nodes"][j]) in b["starts"]]
                    if deps_ran:
                        hc.decide(out, "C14", findings, h, "dependants %s of %s ran although its output check fails after execution" % (deps_ran, lab),
                                  predicted, GUARDS)
            if note[0] == "check-forces" and b["rc"] == 0:
                # (a successful build resolved every selected target, so the target was either executed or served from cache)
                lab = bl.label(cur["nodes"][note[2]])
                if lab not in b["starts"]:
                    hc.decide(out, "C14", findings, h, "the output check of %s fails but its cached result is served without executing it" % lab,
                              predicted, GUARDS)
    # the timeout also binds a dependency that is re-made inside its dependant's task (load_outputs=minimal, blob lost)
    import c15
    evals += c15.witness_rerun_timeout(out)
    evals += witness_each_output_required(out)
    evals += witness_several_checks(out)
    # model: timeouts are not modelled; drop that history from the correspondence
    batch2 = [x for x in batch if x[0] != "timeout"]
    hc.finish(out, "C14", batch2,
              "histories: build; build; destroy the external condition an output check inspects; build; edit (incl. commands that exit 3 before or "
              "after writing, or do not create a declared output); build -- plus a command that outlives its timeout; "
              "non-trivial = at least two operations and two builds", oracle_evals=evals)
    hc.cleanup(batch)
    out.assumptions.append("wall-clock timeouts are decided on the implementation only (the model has outcomes, not durations)")


def replay(out, path):
    rp = json.load(open(path))["replay"]
    print(json.dumps(rp.get("description"), indent=1)); print(json.dumps(rp.get("observed"), indent=1)[:3000])
