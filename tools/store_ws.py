"""Generated grog workspaces and e2e helpers shared by tools/c07.py and tools/c08.py."""
import json, os, shutil, subprocess, time
import vlib

S3_SECTION = '[cache]\nbackend = "s3"\n[cache.s3]\nbucket = "bkt"\nprefix = "pfx"\n'
WORDS = ["alpha", "beta", "gamma", "delta", "x", "yy", "zzz\nq", ""]


def gen_spec(r, single=False):
    """A deterministic workspace description: 1 (single) or 2-4 targets in package p with file and
    dir:: outputs; every command appends its target name to ../.trace (not an input or output)."""
    n = 1 if single else 2 + r.below(3)
    spec = {"workers": 1 if single else r.choice([1, 4]), "targets": [], "inputs": {}}
    for i in range(n):
        spec["inputs"]["in%d.txt" % i] = r.choice(WORDS) + "%d\n" % r.below(3)
        kind = "file" if single else r.choice(["file", "dir", "dir", "two", "mixed"])
        deps = [] if i == 0 else r.sample(list(range(i)), r.below(min(i, 2) + 1))
        spec["targets"].append({"i": i, "kind": kind, "deps": deps})
    return spec


def _dep_srcs(spec, t):
    srcs = ["in%d.txt" % t["i"]]
    for j in t["deps"]:
        k = spec["targets"][j]["kind"]
        if k in ("file", "two", "mixed"):
            srcs.append("t%d.out" % j)
        if k in ("dir", "mixed"):
            srcs.append("d%d/a.txt" % j)
    return " ".join(srcs)


def write_ws(spec, ws, remote=False, extra_toml=""):
    os.makedirs(os.path.join(ws, "p"), exist_ok=True)
    targets = []
    for t in spec["targets"]:
        i, kind = t["i"], t["kind"]
        src = _dep_srcs(spec, t)
        cmds, outs = [], []
        if kind in ("file", "two", "mixed"):
            cmds.append("cat %s > t%d.out" % (src, i)); outs.append("t%d.out" % i)
        if kind == "two":
            cmds.append("echo const > t%d.b.out" % i); outs.append("t%d.b.out" % i)
        if kind in ("dir", "mixed"):
            cmds.append("rm -rf d%d && mkdir -p d%d/sub && cat %s > d%d/a.txt && echo const > d%d/sub/b.txt && : > d%d/empty" % (i, i, src, i, i, i))
            if t.get("wide"):
                # many small files with distinct contents (more than any plausible bound on concurrent uploads)
                cmds.append("mkdir -p d%d/w && for k in $(seq 1 %d); do echo wide-%d-$k > d%d/w/f$k; done" % (i, t["wide"], i, i))
            outs.append("dir::d%d" % i)
        cmds.append("echo t%d >> ../.trace" % i)
        targets.append({"name": "t%d" % i, "inputs": ["in%d.txt" % i], "dependencies": [":t%d" % j for j in t["deps"]],
                        "command": " && ".join(cmds), "outputs": outs})
    with open(os.path.join(ws, "p", "BUILD.json"), "w") as f:
        json.dump({"targets": targets}, f)
    for name, content in spec["inputs"].items():
        with open(os.path.join(ws, "p", name), "w") as f:
            f.write(content)
    write_toml(spec, ws, remote, extra_toml)


def write_toml(spec, ws, remote=False, extra=""):
    with open(os.path.join(ws, "grog.toml"), "w") as f:
        f.write("num_workers = %d\n%s%s" % (spec["workers"], extra, S3_SECTION if remote else ""))


def outputs_of(spec, ws):
    """path -> bytes of every declared output (directories walked); None when missing."""
    res = {}
    for t in spec["targets"]:
        i, kind = t["i"], t["kind"]
        names = []
        if kind in ("file", "two", "mixed"):
            names.append("t%d.out" % i)
        if kind == "two":
            names.append("t%d.b.out" % i)
        for nme in names:
            p = os.path.join(ws, "p", nme)
            res[nme] = open(p, "rb").read() if os.path.isfile(p) else None
        if kind in ("dir", "mixed"):
            d = os.path.join(ws, "p", "d%d" % i)
            if not os.path.isdir(d):
                res["d%d" % i] = None
            for root, dirs, files in os.walk(d):
                for fn in files:
                    p = os.path.join(root, fn)
                    res[os.path.relpath(p, os.path.join(ws, "p"))] = open(p, "rb").read()
    return res


def wipe_outputs(spec, ws):
    for t in spec["targets"]:
        i = t["i"]
        for nme in ("t%d.out" % i, "t%d.b.out" % i):
            try:
                os.remove(os.path.join(ws, "p", nme))
            except FileNotFoundError:
                pass
        shutil.rmtree(os.path.join(ws, "p", "d%d" % i), ignore_errors=True)
    clear_trace(ws)


def trace(ws):
    try:
        return open(os.path.join(ws, ".trace")).read().split()
    except FileNotFoundError:
        return []


def clear_trace(ws):
    try:
        os.remove(os.path.join(ws, ".trace"))
    except FileNotFoundError:
        pass


def grog(grog_bin, ws, root, args=("build",), env_extra=None, timeout=40, prefix=()):
    """Run the real binary; returns (returncode or 'timeout', seconds, tail of output)."""
    home = os.path.join(os.path.dirname(root), "home")
    os.makedirs(home, exist_ok=True)
    env = {"PATH": os.environ.get("PATH", "/usr/bin:/bin"), "GROG_ROOT": root, "HOME": home, "NO_COLOR": "1"}
    if env_extra:
        env.update(env_extra)
    t = time.time()
    p = subprocess.Popen(list(prefix) + [grog_bin] + list(args), cwd=ws, env=env, stdin=subprocess.DEVNULL,
                         stdout=subprocess.PIPE, stderr=subprocess.STDOUT, start_new_session=True)
    try:
        out, _ = p.communicate(timeout=timeout)
        rc = p.returncode
    except subprocess.TimeoutExpired:
        import signal
        try:
            os.killpg(p.pid, signal.SIGKILL)
        except ProcessLookupError:
            pass
        out, _ = p.communicate()
        rc = "timeout"
    return rc, round(time.time() - t, 2), out.decode("utf-8", "replace")[-1500:]


def cache_dir(root, ws):
    import hashlib
    ws = os.path.realpath(ws)
    return os.path.join(root, "%s-%s" % (hashlib.sha256(ws.encode()).hexdigest()[:16], os.path.basename(ws)), "cache")


def audit(harness, cdir, algo="xxh3"):
    p = subprocess.run([harness, "audit", cdir, algo], stdout=subprocess.PIPE, stderr=subprocess.PIPE, text=True, timeout=60)
    if p.returncode != 0 or not p.stdout.strip():
        raise RuntimeError("audit failed: " + p.stderr[-400:])
    return json.loads(p.stdout.split("\n")[0])


def reference_outputs(grog_bin, spec, base):
    """The C01 oracle: outputs of a from-scratch build in a fresh workspace with a fresh cache root."""
    ws = os.path.join(base, "ref", "ws")
    shutil.rmtree(os.path.join(base, "ref"), ignore_errors=True)
    write_ws(spec, ws)
    rc, _, out = grog(grog_bin, ws, os.path.join(base, "ref", "root"))
    if rc != 0:
        raise RuntimeError("reference build failed: %s" % out[-400:])
    return outputs_of(spec, ws)
