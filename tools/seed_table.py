#!/usr/bin/env python3
"""Print the markdown table of seeded changes from /verif/seeded/*/meta.json (for DESIGN.md section 10)."""
import glob, json, os
rows = []
for mp in sorted(glob.glob("/verif/seeded/*/meta.json")):
    m = json.load(open(mp))
    runs = m.get("checks_run", [])
    caught = sorted({r["check"].split()[1] for r in runs if r.get("caught") and r.get("with_failing_input")})
    weak = sorted({r["check"].split()[1] for r in runs if r.get("caught") and not r.get("with_failing_input")} - set(caught))
    missed = sorted({r["check"].split()[1] for r in runs if not r.get("caught")})
    patch = open(os.path.join(os.path.dirname(mp), "patch.diff")).read()
    files = sorted({l.split(" b/")[-1] for l in patch.splitlines() if l.startswith("diff --git")})
    rows.append((m["id"], m.get("breaks_property", "?"), ", ".join(f.replace("internal/", "") for f in files),
                 ", ".join(caught) or "-", ", ".join(weak) or "-", ", ".join(missed) or "-"))
print("| seed | property | files changed | caught with a failing input by | caught as broken correspondence only by | not caught by |")
print("|---|---|---|---|---|---|")
for r in rows:
    print("| " + " | ".join(r) + " |")
