"""Shared by c03.py / c04.py / c05.py: the scheduler slice (engine `walker`).

Tie between Walker.v and internal/dag + internal/worker:

* gated: the real dag.Walker + the real worker.TaskWorkerPool, wired as in execution/execute.go, run inside
  a testing/synctest bubble with gated callbacks/tasks (harness/go/walker/inject/zz_gated_test.go, injected
  into package dag by `go test -overlay`).  Each schedule fixes graph, num_workers, failure mode, the failing
  nodes, the kind of every task, an optional cancellation step and the seeded numbers that choose which held
  gate is released next.  After every action the bubble is quiescent and the observation (callbacks entered,
  jobs enqueued, tasks entered, commands running, completions, Walk returned) is logged.  The extracted model
  (ocaml/walker/driver.ml) then walks the same trace: controllable actions are model events, the rest of every
  observation is explained by internal events applied through the extracted `step`, and the two states are
  compared in both directions after every step.
* model-free oracles evaluated on the same traces (deps first, at most once, <= W, termination, accounting,
  containment, nothing starts after a cancellation, the map Walk returned is never written after the return
  and is complete when the walk was not cut short).
* ungated: zero-latency walks of walker+pool on all cores with the same model-free oracles in the harness;
  hangs by timeout, runtime aborts by exit status / stderr."""
import json, os, subprocess, time
from concurrent.futures import ThreadPoolExecutor
import vlib

WS = [1, 2, 3, 8]
INJECT = os.path.join(vlib.HARNESS, "walker", "inject", "zz_gated_test.go")


# ------------------------------------------------------------------ graph families (topologically numbered)
def chain(n):
    return [[] if i == 0 else [i - 1] for i in range(n)]


def diamond(k):
    """0 <- 1..k <- k+1"""
    return [[]] + [[0] for _ in range(k)] + [list(range(1, k + 1))]


def ladder(w, d):
    g = []
    for l in range(d + 1):
        for _ in range(w):
            g.append([] if l == 0 else list(range((l - 1) * w, l * w)))
    return g


def star(n):
    return [[]] + [[0] for _ in range(n - 1)]


def fan(n):
    return [[] for _ in range(n - 1)] + [list(range(n - 1))]


def antichain(n):
    return [[] for _ in range(n)]


def random_dag(rng, n, maxdeg=3, window=None):
    g = []
    for i in range(n):
        lo = 0 if window is None else max(0, i - window)
        cands = list(range(lo, i))
        k = min(len(cands), rng.below(maxdeg + 1))
        g.append(sorted(rng.sample(cands, k)) if k else [])
    return g


def ancestors(g):
    anc = []
    for i, ds in enumerate(g):
        s = set()
        for d in ds:
            s.add(d)
            s |= anc[d]
        anc.append(s)
    return anc


def deps_str(g):
    return ";".join(",".join(str(d) for d in ds) for ds in g)


TINY = {
    "diamond4": diamond(2), "chain3": chain(3), "join3": fan(4), "N4": [[], [], [0, 1], [1]],
    "antichain3": antichain(3), "vee": [[], [0], [0]],
}


def family_graph(rng, maxn):
    k = rng.below(8)
    if k == 0:
        return "chain", chain(2 + rng.below(min(maxn, 30) - 1))
    if k == 1:
        return "diamond", diamond(1 + rng.below(min(maxn - 2, 20)))
    if k == 2:
        w = 2 + rng.below(2)
        d = 1 + rng.below(max(1, min(6, maxn // w - 1)))   # GetDescendants enumerates w^d paths: keep d small
        return "ladder", ladder(w, d)
    if k == 3:
        return "star", star(2 + rng.below(min(maxn, 40) - 1))
    if k == 4:
        return "fan", fan(2 + rng.below(min(maxn, 40) - 1))
    n = 3 + rng.below(maxn - 2)
    if k == 5:
        return "random-sparse", random_dag(rng, n, 2, window=6)
    if k == 6:
        return "random", random_dag(rng, n, 3, window=12)
    return "random-wide", random_dag(rng, n, 2)


def path_count_ok(g, limit=20000):
    """GetDescendants (keep-going failure path) enumerates paths: skip graphs where that explodes (C19's business)."""
    n = len(g)
    outs = [[] for _ in range(n)]
    for i, ds in enumerate(g):
        for d in ds:
            outs[d].append(i)
    paths = [0] * n
    for i in range(n - 1, -1, -1):
        paths[i] = sum(1 + paths[o] for o in outs[i])
        if paths[i] > limit:
            return False
    return True


def mk_schedule(rng, sid, g, w, ff, fail, cancel_pct=0, kinds=None):
    n = len(g)
    if kinds is None:
        kinds = [rng.choice([0, 0, 0, 1, 2]) for _ in range(n)]
    cancel_at = -1
    if cancel_pct and rng.below(100) < cancel_pct:
        cancel_at = rng.below(3 * n + 2)
    return {"id": sid, "w": w, "ff": bool(ff), "deps": g, "fail": sorted(fail), "kind": kinds,
            "cancel_at": cancel_at, "choices": [rng.below(1 << 20) for _ in range(4 * n + 8)], "max_steps": 0}


def subsets(n):
    for m in range(1 << n):
        yield [i for i in range(n) if m >> i & 1]


def gen_schedules(rng, tier, focus):
    """focus: 'order' (C03: mostly successful runs), 'term' (C04: everything), 'fail' (C05: failures)."""
    scheds = []
    k = 0
    # every failing subset on the tiny graphs, both modes, W cycling
    for name, g in sorted(TINY.items()):
        for fs in subsets(len(g)):
            if focus == "order" and len(fs) > 1:
                continue
            for ff in (0, 1):
                if focus == "order" and ff and not fs:
                    continue
                w = WS[k % 4]
                k += 1
                scheds.append(mk_schedule(rng, "%s-%s-f%s-ff%d-w%d" % (focus, name, "".join(map(str, fs)) or "none", ff, w),
                                          g, w, ff, fs, cancel_pct=(20 if focus == "term" else 0)))
    nrand = {"quick": 260, "thorough": 6000}[tier]
    maxn = {"quick": 60, "thorough": 200}[tier]
    for j in range(nrand):
        fam, g = family_graph(rng, maxn if j % 5 else 12)
        if not path_count_ok(g):
            continue
        n = len(g)
        w = rng.choice(WS)
        ff = rng.below(2) if focus != "order" else rng.below(4) == 0
        if focus == "order":
            nf = 0 if rng.below(3) else 1
        elif focus == "fail":
            nf = 1 + rng.below(3)
        else:
            nf = rng.below(4)
        fail = rng.sample(list(range(n)), min(n, nf))
        cancel_pct = {"order": 10, "term": 35, "fail": 0}[focus]
        scheds.append(mk_schedule(rng, "%s-%s%d-%d" % (focus, fam, n, j), g, w, ff, fail, cancel_pct))
    return scheds


# ------------------------------------------------------------------ running the gated harness
class GatedCrash(Exception):
    pass


def run_gated(scheds, race=False, timeout=1500):
    """-> (traces: {id: {"steps": [(act, obs)], "end": {...}}}, crash: None | {"id":..., "stderr":...})"""
    d = vlib.scratch()
    tag = "%d" % time.time_ns()
    inp, outp = os.path.join(d, "gated-in-%s.jsonl" % tag), os.path.join(d, "gated-out-%s.txt" % tag)
    with open(inp, "w") as f:
        for s in scheds:
            f.write(json.dumps(s) + "\n")
    ov = vlib.write_overlay({os.path.join(vlib.REPO, "internal", "dag", "zz_gated_test.go"): INJECT})
    cmd = ["go", "test", "-tags", "verif", "-overlay", ov, "-run", "TestGated$", "-count=1", "-timeout", "%ds" % timeout]
    if race:
        cmd.append("-race")
    cmd.append("./internal/dag")
    env = dict(vlib.GOENV, VERIF_WALKER_IN=inp, VERIF_WALKER_OUT=outp)
    p = vlib.run(cmd, cwd=vlib.REPO, env=env, timeout=timeout + 60)
    text = (p.stdout or "") + (p.stderr or "")
    if p.returncode != 0 and ("[build failed]" in text or "[setup failed]" in text or not os.path.exists(outp)):
        raise vlib.HarnessUnavailable(text[-3000:])
    traces, cur, order = {}, None, []
    alldone = False
    for line in open(outp):
        line = line.rstrip("\n")
        if line.startswith("sched "):
            cur = {"steps": [], "end": None, "act": None}
            traces[line[6:]] = cur
            order.append(line[6:])
        elif line.startswith("act "):
            cur["act"] = line[4:].split(" ")
        elif line.startswith("obs "):
            o = {}
            for kv in line[4:].split(" "):
                k, v = kv.split("=")
                o[k] = v
            cur["steps"].append((cur["act"], o))
        elif line.startswith("end "):
            f = line.split(" ")
            cur["end"] = {"status": f[2]}
            for kv in f[3:]:
                k, v = kv.split("=")
                cur["end"][k] = int(v)
        elif line.startswith("bubble-panic "):
            f = line.split(" ", 2)
            traces.setdefault(f[1], {"steps": [], "end": None})["panic"] = f[2]
        elif line == "alldone":
            alldone = True
    crash = None
    if p.returncode != 0 or not alldone:
        done_ids = [i for i in order if traces[i]["end"] is not None]
        pending = [s["id"] for s in scheds if s["id"] not in done_ids]
        crash = {"id": pending[0] if pending else None, "rc": p.returncode, "output": text[-4000:]}
    return traces, crash


def iset(s):
    return set(int(x) for x in s.split(",") if x != "")


ACT_EVENT = {("cmd", "started"): "CmdStart", ("cmd", "cancelled"): "FinishCancelled", ("cmd", "ok"): "FinishOk",
             ("cmd", "fail"): "FinishFail", ("fin", "ok"): "FinishOk", ("fin", "fail"): "FinishFail",
             ("fin", "cancelled"): "FinishCancelled"}


def driver_lines(s, tr):
    lines = ["graph\t%d\t%d\t%s" % (s["w"], 1 if s["ff"] else 0, deps_str(s["deps"]))]
    meta = [("graph", None)]
    for k, (act, o) in enumerate(tr["steps"]):
        if act[0] == "cancel":
            lines.append("ev\tCtxCancel"); meta.append(("ev", k))
        elif act[0] in ("cmd", "fin"):
            what = act[2] if len(act) > 2 else ""
            ev = ACT_EVENT.get((act[0], what))
            if ev is None:
                lines.append("ev\tUnknownOutcome 0"); meta.append(("ev", k))
            else:
                lines.append("ev\t%s %s" % (ev, act[1])); meta.append(("ev", k))
        line = "obs\t%s\t%s\t%s\t%s\t%s\t%s\t%s" % (o["S"], o["Enq"], o["B1"], o["B2"], o["Ok"], o["Fail"], o["ret"])
        if "ROk" in o:   # the map Walk returned, as it is at this quiescent point (model: snap)
            line += "\t%s\t%s" % (o["ROk"], o["RFail"])
        lines.append(line)
        meta.append(("obs", k))
    return lines, meta


def validate(drv, scheds, traces):
    """Walk every trace through the model.  -> {id: None | {"step": k, "why": ..., "model": ...}}, stats"""
    all_lines, spans = [], []
    for s in scheds:
        tr = traces.get(s["id"])
        if tr is None:
            continue
        lines, meta = driver_lines(s, tr)
        spans.append((s["id"], len(all_lines), meta))
        all_lines += lines
    rc, out, err = vlib.run_lines(drv, all_lines)
    if rc != 0 or len(out) != len(all_lines):
        raise RuntimeError("walker model driver failed: rc=%s %d/%d %s" % (rc, len(out), len(all_lines), err[-400:]))
    res, stats = {}, {"model_events": 0, "late_states": 0, "final_classes": set()}
    for sid, off, meta in spans:
        res[sid] = None
        last = ""
        for j, (kind, k) in enumerate(meta):
            o = out[off + j]
            if kind == "graph":
                if "topo=1" not in o:
                    res[sid] = {"step": -1, "why": "generated graph is not topologically numbered", "model": o}
                    break
                continue
            last = o
            if kind == "ev":
                stats["model_events"] += 1
                if not o.startswith("ok "):
                    res[sid] = {"step": k, "why": "the model does not enable the event the real code performed: " + all_lines[off + j], "model": o}
                    break
            elif not o.startswith("ok "):
                res[sid] = {"step": k, "why": o.split(" | ")[0], "model": o.split(" | ")[-1]}
                break
        if res[sid] is None and last:
            if " late=1" in last:   # the walker's own map went on after the snapshot handed to the caller
                stats["late_states"] += 1
            f = dict(kv.split("=") for kv in last.split(" ")[1:] if "=" in kv)
            stats["final_classes"].add((bool(f.get("F")), bool(f.get("S")), bool(f.get("A")), bool(f.get("Q")), f.get("fft"), f.get("ctx")))
    return res, stats


# ------------------------------------------------------------------ model-free oracles on a gated trace
def oracles(s, tr):
    """-> list of (property, text).  Evaluated on what the real code did, no model involved."""
    g, w = s["deps"], s["w"]
    n = len(g)
    anc = ancestors(g)
    bad = []
    entered = set()
    cancelled_at = None
    first_fail_at = None
    ret_at = None
    prev_done = None
    prev_returned = None
    late_write = None    # step at which the map Walk RETURNED is seen to have changed after the return
    tr["late_own"] = None  # step at which the walker's OWN map records a completion after the return (legitimate: Walk does not wait)
    ret_early = False   # Walk returned through ctx.Done: after a cancellation, or fail-fast with a failure recorded
    for k, (act, o) in enumerate(tr["steps"]):
        S, B1, B2, OK, FL = iset(o["S"]), iset(o["B1"]), iset(o["B2"]), iset(o["Ok"]), iset(o["Fail"])
        if act[0] == "cancel":
            cancelled_at = k
        for x in (B1 | B2) - entered:
            entered.add(x)
            missing = sorted(anc[x] - OK)
            if missing:
                bad.append(("C03", "step %d: the task of node %d was entered before its transitive dependencies %s completed successfully" % (k, x, missing)))
        for x in S:
            missing = sorted(set(g[x]) - OK)
            if missing and x not in OK | FL:
                bad.append(("C03", "step %d: the callback of node %d was entered although dependencies %s have no successful completion" % (k, x, missing)))
        if len(B1 | B2) > w:
            bad.append(("C03", "step %d: %d tasks inside the pool with num_workers=%d" % (k, len(B1 | B2), w)))
        if act[0] == "cmd" and len(act) > 2 and act[2] == "started":
            if cancelled_at is not None:
                bad.append(("C18", "step %d: the command of node %s started after the context was cancelled at step %d" % (k, act[1], cancelled_at)))
            if s["ff"] and first_fail_at is not None:
                bad.append(("C05", "step %d: fail-fast: the command of node %s started after the failure observed at step %d" % (k, act[1], first_fail_at)))
        if FL and first_fail_at is None:
            first_fail_at = k
        if o["ret"] == "1" and ret_at is None:
            ret_at = k
            ret_early = cancelled_at is not None or bool(s["ff"] and FL)
            if s["ff"] and FL and o["err"] == "0" and "RFail" in o and not iset(o["RFail"]):
                bad.append(("C04", "step %d: Walk returned through fail-fast (failed: %s) but the map it returned holds no failure" % (k, sorted(FL))))
        if act[0] == "cancel" and o["ret"] != "1":
            bad.append(("C18", "step %d: Walk has not returned at quiescence after the context was cancelled" % k))
        if prev_done is not None and ret_at is not None and ret_at < k and (OK | FL) != prev_done and tr["late_own"] is None:
            tr["late_own"] = k
        prev_done = OK | FL
        if "ROk" in o:
            returned = (iset(o["ROk"]), iset(o["RFail"]))
            if prev_returned is not None and ret_at is not None and ret_at < k and returned != prev_returned and late_write is None:
                late_write = k
            prev_returned = returned
    end = tr.get("end")
    if tr.get("panic"):
        bad.append(("C04", "synctest bubble panicked: %s" % tr["panic"][:200]))
    if end is None:
        bad.append(("C04", "the run did not end (process died while replaying this schedule)"))
        return bad, late_write, ret_early
    if end["status"] == "deadlock":
        bad.append(("C04", "deadlock: every goroutine is durably blocked, no gate is held and Walk has not returned"))
    elif end["status"] != "done":
        bad.append(("C04", "schedule did not finish within the step cap (%s)" % end["status"]))
    if end.get("multi", 0):
        bad.append(("C03", "%d nodes had their callback or task entered more than once" % end["multi"]))
    if end.get("maxin", 0) > w:
        bad.append(("C03", "%d tasks ran concurrently with num_workers=%d" % (end["maxin"], w)))
    if tr["steps"] and end["status"] == "done":
        o = tr["steps"][-1][1]
        OK, FL, S = iset(o["Ok"]), iset(o["Fail"]), iset(o["S"])
        early = cancelled_at is not None or (s["ff"] and FL)
        for x in range(n):
            failed_anc = anc[x] & FL
            if x in OK | FL and failed_anc:
                bad.append(("C05", "node %d completed although its transitive dependency %s failed" % (x, sorted(failed_anc))))
            if x in S and failed_anc:
                bad.append(("C05", "node %d was started although its transitive dependency %s failed" % (x, sorted(failed_anc))))
            if not early:
                if x not in OK | FL and not failed_anc:
                    bad.append(("C04" if s["ff"] else "C05", "node %d has no completion and no failed transitive dependency (no cancellation)" % x))
                if x in OK and x in s["fail"]:
                    bad.append(("C05", "node %d failed but is recorded as successful" % x))
        if not early and o["err"] == "1":
            bad.append(("C04", "Walk returned an error without cancellation"))
        if not early and "ROk" in o and (iset(o["ROk"]), iset(o["RFail"])) != (OK, FL):
            bad.append(("C04", "the map Walk returned (ok %s, failed %s) is not the final completions (ok %s, failed %s) although the walk was not cut short" % (
                o["ROk"], o["RFail"], sorted(OK), sorted(FL))))
    return bad, late_write, ret_early


def _real_exceeds_model(reason):
    """'returned-map-x: real={1,4} model={1}' -> real is a strict superset of model"""
    import re
    m = re.match(r"returned-map-\w+: real=\{([0-9,]*)\} model=\{([0-9,]*)\}", reason)
    return bool(m) and iset(m.group(1)) > iset(m.group(2))


# ------------------------------------------------------------------ one gated campaign
def gated_campaign(out, pid, tier, focus, scheds=None, race=False):
    rng = vlib.Rng(vlib.seed() * 1000003 + sum(map(ord, pid)))
    if scheds is None:
        scheds = corpus(pid) + gen_schedules(rng, tier, focus)
    drv = vlib.build_driver("walker")
    info = {"gated_schedules": len(scheds), "inprocess_tie": True}
    try:
        # the quick campaign takes well under a minute; a walk that never ends is reported by the test's own timeout
        traces, crash = run_gated(scheds, race=race, timeout=240 if tier == "quick" and not race else 1500)
    except vlib.HarnessUnavailable as e:
        out.notes.append("inprocess_tie: unavailable (%s)" % str(e)[-600:])
        info["inprocess_tie"] = False
        return info, scheds, {}
    by_id = {s["id"]: s for s in scheds}
    if crash:
        s = by_id.get(crash["id"])
        out.violation("the gated walker run died (exit %s) while replaying schedule %s: %s" % (
            crash["rc"], crash["id"], crash["output"][-300:].replace("\n", " ")),
            {"schedule": s, "output": crash["output"], "replay_cmd": "./check %s --replay <this file>" % pid})
    res, stats = validate(drv, scheds, traces)
    breaks, oracle_hits, late = [], [], []
    late_breaks = 0
    steps = 0
    nontrivial = set()
    dist = {"with_failure": 0, "with_cancel": 0, "fail_fast": 0, "max_nodes": 0, "saturated_pool": 0}
    for s in scheds:
        tr = traces.get(s["id"])
        if tr is None:
            continue
        steps += len(tr["steps"])
        bad, late_write, ret_early = oracles(s, tr)
        mine = [b for b in bad if b[0] == pid or (pid == "C04" and b[0] == "C18")]
        if mine:
            oracle_hits.append((s, tr, mine))
        if res.get(s["id"]):
            b = res[s["id"]]
            reasons = b["why"][6:].split("; ") if b["why"].startswith("BREAK ") else [b["why"]]
            if all(x.startswith("returned-map-") for x in reasons) and (late_write is not None or (ret_early and all(map(_real_exceeds_model, reasons)))):
                # the model's snapshot stays, the real returned map moved: the observation of the late-write oracle
                # (reported once, by C04, as C04-F1 or as a violation), not a second finding.  The oracle compares
                # consecutive quiescent points; a completion that reaches the returned map in the very burst of an early
                # return (a callback rejected by the pool that Walk's caller closes) is only visible against the model's
                # snapshot: the returned map then holds MORE than was recorded when Walk returned
                late_breaks += 1
                if late_write is None:
                    late_write = b["step"]
            else:
                breaks.append((s, tr, b, bad))
        if late_write is not None:
            late.append((s, tr, late_write, ret_early))
        acts = [a[0] for a, _ in tr["steps"]]
        if len(acts) > 3:
            nontrivial.add(json.dumps([s["deps"], s["w"], s["ff"], s["fail"], s["cancel_at"], [a for a, _ in tr["steps"]]]))
        dist["with_failure"] += any(o["Fail"] for _, o in tr["steps"])
        dist["with_cancel"] += "cancel" in acts
        dist["fail_fast"] += bool(s["ff"])
        dist["max_nodes"] = max(dist["max_nodes"], len(s["deps"]))
        dist["saturated_pool"] += any(len(iset(o["B1"]) | iset(o["B2"])) == s["w"] and len(iset(o["Enq"])) > len(iset(o["B1"]) | iset(o["B2"]) | iset(o["Ok"]) | iset(o["Fail"])) for _, o in tr["steps"])
    for s, tr, mine in oracle_hits[:3]:
        out.violation("%s; schedule %s (graph of %d nodes, num_workers=%d, fail_fast=%s, failing=%s)" % (
            mine[0][1], s["id"], len(s["deps"]), s["w"], s["ff"], s["fail"]),
            {"schedule": s, "trace": [[a, o] for a, o in tr["steps"]], "end": tr.get("end"), "oracle_failures": mine,
             "replay_cmd": "./check %s --replay <this file>" % pid})
    hit_ids = {s["id"] for s, _, _ in oracle_hits}
    for s, tr, b, bad in breaks[:3]:
        if s["id"] in hit_ids:
            continue
        out.violation("correspondence Walker.v ~ dag.Walker+TaskWorkerPool broke at step %d of schedule %s: %s; no oracle of %s fails on this run%s" % (
            b["step"], s["id"], b["why"][:200], pid, (" (oracles of other properties fail: %s)" % bad[0][1][:120]) if bad else ""),
            {"correspondence": "Walker.step / observation relation of ocaml/walker/driver.ml vs the gated run of the real code",
             "schedule": s, "trace": [[a, o] for a, o in tr["steps"][:b["step"] + 1]], "model_state": b["model"], "break": b["why"],
             "replay_cmd": "./check %s --replay <this file>" % pid}, no_input=True)
    info.update({"traces": len(traces), "steps": steps, "model_events_replayed": stats["model_events"],
                 "correspondence_breaks": len(breaks), "returned_map_breaks_on_late_write_runs": late_breaks, "oracle_failures": len(oracle_hits),
                 "runs_with_completion_after_walk_returned": sum(1 for t in traces.values() if t.get("late_own") is not None),
                 "runs_with_returned_map_written_after_return": len(late), "model_late_states": stats["late_states"],
                 "distinct_final_classes": len(stats["final_classes"]), "distribution": dist,
                 "distinct_nontrivial": len(nontrivial)})
    return info, scheds, {"traces": traces, "late": late, "breaks": breaks, "oracle_hits": oracle_hits}


def corpus(pid):
    d = os.path.join(vlib.VERIF, "corpus", pid)
    res = []
    if os.path.isdir(d):
        for fn in sorted(os.listdir(d)):
            if fn.endswith(".jsonl"):
                for line in open(os.path.join(d, fn)):
                    line = line.strip()
                    if line and not line.startswith("#"):
                        res.append(json.loads(line))
    return res


# ------------------------------------------------------------------ ungated stress
def stress_specs(rng, tier, focus):
    nspec, runs = {"quick": (64, 50), "thorough": (600, 200)}[tier]
    maxn = {"quick": 60, "thorough": 200}[tier]
    specs = []
    shapes = [("star40", star(40)), ("fan40", fan(40)), ("chain40", chain(40)), ("diamond40", diamond(38)),
              ("ladder3x4", ladder(3, 4)), ("antichain30", antichain(30))]
    for j in range(nspec):
        if j < len(shapes) * 2:
            name, g = shapes[j % len(shapes)]
        else:
            name, g = family_graph(rng, maxn)
            if not path_count_ok(g):
                name, g = "random-sparse", random_dag(rng, 3 + rng.below(maxn - 2), 2, window=6)
        n = len(g)
        if focus == "order":
            nf = 0 if rng.below(3) else 1
        else:
            nf = rng.below(4) if focus == "term" else 1 + rng.below(3)
        ff = rng.below(2) == 1 and focus != "order"
        cancel = (1 + rng.below(n)) if (focus == "term" and rng.below(4) == 0) else 0
        specs.append({"id": "%s-%s%d-%d" % (focus, name, n, j), "deps": g, "w": rng.choice(WS), "ff": ff,
                      "fail": sorted(rng.sample(list(range(n)), min(n, nf))), "runs": runs, "cancel": cancel,
                      "yield": rng.choice([0, 0, 0, 1, 3])})
    return specs


def run_pool(h, specs, timeout):
    inp = "".join(json.dumps(s) + "\n" for s in specs)
    try:
        p = subprocess.run([h, "pool"], input=inp, stdout=subprocess.PIPE, stderr=subprocess.PIPE, text=True, timeout=timeout)
        return p.returncode, p.stdout, p.stderr, False
    except subprocess.TimeoutExpired as e:
        so = e.stdout.decode() if isinstance(e.stdout, bytes) else (e.stdout or "")
        se = e.stderr.decode() if isinstance(e.stderr, bytes) else (e.stderr or "")
        return -9, so, se, True


def stress_campaign(out, pid, tier, focus, race=False):
    rng = vlib.Rng(vlib.seed() * 7919 + sum(map(ord, pid)) + 17)
    info = {"ungated_walks": 0, "ungated_specs": 0, "ungated_available": True}
    try:
        h = vlib.build_harness("walker", deps=(), race=race)
    except vlib.HarnessUnavailable as e:
        out.notes.append("ungated stress: unavailable (%s)" % str(e)[-400:])
        info["ungated_available"] = False
        return info
    specs = stress_specs(rng, tier, focus)
    nproc = 8
    chunks = [specs[i::nproc] for i in range(nproc)]
    tmo = 60 if tier == "quick" else 1500
    with ThreadPoolExecutor(nproc) as ex:
        results = list(ex.map(lambda c: run_pool(h, c, tmo), chunks))
    cancelled = unsettled = maxconc = 0
    for chunk, (rc, so, se, timed_out) in zip(chunks, results):
        lines = [l for l in so.split("\n") if l]
        for l in lines:
            f = l.split(" ")
            if f[0] == "ok":
                kv = dict(x.split("=") for x in f[2:])
                info["ungated_walks"] += int(kv["runs"])
                info["ungated_specs"] += 1
                cancelled += int(kv["cancelled"]); unsettled += int(kv["unsettled"]); maxconc = max(maxconc, int(kv["maxconc"]))
            elif f[0] == "anomaly":
                sp = next(s for s in chunk if s["id"] == f[1])
                out.violation("ungated walker+pool run: %s (spec %s, num_workers=%d, fail_fast=%s)" % (" ".join(f[2:]), sp["id"], sp["w"], sp["ff"]),
                              {"spec": sp, "harness_output": l, "replay_cmd": "./check %s --replay <this file>" % pid})
        if rc == 66 and not timed_out:
            reps = race_reports(se)
            if reps and all(c == "pool-close-vs-send" for c, _ in reps):
                info["race_detector_pool_close_vs_send_reports"] = info.get("race_detector_pool_close_vs_send_reports", 0) + len(reps)
                continue
        if timed_out or rc != 0:
            done = len(lines)
            sp = chunk[done] if done < len(chunk) else None
            what = "did not return within %d s (hang)" % tmo if timed_out else "aborted with exit status %s: %s" % (
                rc, " ".join(x for x in se.split("\n") if "fatal error" in x or "panic:" in x or "DATA RACE" in x)[:200])
            out.violation("ungated walker+pool run %s on spec %s" % (what, sp["id"] if sp else "?"),
                          {"spec": sp, "stderr": se[-3000:], "replay_cmd": "./check %s --replay <this file>" % pid})
    info.update({"ungated_cancelled_walks": cancelled, "ungated_walks_with_orphaned_job": unsettled, "ungated_max_concurrency_seen": maxconc})
    # the walker alone on the shapes that exposed the registration race
    legacy = 0
    for shape in ("star", "diamond", "chain"):
        runs = 400 if tier == "quick" else 4000
        try:
            p = subprocess.run([h, "stress", shape, "40", str(runs), "0"], stdout=subprocess.PIPE, stderr=subprocess.PIPE, text=True, timeout=tmo)
            if p.returncode != 0 or not p.stdout.startswith("ok"):
                out.violation("ungated walker-only run on a 40-node %s: %s" % (shape, (p.stdout + " " + " ".join(
                    x for x in p.stderr.split("\n") if "fatal error" in x or "panic:" in x))[:300]),
                    {"stress": [shape, 40, runs, 0], "stderr": p.stderr[-3000:]})
            else:
                legacy += runs
        except subprocess.TimeoutExpired:
            out.violation("ungated walker-only run on a 40-node %s did not return within %d s (hang)" % (shape, tmo),
                          {"stress": [shape, 40, runs, 0]})
    info["ungated_walker_only_walks"] = legacy
    return info


def race_reports(stderr):
    """Split the race detector's output into reports; classify each.  Class 'pool-close-vs-send': the worker pool closes its job
    channel in Shutdown while a Run is sending on it -- by design (the send's panic is recovered and turned into 'worker pool is
    closed', task_worker_pool.go enqueue); the race detector reports close-vs-send on a channel, the existing test
    TestRunWithConcurrentShutdown does the same under -race.  It cannot corrupt memory or crash the process and is not judged."""
    reps = []
    cur = None
    for line in stderr.split("\n"):
        if "WARNING: DATA RACE" in line:
            cur = []
            reps.append(cur)
        elif line.startswith("==================") and cur is not None and cur:
            cur = None
        elif cur is not None:
            cur.append(line)
    res = []
    for r in reps:
        txt = "\n".join(r)
        benign = ("Shutdown" in txt and ("closechan" in txt or "close(" in txt or "runtime.closechan" in txt) and
                  ("enqueue" in txt or "chansend" in txt)) and "completions" not in txt and "mapassign" not in txt and "mapiter" not in txt
        res.append(("pool-close-vs-send" if benign else "other", txt[:1500]))
    return res


def explore_tiny(out, drv=None):
    """Exhaustive exploration of the MODEL on the tiny graphs (cross-check of the extracted code against the theorems)."""
    drv = drv or vlib.build_driver("walker")
    lines, meta = [], []
    for name, g in sorted(TINY.items()):
        for w in (1, 2):
            for ff in (0, 1):
                lines.append("explore\t%d\t%d\t%s\t400000" % (w, ff, deps_str(g)))
                meta.append((name, w, ff))
    rc, res, err = vlib.run_lines(drv, lines)
    tot = {"states": 0, "terminal": 0, "deadlocks": 0, "depsfirst_viol": 0, "bound_viol": 0, "mu_viol": 0, "snap_viol": 0,
           "late_states": 0, "capped": 0}
    for m, l in zip(meta, res):
        kv = dict(x.split("=") for x in l.split(" ")[1:] if "=" in x and x.split("=")[0] in tot)
        for k in tot:
            tot[k] += int(kv.get(k, 0))
        if int(kv.get("deadlocks", 0)) or int(kv.get("depsfirst_viol", 0)) or int(kv.get("bound_viol", 0)) or int(kv.get("mu_viol", 0)) \
                or int(kv.get("snap_viol", 0)):
            out.violation("exhaustive exploration of the extracted model on %s (W=%d, fail_fast=%d) contradicts a theorem: %s" % (m[0], m[1], m[2], l[:300]),
                          {"theorem": "C04_no_deadlock / C03_deps_first / C03_worker_bound / C04_measure / C04_no_race / C04_snapshot_sound", "explore": l, "graph": TINY[m[0]]}, no_input=True)
    return tot


# ------------------------------------------------------------------ replay
def replay(out, pid, path):
    rp = json.load(open(path))["replay"]
    if "schedule" in rp:
        s = rp["schedule"]
        info, scheds, extra = gated_campaign(out, pid, "quick", "term", scheds=[s])
        tr = extra.get("traces", {}).get(s["id"])
        if tr:
            for a, o in tr["steps"]:
                print("act", " ".join(a), "| obs", " ".join("%s=%s" % kv for kv in o.items()))
            print("end", tr.get("end"))
            bad, late, _ = oracles(s, tr)
            for b in bad:
                print("ORACLE", b)
            if tr.get("late_own") is not None:
                print("completion recorded in the walker's own map after Walk returned at step", tr["late_own"])
            if late is None and extra.get("late"):
                late = extra["late"][0][2]   # visible against the model's snapshot only (same burst as the return)
            if late is not None:
                print("the map Walk returned was written after the return: seen at step", late)
                if pid == "C04":
                    f = {x["class"]: x for x in vlib.known_findings("C04")}.get("completions-written-after-return")
                    text = "replay of schedule %s: the map Walk returned is written at step %d, after the return" % (s["id"], late)
                    if f:
                        out.known(f["id"], text)
                    else:
                        out.violation(text + ": the caller reads it without a lock", rp)
        print(json.dumps(info, default=str))
    elif "spec" in rp and rp["spec"]:
        h = vlib.build_harness("walker", deps=())
        rc, so, se, to = run_pool(h, [rp["spec"]], 120)
        print(rc, so, se[-2000:], "TIMEOUT" if to else "")
        if rc != 0 or to or "anomaly" in so:
            out.violation("replay: ungated run still fails: %s" % (so.strip() or se[-200:]), rp)
    else:
        print("nothing to replay in", path)


ASSUMPTIONS = [
    "the selected sub-graph is acyclic and closed under dependencies (C11/C12); nodes are numbered topologically in the model",
    "a task returns an error that Is context.Canceled only when its (inner) context is cancelled",
    "a running task eventually returns (commands run under CommandContext; timeouts are C14's business)",
    "errors of the callback before pool.Run (bin tools, change hash) are modelled as failures of the task",
    "Go channels are FIFO and select chooses arbitrarily among ready cases (language specification); goroutine scheduling is arbitrary",
    "the gated run explores only quiescent points (synctest.Wait); interleavings inside one burst are covered by the ungated runs",
]
