"""Shared by c12.py / c19.py / c20.py (engine `select`): generators of random build graphs with
aliases, wire encoding for the model driver and the Go harness, reference oracles written
from the property texts (plain BFS over the dependency relation), BUILD.json rendering."""
import json, os
import vlib
from vlib import hx

PKGS = ["", "a", "a/b", "ab"]
NAMES = ["x", "y", "x_test", "all", "lib", "test", "b", "ab", "z_test", "t", "a"]
TAGS = ["x", "y", "z"]
PLATS = [[], [], [], [], ["linux/amd64"], ["darwin/arm64"], ["linux/amd64", "darwin/arm64"], ["windows/amd64"]]
HOSTS = ["linux/amd64", "linux/amd64", "darwin/arm64"]
FILES = ["f1.txt", "f2.txt", "sub/f3.txt", "g.txt"]


# ------------------------------------------------------------------ worlds
def is_test_name(name):
    return name.endswith("test")


def resolve(nodes, i):
    """the target an alias stands for (aliases have exactly one dependency)"""
    seen = 0
    while nodes[i]["kind"] == "a" and seen <= len(nodes):
        i = nodes[i]["deps"][0]
        seen += 1
    return i


def gen_world(r, nmax=10, constraints=False, files=False, bins=True, plats=True, nocache=False, dupdeps=True, spell=False):
    """Random DAG in topological numbering (dependencies have smaller indices); labels are
    drawn at random, so neither alphabetical nor map order is related to the numbering.
    constraints=True: satisfy analysis.CheckTargetConstraints (a non-test target never depends,
    through aliases, on a test target) so that `grog build` accepts the workspace.
    spell=True: a node also carries "spelled", the spelling of each of its inputs in the BUILD file (two in three
    non-canonical: ./f, zz/../f, d//f, d/./f); "inputs" stays the canonical form the Python references use."""
    n = 1 + r.below(nmax)
    labels = r.sample([(p, nm) for p in PKGS for nm in NAMES], n)
    nodes = []
    for i in range(n):
        pkg, name = labels[i]
        if i > 0 and r.chance(1, 4):
            nodes.append({"kind": "a", "pkg": pkg, "name": name, "tags": [], "plats": [], "bin": False,
                          "deps": [r.below(i)], "inputs": []})
            continue
        cand = list(range(i))
        if constraints and not is_test_name(name):
            cand = [j for j in cand if not is_test_name(nodes[resolve(nodes, j)]["name"])]
        dens = r.choice([1, 2, 3, 5])
        deps = [j for j in cand if r.chance(dens, 8)]
        deps = r.shuffle(deps)
        if dupdeps and deps and r.chance(1, 25):
            deps.append(r.choice(deps))
        tags = [t for t in TAGS if r.chance(1, 3)]
        if nocache and r.chance(1, 6):
            tags.append("no-cache")
        node = {"kind": "t", "pkg": pkg, "name": name, "tags": tags,
                "plats": list(r.choice(PLATS)) if plats else [], "bin": bool(bins and r.chance(1, 5)),
                "deps": deps, "inputs": [f for f in FILES if r.chance(1, 3)] if files else []}
        if spell:
            node["spelled"] = [respell(r.below(5), f) if r.chance(2, 3) else f for f in node["inputs"]]
        nodes.append(node)
    return nodes


def label_of(nd):
    return "//%s:%s" % (nd["pkg"], nd["name"])


def pattern_menu(nodes, r):
    """(command line string, meaning) -- the meaning (prefix, target, recursive) is written down
    from docs/reference/labels.md, not computed by any parser; cur = current package."""
    def M(s, f):
        return (s, f)
    menu = [
        M("//...", lambda cur: ("", "", True)),
        M("//a/...", lambda cur: ("a", "", True)),
        M("//a/...:x", lambda cur: ("a", "x", True)),
        M("//...:x", lambda cur: ("", "x", True)),            # root-recursive WITH a name filter
        M("//...:x_test", lambda cur: ("", "x_test", True)),
        M("//...:all", lambda cur: ("", "all", True)),
        M("//a:all", lambda cur: ("a", "all", False)),
        M("//a", lambda cur: ("a", "a", False)),
        M("//a/b", lambda cur: ("a/b", "b", False)),
        M("//ab", lambda cur: ("ab", "ab", False)),
        M("//a/b:...", lambda cur: ("a/b", "...", False)),
        M("//ab/...", lambda cur: ("ab", "", True)),
        M("//:all", lambda cur: ("", "all", False)),
        M("//:x", lambda cur: ("", "x", False)),
        M(":all", lambda cur: (cur, "all", False)),
        M(":x", lambda cur: (cur, "x", False)),
        M(":x_test", lambda cur: (cur, "x_test", False)),
        M(":...", lambda cur: (cur, "...", False)),
        M("//a:x_test", lambda cur: ("a", "x_test", False)),
        M("//nope/...", lambda cur: ("nope", "", True)),
        M("//a/b/...", lambda cur: ("a/b", "", True)),
    ]
    for _ in range(3):
        nd = r.choice(nodes)
        menu.append(M(label_of(nd), (lambda p, n: (lambda cur: (p, n, False)))(nd["pkg"], nd["name"])))
    return menu


def gen_cfg(r, nodes, kinds=("test", "no_test", "bin_output", "all")):
    menu = pattern_menu(nodes, r)
    k = r.choice([0, 1, 1, 1, 1, 2, 2, 3])
    pats = [r.choice(menu) for _ in range(k)]
    if k and r.chance(1, 3):
        pats[0] = menu[0]          # //... (many roots)
    tags = r.choice([[], [], [], ["x"], ["x", "y"], ["y"]])
    excl = r.choice([[], [], [], ["z"], ["y"] if "y" not in tags else ["z"]])
    return {"cur": r.choice(PKGS), "pats": [p[0] for p in pats], "pat_meaning": pats, "tags": tags, "excl": excl,
            "type": r.choice(list(kinds)), "plat": r.choice(HOSTS), "all": r.chance(1, 6)}


# ------------------------------------------------------------------ wire
def dot(xs):
    return ".".join(xs)


def spelled_inputs(nd):
    """the inputs as written in the BUILD file = as target.Inputs holds them = as the model receives them"""
    sp = nd.get("spelled")
    return sp if sp is not None else nd["inputs"]


def enc_nodes(nodes):
    out = []
    for nd in nodes:
        out.append(":".join([nd["kind"], hx(nd["pkg"]), hx(nd["name"]), dot(hx(t) for t in nd["tags"]),
                             dot(hx(p) for p in nd["plats"]), "1" if nd["bin"] else "0",
                             dot(str(d) for d in nd["deps"]), dot(hx(f) for f in spelled_inputs(nd))]))
    return ",".join(out)


def enc_cfg(cfg):
    return ":".join([hx(cfg["cur"]), dot(hx(p) for p in cfg["pats"]), dot(hx(t) for t in cfg["tags"]),
                     dot(hx(t) for t in cfg["excl"]), cfg["type"], hx(cfg["plat"]), "1" if cfg["all"] else "0"])


def cfg_json(cfg):
    return {k: v for k, v in cfg.items() if k != "pat_meaning"}


def graphspec(g):
    return ",".join(dot(str(d) for d in ds) if ds else "-" for ds in g)


def idxs(s):
    return [int(x) for x in s.split(",")] if s else []


# ------------------------------------------------------------------ reference semantics (property text)
def ref_label_matches(meaning, nd):
    prefix, target, rec = meaning
    if rec:
        pkg_ok = prefix == "" or nd["pkg"] == prefix or nd["pkg"].startswith(prefix + "/")
    else:
        pkg_ok = nd["pkg"] == prefix
    return pkg_ok and (target in ("", "all", "...") or nd["name"] == target)


def ref_pattern_ok(cfg, nd):
    if not cfg["pat_meaning"]:
        return True        # no pattern: everything (ParsePatternsOrMatchAll)
    return any(ref_label_matches(m(cfg["cur"]), nd) for _, m in cfg["pat_meaning"])


def ref_type_ok(ty, nd):
    return {"test": is_test_name(nd["name"]), "no_test": not is_test_name(nd["name"]),
            "bin_output": nd["bin"], "all": True}[ty]


def ref_platform_ok(cfg, nd):
    return nd["kind"] == "a" or cfg["all"] or not nd["plats"] or cfg["plat"] in nd["plats"]


def ref_target_filters(cfg, nd):
    """tag, exclude-tag and type filters of a TARGET"""
    return (ref_type_ok(cfg["type"], nd) and (not cfg["tags"] or any(t in nd["tags"] for t in cfg["tags"]))
            and not any(t in nd["tags"] for t in cfg["excl"]))


def closure(nodes, roots):
    seen, todo = set(roots), list(roots)
    while todo:
        i = todo.pop()
        for d in nodes[i]["deps"]:
            if d not in seen:
                seen.add(d); todo.append(d)
    return seen


def strict_ancestors(nodes, i):
    return closure(nodes, nodes[i]["deps"])


def ref_roots(nodes, cfg):
    """C12: the pattern names the node; the filters are those of the target the node stands for.
    Returns (roots, matched aliases standing for a target that fails the filters).  The second list is what
    the code selected in addition before the repair of C12-F1 (class guard of that finding)."""
    roots, bypass = [], []
    for i, nd in enumerate(nodes):
        if not ref_pattern_ok(cfg, nd):
            continue
        t = nodes[resolve(nodes, i)]
        ok = t["kind"] == "t" and ref_target_filters(cfg, t) and ref_platform_ok(cfg, t)
        if ok:
            roots.append(i)
        elif nd["kind"] == "a":
            bypass.append(i)
    return roots, bypass


def ref_select(nodes, cfg, roots):
    """('sel', set) or ('platform-error',): closure of the roots; error iff a root has a
    platform-incompatible transitive dependency."""
    sel = closure(nodes, roots)
    for r0 in roots:
        if any(not ref_platform_ok(cfg, nodes[a]) for a in strict_ancestors(nodes, r0)):
            return ("platform-error",)
    return ("sel", sel)


def dependants_of(nodes, i):
    return [j for j, nd in enumerate(nodes) if i in nd["deps"]]


def ref_rdeps(nodes, i):
    seen, todo = set(), [i]
    while todo:
        k = todo.pop()
        for j in dependants_of(nodes, k):
            if j not in seen:
                seen.add(j); todo.append(j)
    return seen


def ref_query_filter(cfg, nodes, i):
    """(passes, is_alias_bypass): a printed node must pass the tag/exclude/type/platform filters;
    an alias stands for its target (is_alias_bypass: an alias the code printed before the repair of C20-F2)."""
    nd = nodes[i]
    t = nodes[resolve(nodes, i)]
    ok = t["kind"] == "t" and ref_target_filters(cfg, t) and ref_platform_ok(cfg, t)
    return ok, (nd["kind"] == "a" and not ok)


# ------------------------------------------------------------------ graph families (C19)
def ladder(w, d):
    g = []
    for l in range(d + 1):
        for _ in range(w):
            g.append([] if l == 0 else list(range((l - 1) * w, l * w)))
    return g


def chain(n):
    return [[] if i == 0 else [i - 1] for i in range(n)]


def dense(n):
    """every node depends on every earlier node"""
    return [list(range(i)) for i in range(n)]


def dense_k(n, k):
    """every node depends on the k previous nodes"""
    return [list(range(max(0, i - k), i)) for i in range(n)]


# ------------------------------------------------------------------ BUILD.json rendering
def respell(k, f):
    """a non-canonical spelling of the package-relative input path f that resolves to the same file"""
    d, _, b = f.rpartition("/")
    forms = ["./" + f, "zz/../" + f, (d + "//" + b) if d else ("." + "//" + f), (d + "/./" + b) if d else "./././" + f, f]
    return forms[k % len(forms)]


def respell_arg(k, a):
    """a non-canonical spelling of the command line path a (relative to the current directory) naming the same file: ./a, a doubled
    slash, a detour through a directory that does not exist (filepath.Abs is lexical), a "." element"""
    d, _, b = a.rpartition("/")
    forms = ["./" + a, (d + "//" + b) if d else (".//" + a), (d + "/x/../" + b) if d else ("x/../" + a),
             (d + "/./" + b) if d else ("././" + a), a]
    return forms[k % len(forms)]


def stays_inside(p):
    """Select.stays_inside: relative and Clean leaves no leading '..' (the guard of C20_owners_abs_is_owners_partial)"""
    n = os.path.normpath(p) if p else "."
    return not p.startswith("/") and n != ".." and not n.startswith("../")


def render_workspace(nodes, ws, trace=None, r=None, file_contents=None):
    """One BUILD.json per package; every command appends its label to the trace file.  Literal inputs are written exactly as the node
    spells them (nd["spelled"], default nd["inputs"]): the same strings the model line carries (enc_nodes); the files are created at
    the canonical paths nd["inputs"], which is what the Python references and the rebuild prediction use."""
    by_pkg = {}
    for nd in nodes:
        by_pkg.setdefault(nd["pkg"], []).append(nd)
    # declared outputs (a function of the graph, not of the random stream, so that model lines and references do not move): one
    # target in three gets a directory output of its own; a target and a direct or second-level dependency (through targets
    # only) in the same package declare the SAME file output -- legal, they are ordered -- which makes the output-conflict
    # analysis walk their ancestor sets before any query or build looks at the graph
    extra = {}
    for i, nd in enumerate(nodes):
        if nd["kind"] == "a":
            continue
        if i % 3 == 0:
            extra.setdefault(i, []).append("dir::dd_%s" % nd["name"])
        seen = []
        for d in nd["deps"]:
            if nodes[d]["kind"] != "a":
                seen.append(d)
                seen += [e for e in nodes[d]["deps"] if nodes[e]["kind"] != "a"]
        for d in seen:
            if d != i and nodes[d]["pkg"] == nd["pkg"] and (i + d) % 2 == 0:
                name = "shared_%s_%s.txt" % (nodes[d]["name"], nd["name"])
                extra.setdefault(i, []).append(name)
                extra.setdefault(d, []).append(name)
                break
    idx_of = {id(nd): i for i, nd in enumerate(nodes)}
    for p in PKGS:
        os.makedirs(os.path.join(ws, p), exist_ok=True)
    for pkg, nds in by_pkg.items():
        if r is not None:
            nds = r.shuffle(nds)
        targets, aliases = [], []
        # package-level default_platforms (a function of the graph): the platforms of the package's first restricted target; a
        # target with exactly those platforms inherits them every other time, EVERY other target spells its own list -- an
        # unrestricted one as the explicit empty list, which must not fall back to the default
        own = [nodes[i] for i in sorted(idx_of[id(x)] for x in nds) if nodes[i]["kind"] != "a" and nodes[i]["plats"]]
        default_plats = list(own[0]["plats"]) if own else None
        for nd in nds:
            if nd["kind"] == "a":
                aliases.append({"name": nd["name"], "actual": label_of(nodes[nd["deps"][0]])})
                continue
            cmd = "true"
            if trace:
                cmd = 'echo "%s" >> "%s"' % (label_of(nd), trace)
            outs = extra.get(idx_of[id(nd)], [])
            if outs:
                cmd = "; ".join([("mkdir -p %s" % o[5:]) if o.startswith("dir::") else ("touch %s" % o) for o in outs] + [cmd])
            t = {"name": nd["name"], "command": cmd}
            if outs:
                t["outputs"] = outs
            if nd["deps"]:
                t["dependencies"] = [label_of(nodes[d]) for d in nd["deps"]]
            if nd["tags"]:
                t["tags"] = nd["tags"]
            if default_plats is None:
                if nd["plats"]:
                    t["platforms"] = nd["plats"]
            elif not (list(nd["plats"]) == default_plats and idx_of[id(nd)] % 2 == 0):
                t["platforms"] = list(nd["plats"])
            if nd["bin"]:
                t["bin_output"] = "bin_%s" % nd["name"]
            if nd["inputs"]:
                t["inputs"] = list(spelled_inputs(nd))
            targets.append(t)
        with open(os.path.join(ws, pkg, "BUILD.json"), "w") as f:
            doc = {"targets": targets, "aliases": aliases}
            if default_plats is not None:
                doc["default_platforms"] = default_plats
            json.dump(doc, f, indent=1)
    for nd in nodes:
        for inp in nd["inputs"]:
            path = os.path.join(ws, nd["pkg"], inp)
            os.makedirs(os.path.dirname(path), exist_ok=True)
            if not os.path.lexists(path):
                real = path
                if sum(map(ord, inp)) % 3 == 0:
                    # one input in three is a symbolic link to a file that is nobody's input: the input is the LINK's path
                    real = path + ".real"
                    os.symlink(os.path.basename(real), path)
                with open(real, "w") as f:
                    f.write((file_contents or {}).get(path, "v0\n"))
    with open(os.path.join(ws, "grog.toml"), "w") as f:
        f.write("")


def grog_env(root):
    env = dict(os.environ, GROG_ROOT=root, HOME=vlib.scratch())
    env.pop("CI", None)
    return env


def cli_flags(cfg):
    fl = []
    for t in cfg["tags"]:
        fl.append("--tag=" + t)
    for t in cfg["excl"]:
        fl.append("--exclude-tag=" + t)
    if cfg["all"]:
        fl.append("--all-platforms")
    else:
        fl.append("--platform=" + cfg["plat"])
    return fl
