"""C12 -- selection = pattern matches + dependency closure.
Tie 1 (in-process): selection.SelectTargetsForBuild / SelectTargets on real model.Target /
model.Alias nodes and the real dag graph vs Select.select_for_build / select_targets.
Tie 2 (CLI): `grog build|test <flags> <patterns>` on rendered BUILD.json workspaces with a clean
cache; every command appends its label to a trace file.
Oracle (on the implementation's answer): closure by BFS of the roots the property text defines (a node
matched by the pattern whose target -- an alias stands for the target it resolves to -- passes the tag /
exclude-tag / type / platform filters).  Since the repair of C12-F1 the model follows the same rule
(C12_roots_are_spec_roots), so implementation, model and oracle must agree on every case."""
import json, os, re
from concurrent.futures import ThreadPoolExecutor
import vlib
import selectlib as sl

ALIAS_CLASS = "alias-root-bypasses-filters"


def parse_sel(ans):
    f = ans.split("\t")
    if f[0] == "sel":
        return ("sel", set(sl.idxs(f[1])), int(f[2]), int(f[3]))
    return (f[0],)


def judge(nodes, cfg, got, findings):
    """got = ('sel', set, count, skipped) | ('platform-error',).  Returns (verdict, text, extra):
    verdict in ok | known | violation."""
    roots, bypass = sl.ref_roots(nodes, cfg)
    want = sl.ref_select(nodes, cfg, roots)
    if got[0] not in ("sel", "platform-error"):
        return "violation", "selection failed with %s" % (got[0],), {}
    if got[0] == "sel":
        # closed under dependencies (what C04 relies on), whatever the roots are
        for n in got[1]:
            for d in nodes[n]["deps"]:
                if d not in got[1]:
                    return "violation", "selected %s but not its dependency %s" % (
                        sl.label_of(nodes[n]), sl.label_of(nodes[d])), {}
    def targets(x):
        # the property speaks about the targets whose commands run; alias nodes have no command
        return {i for i in x if nodes[i]["kind"] == "t"}
    # the whole node set (aliases are nodes of the closure), not only the targets
    same = (got[0] == want[0]) and (got[0] != "sel" or got[1] == want[1])
    if same:
        if got[0] == "sel":
            ntargets = sum(1 for i in got[1] if nodes[i]["kind"] == "t")
            if got[2] != ntargets:
                return "violation", "'Selected N targets' says %d, %d targets are selected" % (got[2], ntargets), {}
        return "ok", "", {}
    # guard of the known finding, evaluated on this input: the code's answer is what the closure
    # gives when the matched aliases that stand for a filtered-out target are roots as well
    if bypass:
        code_rule = sl.ref_select(nodes, cfg, roots + bypass)
        if (got[0] == code_rule[0]) and (got[0] != "sel" or targets(got[1]) == targets(code_rule[1])):
            f = findings.get(ALIAS_CLASS)
            al = nodes[bypass[0]]
            tgt = nodes[sl.resolve(nodes, bypass[0])]
            if got[0] == "sel":
                extra = sorted(sl.label_of(nodes[i]) for i in got[1] - want[1] if nodes[i]["kind"] == "t")
                text = "class=%s alias %s matches the pattern and pulls in %s, which fails the %s filters; extra targets built: %s" % (
                    ALIAS_CLASS, sl.label_of(al), sl.label_of(tgt), filt_desc(cfg), ",".join(extra) or "(only aliases)")
            else:
                text = "class=%s alias %s matches the pattern; its target %s is filtered out by platform/filters (%s) but the alias " \
                       "makes the whole selection fail with the platform error" % (ALIAS_CLASS, sl.label_of(al), sl.label_of(tgt), filt_desc(cfg))
            if f:
                return "known", text, {"id": f["id"]}
            return "violation", text, {}
    def show(x):
        return x[0] if x[0] != "sel" else sorted(sl.label_of(nodes[i]) for i in x[1])
    return "violation", "selection is %s, the pattern/filter matches plus their dependency closure are %s" % (show(got), show(want)), {}


def filt_desc(cfg):
    return "type=%s tags=%s exclude=%s platform=%s%s" % (cfg["type"], cfg["tags"], cfg["excl"], cfg["plat"],
                                                         " all-platforms" if cfg["all"] else "")


def case_json(nodes, cfg):
    return {"nodes": nodes, "cfg": sl.cfg_json(cfg)}


def rebuild_cfg(nodes, cj):
    """re-attach the pattern meanings to a replayed configuration"""
    r = vlib.Rng(0)
    menu = dict(sl.pattern_menu(nodes, r))
    cfg = dict(cj)
    pm = []
    for p in cfg["pats"]:
        if p in menu:
            pm.append((p, menu[p]))
        else:
            m = re.match(r"^//([^:]*):(.+)$", p)
            pm.append((p, (lambda a, b: (lambda cur: (a, b, False)))(m.group(1), m.group(2))))
    cfg["pat_meaning"] = pm
    return cfg


def gen_cases(r, tier):
    nworlds = 450 if tier == "quick" else 6000
    cases = []
    for wi in range(nworlds):
        nodes = sl.gen_world(r, nmax=11 if wi % 7 else 14)
        for _ in range(7):
            cases.append((nodes, sl.gen_cfg(r, nodes)))
    return cases


def corpus_cases():
    d = os.path.join(vlib.VERIF, "corpus", "C12")
    res = []
    if os.path.isdir(d):
        for fn in sorted(os.listdir(d)):
            if fn.endswith(".json"):
                rp = json.load(open(os.path.join(d, fn)))
                rp = rp.get("replay", rp)
                if "nodes" in rp and "cfg" in rp:
                    res.append((rp["nodes"], rebuild_cfg(rp["nodes"], rp["cfg"])))
    return res


def inprocess(out, cases, findings, stats):
    lines = []
    for nodes, cfg in cases:
        en, ec = sl.enc_nodes(nodes), sl.enc_cfg(cfg)
        lines.append("select\t%s\t%s" % (en, ec))
        lines.append("list\t%s\t%s" % (en, ec))
    drv = vlib.build_driver("select")
    rc, model, err = vlib.run_lines(drv, lines)
    if rc != 0 or len(model) != len(lines):
        raise RuntimeError("select model driver failed rc=%s %d/%d %s" % (rc, len(model), len(lines), err[-400:]))
    # model self-check: the code's selection is the traversal from the roots of the property's reading (C12_selection_equals_spec_selection)
    _, spec, _ = vlib.run_lines(drv, ["selectspec\t%s\t%s" % (sl.enc_nodes(nd), sl.enc_cfg(cf)) for nd, cf in cases])
    bad = [k for k in range(len(cases)) if len(spec) != len(cases) or model[2 * k].split("\t")[:3] != spec[k].split("\t")[:3]]
    stats["model_selfcheck_failed"] = len(bad)
    if bad:
        k = bad[0]
        out.violation("model: Select.select_for_build gives %s, Select.select_for_build_spec %s (contradicts C12_selection_equals_spec_selection)" % (
            model[2 * k], spec[k] if k < len(spec) else "<missing>"),
            dict(case_json(*cases[k]), theorem="C12_selection_equals_spec_selection"), no_input=True)
    try:
        h = vlib.build_harness("select")
    except vlib.HarnessUnavailable as e:
        out.notes.append("inprocess_tie: unavailable (%s)" % str(e)[-500:])
        return None, model
    rc, impl, err = vlib.run_lines(h, lines)
    if rc != 0 or len(impl) != len(lines):
        i = len(impl) // 2
        out.violation("select harness crashed or truncated its output (rc=%s, %d/%d lines): %s" % (rc, len(impl), len(lines), err[-300:]),
                      dict(case_json(*cases[min(i, len(cases) - 1)]), stderr=err[-1500:]))
        impl = impl + ["<missing>"] * (len(lines) - len(impl))
    mism = []
    nontriv = set()
    viol = 0
    for k, (nodes, cfg) in enumerate(cases):
        a_sel, a_list = impl[2 * k], impl[2 * k + 1]
        got = parse_sel(a_sel)
        byp = set(sl.ref_roots(nodes, cfg)[1])
        if byp:    # inputs on which the rule for aliases matters (C12-F1): a matched alias stands for a target that fails the filters
            stats["inputs_with_filtered_alias"] = stats.get("inputs_with_filtered_alias", 0) + 1
        if a_sel != model[2 * k] or a_list != model[2 * k + 1]:
            # a listed finding of the alias class explains a difference on an input that has a matched alias whose
            # target fails the filters (only relevant on a tree without the repair of C12-F1)
            if not (byp and findings.get(ALIAS_CLASS)):
                mism.append(k)
        verdict, text, extra = judge(nodes, cfg, got, findings)
        stats[got[0]] = stats.get(got[0], 0) + 1
        if got[0] == "sel" and 0 < len(got[1]) < len(nodes):
            nontriv.add(lines[2 * k])
        elif got[0] == "platform-error":
            nontriv.add(lines[2 * k])
        if verdict == "known":
            stats["known"] = stats.get("known", 0) + 1
            out.known(extra["id"], text + "  [graph: %s]" % json.dumps(case_json(nodes, cfg))[:600])
        elif verdict == "violation" and viol < 3:
            viol += 1
            out.violation(text, dict(case_json(nodes, cfg), impl=a_sel, model=model[2 * k], tie="in-process"))
        # list = pattern and filter matches, no closure (SelectTargets); an alias is filtered like the target it stands for
        want_l = {i for i, nd in enumerate(nodes) if sl.ref_pattern_ok(cfg, nd) and sl.ref_query_filter(cfg, nodes, i)[0]}
        gl = a_list.split("\t")
        got_l = set(sl.idxs(gl[1])) if gl[0] == "list" and len(gl) > 1 else set()
        if gl[0] != "list" or got_l != want_l:
            f = findings.get(ALIAS_CLASS)
            if gl[0] == "list" and f and want_l <= got_l and (got_l - want_l) <= byp:
                out.known(f["id"], "class=%s query selection (list) marks alias %s although the target it stands for is filtered out (%s)" % (
                    ALIAS_CLASS, sl.label_of(nodes[sorted(got_l - want_l)[0]]), filt_desc(cfg)))
            elif viol < 3:
                viol += 1
                out.violation("query selection (list) marks %s, the pattern matches whose target passes the filters are %s" % (
                    sorted(sl.label_of(nodes[i]) for i in got_l), sorted(sl.label_of(nodes[i]) for i in want_l)),
                    dict(case_json(nodes, cfg), impl=a_list, model=model[2 * k + 1], tie="in-process", cmd="list"))
    if mism and not out.violations:
        k = mism[0]
        nodes, cfg = cases[k]
        out.violation("correspondence Select.select_for_build/select_targets ~ selection.SelectTargetsForBuild/SelectTargets broke on %d "
                      "cases: impl=%s / %s model=%s / %s; no oracle of C12 fails" % (
                          len(mism), impl[2 * k], impl[2 * k + 1], model[2 * k], model[2 * k + 1]),
                      dict(case_json(nodes, cfg), correspondence="Select.v vs internal/selection", impl=[impl[2 * k], impl[2 * k + 1]],
                           model=[model[2 * k], model[2 * k + 1]], mismatching_cases=len(mism)), no_input=True)
    stats["correspondence_mismatches"] = len(mism)
    stats["distinct_nontrivial"] = len(nontriv)
    return impl, model


def run_e2e_case(grog, base, k, nodes, cfg, cmd):
    ws = os.path.join(base, "ws%d" % k)
    trace = os.path.join(base, "trace%d.txt" % k)
    sl.render_workspace(nodes, ws, trace=trace)
    env = sl.grog_env(os.path.join(base, "root%d" % k))
    args = [grog, cmd] + sl.cli_flags(cfg) + cfg["pats"]
    p = vlib.run(args, cwd=os.path.join(ws, cfg["cur"]), env=env, timeout=120)
    tr = []
    if os.path.exists(trace):
        tr = [l.strip() for l in open(trace) if l.strip()]
    return {"args": args[1:], "exit": p.returncode, "out": (p.stdout + p.stderr), "trace": tr}


def e2e(out, r, tier, findings, stats):
    try:
        grog = vlib.build_grog()
    except vlib.HarnessUnavailable as e:
        out.notes.append("cli_tie: unavailable (%s)" % str(e)[-300:])
        return {"available": False}
    n = 48 if tier == "quick" else 400
    cases = []
    # the former refutation witnesses first (C12_alias_root_filtered, C12_alias_followed_as_dependency, C12_alias_platform_skipped)
    wit = [{"kind": "t", "pkg": "", "name": "plain", "tags": [], "plats": [], "bin": False, "deps": [], "inputs": []},
           {"kind": "a", "pkg": "", "name": "al", "tags": [], "plats": [], "bin": False, "deps": [0], "inputs": []},
           {"kind": "t", "pkg": "", "name": "tagged", "tags": ["x"], "plats": [], "bin": False, "deps": [], "inputs": []}]
    wcfg = {"cur": "", "pats": ["//..."], "tags": ["x"], "excl": [], "type": "no_test", "plat": "linux/amd64", "all": False}
    cases.append((wit, rebuild_cfg(wit, wcfg), "build"))
    wit_dep = [dict(nd) for nd in wit]
    wit_dep[2]["deps"] = [1]
    cases.append((wit_dep, rebuild_cfg(wit_dep, wcfg), "build"))
    wit_plat = [dict(wit[2], tags=[], plats=["windows/amd64"]), dict(wit[1]), dict(wit[0])]
    cases.append((wit_plat, rebuild_cfg(wit_plat, dict(wcfg, tags=[])), "build"))
    while len(cases) < n:
        nodes = sl.gen_world(r, nmax=9, constraints=True, bins=False)
        cmd = r.choice(["build", "build", "test"])
        for _ in range(6):   # prefer invocations that select something
            cfg = sl.gen_cfg(r, nodes, kinds=("test",) if cmd == "test" else ("no_test",))
            if sl.ref_roots(nodes, cfg)[0]:
                break
        cases.append((nodes, cfg, cmd))
    base = os.path.join(vlib.scratch(), "c12e2e")
    os.makedirs(base, exist_ok=True)
    drv = vlib.build_driver("select")
    _, model, _ = vlib.run_lines(drv, ["select\t%s\t%s" % (sl.enc_nodes(nd), sl.enc_cfg(cf)) for nd, cf, _ in cases])
    with ThreadPoolExecutor(max_workers=32) as ex:
        results = list(ex.map(lambda a: run_e2e_case(grog, base, a[0], a[1][0], a[1][1], a[1][2]), enumerate(cases)))
    bad = 0
    kinds = {"built": 0, "platform-error": 0, "nothing-selected": 0, "known": 0}
    for (nodes, cfg, cmd), res, m in zip(cases, results, model):
        lab = {sl.label_of(nd): i for i, nd in enumerate(nodes)}
        o = res["out"]
        rp = dict(case_json(nodes, cfg), cmd="grog " + " ".join(res["args"]), cwd_package=cfg["cur"], exit=res["exit"],
                  trace=res["trace"], output_tail=o[-600:], model=m, tie="cli")
        if "does not match the platform" in o and res["exit"] != 0:
            got = ("platform-error",)
        elif "could not find any targets" in o and res["exit"] != 0:
            got = ("sel", set(), 0, 0)
        elif res["exit"] == 0:
            mm = re.search(r"Selected (\d+) targets?", o)
            executed = [lab[l] for l in res["trace"] if l in lab]
            if len(executed) != len(set(executed)):
                out.violation("a target's command ran more than once in one build: %s" % res["trace"], rp)
                bad += 1
                continue
            # aliases have no command: the executed set is the selection restricted to targets
            got = ("sel-targets", set(executed), int(mm.group(1)) if mm else -1)
        else:
            out.violation("grog %s failed unexpectedly (exit %d): %s" % (cmd, res["exit"], o[-300:]), rp)
            bad += 1
            continue
        # oracle on the observed behaviour
        roots, bypass = sl.ref_roots(nodes, cfg)
        want = sl.ref_select(nodes, cfg, roots)

        def proj(x):
            if x[0] == "platform-error":
                return ("platform-error",)
            return ("targets", frozenset(i for i in x[1] if nodes[i]["kind"] == "t"))
        g = ("targets", frozenset(got[1])) if got[0] in ("sel-targets", "sel") else ("platform-error",)
        if got[0] == "sel-targets" and got[2] != len(got[1]):
            out.violation("'Selected %d targets' but %d commands ran on a clean cache" % (got[2], len(got[1])), rp)
            bad += 1
            continue
        explained = False
        if g == proj(want):
            kinds["platform-error" if g[0] == "platform-error" else ("built" if g[1] else "nothing-selected")] += 1
        else:
            code_rule = sl.ref_select(nodes, cfg, roots + bypass)
            f = findings.get(ALIAS_CLASS)
            if bypass and g == proj(code_rule) and f:
                kinds["known"] += 1
                explained = True      # a listed finding (tree without the repair of C12-F1): the model follows the repaired rule
                al, tg = nodes[bypass[0]], nodes[sl.resolve(nodes, bypass[0])]
                if g[0] == "targets":
                    extra = sorted(sl.label_of(nodes[i]) for i in g[1] - proj(want)[1]) if want[0] == "sel" else sorted(res["trace"])
                    text = ("class=%s `grog %s` (cwd //%s): alias %s matches the pattern, its target %s fails the filters (%s); "
                            "commands that ran although no pattern/filter match depends on them: %s" % (
                                ALIAS_CLASS, " ".join(res["args"]), cfg["cur"], sl.label_of(al), sl.label_of(tg), filt_desc(cfg), ",".join(extra)))
                    if nodes is wit:
                        out.known_hit[f["id"]] = text      # the witness of C12_selection_is_closure_refuted on the real binary
                    else:
                        out.known(f["id"], text)
                else:
                    out.known(f["id"], "class=%s `grog %s`: alias %s -> %s (filtered out: %s) turns the build into a platform error" % (
                        ALIAS_CLASS, " ".join(res["args"]), sl.label_of(al), sl.label_of(tg), filt_desc(cfg)))
            else:
                bad += 1
                out.violation("`grog %s` in //%s executed %s; pattern/filter matches plus dependency closure: %s" % (
                    " ".join(res["args"]), cfg["cur"], sorted(res["trace"]) if g[0] == "targets" else "platform error",
                    sorted(sl.label_of(nodes[i]) for i in proj(want)[1]) if want[0] == "sel" else "platform error"), rp)
                continue
        # the model predicts the same behaviour
        def mproj(line):
            f = line.split("\t")
            return ("platform-error",) if f[0] == "platform-error" else ("targets", frozenset(i for i in sl.idxs(f[1]) if nodes[i]["kind"] == "t"))
        pmj = mproj(m)
        if pmj != g and not explained and not out.violations:
            out.violation("correspondence Select.select_for_build ~ grog %s broke: model %s, executed %s" % (cmd, m, res["trace"]),
                          dict(rp, correspondence="Select.v vs grog build/test trace"), no_input=True)
    stats["e2e"] = kinds
    return {"available": True, "cases": len(cases), "disagreements": bad, "outcomes": kinds}


def run(out, tier):
    r = vlib.Rng(vlib.seed())
    findings = {f["class"]: f for f in vlib.known_findings("C12")}
    stats = {}
    cases = corpus_cases() + gen_cases(r, tier)
    impl, model = inprocess(out, cases, findings, stats)
    cli = e2e(out, r, tier, findings, stats)
    samples = []
    for k in (0, len(cases) // 2, len(cases) - 1):
        nodes, cfg = cases[k]
        samples.append({"case": case_json(nodes, cfg), "impl": (impl or model)[2 * k], "model": model[2 * k]})
    out.cov.update({
        "evaluations": 2 * len(cases) + (cli.get("cases", 0) if cli.get("available") else 0),
        "distinct_nontrivial": stats.get("distinct_nontrivial", 0),
        "rule": "random DAGs of 1-14 nodes in packages {'', a, a/b, ab} with aliases (incl. alias->alias chains), tags, platforms, "
                "bin outputs, duplicate dependency entries x 7 configurations each (0-3 patterns out of absolute/relative/recursive/"
                ":all/shorthand/exact/no-match, current package, tags, exclude tags, type test|no_test|bin_output|all, host platform, "
                "all_platforms); non-trivial = a proper non-empty subset of the nodes is selected or the platform error is raised; "
                "distinct = distinct (graph, configuration) lines",
        "samples": samples,
        "traces_validated_against_impl": (2 * len(cases) if impl is not None else 0) + (cli.get("cases", 0) if cli.get("available") else 0),
        "input_distribution": stats,
        "inprocess_tie": impl is not None,
        "cli_tie": cli,
    })
    out.assumptions += [
        "graphs are acyclic (analysis.BuildGraph rejects cycles before selection) and presented to the model in a topological numbering",
        "an alias has exactly one dependency, its `actual`",
        "reading of the property for roots: a pattern names nodes; the tag/exclude-tag/type/platform filters are those of the target the "
        "node stands for (an alias stands for the target it resolves to)",
        "e2e workspaces satisfy analysis.CheckTargetConstraints (no non-test target depends on a test target)"]


def replay(out, path):
    rp = json.load(open(path))["replay"]
    if "nodes" not in rp:
        print("nothing to replay in", path)
        return
    nodes, cfg = rp["nodes"], rebuild_cfg(rp["nodes"], rp["cfg"])
    findings = {f["class"]: f for f in vlib.known_findings("C12")}
    line = "select\t%s\t%s" % (sl.enc_nodes(nodes), sl.enc_cfg(cfg))
    _, model, _ = vlib.run_lines(vlib.build_driver("select"), [line])
    print("model:", model[0])
    if rp.get("tie") == "cli":
        base = os.path.join(vlib.scratch(), "c12replay")
        os.makedirs(base, exist_ok=True)
        cmd = rp["cmd"].split()[1]
        res = run_e2e_case(vlib.build_grog(), base, 0, nodes, cfg, cmd)
        print("grog", " ".join(res["args"]), "-> exit", res["exit"], "trace", res["trace"])
        print(res["out"][-800:])
    _, impl, _ = vlib.run_lines(vlib.build_harness("select"), [line])
    print("impl :", impl[0])
    verdict, text, extra = judge(nodes, cfg, parse_sel(impl[0]), findings)
    print("oracle:", verdict, text)
    if verdict == "violation":
        out.violation("replay: " + text, rp)
    elif verdict == "known":
        out.known(extra["id"], text)
    elif impl[0] != model[0]:
        out.violation("replay: implementation and model still differ: %s vs %s" % (impl[0], model[0]), rp, no_input=True)
