"""Shared machinery for ./check: building the Coq development, the extracted model driver,
the Go harnesses (overlay-injected into module grog) and the grog binary from /repo's current
working tree; proof-obligation accounting; known findings; evidence and replay files."""
import atexit, hashlib, json, os, re, shutil, subprocess, sys, tempfile, time

VERIF = os.path.dirname(os.path.dirname(os.path.abspath(__file__)))
REPO = os.environ.get("VERIF_REPO", "/repo")
# evidence/ and replays/ are written under OUT (default /verif); runs against a seeded change in a scratch
# worktree (VERIF_REPO=...) set VERIF_OUT so that the committed evidence is never overwritten by them
OUT = os.environ.get("VERIF_OUT", VERIF)
COQ = os.path.join(VERIF, "coq")
OCAML = os.path.join(VERIF, "ocaml")
HARNESS = os.path.join(VERIF, "harness", "go")
GOENV = dict(os.environ, GOFLAGS="-mod=mod", GOPROXY="off")
GOENV.pop("GOTOOLCHAIN", None)
GOENV.pop("GOSUMDB", None)

T0 = time.time()
_scratch = None


def log(*a):
    print("[check]", *a, file=sys.stderr, flush=True)


def scratch():
    """One scratch directory per run, outside /repo and /verif, removed on exit."""
    global _scratch
    if _scratch is None:
        _scratch = tempfile.mkdtemp(prefix="grogverif-")
        atexit.register(lambda: shutil.rmtree(_scratch, ignore_errors=True))
    return _scratch


def run(cmd, timeout=600, cwd=None, env=None, input=None, check=False):
    p = subprocess.run(cmd, cwd=cwd, env=env, input=input, stdout=subprocess.PIPE,
                       stderr=subprocess.PIPE, timeout=timeout, text=isinstance(input, str) or input is None)
    if check and p.returncode != 0:
        raise RuntimeError("command failed: %s\n%s\n%s" % (cmd, p.stdout[-2000:], p.stderr[-4000:]))
    return p


# ------------------------------------------------------------------ PRNG (splitmix64)
class Rng:
    def __init__(self, seed):
        self.s = seed & 0xFFFFFFFFFFFFFFFF

    def next(self):
        self.s = (self.s + 0x9E3779B97F4A7C15) & 0xFFFFFFFFFFFFFFFF
        z = self.s
        z = ((z ^ (z >> 30)) * 0xBF58476D1CE4E5B9) & 0xFFFFFFFFFFFFFFFF
        z = ((z ^ (z >> 27)) * 0x94D049BB133111EB) & 0xFFFFFFFFFFFFFFFF
        return z ^ (z >> 31)

    def below(self, n):
        return self.next() % n if n > 0 else 0

    def choice(self, xs):
        return xs[self.below(len(xs))]

    def chance(self, num, den):
        return self.below(den) < num

    def shuffle(self, xs):
        xs = list(xs)
        for i in range(len(xs) - 1, 0, -1):
            j = self.below(i + 1)
            xs[i], xs[j] = xs[j], xs[i]
        return xs

    def sample(self, xs, k):
        return self.shuffle(xs)[:k]


def seed():
    try:
        return int(os.environ.get("VERIF_SEED", "1"))
    except ValueError:
        return 1


# ------------------------------------------------------------------ wire encoding
def hx(s):
    if isinstance(s, str):
        s = s.encode("utf-8", "surrogateescape")
    return s.hex() if s else "-"


def unhx(h):
    return b"" if h == "-" else bytes.fromhex(h)


def unhxs(h):
    return unhx(h).decode("latin-1")


# ------------------------------------------------------------------ Coq
FORBIDDEN = re.compile(
    r"\b(Admitted|admit|Axiom|Axioms|Parameter|Parameters|Conjecture|Conjectures|Admit Obligations|"
    r"Unset Guard Checking|Unset Positivity Checking|Unset Universe Checking|bypass_check|"
    r"type-in-type|impredicative-set)\b")
VAR_OUTSIDE = re.compile(r"^\s*(Variable|Variables|Hypothesis|Hypotheses|Context)\b")


def strip_comments(src):
    out, depth, i = [], 0, 0
    while i < len(src):
        if src.startswith("(*", i):
            depth += 1
            i += 2
        elif src.startswith("*)", i) and depth > 0:
            depth -= 1
            i += 2
        else:
            if depth == 0:
                out.append(src[i])
            elif src[i] == "\n":
                out.append("\n")
            i += 1
    return "".join(out)


def forbidden_scan():
    """Fail closed on any forbidden declaration or switch anywhere in the development."""
    bad = []
    listed = [l.strip() for l in open(os.path.join(COQ, "_CoqProject")) if l.strip().endswith(".v")]
    listed += ["extract/" + f for f in sorted(os.listdir(os.path.join(COQ, "extract"))) if f.endswith(".v")]
    # every .v file of the development must be listed in _CoqProject (files still being written
    # live outside it and are not part of any claim)
    for rel in listed:
            sub, fn = os.path.split(rel)
            src = strip_comments(open(os.path.join(COQ, rel)).read())
            depth = 0
            for ln, line in enumerate(src.split("\n"), 1):
                m = FORBIDDEN.search(line)
                if m:
                    bad.append("%s/%s:%d: %s" % (sub, fn, ln, m.group(0)))
                if re.match(r"^\s*Section\b", line):
                    depth += 1
                elif re.match(r"^\s*End\b", line) and depth > 0:
                    depth -= 1
                elif VAR_OUTSIDE.match(line) and depth == 0:
                    bad.append("%s/%s:%d: %s outside a section" % (sub, fn, ln, line.strip()))
    for fn in ("_CoqProject",):
        src = open(os.path.join(COQ, fn)).read()
        if "type-in-type" in src or "impredicative-set" in src:
            bad.append("_CoqProject: forbidden flag")
    return bad


def coq_make(jobs=16, timeout=3000):
    """Full .vo build (no -vos).  Returns (ok, log)."""
    if not os.path.exists(os.path.join(COQ, "Makefile")) or \
            os.path.getmtime(os.path.join(COQ, "Makefile")) < os.path.getmtime(os.path.join(COQ, "_CoqProject")):
        run(["coq_makefile", "-f", "_CoqProject", "-o", "Makefile"], cwd=COQ, check=True)
    import fcntl
    with open(os.path.join(COQ, ".make.lock"), "w") as lk:
        fcntl.flock(lk, fcntl.LOCK_EX)
        p = run(["make", "-j%d" % jobs], cwd=COQ, timeout=timeout)
    return p.returncode == 0, (p.stdout + p.stderr)


THM_RE = re.compile(r"^\s*(Theorem|Lemma|Example|Corollary)\s+([A-Za-z0-9_']+)", re.M)


# further statement-only files whose theorems belong to a property (same rules as properties/Cxx.v)
EXTRA_PROPERTY_FILES = {
    "C19": ["C19_conflicts", "C19_propagation"],                 # cost of output-conflict detection
    "C05": ["LIFTMIN"], "C13": ["LIFTMIN"], "C14": ["LIFTMIN"],   # the build-level theorems for both load_outputs modes
    "C01": ["SCHED", "KEYFAITH", "C01_glob"], "C02": ["SCHED"], "C15": ["SCHED", "C15_depload"],        # schedule independence of the sequential semantics
    "C09": ["KEYFAITH"],
    "C10": ["C10_use"],                       # the caller's protocol (cmds/build.go): one Unlock; a second release refuted
    "C16": ["C16_loadmerge"],                 # the loader's registration step under W concurrent workers (linearizability)                      # KEYFAITH: C01's guard key_faithful follows from C09's injectivity + structural guards
    # C15_depload: concurrent loading of one dependency's outputs by several dependants (DepLoad.v), tied by tools/c15_depload.py
}


def property_obligations_one(name):
    """Compile properties/<name>.v on its own and match every theorem in it with the
    Print Assumptions block that follows it."""
    path = os.path.join(COQ, "properties", name + ".v")
    src = strip_comments(open(path).read())
    names = [m.group(2) for m in THM_RE.finditer(src)]
    printed = re.findall(r"Print Assumptions\s+([A-Za-z0-9_']+)\s*\.", src)
    # the compiled file goes to a scratch path: concurrent checks (seed sweeps, background runs) never write the same .vo
    vo = os.path.join(scratch(), "props-%d" % os.getpid(), name + ".vo")
    os.makedirs(os.path.dirname(vo), exist_ok=True)
    cmd = ["coqc", "-Q", "theories", "Grog", "-Q", "properties", "GrogProps", "-o", vo, "properties/%s.v" % name]
    t = time.time()
    p = run(cmd, cwd=COQ, timeout=1200)
    out = p.stdout
    blocks = []
    cur = None
    for line in out.split("\n"):
        if line.startswith("Closed under the global context"):
            blocks.append([])
            cur = None
        elif line.startswith("Axioms:"):
            cur = []
            blocks.append(cur)
        elif cur is not None and line and not line.startswith(" ") and ":" in line:
            cur.append(line.split(":")[0].strip())
    res = {"file": "coq/properties/%s.v" % name, "cmd": " ".join(cmd), "ok": p.returncode == 0,
           "theorems": names, "printed": printed, "assumptions": {}, "stderr": p.stderr[-3000:],
           "seconds": round(time.time() - t, 2)}
    for i, n in enumerate(printed):
        res["assumptions"][n] = blocks[i] if i < len(blocks) else None
    return res


def property_obligations(pid):
    """properties/<pid>.v plus the further statement-only files registered for the property."""
    res = property_obligations_one(pid)
    res["files"] = [res["file"]]
    for extra in EXTRA_PROPERTY_FILES.get(pid, []):
        if not os.path.exists(os.path.join(COQ, "properties", extra + ".v")):
            continue
        r2 = property_obligations_one(extra)
        res["files"].append(r2["file"])
        res["cmd"] += " && " + r2["cmd"]
        res["ok"] = res["ok"] and r2["ok"]
        res["theorems"] += [n for n in r2["theorems"] if n not in res["theorems"]]
        res["printed"] += r2["printed"]
        res["assumptions"].update(r2["assumptions"])
        res["stderr"] = (res["stderr"] + r2["stderr"])[-3000:]
        res["seconds"] += r2["seconds"]
    return res


ALLOWED_AXIOMS = set()  # none expected; stdlib axioms would be named here and in DESIGN.md


def obligations_summary(ob):
    names = ob["theorems"]
    discharged, problems = [], []
    for n in names:
        if not ob["ok"]:
            problems.append("%s: property file does not compile" % n)
        elif n not in ob["assumptions"]:
            problems.append("%s: no Print Assumptions" % n)
        elif ob["assumptions"][n] is None:
            problems.append("%s: Print Assumptions produced no output" % n)
        elif any(a not in ALLOWED_AXIOMS for a in ob["assumptions"][n]):
            problems.append("%s: depends on %s" % (n, ob["assumptions"][n]))
        else:
            discharged.append(n)
    return discharged, problems


# ------------------------------------------------------------------ extracted model driver
def newer(src_paths, target):
    if not os.path.exists(target):
        return True
    t = os.path.getmtime(target)
    return any(os.path.getmtime(s) > t for s in src_paths)


def build_driver(name="main"):
    """Extract the model of engine <name> (coq/extract/Extract_<name>.v, coqc run in the receiving
    directory) and build its OCaml driver (ocaml/wire.ml + ocaml/<name>/*.ml)."""
    import fcntl
    gen = os.path.join(OCAML, "gen", name)
    bld = os.path.join(OCAML, "_build", name)
    os.makedirs(gen, exist_ok=True)
    os.makedirs(bld, exist_ok=True)
    with open(os.path.join(OCAML, "_build", ".lock-" + name), "w") as lk:
        fcntl.flock(lk, fcntl.LOCK_EX)
        ex = os.path.join(COQ, "extract", "Extract_%s.v" % name)
        vos = [os.path.join(COQ, "theories", f) for f in os.listdir(os.path.join(COQ, "theories")) if f.endswith(".vo")]
        src_dir = os.path.join(OCAML, name)
        mods = [f for f in sorted(os.listdir(src_dir)) if f.endswith(".ml")]
        if newer(vos + [ex], os.path.join(gen, "model.ml")):
            run(["coqc", "-Q", os.path.join(COQ, "theories"), "Grog", ex], cwd=gen, timeout=900, check=True)
        drv = os.path.join(bld, "driver")
        srcs = [os.path.join(gen, "model.ml"), os.path.join(gen, "model.mli"), os.path.join(OCAML, "wire.ml")] + \
               [os.path.join(src_dir, m) for m in mods]
        if newer(srcs, drv):
            for s in srcs:
                shutil.copy(s, bld)
            order = ["model.mli", "model.ml", "wire.ml"] + [m for m in mods if m != "driver.ml"] + ["driver.ml"]
            run(["ocamlfind", "ocamlopt", "-O3", "-w", "-a", "-package", "unix", "-linkpkg"] + order + ["-o", "driver"],
                cwd=bld, timeout=900, check=True)
    return drv


def run_lines(binary, lines, timeout=1800, args=()):
    """Feed lines to a line-protocol binary; return its output lines."""
    d = scratch()
    inp = os.path.join(d, "in-%d.txt" % (time.time_ns()))
    with open(inp, "w") as f:
        f.write("\n".join(lines))
        f.write("\n")
    with open(inp) as f:
        p = subprocess.run([binary] + list(args), stdin=f, stdout=subprocess.PIPE, stderr=subprocess.PIPE,
                           timeout=timeout, text=True)
    os.unlink(inp)
    out = p.stdout.split("\n")
    if out and out[-1] == "":
        out.pop()
    return p.returncode, out, p.stderr


# ------------------------------------------------------------------ Go side
class HarnessUnavailable(Exception):
    pass


def overlay_for(pkgs):
    """Map files under harness/go/<name>/ to virtual paths /repo/internal/zz_verif_<name>/.
    A file called x_test.go.in_<pkgpath with _ for /> is injected into that existing package."""
    rep = {}
    for name in pkgs:
        d = os.path.join(HARNESS, name)
        for fn in sorted(os.listdir(d)):
            if fn.endswith(".go"):
                rep[os.path.join(REPO, "internal", "zz_verif_" + name, fn)] = os.path.join(d, fn)
    return rep


def write_overlay(rep, extra=None):
    rep = dict(rep)
    if extra:
        rep.update(extra)
    path = os.path.join(scratch(), "overlay-%d.json" % time.time_ns())
    with open(path, "w") as f:
        json.dump({"Replace": rep}, f)
    return path


# harnesses that did not build against the current sources in this process: (name, error).  A check that cannot run its tie must
# not pass quietly on what is left (see `check`): the property is no longer shown to hold for this tree.
HARNESS_FAILURES = []


def build_harness(name, deps=("wire",), extra_overlay=None, race=False):
    ov = write_overlay(overlay_for((name,) + tuple(deps)), extra_overlay)
    out = os.path.join(scratch(), "h_" + name + ("_race" if race else ""))
    cmd = ["go", "build", "-tags", "verif", "-overlay", ov, "-o", out]
    if race:
        cmd.append("-race")
    cmd.append("./internal/zz_verif_" + name)
    p = run(cmd, cwd=REPO, env=GOENV, timeout=1500)
    if p.returncode != 0:
        if not race:      # a missing race-detector runtime is an environment matter; a source-level break also breaks the plain build
            HARNESS_FAILURES.append((name, p.stderr[-1500:]))
        raise HarnessUnavailable(p.stderr[-3000:])
    return out


_grog = None


def build_grog():
    global _grog
    if _grog is None:
        out = os.path.join(scratch(), "grog")
        p = run(["go", "build", "-o", out, "."], cwd=REPO, env=GOENV, timeout=1500)
        if p.returncode != 0:
            HARNESS_FAILURES.append(("grog", p.stderr[-1500:]))
            raise HarnessUnavailable("grog does not build: " + p.stderr[-3000:])
        _grog = out
    return _grog


def repo_state():
    try:
        head = run(["git", "-C", REPO, "rev-parse", "HEAD"]).stdout.strip()
        dirty = run(["git", "-C", REPO, "status", "--porcelain"]).stdout.strip()
        return {"head": head, "dirty_files": len(dirty.split("\n")) if dirty else 0}
    except Exception as e:  # pragma: no cover
        return {"error": str(e)}


# ------------------------------------------------------------------ known findings
def known_findings(pid):
    """finding: property=Cxx id=Cxx-Fn class=<class> <text>  |  fixed: property=Cxx <commit> <text>"""
    res = []
    path = os.path.join(VERIF, "known_findings.txt")
    if not os.path.exists(path):
        return res
    for line in open(path):
        line = line.strip()
        if not line or line.startswith("#"):
            continue
        m = re.match(r"finding:\s+property=(\S+)\s+id=(\S+)\s+class=(\S+)\s+(.*)", line)
        if m and m.group(1) == pid:
            res.append({"id": m.group(2), "class": m.group(3), "text": m.group(4)})
    # development aid (never set by the registered commands): VERIF_IGNORE_FINDINGS=<id>,<id> drops listed findings, to see
    # that a finding the file lists is reported as a VIOLATION when it is not listed
    ign = {x.strip() for x in os.environ.get("VERIF_IGNORE_FINDINGS", "").split(",") if x.strip()}
    return [f for f in res if f["id"] not in ign and f["id"].split("-")[-1] not in ign]


# ------------------------------------------------------------------ result / evidence
class Outcome:
    def __init__(self, pid, tier):
        self.pid, self.tier = pid, tier
        self.violations = []      # dicts: {"what":..., "replay": {...}, "no_input": bool}
        self.known_hit = {}       # finding id -> text actually observed
        self.cov = {}
        self.assumptions = []
        self.notes = []

    def violation(self, what, replay, no_input=False):
        self.violations.append({"what": what, "replay": replay, "no_input": no_input})

    def known(self, fid, text):
        self.known_hit.setdefault(fid, text)


def write_replay(pid, v, idx):
    os.makedirs(os.path.join(OUT, "replays"), exist_ok=True)
    path = os.path.join(OUT, "replays", "%s-%d-%d.json" % (pid, seed(), idx))
    with open(path, "w") as f:
        json.dump({"property": pid, "what": v["what"], "no_failing_input_found": v["no_input"],
                   "replay": v["replay"], "repo": repo_state()}, f, indent=1, default=str)
    return path


def finish(out, ob, level="proof", extra_trusted=()):
    """Print KNOWN-FINDING / VIOLATION lines, write the evidence file, return the exit code."""
    pid = out.pid
    discharged, problems = obligations_summary(ob) if ob else ([], ["no property file"])
    for pr in problems:
        out.violation("proof obligation not discharged: " + pr,
                      {"theorem": pr.split(":")[0], "detail": pr, "coqc_stderr": (ob or {}).get("stderr", "")},
                      no_input=True)
    for fid, text in sorted(out.known_hit.items()):
        print("KNOWN-FINDING: property=%s %s %s" % (pid, fid, text))
    code = 0
    # concrete failing inputs first: a violation with an input supersedes "no-failing-input-found"
    vs = sorted(out.violations, key=lambda v: v["no_input"])
    if any(not v["no_input"] for v in vs):
        vs = [v for v in vs if not v["no_input"]] + [v for v in vs if v["no_input"] and v["what"].startswith("proof obligation")]
    for i, v in enumerate(vs[:5]):
        path = write_replay(pid, v, i)
        print("VIOLATION property=%s replay=%s %s%s" % (
            pid, path, v["what"].replace("\n", " ")[:300], " no-failing-input-found" if v["no_input"] else ""))
        code = 1
    names = ob["theorems"] if ob else []
    cov = {
        "obligations": len(names), "discharged": len(discharged),
        "checker_cmd": "make -C coq (coq_makefile, full .vo build) && " + (ob["cmd"] if ob else "") +
                       ((" && " + ob["coqchk"]["cmd"]) if ob and isinstance(ob.get("coqchk"), dict) else ""),
        "trusted_base": [
            "Coq 8.16.1 kernel + vm_compute (no native_compute)",
            "axioms per Print Assumptions: " + json.dumps({n: ob["assumptions"].get(n) for n in names} if ob else {}),
            "hand-written Gallina model tied to /repo by the correspondence run of this check (differential, not a proof)",
            "extraction: ExtrOcamlBasic only (bool, option, unit, list, prod, sumbool, sumor, andb, orb); OCaml 4.13.1 driver",
        ] + list(extra_trusted),
        "theorems": names,
        "coqchk": (ob or {}).get("coqchk", "thorough tier only"),
        "refuted": [n for n in names if n.endswith("_refuted")],
        "partial": [n for n in names if n.endswith("_partial")],
        "known_findings_reproduced": sorted(out.known_hit),
        "repo": repo_state(),
    }
    cov.update(out.cov)
    cov.setdefault("evaluations", 0)
    cov.setdefault("distinct_nontrivial", 0)
    cov.setdefault("rule", "")
    cov.setdefault("samples", [])
    ev = {"property_id": pid, "tier": out.tier, "seed": seed(), "level": level, "coverage": cov,
          "assumptions": out.assumptions, "wall_s": round(time.time() - T0, 2),
          "violations": len(out.violations), "notes": out.notes}
    os.makedirs(os.path.join(OUT, "evidence"), exist_ok=True)
    with open(os.path.join(OUT, "evidence", pid + ".json"), "w") as f:
        json.dump(ev, f, indent=1, default=str)
    log("%s: %d obligations, %d discharged, %d evaluations, %d violations, %.1fs" % (
        pid, len(names), len(discharged), cov.get("evaluations", 0), len(out.violations), time.time() - T0))
    return code


def coqchk(pid, timeout=3000):
    """Thorough tier: re-check the compiled property file and everything it depends on with the independent checker and
    collect its context summary (axioms, type-in-type, unsafe fixpoints, assumed positivity)."""
    t = time.time()
    mods = ["GrogProps." + pid] + ["GrogProps." + x for x in EXTRA_PROPERTY_FILES.get(pid, [])
                                  if os.path.exists(os.path.join(COQ, "properties", x + ".v"))]
    cmd = ["coqchk", "-silent", "-o", "-Q", "theories", "Grog", "-Q", "properties", "GrogProps"] + mods
    try:
        p = run(cmd, cwd=COQ, timeout=timeout)
    except subprocess.TimeoutExpired:
        return {"cmd": " ".join(cmd), "ok": False, "summary": "timeout after %ds" % timeout, "seconds": timeout}
    txt = p.stdout + p.stderr
    i = txt.find("CONTEXT SUMMARY")
    summ = txt[i:] if i >= 0 else txt[-1500:]
    fields = {}
    for key, label in (("axioms", "* Axioms:"), ("type_in_type", "type-in-type:"), ("unsafe_fixpoints", "unsafe (co)fixpoints:"),
                       ("assumed_positivity", "positivity is assumed:")):
        j = summ.find(label)
        if j >= 0:
            rest = summ[j + len(label):]
            k = rest.find("\n* ")
            fields[key] = " ".join((rest[:k] if k >= 0 else rest).split())
    ok = p.returncode == 0 and all(v == "<none>" for v in fields.values()) and len(fields) == 4
    return {"cmd": " ".join(cmd), "ok": ok, "exit": p.returncode, "seconds": round(time.time() - t, 1), **fields,
            "summary": " ".join(summ.split())[:1200]}


def prepare(pid, tier="quick"):
    """Common front part of every check: build Coq, scan, account for proof obligations."""
    bad = forbidden_scan()
    ok, mk = coq_make()
    ob = property_obligations(pid) if os.path.exists(os.path.join(COQ, "properties", pid + ".v")) else None
    if ob is not None:
        if bad:
            ob["ok"] = False
            ob["stderr"] = "forbidden tokens: " + "; ".join(bad)
        if not ok:
            ob["ok"] = False
            ob["stderr"] = "make failed: " + mk[-3000:]
        if tier == "thorough" and ob["ok"]:
            ob["coqchk"] = coqchk(pid)
            if not ob["coqchk"]["ok"]:
                ob["ok"] = False
                ob["stderr"] = "coqchk does not accept the development or reports assumptions: " + ob["coqchk"]["summary"]
    return ob
