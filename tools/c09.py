"""C09 -- cache keys are canonical.  Tie: hashing.GetTargetChangeHash on real package directories
under both algorithms and two workspace roots vs the byte streams predicted by HashKey.v (hashed
with grog's own HashString); oracle: equal/unequal key on generated pairs of states."""
import copy, json, os
import vlib
from vlib import hx

ALGOS = ["xxh3", "sha256"]
NAMES = ["a", "ab", "t", "b"]
PKGS = ["p", "p/q", ""]
CMD_PIECES = ["a", "b", "c", "echo", " ", ",", "=", "x", "//", ":"]
PATHS = ["a", "b", "bc", "c", "s/a", "a.b", "x=y"]
CONT_PIECES = ["x", "y", "z", ",", "\n", "xy", ""]
OUT_IDS = ["o", "o2", "d", "x", "b"]
DEPH = ["d1", "d2", "e3", "x"]
FPK = ["k", "a", "arch"]
FPV = ["v", "b", "c", "1"]


def rand_state(r, adversarial=False):
    st = {"pkg": r.choice(PKGS), "name": r.choice(NAMES),
          "cmd": "".join(r.choice(CMD_PIECES) for _ in range(r.below(4))),
          "ins": r.sample(PATHS, r.below(4)), "files": {}, "outs": [], "deps": [], "fp": {}, "multi": r.chance(1, 6)}
    for p in st["ins"]:
        st["files"][p] = None if r.chance(1, 10) else "".join(r.choice(CONT_PIECES) for _ in range(r.below(4)))
    for i in r.sample(OUT_IDS, r.below(3)):
        st["outs"].append((r.choice(["file", "dir"]), i))
    st["deps"] = r.sample(DEPH, r.below(3))
    for k in r.sample(FPK, r.below(3)):
        st["fp"][k] = r.choice(FPV)
    if adversarial:
        if r.chance(1, 3):
            st["deps"].append("")          # alias in-edge
        if r.chance(1, 3):
            st["outs"].append(("file", "a,b"))
        if r.chance(1, 3):
            st["fp"]["a=b"] = "c"
    return st


def line(st, algo, rootid):
    files = ",".join("%s:%s" % (hx(p), "!" if c is None else hx(c)) for p, c in sorted(st["files"].items()))
    return "\t".join(["key", algo, rootid, hx(st["pkg"]), hx(st["name"]), hx(st["cmd"]),
                      ",".join(hx(p) for p in st["ins"]), files,
                      ",".join("%s:%s" % (hx(t), hx(i)) for t, i in st["outs"]),
                      ",".join(hx(d) for d in st["deps"]),
                      ",".join("%s:%s" % (hx(k), hx(v)) for k, v in st["fp"].items()),
                      "1" if st["multi"] else "0"])


def equiv(a, b):
    return (a["pkg"], a["name"], a["cmd"], a["multi"]) == (b["pkg"], b["name"], b["cmd"], b["multi"]) and \
        sorted(a["ins"]) == sorted(b["ins"]) and sorted(a["outs"]) == sorted(b["outs"]) and \
        sorted(a["deps"]) == sorted(b["deps"]) and a["fp"] == b["fp"] and \
        all(a["files"].get(p) == b["files"].get(p) for p in a["ins"])


def mutate(r, st):
    """One single-component (or single-file) change that keeps every element decodable."""
    b = copy.deepcopy(st)
    kinds = ["name", "cmd", "ins", "outs", "deps", "fp", "multi"]
    if any(c is not None for p, c in st["files"].items() if p in st["ins"]):
        kinds += ["file", "file"]
    k = r.choice(kinds)
    if k == "name":
        b["name"] = r.choice([n for n in NAMES if n != st["name"]])
    elif k == "cmd":
        b["cmd"] = st["cmd"] + r.choice(["a", "b", " "])
    elif k == "ins":
        cand = [p for p in PATHS if p not in st["ins"]]
        if st["ins"] and r.chance(1, 2) and len(st["ins"]) > 1:
            gone = r.choice(st["ins"]); b["ins"] = [p for p in st["ins"] if p != gone]
        elif cand:
            p = r.choice(cand); b["ins"] = st["ins"] + [p]; b["files"][p] = "n"
        else:
            b["cmd"] += "q"; k = "cmd"
    elif k == "outs":
        o = (r.choice(["file", "dir"]), r.choice(["n1", "n2"]))
        b["outs"] = st["outs"] + [o]
    elif k == "deps":
        if st["deps"] and r.chance(1, 2):
            b["deps"] = st["deps"][1:]
        else:
            b["deps"] = st["deps"] + [r.choice(["f7", "g8"])]
    elif k == "fp":
        if st["fp"] and r.chance(1, 2):
            kk = r.choice(sorted(st["fp"])); b["fp"][kk] = st["fp"][kk] + "0"
        else:
            b["fp"]["nk"] = "nv"
    elif k == "multi":
        b["multi"] = not st["multi"]
    elif k == "file":
        p = r.choice([p for p in st["ins"] if st["files"].get(p) is not None])
        b["files"][p] = st["files"][p] + r.choice(["x", "q", "\n"])
    return k, b


def collision_pairs():
    base = {"pkg": "p", "name": "a", "cmd": "", "ins": [], "files": {}, "outs": [], "deps": [], "fp": {}, "multi": False}

    def S(**kw):
        s = copy.deepcopy(base); s.update(kw); return s
    return [
        ("label|command", S(name="a", cmd="bc"), S(name="ab", cmd="c")),
        ("command|inputs", S(cmd="a", ins=["bc"], files={"bc": "1"}), S(cmd="ab", ins=["c"], files={"c": "1"})),
        ("inputs|outputs", S(ins=["a"], files={"a": None}, outs=[("file", "b")]), S(ins=["afile::b"], files={"afile::b": None})),
        ("outputs|deps", S(outs=[("file", "x")], deps=[]), S(outs=[], deps=["file::x"])),
        ("deps|fingerprint", S(deps=["k=v"]), S(fp={"k": "v"})),
        ("fingerprint|platform", S(fp={"k": "v"}, multi=False), S(fp={"k": "vlx/a64"}, multi=True)),
        ("comma in element", S(outs=[("file", "a,file::b")]), S(outs=[("file", "a"), ("file", "b")])),
        ("fingerprint k=v shift", S(fp={"a": "b=c"}), S(fp={"a=b": "c"})),
        ("file boundary", S(ins=["a", "b"], files={"a": "xy", "b": "z"}), S(ins=["a", "b"], files={"a": "x", "b": "yz"})),
        ("absent vs empty", S(ins=["a"], files={"a": None}), S(ins=["a"], files={"a": ""})),
        ("alias dep leaves empty hash", S(deps=[""]), S(deps=[])),
        ("two alias deps vs comma", S(deps=["", ""]), S(deps=[","])),
    ]


def classify(a, b, ma, mb):
    """Evaluate the guards of C09_single_change_sensitive on a colliding pair."""
    ca, cb = ma[0].split(","), mb[0].split(",")
    if ma[2] != "wf" or mb[2] != "wf":
        return "undecodable-element"
    if len(set(a["ins"])) != len(a["ins"]) or len(set(b["ins"])) != len(b["ins"]):
        return "duplicate-input"
    ndiff = sum(1 for x, y in zip(ca, cb) if x != y)
    if ndiff >= 2:
        return "multi-component"
    if sorted(a["ins"]) == sorted(b["ins"]):
        diff = [p for p in a["ins"] if a["files"].get(p) != b["files"].get(p)]
        if any((a["files"].get(p) is None) != (b["files"].get(p) is None) for p in diff):
            return "absent-vs-empty"
        if len(diff) >= 2:
            return "multi-file"
    return None


def run(out, tier):
    r = vlib.Rng(vlib.seed())
    nstates = 700 if tier == "quick" else 12000
    states, pairs = [], []   # pairs: (kind, i, j, expect_equal)

    def add(st):
        states.append(st); return len(states) - 1
    for name, a, b in collision_pairs():
        pairs.append(("collision:" + name, add(a), add(b)))
    for n in range(nstates):
        st = rand_state(r, adversarial=(n % 5 == 4))
        i = add(st)
        p = copy.deepcopy(st)
        p["ins"] = r.shuffle(p["ins"]); p["outs"] = r.shuffle(p["outs"]); p["deps"] = r.shuffle(p["deps"])
        p["fp"] = dict(r.shuffle(list(p["fp"].items())))
        pairs.append(("perm", i, add(p)))
        for _ in range(2):
            k, m = mutate(r, st)
            pairs.append(("mut:" + k, i, add(m)))
        if n % 3 == 0:
            pairs.append(("random", i, add(rand_state(r, adversarial=True))))
    # many input files (sizes around the thresholds where an implementation might batch or parallelise hashing):
    # permuted declaration order must keep the key; exchanging the contents of two files, or moving one file's content to
    # another path, must change it
    for nin in ([33, 65, 100] if tier == "quick" else [17, 33, 64, 65, 66, 100, 129, 257, 300]):
        paths = ["f%03d.txt" % k for k in range(nin)]
        big = {"pkg": "p", "name": "many", "cmd": "c", "ins": list(paths), "files": {p: "content-%d" % (k % 7 if k > 1 else k) for k, p in enumerate(paths)},
               "outs": [("file", "o")], "deps": [], "fp": {}, "multi": False}
        i = add(big)
        pm = copy.deepcopy(big); pm["ins"] = r.shuffle(pm["ins"])
        pairs.append(("perm", i, add(pm)))
        sw = copy.deepcopy(big)
        a, b = paths[0], paths[1]          # distinct contents by construction
        sw["files"][a], sw["files"][b] = big["files"][b], big["files"][a]
        pairs.append(("mut:swap-two-file-contents", i, add(sw)))
        sw2 = copy.deepcopy(big)
        a, b = paths[nin // 2], paths[nin - 1]
        if sw2["files"][a] != sw2["files"][b]:
            sw2["files"][a], sw2["files"][b] = big["files"][b], big["files"][a]
            pairs.append(("mut:swap-two-file-contents", i, add(sw2)))
        ed = copy.deepcopy(big); ed["files"][paths[nin - 1]] = "edited"
        pairs.append(("mut:content", i, add(ed)))
    # tiny-domain random pairs: chance collisions between independently drawn states
    tiny = []
    for _ in range(nstates // 2):
        t = {"pkg": "p", "name": r.choice(["a", "ab"]), "cmd": r.choice(["", "b", "c", "bc"]),
             "ins": r.sample(["a", "b"], r.below(3)), "files": {"a": r.choice(["x", "xy", "", None]), "b": r.choice(["z", "yz", ""])},
             "outs": r.sample([("file", "a"), ("file", "b"), ("file", "a,file::b")], r.below(2)),
             "deps": r.sample(["", "d", "file::a"], r.below(2)), "fp": {}, "multi": False}
        tiny.append(add(t))
    for x in range(len(tiny) - 1):
        pairs.append(("tiny", tiny[x], tiny[x + 1]))

    # model: predicted byte streams
    drv = vlib.build_driver()
    _, mout, merr = vlib.run_lines(drv, [line(s, "-", "r") for s in states])
    if len(mout) != len(states):
        raise RuntimeError("model driver failed: " + merr[-400:])
    model = [m.split("\t") for m in mout]

    impl_ok = True
    try:
        h = vlib.build_harness("hashkey")
    except vlib.HarnessUnavailable as e:
        out.notes.append("inprocess_tie: unavailable (%s)" % str(e)[-500:])
        impl_ok = False
    keys = {}
    tie_bad = []
    if impl_ok:
        lines = []
        for algo in ALGOS:
            for i, s in enumerate(states):
                lines.append(line(s, algo, "rootA"))
            for i, s in enumerate(states):
                comps = [bytes.fromhex(c) if c != "-" else b"" for c in model[i][0].split(",")]
                lines.append("hash\t%s\t%s" % (algo, hx(b"".join(comps))))
                lines.append("hash\t%s\t%s" % (algo, model[i][1] if model[i][1] != "none" else "-"))
        # location independence: a second workspace root for a sample
        loc = list(range(0, len(states), 7))
        for i in loc:
            lines.append(line(states[i], "xxh3", "another/deeper/rootB"))
        rc, res, err = vlib.run_lines(h, lines)
        if rc != 0 or len(res) != len(lines):
            raise RuntimeError("hashkey harness failed rc=%s %s" % (rc, err[-500:]))
        n = len(states)
        pos = 0
        for algo in ALGOS:
            ks = res[pos:pos + n]; pos += n
            hs = res[pos:pos + 2 * n]; pos += 2 * n
            for i in range(n):
                keys[(algo, i)] = ks[i]
                if ks[i].startswith("key\t"):
                    want = hs[2 * i].split("\t")[1]
                    if model[i][1] != "none":
                        want += "_" + hs[2 * i + 1].split("\t")[1]
                    if ks[i].split("\t")[1] != want:
                        tie_bad.append((algo, i))
        for j, i in enumerate(loc):
            if res[pos + j] != keys[("xxh3", i)]:
                out.violation("the key depends on the workspace location: %s vs %s" % (res[pos + j], keys[("xxh3", i)]),
                              {"state": states[i], "roots": ["rootA", "another/deeper/rootB"]})

    findings = {f["class"]: f for f in vlib.known_findings("C09")}
    stats = {"pairs": len(pairs), "equal_expected": 0, "differ_expected": 0, "collisions_known": 0, "errors": 0}
    nontriv = set()
    samples = []
    if impl_ok:
        for kind, i, j in pairs:
            a, b = states[i], states[j]
            ka = [keys[(al, i)] for al in ALGOS]; kb = [keys[(al, j)] for al in ALGOS]
            if any(not k.startswith("key\t") for k in ka + kb):
                stats["errors"] += 1
                continue
            eq = ka == kb
            eqv = equiv(a, b)
            if not eqv or a != b:
                nontriv.add(json.dumps([kind.split(":")[0], a, b], sort_keys=True, default=str))
            if eqv:
                stats["equal_expected"] += 1
                if not eq:
                    out.violation("equal build states receive different keys (%s)" % kind, {"a": a, "b": b, "keys_a": ka, "keys_b": kb})
            else:
                stats["differ_expected"] += 1
                if eq:
                    cls = classify(a, b, model[i], model[j])
                    # a collision belongs to a known class only if the MODEL's encoding explains it: the concatenated definition
                    # stream and the concatenated file-content stream are literally equal for the two states (C09: equal keys imply
                    # equal hashed byte streams).  Equal keys on states whose predicted streams differ are a different defect.
                    cat = lambda m: ("".join(c for c in m[0].split(",") if c != "-"), m[1])
                    explained = cat(model[i]) == cat(model[j])
                    if cls and cls in findings and explained:
                        stats["collisions_known"] += 1
                        out.known(findings[cls]["id"], "class=%s e.g. %s: %s vs %s share key %s" % (
                            cls, kind, json.dumps(a, default=str), json.dumps(b, default=str), ka[0].split("\t")[1]))
                    else:
                        out.violation("different build states share one key under both algorithms (%s; class %s%s)" % (
                            kind, cls, "" if explained else "; the byte streams the model predicts differ, so the unframed encoding does not explain it"),
                                      {"a": a, "b": b, "key": ka, "class": cls, "explained_by_model_encoding": explained})
            if len(samples) < 3 and kind.startswith(("mut", "collision")):
                samples.append({"kind": kind, "a": a, "b": b, "keys_equal": eq, "states_equivalent": eqv})
        if tie_bad and not out.violations:
            algo, i = tie_bad[0]
            out.violation("correspondence HashKey.change_key ~ hashing.GetTargetChangeHash broke on %d states: the code no longer hashes the "
                          "predicted byte stream; no pair oracle of C09 fails" % len(tie_bad),
                          {"correspondence": "HashKey.comps/encode_files vs hashing.GetTargetChangeHash (bytes fed to the hasher)",
                           "state": states[i], "algo": algo, "impl_key": keys[(algo, i)], "model_comps": model[i]}, no_input=True)
    out.cov.update({
        "evaluations": len(states) * (len(ALGOS) if impl_ok else 0) + len(pairs),
        "distinct_nontrivial": len(nontriv),
        "rule": "random target states (label, command, 0-3 inputs with contents or absent, outputs, dependency hashes incl. the empty "
                "hash of alias in-edges, fingerprints, multiplatform flag) on real package directories; pairs: all-list permutation "
                "(must be equal), single-component / single-file mutation (must differ), boundary-shift collision classes, independent "
                "draws from a tiny domain; non-trivial = the two states of a pair differ in at least one component or order",
        "samples": samples,
        "traces_validated_against_impl": len(states) * len(ALGOS) if impl_ok else 0,
        "byte_stream_mismatches": len(tie_bad),
        "input_distribution": stats,
        "inprocess_tie": impl_ok,
    })
    out.assumptions += ["digest functions are idealised as injective and '_'-free (H_inj, H_hex): a collision is judged an encoding "
                        "collision only when it occurs under both xxh3 and sha256",
                        "platform is fixed to lx/a64 in the harness"]


def replay(out, path):
    rp = json.load(open(path))["replay"]
    h = vlib.build_harness("hashkey")
    for key in ("a", "b", "state"):
        if key in rp:
            for algo in ALGOS:
                _, res, _ = vlib.run_lines(h, [line(rp[key], algo, "replay")])
                print(key, algo, res[0])
    if "a" in rp and "b" in rp:
        _, ra, _ = vlib.run_lines(h, [line(rp["a"], al, "r") for al in ALGOS])
        _, rb, _ = vlib.run_lines(h, [line(rp["b"], al, "r") for al in ALGOS])
        if (ra == rb) != equiv(rp["a"], rp["b"]):
            out.violation("replay: keys equal=%s but states equivalent=%s" % (ra == rb, equiv(rp["a"], rp["b"])), rp)
