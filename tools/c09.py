"""C09 -- cache keys are canonical.  Tie: hashing.GetTargetChangeHash on real package directories
under both algorithms and two workspace roots vs the framed byte streams predicted by HashKey.v
(the model is handed grog's own hash of every file content as its digest function and the
predicted streams are hashed with grog's own HashString); oracle: equal/unequal key on generated
pairs of states -- every pair of states that are not the same build state must differ."""
import copy, json, os
import vlib
from vlib import hx

ALGOS = ["xxh3", "sha256"]
NAMES = ["a", "ab", "t", "b"]
PKGS = ["p", "p/q", ""]
CMD_PIECES = ["a", "b", "c", "echo", " ", ",", "=", "x", "//", ":"]
PATHS = ["a", "b", "bc", "c", "s/a", "a.b", "x=y"]
CONT_PIECES = ["x", "y", "z", ",", "\n", "xy", ""]
OUT_IDS = ["o", "o2", "d", "x", "b"]
DEPH = ["d1", "d2", "e3", "x"]
FPK = ["k", "a", "arch"]
FPV = ["v", "b", "c", "1"]


def rand_state(r, adversarial=False):
    st = {"pkg": r.choice(PKGS), "name": r.choice(NAMES),
          "cmd": "".join(r.choice(CMD_PIECES) for _ in range(r.below(4))),
          "ins": r.sample(PATHS, r.below(4)), "files": {}, "outs": [], "deps": [], "fp": {}, "multi": r.chance(1, 6)}
    for p in st["ins"]:
        st["files"][p] = None if r.chance(1, 10) else "".join(r.choice(CONT_PIECES) for _ in range(r.below(4)))
    for i in r.sample(OUT_IDS, r.below(3)):
        st["outs"].append((r.choice(["file", "dir"]), i))
    st["deps"] = r.sample(DEPH, r.below(3))
    for k in r.sample(FPK, r.below(3)):
        st["fp"][k] = r.choice(FPV)
    if adversarial:
        if r.chance(1, 3):
            st["deps"].append("")          # alias in-edge
        if r.chance(1, 3):
            st["outs"].append(("file", "a,b"))
        if r.chance(1, 3):
            st["fp"]["a=b"] = "c"
        # bytes the framed encoding itself gives a meaning to: NUL (escape / terminator), 0x01, the list markers 0x02 / 0x03
        fr = ["\x00", "\x00\x00", "\x00\x01", "\x02", "\x03", "\x00\x00\x02", "\x00\x00\x03", "a"]
        if r.chance(1, 3):
            st["cmd"] += "".join(r.choice(fr) for _ in range(1 + r.below(3)))
        if r.chance(1, 4):
            st["deps"].append("".join(r.choice(fr) for _ in range(1 + r.below(3))))
        if r.chance(1, 4):
            st["fp"]["".join(r.choice(fr) for _ in range(r.below(3)))] = "".join(r.choice(fr) for _ in range(r.below(3)))
        if r.chance(1, 4):
            st["outs"].append(("file", "o" + "".join(r.choice(fr) for _ in range(1 + r.below(2)))))
        for p in st["ins"]:
            if st["files"][p] is not None and r.chance(1, 4):
                st["files"][p] += "".join(r.choice(fr) for _ in range(1 + r.below(3)))
        # bytes that are not valid UTF-8 (Latin-1 file names, binary fingerprints): surrogate escapes = the raw bytes 0xff, 0xfe, ...
        if r.chance(1, 3):
            k = r.choice(["cmd", "dep", "fp", "out", "in", "name"])
            hb = "".join(r.choice(HIBYTES) for _ in range(1 + r.below(2)))
            if k == "cmd":
                st["cmd"] += hb
            elif k == "dep":
                st["deps"].append("d" + hb)
            elif k == "fp":
                st["fp"]["k" + r.choice(["", hb])] = "v" + hb
            elif k == "out":
                st["outs"].append(("file", "o" + hb))
            elif k == "name":
                st["name"] += hb
            else:
                st["ins"].append("i" + hb); st["files"]["i" + hb] = "c" + r.choice(["", hb])
    return st


HIBYTES = ["\udcff", "\udcfe", "\udcc0", "\udc80", "\udce9", "\udce8"]


def swap_hibyte(r, s_):
    """the same string with ONE byte that is not valid UTF-8 replaced by a different such byte (None if it has none)"""
    pos = [i for i, c in enumerate(s_) if c in HIBYTES]
    if not pos:
        return None
    i = r.choice(pos)
    return s_[:i] + r.choice([c for c in HIBYTES if c != s_[i]]) + s_[i + 1:]


def line(st, algo, rootid):
    files = ",".join("%s:%s" % (hx(p), "!" if c is None else hx(c)) for p, c in sorted(st["files"].items()))
    return "\t".join(["key", algo, rootid, hx(st["pkg"]), hx(st["name"]), hx(st["cmd"]),
                      ",".join(hx(p) for p in st["ins"]), files,
                      ",".join("%s:%s" % (hx(t), hx(i)) for t, i in st["outs"]),
                      ",".join(hx(d) for d in st["deps"]),
                      ",".join("%s:%s" % (hx(k), hx(v)) for k, v in st["fp"].items()),
                      "1" if st["multi"] else "0"])


def mline(st, algo, dig):
    """The line for the model driver: every present file carries dig(content), the implementation's hash of its content
    (the digest function the model is instantiated with)."""
    files = ",".join("%s:%s" % (hx(p), "!" if c is None else "%s:%s" % (hx(c), hx(dig(c)))) for p, c in sorted(st["files"].items()))
    f = line(st, algo, "r").split("\t")
    f[7] = files
    return "\t".join(f)


def equiv(a, b):
    return (a["pkg"], a["name"], a["cmd"], a["multi"]) == (b["pkg"], b["name"], b["cmd"], b["multi"]) and \
        sorted(a["ins"]) == sorted(b["ins"]) and sorted(a["outs"]) == sorted(b["outs"]) and \
        sorted(a["deps"]) == sorted(b["deps"]) and a["fp"] == b["fp"] and \
        all(a["files"].get(p) == b["files"].get(p) for p in a["ins"])


def mutate(r, st):
    """One single-component (or single-file) change that keeps every element decodable."""
    b = copy.deepcopy(st)
    kinds = ["name", "cmd", "ins", "outs", "deps", "fp", "multi"]
    if any(c is not None for p, c in st["files"].items() if p in st["ins"]):
        kinds += ["file", "file"]
    hib = [kk for kk in ("cmd", "name") if any(c in HIBYTES for c in st[kk])] + \
          (["deps"] if any(c in HIBYTES for d in st["deps"] for c in d) else []) + \
          (["outs"] if any(c in HIBYTES for _, o in st["outs"] for c in o) else []) + \
          (["fpv"] if any(c in HIBYTES for v in st["fp"].values() for c in v) else []) + \
          (["ins"] if any(c in HIBYTES for p in st["ins"] for c in p) else [])
    if hib and r.chance(1, 2):
        # two states that differ only INSIDE bytes that are not valid UTF-8
        k = r.choice(hib)
        if k in ("cmd", "name"):
            b[k] = swap_hibyte(r, st[k])
        elif k == "deps":
            i = r.choice([i for i, d in enumerate(st["deps"]) if any(c in HIBYTES for c in d)])
            b["deps"][i] = swap_hibyte(r, st["deps"][i])
        elif k == "outs":
            i = r.choice([i for i, (_, o) in enumerate(st["outs"]) if any(c in HIBYTES for c in o)])
            b["outs"][i] = (st["outs"][i][0], swap_hibyte(r, st["outs"][i][1]))
        elif k == "fpv":
            kk = r.choice([kk for kk, v in st["fp"].items() if any(c in HIBYTES for c in v)])
            b["fp"][kk] = swap_hibyte(r, st["fp"][kk])
        else:
            i = r.choice([i for i, p in enumerate(st["ins"]) if any(c in HIBYTES for c in p)])
            old = st["ins"][i]; new = swap_hibyte(r, old)
            if new in st["ins"]:
                b["cmd"] += "q"; return "cmd", b
            b["ins"][i] = new; b["files"][new] = b["files"].pop(old)
        return "hibyte:" + k, b
    k = r.choice(kinds)
    if k == "name":
        b["name"] = r.choice([n for n in NAMES if n != st["name"]])
    elif k == "cmd":
        b["cmd"] = st["cmd"] + r.choice(["a", "b", " "])
    elif k == "ins":
        cand = [p for p in PATHS if p not in st["ins"]]
        if st["ins"] and r.chance(1, 2) and len(st["ins"]) > 1:
            gone = r.choice(st["ins"]); b["ins"] = [p for p in st["ins"] if p != gone]
        elif cand:
            p = r.choice(cand); b["ins"] = st["ins"] + [p]; b["files"][p] = "n"
        else:
            b["cmd"] += "q"; k = "cmd"
    elif k == "outs":
        o = (r.choice(["file", "dir"]), r.choice(["n1", "n2"]))
        b["outs"] = st["outs"] + [o]
    elif k == "deps":
        if st["deps"] and r.chance(1, 2):
            b["deps"] = st["deps"][1:]
        else:
            b["deps"] = st["deps"] + [r.choice(["f7", "g8"])]
    elif k == "fp":
        if st["fp"] and r.chance(1, 2):
            kk = r.choice(sorted(st["fp"])); b["fp"][kk] = st["fp"][kk] + "0"
        else:
            b["fp"]["nk"] = "nv"
    elif k == "multi":
        b["multi"] = not st["multi"]
    elif k == "file":
        p = r.choice([p for p in st["ins"] if st["files"].get(p) is not None])
        b["files"][p] = st["files"][p] + r.choice(["x", "q", "\n"])
    return k, b


def collision_pairs():
    """Regression corpus: one pair per collision class of the former unframed encoding (findings C09-F1..F4, fixed) and pairs
    aimed at the framing itself (NUL / marker bytes inside elements).  Every pair must receive different keys."""
    base = {"pkg": "p", "name": "a", "cmd": "", "ins": [], "files": {}, "outs": [], "deps": [], "fp": {}, "multi": False}

    def S(**kw):
        s = copy.deepcopy(base); s.update(kw); return s
    res = [
        ("label|command", S(name="a", cmd="bc"), S(name="ab", cmd="c")),
        ("package|name", S(pkg="a:b", name="c"), S(pkg="a", name="b:c")),
        ("command|inputs", S(cmd="a", ins=["bc"], files={"bc": "1"}), S(cmd="ab", ins=["c"], files={"c": "1"})),
        ("inputs|outputs", S(ins=["a"], files={"a": None}, outs=[("file", "b")]), S(ins=["afile::b"], files={"afile::b": None})),
        ("outputs|deps", S(outs=[("file", "x")], deps=[]), S(outs=[], deps=["file::x"])),
        ("deps|fingerprint", S(deps=["k=v"]), S(fp={"k": "v"})),
        ("fingerprint|platform", S(fp={"k": "v"}, multi=False), S(fp={"k": "vlx/a64"}, multi=True)),
        ("comma in element", S(outs=[("file", "a,file::b")]), S(outs=[("file", "a"), ("file", "b")])),
        ("fingerprint k=v shift", S(fp={"a": "b=c"}), S(fp={"a=b": "c"})),
        ("file boundary", S(ins=["a", "b"], files={"a": "xy", "b": "z"}), S(ins=["a", "b"], files={"a": "x", "b": "yz"})),
        ("absent vs empty", S(ins=["a"], files={"a": None}), S(ins=["a"], files={"a": ""})),
        ("empty element vs no element", S(deps=[""]), S(deps=[])),
        ("two empty elements vs comma", S(deps=["", ""]), S(deps=[","])),
        ("platform vs multiplatform with the platform in the fingerprint", S(fp={"k": "v"}), S(fp={"k": "v", "lx/a64": ""}, multi=True)),
        ("framing: terminator inside an element", S(deps=["a\x00\x00\x02b"]), S(deps=["a", "b"])),
        ("framing: escape inside an element", S(deps=["a\x00\x01b"]), S(deps=["a\x00b"])),
        ("framing: end marker inside an element", S(outs=[("file", "a\x00\x00\x03")], deps=[]), S(outs=[("file", "a")], deps=[])),
        ("framing: command swallowing the input list", S(cmd="c\x00\x00\x02i\x00\x00\x03"), S(cmd="c", ins=["i"], files={"i": None})),
        ("framing: fingerprint key swallowing the value", S(fp={"k\x00\x00v": ""}), S(fp={"k": "v"})),
        ("invalid UTF-8 bytes in the command", S(cmd="caf\udce9"), S(cmd="caf\udce8")),
        ("invalid UTF-8 bytes in an input path", S(ins=["caf\udce9.txt"], files={"caf\udce9.txt": "x"}), S(ins=["caf\udce8.txt"], files={"caf\udce8.txt": "x"})),
        ("invalid UTF-8 byte vs U+FFFD", S(deps=["d\udcff"]), S(deps=["d\ufffd"])),
        ("invalid UTF-8 bytes in a fingerprint value", S(fp={"k": "\udcfe"}), S(fp={"k": "\udcff"})),
        ("file content vs file digest", S(ins=["a"], files={"a": "x\x00\x00b\x00\x00\x01"}), S(ins=["a", "b"], files={"a": "x", "b": ""})),
    ]
    path = os.path.join(vlib.VERIF, "corpus", "C09", "pairs.jsonl")
    if os.path.exists(path):
        for l in open(path):
            if l.strip() and not l.startswith("#"):
                c = json.loads(l)
                for k in ("a", "b"):
                    c[k]["outs"] = [tuple(o) for o in c[k]["outs"]]
                res.append(("corpus:" + c["name"], c["a"], c["b"]))
    return res


def build_path(out, h, r, n):
    """The path a build takes: ONE hashing.TargetHasher for a graph in which a and b list the same input file and b depends on
    a; the file is rewritten / created / removed between the two key computations (a's command did it).  The key of each target
    must be the key of its state at the time it is hashed -- the one GetTargetChangeHash gives for that state on its own --
    whatever was hashed before in the same build (no dependence on scheduling or on the other targets of the build)."""
    conts = ["hello", "HELLO", "", "x", "xy", None]
    # 6th field: the rewrite preserves the modification time (same length, same mtime, different bytes: stat metadata must not
    # stand in for the content)
    cases = [("p", "src.txt", "hello", "HELLO", "c", False), ("p", "gen.txt", None, "made", "c", False), ("p", "gen.txt", "old", None, "c", False),
             ("p", "src.txt", "hello", "HELLO", "c", True), ("p", "v.txt", "v1.2.3", "v1.2.4", "c", True), ("", "a", "x", "y", "", True)]
    for _ in range(n):
        c1, c2 = r.choice(conts), r.choice(conts)
        cases.append((r.choice(["p", "p/q", ""]), r.choice(["s.txt", "d/s.txt", "a"]), c1, c2, r.choice(["c", "tr a-z A-Z", ""]), r.chance(1, 3)))
    enc = lambda c: "!" if c is None else hx(c)
    lines, idx = [], []
    for algo in ALGOS:
        for pkg, pth, c1, c2, cmd, keep in cases:
            sa = {"pkg": pkg, "name": "a", "cmd": cmd, "ins": [pth], "files": {pth: c1}, "outs": [], "deps": [], "fp": {}, "multi": False}
            sb = dict(sa, name="b", files={pth: c2}, deps=["//%s:a=oh1" % pkg])
            lines += ["build\t%s\t%s\t%s\t%s\t%s\t%s%s" % (algo, hx(pkg), hx(pth), enc(c1), enc(c2), hx(cmd), "\tkeepmtime" if keep else ""),
                      line(sa, algo, "bA"), line(sb, algo, "bB")]
            idx.append((algo, pkg, pth, c1, c2, cmd, keep))
    rc, res, err = vlib.run_lines(h, lines)
    if rc != 0 or len(res) != len(lines):
        raise RuntimeError("hashkey harness failed on the build path rc=%s %s" % (rc, err[-500:]))
    bad = 0; changed = 0
    for k, case in enumerate(idx):
        got, ka, kb = res[3 * k].split("\t"), res[3 * k + 1].split("\t"), res[3 * k + 2].split("\t")
        if got[0] != "keys" or ka[0] != "key" or kb[0] != "key":
            continue
        changed += case[3] != case[4]
        if got[1] != ka[1] or got[2] != kb[1]:
            bad += 1
            if bad <= 2:
                out.violation("within one build the key of a target is not the key of its state: target b lists %r whose content is %r when b "
                              "is hashed (it was %r when target a, which lists it too, was hashed): build gives %s, the state on its own %s" % (
                                  case[2], case[4], case[3], got[2], kb[1]),
                              {"algo": case[0], "pkg": case[1], "input": case[2], "content_when_a_hashed": case[3], "content_when_b_hashed": case[4],
                               "command": case[5], "rewrite_preserves_mtime": case[6], "build_keys": got[1:], "state_keys": [ka[1], kb[1]]})
    return {"build_path_cases": len(idx), "build_path_cases_with_changed_file": changed, "build_path_disagreements": bad}


def run(out, tier):
    r = vlib.Rng(vlib.seed())
    nstates = 700 if tier == "quick" else 12000
    states, pairs = [], []   # pairs: (kind, i, j, expect_equal)

    def add(st):
        states.append(st); return len(states) - 1
    for name, a, b in collision_pairs():
        pairs.append(("collision:" + name, add(a), add(b)))
    for n in range(nstates):
        st = rand_state(r, adversarial=(n % 5 == 4))
        i = add(st)
        p = copy.deepcopy(st)
        p["ins"] = r.shuffle(p["ins"]); p["outs"] = r.shuffle(p["outs"]); p["deps"] = r.shuffle(p["deps"])
        p["fp"] = dict(r.shuffle(list(p["fp"].items())))
        pairs.append(("perm", i, add(p)))
        for _ in range(2):
            k, m = mutate(r, st)
            pairs.append(("mut:" + k, i, add(m)))
        if n % 3 == 0:
            pairs.append(("random", i, add(rand_state(r, adversarial=True))))
    # many input files (sizes around the thresholds where an implementation might batch or parallelise hashing):
    # permuted declaration order must keep the key; exchanging the contents of two files, or moving one file's content to
    # another path, must change it
    for nin in ([33, 65, 100] if tier == "quick" else [17, 33, 64, 65, 66, 100, 129, 257, 300]):
        paths = ["f%03d.txt" % k for k in range(nin)]
        big = {"pkg": "p", "name": "many", "cmd": "c", "ins": list(paths), "files": {p: "content-%d" % (k % 7 if k > 1 else k) for k, p in enumerate(paths)},
               "outs": [("file", "o")], "deps": [], "fp": {}, "multi": False}
        i = add(big)
        pm = copy.deepcopy(big); pm["ins"] = r.shuffle(pm["ins"])
        pairs.append(("perm", i, add(pm)))
        sw = copy.deepcopy(big)
        a, b = paths[0], paths[1]          # distinct contents by construction
        sw["files"][a], sw["files"][b] = big["files"][b], big["files"][a]
        pairs.append(("mut:swap-two-file-contents", i, add(sw)))
        sw2 = copy.deepcopy(big)
        a, b = paths[nin // 2], paths[nin - 1]
        if sw2["files"][a] != sw2["files"][b]:
            sw2["files"][a], sw2["files"][b] = big["files"][b], big["files"][a]
            pairs.append(("mut:swap-two-file-contents", i, add(sw2)))
        ed = copy.deepcopy(big); ed["files"][paths[nin - 1]] = "edited"
        pairs.append(("mut:content", i, add(ed)))
    # a file whose content IS the printed digest of another content (of any size: below, at and above the sizes where an
    # implementation might treat "small" files differently): the two states must differ under every algorithm
    try:
        h0 = vlib.build_harness("hashkey")
        specials = [b"", b"x", b"a" * 31, b"b" * 64, b"c" * 511, b"d" * 512, b"e" * 513, b"f" * 600, b"g" * 4096, b"h" * 70000]
        specials = [c.decode("latin-1") for c in specials]
        rc, res, err = vlib.run_lines(h0, ["hash\t%s\t%s" % (algo, hx(c)) for algo in ALGOS for c in specials])
        if rc == 0 and len(res) == len(ALGOS) * len(specials):
            for k, algo in enumerate(ALGOS):
                for x, c in enumerate(specials):
                    d = res[k * len(specials) + x].split("\t")[1]
                    a = {"pkg": "p", "name": "t", "cmd": "c", "ins": ["data.txt"], "files": {"data.txt": c},
                         "outs": [("file", "o")], "deps": [], "fp": {}, "multi": False}
                    b = copy.deepcopy(a); b["files"]["data.txt"] = d
                    pairs.append(("mut:content-is-digest-of-other(%s,%d bytes)" % (algo, len(c)), add(a), add(b)))
                    b2 = copy.deepcopy(a); b2["files"]["data.txt"] = d.upper()
                    pairs.append(("mut:content-is-digest-of-other(%s,%d bytes,upper)" % (algo, len(c)), add(a), add(b2)))
    except vlib.HarnessUnavailable:
        pass
    # tiny-domain random pairs: chance collisions between independently drawn states
    tiny = []
    for _ in range(nstates // 2):
        t = {"pkg": "p", "name": r.choice(["a", "ab"]), "cmd": r.choice(["", "b", "c", "bc"]),
             "ins": r.sample(["a", "b"], r.below(3)), "files": {"a": r.choice(["x", "xy", "", None]), "b": r.choice(["z", "yz", ""])},
             "outs": r.sample([("file", "a"), ("file", "b"), ("file", "a,file::b")], r.below(2)),
             "deps": r.sample(["", "d", "file::a"], r.below(2)), "fp": {}, "multi": False}
        tiny.append(add(t))
    for x in range(len(tiny) - 1):
        pairs.append(("tiny", tiny[x], tiny[x + 1]))

    drv = vlib.build_driver()
    impl_ok = True
    try:
        h = vlib.build_harness("hashkey")
    except vlib.HarnessUnavailable as e:
        out.notes.append("inprocess_tie: unavailable (%s)" % str(e)[-500:])
        impl_ok = False
    keys = {}
    model = {}
    tie_bad = []
    n = len(states)
    if impl_ok:
        # 1. the implementation's own digest of every file content: the digest function H of the model
        contents = sorted({c for s in states for c in s["files"].values() if c is not None})
        rc, res, err = vlib.run_lines(h, ["hash\t%s\t%s" % (algo, hx(c)) for algo in ALGOS for c in contents])
        if rc != 0 or len(res) != len(ALGOS) * len(contents):
            raise RuntimeError("hashkey harness failed rc=%s %s" % (rc, err[-500:]))
        dig = {algo: {c: res[k * len(contents) + x].split("\t")[1] for x, c in enumerate(contents)} for k, algo in enumerate(ALGOS)}
        # 2. the model: predicted byte streams (definition stream; file stream built from paths, presence and H content)
        _, mout, merr = vlib.run_lines(drv, [mline(s, algo, dig[algo].__getitem__) for algo in ALGOS for s in states])
        if len(mout) != len(ALGOS) * n:
            raise RuntimeError("model driver failed: " + merr[-400:])
        for k, algo in enumerate(ALGOS):
            for i in range(n):
                model[(algo, i)] = mout[k * n + i].split("\t")
        # 3. the implementation: keys, and its hash of the predicted streams
        lines = []
        for algo in ALGOS:
            for i, s in enumerate(states):
                lines.append(line(s, algo, "rootA"))
            for i, s in enumerate(states):
                lines.append("hash\t%s\t%s" % (algo, model[(algo, i)][0]))
                lines.append("hash\t%s\t%s" % (algo, model[(algo, i)][1] if model[(algo, i)][1] != "none" else "-"))
        # location independence: a second workspace root for a sample
        loc = list(range(0, len(states), 7))
        for i in loc:
            lines.append(line(states[i], "xxh3", "another/deeper/rootB"))
        rc, res, err = vlib.run_lines(h, lines)
        if rc != 0 or len(res) != len(lines):
            raise RuntimeError("hashkey harness failed rc=%s %s" % (rc, err[-500:]))
        pos = 0
        for algo in ALGOS:
            ks = res[pos:pos + n]; pos += n
            hs = res[pos:pos + 2 * n]; pos += 2 * n
            for i in range(n):
                keys[(algo, i)] = ks[i]
                if ks[i].startswith("key\t"):
                    want = hs[2 * i].split("\t")[1]
                    if model[(algo, i)][1] != "none":
                        want += "_" + hs[2 * i + 1].split("\t")[1]
                    if ks[i].split("\t")[1] != want:
                        tie_bad.append((algo, i))
        for j, i in enumerate(loc):
            if res[pos + j] != keys[("xxh3", i)]:
                out.violation("the key depends on the workspace location: %s vs %s" % (res[pos + j], keys[("xxh3", i)]),
                              {"state": states[i], "roots": ["rootA", "another/deeper/rootB"]})

    build_stats = build_path(out, h, r, 60 if tier == "quick" else 1500) if impl_ok else {}
    stats = {"pairs": len(pairs), "equal_expected": 0, "differ_expected": 0, "collisions": 0, "errors": 0}
    nontriv = set()
    samples = []
    if impl_ok:
        for kind, i, j in pairs:
            a, b = states[i], states[j]
            ka = [keys[(al, i)] for al in ALGOS]; kb = [keys[(al, j)] for al in ALGOS]
            if any(not k.startswith("key\t") for k in ka + kb):
                stats["errors"] += 1
                continue
            eq = ka == kb
            eqv = equiv(a, b)
            if not eqv or a != b:
                nontriv.add(json.dumps([kind.split(":")[0], a, b], sort_keys=True, default=str))
            if eqv:
                stats["equal_expected"] += 1
                if not eq:
                    out.violation("equal build states receive different keys (%s)" % kind, {"a": a, "b": b, "keys_a": ka, "keys_b": kb})
            else:
                stats["differ_expected"] += 1
                # C09_injective: with an injective digest, states that are not the same build state never share a key.  A pair that
                # shares its key under BOTH digest functions is an encoding collision (no class of them is tolerated any more:
                # the former classes C09-F1..F4 are fixed and their witnesses are part of the regression pairs)
                shared = [al for x, al in enumerate(ALGOS) if ka[x] == kb[x]]
                if shared:
                    # (under ONE algorithm is enough: a chance collision of a 64-bit or wider digest among a few thousand pairs has
                    # probability below 1e-12, while an encoding that depends on the digest's printed form collides under one only)
                    stats["collisions"] += 1
                    same_streams = all(model[(al, i)] == model[(al, j)] for al in shared)
                    out.violation("different build states share one key under %s (%s)%s" % (
                        "both algorithms" if len(shared) == len(ALGOS) else "algorithm " + "/".join(shared), kind, "; the model predicts equal byte streams for them: model and oracle disagree" if same_streams else
                        "; the framed byte streams the model predicts for them differ"),
                                  {"a": a, "b": b, "key": ka, "model_streams_equal": same_streams})
            if len(samples) < 3 and kind.startswith(("mut", "collision")):
                samples.append({"kind": kind, "a": a, "b": b, "keys_equal": eq, "states_equivalent": eqv})
        if tie_bad and not out.violations:
            algo, i = tie_bad[0]
            out.violation("correspondence HashKey.change_key ~ hashing.GetTargetChangeHash broke on %d states: the code no longer hashes the "
                          "predicted byte stream; no pair oracle of C09 fails" % len(tie_bad),
                          {"correspondence": "HashKey.encode_def/encode_files vs hashing.GetTargetChangeHash (bytes fed to the hasher)",
                           "state": states[i], "algo": algo, "impl_key": keys[(algo, i)], "model_streams": model[(algo, i)]}, no_input=True)
    out.cov.update({
        "evaluations": len(states) * (len(ALGOS) if impl_ok else 0) + len(pairs) + build_stats.get("build_path_cases", 0),
        "distinct_nontrivial": len(nontriv),
        "rule": "random target states (label, command, 0-3 inputs with contents or absent, outputs, dependency contributions incl. "
                "empty ones, fingerprints, multiplatform flag; every fifth state with separator / NUL / marker bytes inside elements) on "
                "real package directories; pairs: all-list permutation (must be equal), single-component / single-file mutation, the "
                "regression pairs of the former collision classes and of the framing, independent draws from a tiny domain (all must "
                "differ unless they are the same build state); non-trivial = the two states of a pair differ in at least one component or order",
        "samples": samples,
        "traces_validated_against_impl": len(states) * len(ALGOS) if impl_ok else 0,
        "byte_stream_mismatches": len(tie_bad),
        "input_distribution": dict(stats, **build_stats),
        "inprocess_tie": impl_ok,
    })
    out.assumptions += ["digest functions are idealised as injective and '_'-free (H_inj, H_hex): a collision is judged an encoding "
                        "collision only when it occurs under both xxh3 and sha256",
                        "platform is fixed to lx/a64 in the harness"]


def replay(out, path):
    rp = json.load(open(path))["replay"]
    h = vlib.build_harness("hashkey")
    for key in ("a", "b", "state"):
        if key in rp:
            for algo in ALGOS:
                _, res, _ = vlib.run_lines(h, [line(rp[key], algo, "replay")])
                print(key, algo, res[0])
    if "a" in rp and "b" in rp:
        _, ra, _ = vlib.run_lines(h, [line(rp["a"], al, "r") for al in ALGOS])
        _, rb, _ = vlib.run_lines(h, [line(rp["b"], al, "r") for al in ALGOS])
        if (ra == rb) != equiv(rp["a"], rp["b"]):
            out.violation("replay: keys equal=%s but states equivalent=%s" % (ra == rb, equiv(rp["a"], rp["b"])), rp)
