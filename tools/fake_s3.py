"""A tiny in-memory, path-style S3 look-alike on loopback for the C08 end-to-end tie.
PUT/GET/HEAD/DELETE on /<bucket>/<key>; scripted faults; request log.  Not a model of S3: just
enough for aws-sdk-go-v2's GetObject / PutObject / HeadObject / DeleteObject as grog uses them."""
import threading
from urllib.parse import unquote
from http.server import BaseHTTPRequestHandler, ThreadingHTTPServer


def _dechunk(body):
    """aws-chunked payload: <hex size>[;chunk-signature=..]\r\n<data>\r\n ... 0\r\n<trailers>\r\n"""
    out, i = b"", 0
    while i < len(body):
        j = body.find(b"\r\n", i)
        if j < 0:
            break
        size = int(body[i:j].split(b";")[0], 16)
        if size == 0:
            break
        out += body[j + 2:j + 2 + size]
        i = j + 2 + size + 2
    return out


class FakeS3:
    """faults: list of (method, n, status[, sticky]) -- the n-th (1-based) request with that method
    is answered with <status> (500 = failure, 404 = object reported missing); sticky=True fails
    every later request of that method as well."""

    def __init__(self, faults=()):
        self.objects = {}
        self.log = []
        self.faults = list(faults)
        self.count = {}
        self.lock = threading.Lock()
        outer = self

        class H(BaseHTTPRequestHandler):
            protocol_version = "HTTP/1.1"

            def log_message(self, *a):
                pass

            def _key(self):
                return unquote(self.path.split("?")[0].lstrip("/"))

            def _fault(self, method):
                with outer.lock:
                    n = outer.count[method] = outer.count.get(method, 0) + 1
                    for f in outer.faults:
                        m, k, status = f[0], f[1], f[2]
                        sticky = len(f) > 3 and f[3]
                        if m == method and (n == k or (sticky and n >= k)):
                            return status
                return None

            def _reply(self, status, body=b"", headers=()):
                self.send_response(status)
                for k, v in headers:
                    self.send_header(k, v)
                self.send_header("Content-Length", str(len(body)))
                self.end_headers()
                if self.command != "HEAD":
                    self.wfile.write(body)

            def _err(self, status):
                code = "NoSuchKey" if status == 404 else "InternalError"
                self._reply(status, ("<?xml version=\"1.0\"?><Error><Code>%s</Code><Message>fake</Message></Error>" % code).encode(),
                            [("Content-Type", "application/xml")])

            def do_PUT(self):
                n = int(self.headers.get("Content-Length") or 0)
                body = self.rfile.read(n) if n else b""
                if "aws-chunked" in (self.headers.get("Content-Encoding") or "") or \
                        (self.headers.get("x-amz-content-sha256") or "").startswith("STREAMING-"):
                    body = _dechunk(body)
                st = self._fault("PUT")
                with outer.lock:
                    outer.log.append(("PUT", self._key(), st or 200))
                    if st is None:
                        outer.objects[self._key()] = body
                if st is not None:
                    return self._err(st)
                self._reply(200, b"", [("ETag", '"0"')])

            def do_GET(self):
                st = self._fault("GET")
                with outer.lock:
                    data = outer.objects.get(self._key())
                    code = st or (200 if data is not None else 404)
                    outer.log.append(("GET", self._key(), code))
                if code != 200:
                    return self._err(code)
                self._reply(200, data, [("Content-Type", "application/octet-stream"), ("ETag", '"0"')])

            def do_HEAD(self):
                st = self._fault("HEAD")
                with outer.lock:
                    data = outer.objects.get(self._key())
                    code = st or (200 if data is not None else 404)
                    outer.log.append(("HEAD", self._key(), code))
                self._reply(code, b"", [("ETag", '"0"')] if code == 200 else [])

            def do_DELETE(self):
                with outer.lock:
                    outer.objects.pop(self._key(), None)
                    outer.log.append(("DELETE", self._key(), 204))
                self._reply(204)

        class Srv(ThreadingHTTPServer):
            # the default listen backlog of socketserver is 5: a build that uploads a directory output of 300 files opens that many
            # connections at once and the kernel resets what does not fit -- a fault of THIS server, not one the history asked for
            request_queue_size = 4096
        self.srv = Srv(("127.0.0.1", 0), H)
        self.srv.daemon_threads = True
        self.port = self.srv.server_address[1]
        self.thread = threading.Thread(target=self.srv.serve_forever, kwargs={"poll_interval": 0.05}, daemon=True)
        self.thread.start()

    def set_faults(self, faults):
        with self.lock:
            self.faults = list(faults)
            self.count = {}

    def snapshot(self):
        with self.lock:
            return dict(self.objects), list(self.log)

    def clear_log(self):
        with self.lock:
            self.log = []

    def env(self):
        return {"AWS_ENDPOINT_URL": "http://127.0.0.1:%d" % self.port, "AWS_REGION": "us-east-1",
                "AWS_ACCESS_KEY_ID": "verif", "AWS_SECRET_ACCESS_KEY": "verif", "AWS_MAX_ATTEMPTS": "1",
                "AWS_EC2_METADATA_DISABLED": "true"}

    def close(self):
        try:
            self.srv.shutdown()
            self.srv.server_close()
        except Exception:
            pass

    def __enter__(self):
        return self

    def __exit__(self, *a):
        self.close()
